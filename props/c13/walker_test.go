package c13

import (
	"fmt"
	"reflect"
	"strings"
	"unsafe"

	"github.com/cossacklabs/acra/sqlparser"
)

// cn is a node of the canonical form of a parsed statement: what the statement *means* to the
// parser, without presentation-only bookkeeping (identifier quote flags, lowered-name caches).
// Kind names the node / role, Attr carries operators, literal (type, bytes) and identifier values.
type cn struct {
	K string
	A string
	C []*cn
}

func n(kind, attr string, kids ...*cn) *cn {
	out := &cn{K: kind, A: attr}
	for _, k := range kids {
		if k != nil {
			out.C = append(out.C, k)
		}
	}
	return out
}

// role wraps an optional child so that presence and position are part of the canonical form.
func role(name string, kid *cn) *cn {
	if kid == nil {
		return nil
	}
	return &cn{K: name, C: []*cn{kid}}
}

func (c *cn) String() string {
	var b strings.Builder
	c.write(&b)
	return b.String()
}

func (c *cn) write(b *strings.Builder) {
	b.WriteString(c.K)
	if c.A != "" {
		b.WriteString("[" + c.A + "]")
	}
	if len(c.C) > 0 {
		b.WriteString("(")
		for i, k := range c.C {
			if i > 0 {
				b.WriteString(" ")
			}
			k.write(b)
		}
		b.WriteString(")")
	}
}

// diff returns the first difference between two canonical trees: the path of kinds leading to it
// (the class of the difference) and a description with the concrete values.
func diff(a, b *cn, path string) (sigPath, msg string, differs bool) {
	here := path + "/" + a.K
	if a.K != b.K {
		return path + "/" + a.K + "~" + b.K, fmt.Sprintf("at %s: node %s became %s", path, a, b), true
	}
	if a.A != b.A {
		return here + ".attr", fmt.Sprintf("at %s: %q became %q", here, a.A, b.A), true
	}
	for i := 0; i < len(a.C) && i < len(b.C); i++ {
		if p, m, d := diff(a.C[i], b.C[i], here); d {
			return p, m, true
		}
	}
	if len(a.C) != len(b.C) {
		var extra *cn
		what := "lost"
		if len(a.C) > len(b.C) {
			extra = a.C[len(b.C)]
		} else {
			extra = b.C[len(a.C)]
			what = "added"
		}
		return here + "." + what + ":" + extra.K, fmt.Sprintf("at %s: child %s %s (%d -> %d children)", here, extra, what, len(a.C), len(b.C)), true
	}
	return "", "", false
}

// walker turns acra's tree into the canonical form. pg selects PostgreSQL identifier semantics.
type walker struct {
	pg      bool
	argSeq  int
	unknown []string // node types the walker does not know (harness defect, reported)
}

// privString / privByte read unexported fields of acra's identifier structs (reflect allows
// reading scalar unexported fields through the typed getters).
func privString(v reflect.Value, name string) string { return v.FieldByName(name).String() }
func privByte(v reflect.Value, name string) byte    { return byte(v.FieldByName(name).Uint()) }

// identValue is the name an identifier denotes: exact for MySQL (the printer must never change
// the spelling) and for quoted PostgreSQL identifiers, case-folded for unquoted PostgreSQL ones.
func (w *walker) identValue(val string, quote byte) string {
	if w.pg && quote == 0 {
		return strings.ToLower(val)
	}
	return val
}

func (w *walker) colIdent(id sqlparser.ColIdent) string {
	v := reflect.ValueOf(id)
	return w.identValue(privString(v, "val"), privByte(v, "quote"))
}

func (w *walker) tableIdent(id sqlparser.TableIdent) string {
	v := reflect.ValueOf(id)
	return w.identValue(privString(v, "v"), privByte(v, "quote"))
}

func (w *walker) tableName(t sqlparser.TableName) *cn {
	if t.IsEmpty() && t.Qualifier.IsEmpty() {
		return nil
	}
	return n("TableName", w.tableIdent(t.Qualifier)+"."+w.tableIdent(t.Name))
}

func (w *walker) comments(c sqlparser.Comments) *cn {
	if len(c) == 0 {
		return nil
	}
	parts := make([]string, len(c))
	for i, x := range c {
		parts[i] = string(x)
		// the line feed that ends a line comment (`# ...`, `-- ...`) is not part of what it says: a line comment that
		// was closed by the end of its enclosing /*! ... */ gets one when it is printed
		if strings.HasPrefix(parts[i], "#") || strings.HasPrefix(parts[i], "--") {
			parts[i] = strings.TrimRight(parts[i], "\r\n")
		}
	}
	return n("Comments", strings.Join(parts, "\x00"))
}

func (w *walker) stmt(st sqlparser.Statement) *cn {
	switch s := st.(type) {
	case *sqlparser.Select:
		return w.sel(s)
	case *sqlparser.Union:
		return n("Union", s.Type, role("Left", w.selStmt(s.Left)), role("Right", w.selStmt(s.Right)), w.orderBy(s.OrderBy), w.limit(s.Limit), w.flag("Lock", s.Lock))
	case *sqlparser.ParenSelect:
		return n("ParenSelect", "", w.selStmt(s.Select))
	case *sqlparser.Insert:
		out := n("Insert", s.Action, w.comments(s.Comments), w.flag("Ignore", s.Ignore), role("Table", w.tableName(s.Table)))
		if s.Default {
			out.C = append(out.C, n("DefaultValues", ""))
		}
		out.C = appendNonNil(out.C, w.partitions(s.Partitions), w.columns("Columns", s.Columns))
		switch r := s.Rows.(type) {
		case nil:
		case sqlparser.Values:
			vs := n("Values", "")
			for _, row := range r {
				vs.C = append(vs.C, n("Row", "", w.exprs(sqlparser.Exprs(row))...))
			}
			out.C = append(out.C, vs)
		case sqlparser.SelectStatement:
			out.C = append(out.C, role("RowsSelect", w.selStmt(r)))
		default:
			w.unknownType(r)
		}
		if s.OnDup != nil {
			out.C = append(out.C, n("OnDup", "", w.updateExprs(sqlparser.UpdateExprs(s.OnDup))...))
		}
		out.C = appendNonNil(out.C, w.returning(s.Returning))
		return out
	case *sqlparser.Update:
		out := n("Update", "", w.comments(s.Comments), n("Tables", "", w.tableExprs(s.TableExprs)...), n("Set", "", w.updateExprs(s.Exprs)...))
		if len(s.From) > 0 {
			out.C = append(out.C, n("From", "", w.tableExprs(s.From)...))
		}
		out.C = appendNonNil(out.C, w.where(s.Where), w.orderBy(s.OrderBy), w.limit(s.Limit), w.returning(s.Returning))
		return out
	case *sqlparser.Delete:
		out := n("Delete", "", w.comments(s.Comments))
		if s.Targets != nil {
			out.C = append(out.C, n("Targets", "", w.tableExprs(s.Targets)...))
		}
		out.C = append(out.C, n("Tables", "", w.tableExprs(s.TableExprs)...))
		out.C = appendNonNil(out.C, w.partitions(s.Partitions), w.where(s.Where), w.orderBy(s.OrderBy), w.limit(s.Limit), w.returning(s.Returning))
		return out
	}
	w.unknownType(st)
	return n("Other", fmt.Sprintf("%T", st))
}

func appendNonNil(dst []*cn, kids ...*cn) []*cn {
	for _, k := range kids {
		if k != nil {
			dst = append(dst, k)
		}
	}
	return dst
}

func (w *walker) unknownType(x any) {
	w.unknown = append(w.unknown, fmt.Sprintf("%T", x))
}

func (w *walker) flag(name, v string) *cn {
	if v == "" {
		return nil
	}
	return n(name, strings.TrimSpace(v))
}

func (w *walker) selStmt(s sqlparser.SelectStatement) *cn {
	if s == nil || reflect.ValueOf(s).IsNil() {
		return nil
	}
	return w.stmt(s)
}

func (w *walker) sel(s *sqlparser.Select) *cn {
	out := n("Select", "", w.comments(s.Comments), w.flag("Cache", s.Cache), w.flag("Distinct", s.Distinct), w.flag("Hints", s.Hints),
		n("SelectExprs", "", w.selectExprs(s.SelectExprs)...), n("From", "", w.tableExprs(s.From)...),
		w.where(s.Where))
	if len(s.GroupBy) > 0 {
		out.C = append(out.C, n("GroupBy", "", w.exprs(sqlparser.Exprs(s.GroupBy))...))
	}
	out.C = appendNonNil(out.C, w.where(s.Having), w.orderBy(s.OrderBy), w.limit(s.Limit), w.flag("Lock", s.Lock))
	return out
}

func (w *walker) where(x *sqlparser.Where) *cn {
	if x == nil || x.Expr == nil {
		return nil
	}
	k := "Where"
	if x.Type == sqlparser.HavingStr {
		k = "Having"
	}
	return n(k, x.Type, w.expr(x.Expr))
}

func (w *walker) orderBy(o sqlparser.OrderBy) *cn {
	if len(o) == 0 {
		return nil
	}
	out := n("OrderBy", "")
	for _, x := range o {
		dir := x.Direction
		// The printer omits the direction of `order by null` and `order by rand()`. Sorting by a
		// constant NULL or by an unseeded random value means the same in either direction, so the
		// direction is not part of the canonical form there (rand(seed) keeps it: its sequence is
		// reproducible, so the direction matters).
		switch e := x.Expr.(type) {
		case *sqlparser.NullVal:
			dir = "any"
		case *sqlparser.FuncExpr:
			if e.Name.Lowered() == "rand" && len(e.Exprs) == 0 && e.Qualifier.IsEmpty() {
				dir = "any"
			}
		}
		out.C = append(out.C, n("Order", dir, w.expr(x.Expr)))
	}
	return out
}

func (w *walker) limit(l *sqlparser.Limit) *cn {
	if l == nil {
		return nil
	}
	var off, cnt *cn
	if l.Offset != nil {
		off = role("Offset", w.expr(l.Offset))
	}
	if l.Rowcount != nil {
		cnt = role("Rowcount", w.expr(l.Rowcount))
	}
	return n("Limit", fmt.Sprint(int(l.Type)), off, cnt)
}

func (w *walker) returning(r sqlparser.Returning) *cn {
	if len(r) == 0 {
		return nil
	}
	return n("Returning", "", w.selectExprs(sqlparser.SelectExprs(r))...)
}

func (w *walker) partitions(p sqlparser.Partitions) *cn {
	if p == nil {
		return nil
	}
	return w.columns("Partitions", sqlparser.Columns(p))
}

func (w *walker) columns(kind string, c sqlparser.Columns) *cn {
	if c == nil {
		return nil
	}
	out := n(kind, "")
	for _, x := range c {
		out.C = append(out.C, n("Ident", w.colIdent(x)))
	}
	return out
}

func (w *walker) selectExprs(se sqlparser.SelectExprs) []*cn {
	var out []*cn
	for _, e := range se {
		switch x := e.(type) {
		case *sqlparser.StarExpr:
			out = append(out, n("Star", "", w.tableName(x.TableName)))
		case *sqlparser.AliasedExpr:
			var as *cn
			if !x.As.IsEmpty() {
				as = n("As", w.colIdent(x.As))
			}
			out = append(out, n("AliasedExpr", "", w.expr(x.Expr), as))
		case sqlparser.Nextval:
			out = append(out, n("Nextval", "", w.expr(x.Expr)))
		default:
			w.unknownType(e)
		}
	}
	return out
}

func (w *walker) tableExprs(te sqlparser.TableExprs) []*cn {
	var out []*cn
	for _, e := range te {
		out = append(out, w.tableExpr(e))
	}
	return out
}

func (w *walker) tableExpr(e sqlparser.TableExpr) *cn {
	switch x := e.(type) {
	case *sqlparser.AliasedTableExpr:
		var src *cn
		switch s := x.Expr.(type) {
		case sqlparser.TableName:
			src = w.tableName(s)
		case *sqlparser.Subquery:
			src = w.subquery(s)
		default:
			w.unknownType(s)
		}
		var as, hints *cn
		if !x.As.IsEmpty() {
			as = n("As", w.tableIdent(x.As))
		}
		if x.Hints != nil {
			hints = n("IndexHints", strings.TrimSpace(x.Hints.Type))
			for _, i := range x.Hints.Indexes {
				hints.C = append(hints.C, n("Ident", w.colIdent(i)))
			}
		}
		return n("AliasedTable", "", src, w.partitions(x.Partitions), as, hints)
	case *sqlparser.ParenTableExpr:
		return n("ParenTables", "", w.tableExprs(x.Exprs)...)
	case *sqlparser.JoinTableExpr:
		var on, using *cn
		if x.Condition.On != nil {
			on = role("On", w.expr(x.Condition.On))
		}
		if x.Condition.Using != nil {
			using = w.columns("Using", x.Condition.Using)
		}
		return n("Join", x.Join, role("L", w.tableExpr(x.LeftExpr)), role("R", w.tableExpr(x.RightExpr)), on, using)
	}
	w.unknownType(e)
	return n("UnknownTableExpr", fmt.Sprintf("%T", e))
}

func (w *walker) subquery(s *sqlparser.Subquery) *cn {
	if s == nil {
		return nil
	}
	return n("Subquery", "", w.selStmt(s.Select))
}

func (w *walker) exprs(es sqlparser.Exprs) []*cn {
	out := make([]*cn, 0, len(es))
	for _, e := range es {
		out = append(out, w.expr(e))
	}
	return out
}

func (w *walker) updateExprs(us sqlparser.UpdateExprs) []*cn {
	var out []*cn
	for _, u := range us {
		out = append(out, n("Assign", "", w.expr(u.Name), w.expr(u.Expr)))
	}
	return out
}

func (w *walker) convertType(t *sqlparser.ConvertType) *cn {
	if t == nil {
		return nil
	}
	var l, s *cn
	if t.Length != nil {
		l = role("Length", w.expr(t.Length))
	}
	if t.Scale != nil {
		s = role("Scale", w.expr(t.Scale))
	}
	attr := strings.ToLower(t.Type)
	if t.Charset != "" {
		attr += " charset=" + t.Charset
	}
	return n("ConvertType", attr, l, s)
}

// sqlValUnknown fetches the unexported operand of a cast over a non-literal (SQLVal.unknown).
func sqlValUnknown(v *sqlparser.SQLVal) sqlparser.Expr {
	f := reflect.ValueOf(v).Elem().FieldByName("unknown")
	if !f.IsValid() || f.IsNil() {
		return nil
	}
	e, _ := reflect.NewAt(f.Type(), unsafe.Pointer(f.UnsafeAddr())).Elem().Interface().(sqlparser.Expr)
	return e
}

var valTypeNames = map[sqlparser.ValType]string{sqlparser.StrVal: "str", sqlparser.IntVal: "int", sqlparser.FloatVal: "float", sqlparser.HexNum: "hexnum",
	sqlparser.HexVal: "hexval", sqlparser.ValArg: "arg", sqlparser.BitVal: "bit", sqlparser.PgEscapeString: "pgesc", sqlparser.PgPlaceholder: "pgarg", sqlparser.UnknownVal: "castexpr"}

func (w *walker) expr(e sqlparser.Expr) *cn {
	if e == nil {
		return nil
	}
	switch x := e.(type) {
	case *sqlparser.AndExpr:
		return n("And", "", w.expr(x.Left), w.expr(x.Right))
	case *sqlparser.OrExpr:
		return n("Or", "", w.expr(x.Left), w.expr(x.Right))
	case *sqlparser.NotExpr:
		return n("Not", "", w.expr(x.Expr))
	case *sqlparser.ParenExpr:
		return n("Paren", "", w.expr(x.Expr))
	case *sqlparser.ComparisonExpr:
		var esc *cn
		if x.Escape != nil {
			esc = role("Escape", w.expr(x.Escape))
		}
		return n("Comparison", x.Operator, w.expr(x.Left), w.expr(x.Right), esc)
	case *sqlparser.RangeCond:
		return n("Range", x.Operator, w.expr(x.Left), w.expr(x.From), w.expr(x.To))
	case *sqlparser.IsExpr:
		return n("Is", x.Operator, w.expr(x.Expr))
	case *sqlparser.ExistsExpr:
		return n("Exists", "", w.subquery(x.Subquery))
	case *sqlparser.SQLVal:
		name := valTypeNames[x.Type]
		if name == "" {
			name = fmt.Sprintf("type%d", int(x.Type))
		}
		cast := ""
		if len(x.CastType) > 0 {
			cast = "|cast=" + strings.ToLower(string(x.CastType))
		}
		switch x.Type {
		case sqlparser.ValArg:
			// `?` is numbered by position at parse time and printed as `?`; named bind variables
			// (:name, a vitess artefact neither DBMS accepts) are printed as `?` by design. The
			// canonical form is the ordinal of the placeholder in the statement.
			w.argSeq++
			return n("Lit", fmt.Sprintf("arg#%d%s", w.argSeq, cast))
		case sqlparser.UnknownVal:
			return n("CastExpr", strings.ToLower(string(x.CastType)), w.expr(sqlValUnknown(x)))
		}
		return n("Lit", fmt.Sprintf("%s:%x%s", name, x.Val, cast))
	case *sqlparser.NullVal:
		return n("Null", "")
	case sqlparser.BoolVal:
		return n("Bool", fmt.Sprint(bool(x)))
	case *sqlparser.ColName:
		q := ""
		if !x.Qualifier.IsEmpty() || !x.Qualifier.Qualifier.IsEmpty() {
			q = w.tableIdent(x.Qualifier.Qualifier) + "." + w.tableIdent(x.Qualifier.Name) + "."
		}
		return n("ColName", q+w.colIdent(x.Name))
	case sqlparser.ValTuple:
		return n("Tuple", "", w.exprs(sqlparser.Exprs(x))...)
	case *sqlparser.Subquery:
		return w.subquery(x)
	case sqlparser.ListArg:
		return n("ListArg", string(x))
	case *sqlparser.BinaryExpr:
		return n("Binary", x.Operator, w.expr(x.Left), w.expr(x.Right))
	case *sqlparser.UnaryExpr:
		return n("Unary", strings.TrimSpace(x.Operator), w.expr(x.Expr))
	case *sqlparser.IntervalExpr:
		return n("Interval", strings.ToLower(x.Unit), w.expr(x.Expr))
	case *sqlparser.CollateExpr:
		return n("Collate", x.Charset, w.expr(x.Expr))
	case *sqlparser.FuncExpr:
		attr := w.tableIdent(x.Qualifier) + "." + w.colIdent(x.Name)
		if x.Distinct {
			attr += " distinct"
		}
		return n("Func", attr, w.selectExprs(x.Exprs)...)
	case *sqlparser.CaseExpr:
		out := n("Case", "", role("Operand", w.expr(x.Expr)))
		for _, wh := range x.Whens {
			out.C = append(out.C, n("When", "", w.expr(wh.Cond), w.expr(wh.Val)))
		}
		out.C = appendNonNil(out.C, role("Else", w.expr(x.Else)))
		return out
	case *sqlparser.ValuesFuncExpr:
		return n("ValuesFunc", "", w.expr(x.Name))
	case *sqlparser.ConvertExpr:
		return n("Convert", "", w.expr(x.Expr), w.convertType(x.Type))
	case *sqlparser.SubstrExpr:
		return n("Substr", "", w.expr(x.Name), role("From", w.expr(x.From)), role("To", w.expr(x.To)))
	case *sqlparser.ConvertUsingExpr:
		return n("ConvertUsing", x.Type, w.expr(x.Expr))
	case *sqlparser.MatchExpr:
		return n("Match", strings.TrimSpace(x.Option), n("Columns", "", w.selectExprs(x.Columns)...), w.expr(x.Expr))
	case *sqlparser.GroupConcatExpr:
		return n("GroupConcat", strings.TrimSpace(x.Distinct)+"|"+x.Separator, n("Args", "", w.selectExprs(x.Exprs)...), w.orderBy(x.OrderBy))
	case *sqlparser.Default:
		return n("Default", x.ColName)
	case *sqlparser.StarExpr:
		return n("Star", "", w.tableName(x.TableName))
	}
	// typed nil pointers (e.g. (*ColName)(nil)) behave as absent
	if v := reflect.ValueOf(e); v.Kind() == reflect.Ptr && v.IsNil() {
		return nil
	}
	w.unknownType(e)
	return n("UnknownExpr", fmt.Sprintf("%T", e))
}

// stripParens removes Paren nodes (grouping only) from a canonical expression tree.
func stripParens(c *cn) *cn {
	if c == nil {
		return nil
	}
	for c.K == "Paren" && len(c.C) == 1 {
		c = c.C[0]
	}
	out := &cn{K: c.K, A: c.A}
	for _, k := range c.C {
		out.C = append(out.C, stripParens(k))
	}
	return out
}

// ---- measures used for evidence ----

var clauseKinds = map[string]bool{"Where": true, "Having": true, "GroupBy": true, "OrderBy": true, "Limit": true, "Join": true, "OnDup": true,
	"Returning": true, "Union": true, "Subquery": true, "Distinct": true, "Lock": true, "Values": true, "Set": true, "Targets": true, "IndexHints": true, "Partitions": true}

var operatorKinds = map[string]bool{"And": true, "Or": true, "Not": true, "Comparison": true, "Range": true, "Is": true, "Exists": true, "Binary": true,
	"Unary": true, "Interval": true, "Collate": true, "Func": true, "Case": true, "Convert": true, "Substr": true, "ConvertUsing": true, "Match": true,
	"GroupConcat": true, "CastExpr": true, "ValuesFunc": true, "Tuple": true}

type measure struct {
	clauses int
	opDepth int
	kinds   map[string]bool
	attrs   map[string]bool
}

func measureOf(c *cn) measure {
	m := measure{kinds: map[string]bool{}, attrs: map[string]bool{}}
	m.opDepth = m.visit(c)
	return m
}

func (m *measure) visit(c *cn) int {
	if c == nil {
		return 0
	}
	m.kinds[c.K] = true
	if clauseKinds[c.K] {
		m.clauses++
	}
	switch c.K {
	case "Comparison", "Binary", "Unary", "Is", "Range", "Union", "Join", "Limit", "Order":
		m.attrs[c.K+":"+c.A] = true
	case "Lit":
		t := c.A
		if i := strings.IndexAny(t, ":#"); i >= 0 {
			t = t[:i]
		}
		m.attrs["lit:"+t] = true
		if strings.Contains(c.A, "|cast=") {
			m.attrs["lit-cast"] = true
		}
	}
	depth := 0
	for _, k := range c.C {
		if d := m.visit(k); d > depth {
			depth = d
		}
	}
	if operatorKinds[c.K] {
		return depth + 1
	}
	return depth
}
