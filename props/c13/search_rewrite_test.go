package c13

import (
	"fmt"
	"strings"
	"testing"

	"pgregory.net/rapid"

	decryptor "github.com/cossacklabs/acra/decryptor/base"
	"github.com/cossacklabs/acra/encryptor/base/config"
	encmysql "github.com/cossacklabs/acra/encryptor/mysql"
	myhash "github.com/cossacklabs/acra/hmac/decryptor/mysql"
	"github.com/cossacklabs/acra/pseudonymization"
	"github.com/cossacklabs/acra/pseudonymization/storage"

	"verif/internal/fix"
	"verif/internal/hx"
	"verif/internal/sqlgen"
)

// SRCase is one MySQL statement for the observers that rewrite search conditions: HashQuery
// (searchable encryption) and MySQLTokenizeQuery (consistent tokenization). Both share the
// SearchableQueryFilter, which walks every comparison below WHERE / ON and works on the tree in
// place; when one search condition is rewritten the whole statement is re-serialised from that tree.
// Oracle 4: what is emitted parses to the tree that was received, except
//   - comparisons of a searchable / tokenized column of the configured table with a literal or a
//     placeholder by =, !=, <>, <=> (either operand order): the search condition itself, whose new
//     shape is C09's business; the value on the right may carry the `_binary` introducer, which only
//     tells the type of the literal (client libraries put it before binary values);
//   - `<literal> op <column>` with the symmetric operators =, != and <=>, which the filter is
//     documented to turn into `<column> op <literal>`.
type SRCase struct {
	SQL      string `json:"sql"`
	Observer string `json:"observer"` // hash | tokenize | both
}

const srSchema = `
schemas:
  - table: t_s
    columns: ["id", "s", "tok", "plain", "age"]
    encrypted:
      - column: "s"
        searchable: true
      - column: "tok"
        token_type: str
        tokenized: true
        consistent_tokenization: true
  - table: t_u
    columns: ["id", "note"]
    encrypted:
      - column: "note"
`

var (
	srStore *config.MapTableSchemaStore
	srTok   *pseudonymization.TokenEncryptor
)

var searchCols = map[string]bool{"s": true, "tok": true}

func isEqOp(op string) bool { return op == "=" || op == "!=" || op == "<=>" }

// isSearchCondition: a comparison the observers may rewrite.
func isSearchCondition(a *cn) bool {
	if a.K != "Comparison" || len(a.C) < 2 {
		return false
	}
	col := func(c *cn) bool { return c.K == "ColName" && searchCols[bareName(c.A)] }
	l, r := a.C[0], a.C[1]
	if col(l) && col(r) {
		return true // searchable = searchable (join condition): both sides are rewritten, with any operator
	}
	if !isEqOp(a.A) {
		return false
	}
	val := func(c *cn) bool { return c.K == "Lit" || c.K == "Arg" }
	// <column> = _binary <value>: the introducer is part of the value's spelling. The BINARY operator
	// (a cast, `binary 'x'`) is an expression of its own: such a comparison is no search condition and,
	// like every comparison with another operator, has to reach the database as it was written.
	intro := func(c *cn) bool { return c.K == "Unary" && c.A == "_binary" && len(c.C) == 1 && val(c.C[0]) }
	return (col(l) && (val(r) || intro(r))) || (val(l) && col(r))
}

// markedOperand: the canonical node is `binary <value>` / `_binary <value>`; returns the marker.
func markedOperand(c *cn) (string, bool) {
	if c != nil && c.K == "Unary" && (c.A == "binary" || c.A == "_binary") && len(c.C) == 1 && (c.C[0].K == "Lit" || c.C[0].K == "Arg") {
		return c.A, true
	}
	return "", false
}

// firstDiffNode mirrors diffAllow and returns the innermost comparison of the received tree that holds the first
// difference (nil when the difference is outside every comparison).
func firstDiffNode(a, b *cn, allow func(a, b *cn) bool, encl *cn) (found bool, comparison *cn) {
	if allow(a, b) {
		return false, nil
	}
	if a.K == "Comparison" {
		encl = a
	}
	if a.K != b.K || a.A != b.A {
		return true, encl
	}
	for i := 0; i < len(a.C) && i < len(b.C); i++ {
		if f, c := firstDiffNode(a.C[i], b.C[i], allow, encl); f {
			return true, c
		}
	}
	if len(a.C) != len(b.C) {
		return true, encl
	}
	return false, nil
}

type srInfo struct {
	changed    bool
	errored    bool
	baitLeft   bool // the statement has `<literal> op <column>` with a non-symmetric operator
	searchHits int
	marked     map[string]bool // <marker>:<search|other>: comparisons whose right operand is `binary <value>` / `_binary <value>`
}

func countNodes(c *cn, f func(*cn) bool) int {
	if c == nil {
		return 0
	}
	k := 0
	if f(c) {
		k++
	}
	for _, ch := range c.C {
		k += countNodes(ch, f)
	}
	return k
}

// CheckSearchRewrite is oracle 4.
func CheckSearchRewrite(c SRCase) (vs hx.Vs, info srInfo) {
	sqlgen.SetDialect(sqlgen.MySQL)
	w := fix.TheWorld()
	if srStore == nil {
		st, err := config.MapTableSchemaStoreFromConfig([]byte(srSchema), config.UseMySQL)
		if err != nil {
			vs.Add("harness:schema", "%v", err)
			return vs, info
		}
		ts, err := storage.NewMemoryTokenStorage()
		if err != nil {
			vs.Add("harness:tokens", "%v", err)
			return vs, info
		}
		tok, err := pseudonymization.NewPseudoanonymizer(ts)
		if err != nil {
			vs.Add("harness:tokens", "%v", err)
			return vs, info
		}
		dt, err := pseudonymization.NewDataTokenizer(tok)
		if err != nil {
			vs.Add("harness:tokens", "%v", err)
			return vs, info
		}
		te, err := pseudonymization.NewTokenEncryptor(dt)
		if err != nil {
			vs.Add("harness:tokens", "%v", err)
			return vs, info
		}
		srStore, srTok = st, te
	}
	t0, ok, err := parseDML(&vs, "parse", c.SQL)
	if len(vs) > 0 {
		return vs, info
	}
	if err != nil || !ok {
		return vs, info // outside the domain (generated expression not accepted)
	}
	c0 := (&walker{}).stmt(t0)
	info.searchHits = countNodes(c0, isSearchCondition)
	info.baitLeft = countNodes(c0, func(a *cn) bool {
		return a.K == "Comparison" && len(a.C) >= 2 && !isEqOp(a.A) && (a.C[0].K == "Lit" || a.C[0].K == "Arg") && a.C[1].K == "ColName"
	}) > 0

	info.marked = map[string]bool{}
	countNodes(c0, func(a *cn) bool {
		if a.K == "Comparison" && len(a.C) >= 2 {
			if m, ok := markedOperand(a.C[1]); ok && a.C[0].K == "ColName" {
				kind := "other-comparison"
				if isEqOp(a.A) {
					kind = "equality"
				}
				if searchCols[bareName(a.C[0].A)] {
					kind += "-on-search-column"
				}
				info.marked[m+":"+kind] = true
			}
		}
		return false
	})

	ctx := decryptor.SetClientSessionToContext(fix.Ctx(w.Alice), &session{data: map[string]interface{}{}})
	obj := encmysql.NewOnQueryObjectFromQuery(c.SQL, strict)
	emitted := c.SQL
	run := func(name string, on func(encmysql.OnQueryObject) (encmysql.OnQueryObject, bool, error)) bool {
		var out encmysql.OnQueryObject
		var changed bool
		var err error
		if hx.Guard(&vs, name+".OnQuery", func() { out, changed, err = on(obj) }) {
			return false
		}
		if err != nil {
			info.errored = true
			return false
		}
		var text string
		if hx.Guard(&vs, name+".Query", func() { text = out.Query() }) {
			return false
		}
		if !changed && text != emitted {
			vs.Add("unchanged-but-rewritten:"+name, "OnQuery reported no change but the statement text differs: %q -> %q", emitted, text)
			return false
		}
		if changed {
			info.changed = true
			emitted = text
			// the next observer of the chain gets what this one made (as the proxy does)
			obj = encmysql.NewOnQueryObjectFromQuery(text, strict)
		}
		return true
	}
	if c.Observer == "tokenize" || c.Observer == "both" {
		tq := pseudonymization.NewMySQLTokenizeQuery(srStore, srTok)
		if !run("MySQLTokenizeQuery", func(o encmysql.OnQueryObject) (encmysql.OnQueryObject, bool, error) { return tq.OnQuery(ctx, o) }) {
			return vs, info
		}
	}
	if c.Observer == "hash" || c.Observer == "both" {
		hq := myhash.NewHashQuery(w.KS, srStore, w.Reg)
		if !run("HashQuery", func(o encmysql.OnQueryObject) (encmysql.OnQueryObject, bool, error) { return hq.OnQuery(ctx, o) }) {
			return vs, info
		}
	}
	if !info.changed {
		return vs, info
	}
	t3, ok, err := parseDML(&vs, "reparse", emitted)
	if len(vs) > 0 {
		return vs, info
	}
	if err != nil || !ok {
		vs.Add("search-rewrite-reparse-fails:"+culpritOr(false, t0, c.Observer), "emitted text no longer parses as DML (%v): %q (from %q)", err, emitted, c.SQL)
		return vs, info
	}
	c3 := (&walker{}).stmt(t3)
	allow := func(a, b *cn) bool {
		if a.K != "Comparison" || b.K != "Comparison" {
			return false
		}
		if isSearchCondition(a) {
			return true
		}
		// <literal> op <column> with a symmetric operator may come back as <column> op <literal>
		if isEqOp(a.A) && a.A == b.A && len(a.C) == 2 && len(b.C) == 2 && (a.C[0].K == "Lit" || a.C[0].K == "Arg") && a.C[1].K == "ColName" {
			_, _, d1 := diff(a.C[0], b.C[1], "")
			_, _, d2 := diff(a.C[1], b.C[0], "")
			return !d1 && !d2
		}
		return false
	}
	if p, m, d := diffAllow(c0, c3, "", allow); d {
		sig := "search-rewrite-alters:" + tail(p)
		// a comparison whose right operand stood behind the BINARY operator / the _binary introducer and came back
		// altered (marker lost, or the whole comparison treated as a search) is a class of its own
		if f, cmp := firstDiffNode(c0, c3, allow, nil); f && cmp != nil && len(cmp.C) >= 2 {
			if mk, ok := markedOperand(cmp.C[1]); ok {
				if isEqOp(cmp.A) {
					sig = "search-rewrite-alters:Comparison[equality " + mk + " value]"
				} else {
					sig = "search-rewrite-alters:Comparison[non-equality " + mk + " value]"
				}
			}
		}
		vs.Add(sig, "after %s the statement differs outside its search conditions: %s | original %q | emitted %q", c.Observer, m, c.SQL, emitted)
	}
	return vs, info
}

var (
	srSearchCols = []string{"s", "s", "tok", "tok", "t_s.s", "`s`", "t_s.tok", "S"}
	srEqOps      = []string{"=", "=", "!=", "<>", "<=>"}
	srLits       = []string{"'abc'", "'it''s'", "X'4142'", "42", "?", "'%'", "''", "0x4142", "'Ünï'"}
	srBaitCols   = []string{"plain", "age", "id", "s", "tok", "t_s.plain", "`age`", "note"}
	// srMarks: what stands before a value. `_binary` is the character set introducer client libraries put before
	// binary values, `binary` the cast operator (Django: LIKE BINARY / REGEXP BINARY for case-sensitive lookups).
	srMarks   = []string{"", "", "", "", "", "_binary ", "binary ", "BINARY ", "_binary"}
	srBaitOps = []string{"<", ">", "<=", ">=", "like", "not like", "regexp", "not regexp", "=", "!=", "<=>", "<<", "+", "-", "div", "%"}
)

func genSRCase(t *rapid.T) SRCase {
	c := SRCase{Observer: rapid.SampledFrom([]string{"hash", "hash", "tokenize", "both"}).Draw(t, "observer")}
	term := func() string {
		switch rapid.IntRange(0, 9).Draw(t, "term") {
		case 0, 1, 2, 3: // search condition
			col, op, lit := rapid.SampledFrom(srSearchCols).Draw(t, "scol"), rapid.SampledFrom(srEqOps).Draw(t, "sop"), rapid.SampledFrom(srMarks).Draw(t, "smark")+rapid.SampledFrom(srLits).Draw(t, "slit")
			if rapid.IntRange(0, 3).Draw(t, "sflip") == 0 {
				return lit + " " + op + " " + col
			}
			return col + " " + op + " " + lit
		case 4, 5, 6, 7: // another comparison / arithmetic with the literal on either side
			col, op, lit := rapid.SampledFrom(srBaitCols).Draw(t, "bcol"), rapid.SampledFrom(srBaitOps).Draw(t, "bop"), rapid.SampledFrom(srMarks).Draw(t, "bmark")+rapid.SampledFrom(srLits).Draw(t, "blit")
			if op == "<<" || op == "+" || op == "-" || op == "div" || op == "%" {
				if rapid.Bool().Draw(t, "bflip") {
					return "(" + lit + " " + op + " " + col + ") > 1"
				}
				return "(" + col + " " + op + " " + lit + ") > 1"
			}
			if rapid.IntRange(0, 2).Draw(t, "bflip") > 0 {
				return lit + " " + op + " " + col
			}
			return col + " " + op + " " + lit
		default:
			return "(" + sqlgen.Expr(t, sqlgen.Opts{RawByteNames: true, Dialect: sqlgen.MySQL}, rapid.IntRange(1, 2).Draw(t, "depth")) + ")"
		}
	}
	var where func(d int) string
	where = func(d int) string {
		if d <= 0 {
			return term()
		}
		switch rapid.IntRange(0, 5).Draw(t, "glue") {
		case 0, 1:
			return where(d-1) + " and " + where(d-1)
		case 2:
			return where(d-1) + " or " + where(d-1)
		case 3:
			return "not (" + where(d-1) + ")"
		case 4:
			return "(" + where(d-1) + ")"
		default:
			return term()
		}
	}
	wtext := where(rapid.IntRange(1, 3).Draw(t, "wdepth"))
	switch rapid.IntRange(0, 6).Draw(t, "form") {
	case 0, 1:
		c.SQL = "select id, plain from t_s where " + wtext + rapid.SampledFrom([]string{"", "", " order by id", " limit 3", " group by age having 1 < count(id)"}).Draw(t, "tail")
	case 2:
		c.SQL = "select * from t_s join t_u on " + term() + " where " + wtext
	case 3:
		c.SQL = "update t_s set plain = 'x', age = 1 + age where " + wtext
	case 4:
		c.SQL = "delete from t_s where " + wtext
	case 5:
		c.SQL = "insert into t_u select id, plain from t_s where " + wtext
	default:
		c.SQL = "select (select 1 from t_u where 2 > t_u.id limit 1), 'a' < plain from t_s where " + wtext
	}
	return c
}

func TestSearchRewrite(t *testing.T) {
	R.Rule("TestSearchRewrite", "MySQL SELECT / JOIN / UPDATE / DELETE / INSERT..SELECT statements over a schema with a searchable and a consistently tokenized column, whose WHERE / ON combine search conditions (column =,!=,<>,<=> literal|placeholder, either operand order), other comparisons and arithmetic with the literal on either side (<, >, <=, >=, like, regexp, ...) and generated expressions; every literal / placeholder of a comparison may stand behind the _binary introducer or the BINARY cast operator (LIKE BINARY / REGEXP BINARY / = BINARY ..., on searchable, tokenized and plain columns); run through MySQLTokenizeQuery and / or HashQuery as the proxy chains them; oracle 4: the emitted text parses to the received tree except at the search conditions (column =,!=,<=> value, the value possibly behind _binary, which is part of its spelling) and the documented operand swap of symmetric comparisons - in particular BINARY <value> is an expression, never a search value, and _binary survives in every comparison that is not a search condition (such a comparison coming back altered is reported as search-rewrite-alters:Comparison[equality|non-equality binary|_binary value]); non-trivial = the statement was rewritten and holds a literal-left comparison with a non-symmetric operator, >= 2 search conditions or a marked right operand outside an equality search")
	hx.Checks(2500, 20000)
	rapid.Check(t, func(rt *rapid.T) {
		c := genSRCase(rt)
		vs, info := CheckSearchRewrite(c)
		cl := []string{"observer:" + c.Observer, "form:" + strings.SplitN(c.SQL, " ", 2)[0]}
		switch {
		case info.errored:
			cl = append(cl, "observer-refused")
		case info.changed:
			cl = append(cl, "rewritten")
		default:
			cl = append(cl, "left-alone")
		}
		if info.baitLeft {
			cl = append(cl, "literal-left-nonsymmetric")
		}
		cl = append(cl, fmt.Sprintf("search-conditions:%d", min(info.searchHits, 3)))
		markedOther := false
		for m := range info.marked {
			if info.changed {
				cl = append(cl, "rewritten-with-right-operand-"+m)
			}
			if !strings.Contains(m, ":equality-on-search-column") {
				markedOther = true
			}
		}
		R.Seen("TestSearchRewrite", c, info.changed && (info.baitLeft || info.searchHits >= 2 || markedOther), cl...)
		R.Report(rt, "TestSearchRewrite", c, vs)
	})
}
