// Package c13: re-serialised statements mean the same as the statements received.
//
// Oracle 1 (TestRoundTrip, TestSplice, TestCorpus, FuzzParsePrintParse): Parse(String(Parse(s))) is
// structurally equal to Parse(s) under the canonical walker of walker_test.go, and String is a
// fixpoint after one round.
// Oracle 2 (TestPrecedence): expression trees printed with minimal parentheses by an independent
// printer are parsed, printed and re-parsed by acra into the same tree.
// Oracle 3 (TestSubstitution): the MySQL QueryDataEncryptor with an invertible stub encryptor emits
// text that parses back to the original tree except exactly at configured literal positions.
// Oracle 4 (TestSearchRewrite): MySQL HashQuery / MySQLTokenizeQuery change nothing but the search conditions.
// Oracle 5 (TestSubstitutionPG): the PostgreSQL QueryDataEncryptor under pg_query's parser.
// Oracle 6 (TestSearchRewritePG): PostgreSQL HashQuery / PostgreSQLTokenizeQuery under pg_query's parser; a
// rewritten search condition keeps the kind and the name of its comparison.
package c13

import (
	"encoding/json"
	"fmt"
	"os"
	"reflect"
	"strings"
	"testing"

	"pgregory.net/rapid"

	"github.com/cossacklabs/acra/sqlparser"

	"verif/internal/hx"
	"verif/internal/sqlgen"
)

var R = hx.New("C13")

func TestMain(m *testing.M) { os.Exit(R.Main(m)) }

// Case is one statement text in one dialect.
type Case struct {
	Dialect string `json:"dialect"`
	SQL     string `json:"sql"`
	Src     string `json:"src,omitempty"` // generated | splice | corpus | fuzz
}

// rtInfo is what the round trip learnt about an accepted statement (for evidence only).
type rtInfo struct {
	parsePanic string
	accepted   bool
	kind     string
	m        measure
}

var strict = sqlparser.New(sqlparser.ModeStrict)

// parseDML parses s in strict mode with the current default dialect. ok is false when the parser
// rejects s or s is not a data-manipulation statement (outside the property's domain).
func parseDML(vs *hx.Vs, what, s string) (st sqlparser.Statement, ok bool, err error) {
	if hx.Guard(vs, what, func() { st, err = strict.Parse(s) }) {
		return nil, false, fmt.Errorf("panic")
	}
	if err != nil || st == nil {
		return nil, false, err
	}
	if !sqlgen.IsDML(st) {
		return st, false, nil
	}
	return st, true, nil
}

func printStmt(vs *hx.Vs, what string, st sqlparser.SQLNode) (s string, ok bool) {
	if hx.Guard(vs, what, func() { s = sqlparser.String(st) }) {
		return "", false
	}
	return s, true
}

func stmtKind(st sqlparser.Statement) string {
	return strings.TrimPrefix(fmt.Sprintf("%T", st), "*sqlparser.")
}

// roundTrip evaluates oracle 1 on a parsed statement: the failure kind ("" = holds), the class path
// of the difference and a message.
func roundTrip(pg bool, t1 sqlparser.Statement) (kind, path, msg string, c1 *cn, panics hx.Vs) {
	w1 := &walker{pg: pg}
	c1 = w1.stmt(t1)
	if len(w1.unknown) > 0 {
		return "harness-walker", strings.Join(w1.unknown, ","), "canonical walker met unknown node types " + strings.Join(w1.unknown, ","), c1, nil
	}
	s2, ok := printStmt(&panics, "print", t1)
	if !ok {
		return "panic", "", "", c1, panics
	}
	t2, isDML, err := parseDML(&panics, "reparse", s2)
	if len(panics) > 0 {
		return "panic", "", "", c1, panics
	}
	if err != nil {
		return "reparse-fails", "", fmt.Sprintf("printed form no longer parses (%v): %s", err, s2), c1, nil
	}
	if !isDML {
		return "tree-differs", "/kind", fmt.Sprintf("printed form parses as %T: %s", t2, s2), c1, nil
	}
	w2 := &walker{pg: pg}
	c2 := w2.stmt(t2)
	if p, m, d := diff(c1, c2, ""); d {
		return "tree-differs", p, m + " | printed: " + s2, c1, nil
	}
	s3, ok := printStmt(&panics, "print2", t2)
	if !ok {
		return "panic", "", "", c1, panics
	}
	if s3 != s2 {
		return "not-fixpoint", "", fmt.Sprintf("String is not a fixpoint after one round: %q then %q", s2, s3), c1, nil
	}
	return "", "", "", c1, nil
}

// ---- culprit localisation: the signature of a violation names the smallest sub-node of the
// statement that fails on its own, so that different defects get different signatures ----

type miniNode struct {
	typ, feat, text string
	size            int    // length of the node's own printed text
	orig            *cn    // canonical form of the node as it stands in the statement
	slot            string // where the node sits in the mini statement
}

// canonAt extracts the canonical form of the node at slot from a parsed mini statement.
func canonAt(w *walker, st sqlparser.Statement, slot string) *cn {
	sel, ok := st.(*sqlparser.Select)
	if !ok {
		return nil
	}
	first := func() *sqlparser.AliasedExpr {
		if len(sel.SelectExprs) != 1 {
			return nil
		}
		ae, _ := sel.SelectExprs[0].(*sqlparser.AliasedExpr)
		return ae
	}
	switch slot {
	case "expr":
		if ae := first(); ae != nil {
			return w.expr(ae.Expr)
		}
	case "alias":
		if ae := first(); ae != nil {
			return n("Ident", w.colIdent(ae.As))
		}
	case "convert-type":
		if ae := first(); ae != nil {
			if ce, ok := ae.Expr.(*sqlparser.ConvertExpr); ok {
				return w.convertType(ce.Type)
			}
		}
	case "table-ident", "table-name":
		if len(sel.From) == 1 {
			if at, ok := sel.From[0].(*sqlparser.AliasedTableExpr); ok {
				if tn, ok := at.Expr.(sqlparser.TableName); ok {
					if slot == "table-ident" {
						return n("Ident", w.tableIdent(tn.Name))
					}
					return w.tableName(tn)
				}
			}
		}
	case "order":
		return w.orderBy(sel.OrderBy)
	case "limit":
		return w.limit(sel.Limit)
	}
	return nil
}

// identFeatures names generic properties of an identifier that matter for printing it.
// quote is the quote character the identifier was written in (0: none, or MySQL back-quotes).
func identFeatures(val string, quote byte, pg bool) string {
	var f []string
	own := quote
	if own == 0 {
		own = '`'
		if pg {
			own = '"'
		}
	}
	if strings.IndexByte(val, own) >= 0 || strings.Contains(val, `\`) {
		return "[needs-escaping]" // holds its own quote character or a backslash
	}
	if quote != 0 && val != strings.ToLower(val) {
		f = append(f, "quoted-upper")
	}
	if len(f) == 0 {
		return ""
	}
	return "[" + strings.Join(f, ",") + "]"
}

// miniStatements lists, for every sub-node of st that can stand alone, a small statement holding just it.
func miniStatements(pg bool, st sqlparser.Statement) []miniNode {
	var out []miniNode
	seen := map[string]bool{}
	safe := func(n sqlparser.SQLNode) (s string) {
		defer func() {
			if recover() != nil {
				s = ""
			}
		}()
		return sqlparser.String(n)
	}
	// add registers node printed between prefix and suffix
	add := func(typ, feat, prefix string, node sqlparser.SQLNode, suffix, slot string, orig *cn) {
		body := safe(node)
		text := prefix + body + suffix
		key := typ + text + "\x00" + orig.String()
		if orig != nil && !seen[key] {
			seen[key] = true
			out = append(out, miniNode{typ, feat, text, len(body), orig, slot})
		}
	}
	w := func() *walker { return &walker{pg: pg} }
	var visit func(node sqlparser.SQLNode) (bool, error)
	visit = func(node sqlparser.SQLNode) (bool, error) {
		if node == nil {
			return true, nil
		}
		if v := reflect.ValueOf(node); v.Kind() == reflect.Ptr && v.IsNil() {
			return true, nil
		}
		// parts of the tree that acra's own Walk does not descend into
		switch x := node.(type) {
		case *sqlparser.Union:
			_ = sqlparser.Walk(visit, x.OrderBy, x.Limit)
		case *sqlparser.Insert:
			_ = sqlparser.Walk(visit, x.Partitions, x.Returning)
		case *sqlparser.Update:
			_ = sqlparser.Walk(visit, x.From, x.Returning)
		case *sqlparser.Delete:
			_ = sqlparser.Walk(visit, x.Targets, x.Partitions, x.Returning)
		case *sqlparser.AliasedTableExpr:
			_ = sqlparser.Walk(visit, x.Partitions)
		}
		typ := strings.TrimPrefix(strings.TrimPrefix(fmt.Sprintf("%T", node), "*"), "sqlparser.")
		switch x := node.(type) {
		case sqlparser.ListArg, sqlparser.ValTuple, *sqlparser.StarExpr, sqlparser.Exprs:
		case sqlparser.ColIdent:
			if !x.IsEmpty() {
				add(typ, identFeatures(x.String(), privByte(reflect.ValueOf(x), "quote"), pg), "select 1 as ", x, " from dual", "alias", n("Ident", w().colIdent(x)))
			}
		case sqlparser.TableIdent:
			if !x.IsEmpty() {
				add(typ, identFeatures(privString(reflect.ValueOf(x), "v"), privByte(reflect.ValueOf(x), "quote"), pg), "select 1 from ", x, "", "table-ident", n("Ident", w().tableIdent(x)))
			}
		case sqlparser.TableName:
			if !x.IsEmpty() {
				add(typ, "", "select 1 from ", x, "", "table-name", w().tableName(x))
			}
		case *sqlparser.ConvertType:
			add(typ, "["+strings.ToLower(x.Type)+"]", "select convert(1, ", x, ") from dual", "convert-type", w().convertType(x))
		case *sqlparser.SQLVal:
			feat := "[" + valTypeNames[x.Type]
			if len(x.CastType) > 0 {
				feat += ",cast"
			}
			add(typ, feat+"]", "select ", x, " from dual", "expr", w().expr(x))
		case *sqlparser.Order:
			add(typ, "", "select 1 from dual order by ", x, "", "order", w().orderBy(sqlparser.OrderBy{x}))
		case *sqlparser.Limit:
			add(typ, "", "select 1 from dual", x, "", "limit", w().limit(x))
		case sqlparser.Expr:
			add(typ, "", "select ", x, " from dual", "expr", w().expr(x))
		}
		return true, nil
	}
	_ = sqlparser.Walk(visit, st)
	return out
}

// culprit finds the smallest sub-node whose own round trip fails, and describes it.
func culprit(pg bool, st sqlparser.Statement) string {
	best, bestFeat := "", false
	bestLen := 1 << 30
	for _, mn := range miniStatements(pg, st) {
		var vs hx.Vs
		t, ok, err := parseDML(&vs, "mini", mn.text)
		kind, path := "", ""
		switch {
		case len(vs) > 0:
			kind = "panic"
		case err != nil:
			kind = "reparse-fails" // mn.text is printer output of a node that came out of the parser
		case !ok:
			continue
		default:
			got := canonAt(&walker{pg: pg}, t, mn.slot)
			if got == nil {
				kind, path = "tree-differs", "/"+mn.orig.K+".lost"
			} else if p, _, d := diff(mn.orig, got, ""); d {
				kind, path = "tree-differs", p
			}
		}
		if kind == "" {
			continue
		}
		// smallest node wins; on a tie one with named features, then the later (deeper) one
		if mn.size < bestLen || (mn.size == bestLen && (mn.feat != "" || !bestFeat)) {
			bestLen, bestFeat = mn.size, mn.feat != ""
			best = mn.typ + mn.feat
			if path != "" && mn.feat == "" {
				best += "@" + tail(path)
			}
		}
	}
	return best
}

func culpritOr(pg bool, st sqlparser.Statement, fallback string) string {
	if who := culprit(pg, st); who != "" {
		return who
	}
	return fallback
}

func tail(path string) string {
	parts := strings.Split(strings.Trim(path, "/"), "/")
	if len(parts) > 2 {
		parts = parts[len(parts)-2:]
	}
	return strings.Join(parts, "/")
}

// CheckRoundTrip is oracle 1 on one statement text.
func CheckRoundTrip(c Case) (vs hx.Vs, info rtInfo) {
	sqlgen.SetDialect(c.Dialect)
	pg := c.Dialect == sqlgen.PostgreSQL
	var pvs hx.Vs
	t1, ok, _ := parseDML(&pvs, "parse", c.SQL)
	if len(pvs) > 0 {
		// A parser crash on the received text is outside this property (its domain is statements the
		// parser accepts); it belongs to C14 (no input can crash a handler). Counted, not reported here.
		info.parsePanic = pvs[0].Sig
		return vs, info
	}
	if !ok {
		return vs, info
	}
	info.accepted = true
	info.kind = stmtKind(t1)
	kind, path, msg, c1, panics := roundTrip(pg, t1)
	info.m = measureOf(c1)
	switch kind {
	case "":
		return vs, info
	case "panic":
		return append(vs, panics...), info
	case "harness-walker":
		vs.Add("harness:walker-unknown-type", "%s", msg)
		return vs, info
	}
	who := culprit(pg, t1)
	if who == "" {
		who = info.kind
		if path != "" {
			who += "@" + tail(path)
		}
	}
	vs.Add(kind+":"+who, "%s dialect, statement %q: %s", c.Dialect, c.SQL, msg)
	return vs, info
}

func nontrivial(info rtInfo) bool { return info.accepted && (info.m.clauses >= 2 || info.m.opDepth >= 2) }

// textClasses are spelling classes visible only in the text.
func textClasses(s string) []string {
	var out []string
	has := func(sub string) bool { return strings.Contains(s, sub) }
	if has("`") {
		out = append(out, "q:backtick")
	}
	if has(`"`) {
		out = append(out, "q:double-quote")
	}
	if has(`""`) || has("``") || has("''") {
		out = append(out, "q:doubled-quote")
	}
	if has(`\`) {
		out = append(out, "q:backslash-escape")
	}
	if has("E'") || has("e'") {
		out = append(out, "q:E-string")
	}
	if has("X'") || has("x'") {
		out = append(out, "q:hex-x")
	}
	if has("0x") || has("0X") {
		out = append(out, "q:hex-0x")
	}
	if has("b'") || has("B'") {
		out = append(out, "q:bit")
	}
	if has("?") {
		out = append(out, "ph:qmark")
	}
	if has("$") {
		out = append(out, "ph:dollar")
	}
	if has("::") {
		out = append(out, "q:pg-cast")
	}
	if has("/*") {
		out = append(out, "txt:comment")
	}
	if has("SELECT") || has("INSERT") || has("UPDATE") || has("DELETE") || has("WHERE") {
		out = append(out, "txt:upper-keywords")
	}
	if has("\n") || has("\t") {
		out = append(out, "txt:newline-tab")
	}
	return out
}

func classes(c Case, info rtInfo) []string {
	cl := []string{"dialect:" + c.Dialect}
	if info.parsePanic != "" {
		notePanic(info.parsePanic, c)
		return append(cl, "parser-panicked-on-input")
	}
	if !info.accepted {
		return append(cl, "rejected-or-not-dml")
	}
	cl = append(cl, "stmt:"+info.kind)
	for k := range info.m.kinds {
		cl = append(cl, "node:"+k)
	}
	for a := range info.m.attrs {
		cl = append(cl, "op:"+a)
	}
	return append(cl, textClasses(c.SQL)...)
}

var notedPanics = map[string]bool{}

func notePanic(sig string, c Case) {
	if !notedPanics[sig] {
		notedPanics[sig] = true
		R.Note("out of domain (see C14): the parser panicked on input %q in the %s dialect: %s", c.SQL, c.Dialect, sig)
	}
}

func genDialect(t *rapid.T) string { return rapid.SampledFrom(sqlgen.Dialects).Draw(t, "dialect") }

func TestRoundTrip(t *testing.T) {
	R.Rule("TestRoundTrip", "statements from the recursive grammar generator (internal/sqlgen) in both dialects; oracle 1; non-trivial = accepted and (>= 2 clauses or operator nesting depth >= 2)")
	hx.Checks(5000, 40000)
	rapid.Check(t, func(rt *rapid.T) {
		c := Case{Dialect: genDialect(rt), Src: "generated"}
		c.SQL = sqlgen.Statement(rt, sqlgen.Opts{RawByteNames: true, Dialect: c.Dialect, MaxDepth: rapid.SampledFrom([]int{1, 2, 2, 3, 3, 4}).Draw(rt, "maxdepth")})
		vs, info := CheckRoundTrip(c)
		R.Seen("TestRoundTrip", c, nontrivial(info), classes(c, info)...)
		R.Report(rt, "TestRoundTrip", c, vs)
	})
}

func TestSplice(t *testing.T) {
	R.Rule("TestSplice", "sub-expressions and clauses of corpus statements (sqlparser/parse_test.go inputs) and generated statements grafted into each other (sqlgen.Splice); oracle 1; non-trivial as TestRoundTrip")
	hx.Checks(2500, 20000)
	rapid.Check(t, func(rt *rapid.T) {
		c := Case{Dialect: genDialect(rt), Src: "splice"}
		c.SQL = sqlgen.Splice(rt, sqlgen.Opts{RawByteNames: true, Dialect: c.Dialect, MaxDepth: 2})
		if c.SQL == "" {
			R.Class("TestSplice", "nothing-to-graft")
			return
		}
		vs, info := CheckRoundTrip(c)
		R.Seen("TestSplice", c, nontrivial(info), classes(c, info)...)
		R.Report(rt, "TestSplice", c, vs)
	})
}

// TestCorpus runs oracle 1 on every corpus statement that is DML in either dialect (exhaustive).
func TestCorpus(t *testing.T) {
	if hx.Shard() != 0 {
		t.Skip("corpus runs in shard 0")
	}
	R.Rule("TestCorpus", "exhaustive over the input strings of sqlparser/parse_test.go that the parser accepts as DML, in each dialect; oracle 1")
	for _, d := range sqlgen.Dialects {
		for _, s := range sqlgen.Corpus() {
			c := Case{Dialect: d, SQL: s, Src: "corpus"}
			vs, info := CheckRoundTrip(c)
			if info.parsePanic != "" {
				notePanic(info.parsePanic, c)
			}
			if !info.accepted && len(vs) == 0 {
				R.Class("TestCorpus", "skipped-not-dml-or-rejected:"+d)
				continue
			}
			R.Seen("TestCorpus", c, nontrivial(info), "dialect:"+d, "stmt:"+info.kind)
			reportAll(t, "TestCorpus", c, vs)
		}
	}
}

// collector lets exhaustive tests report every violation instead of stopping at the first.
type collector struct {
	t      *testing.T
	failed bool
}

func (c *collector) Fatalf(format string, args ...any) { c.failed = true; c.t.Errorf(format, args...) }
func (c *collector) Logf(format string, args ...any)   { c.t.Logf(format, args...) }

var corpusSeenSig = map[string]bool{}

func reportAll(t *testing.T, test string, c any, vs hx.Vs) {
	for _, v := range vs {
		if corpusSeenSig[v.Sig] && !R.IsKnown(v.Sig) {
			continue // one replay file per signature is enough
		}
		corpusSeenSig[v.Sig] = true
		R.Report(&collector{t: t}, test, c, hx.Vs{v})
	}
}

func FuzzParsePrintParse(f *testing.F) {
	for _, s := range sqlgen.Corpus() {
		f.Add([]byte(s))
	}
	f.Fuzz(func(t *testing.T, data []byte) {
		for _, d := range sqlgen.Dialects {
			c := Case{Dialect: d, SQL: string(data), Src: "fuzz"}
			vs, _ := CheckRoundTrip(c)
			R.Report(t, "FuzzParsePrintParse", c, vs)
		}
	})
}

// FuzzGrammar lets the native fuzzer drive the grammar generator (the input is rapid's bit stream).
func FuzzGrammar(f *testing.F) {
	f.Add([]byte{0})
	f.Add([]byte("select a, b from t where a = 1 order by b limit 3"))
	f.Fuzz(rapid.MakeFuzz(func(rt *rapid.T) {
		c := Case{Dialect: genDialect(rt), Src: "fuzz-grammar"}
		c.SQL = sqlgen.Statement(rt, sqlgen.Opts{RawByteNames: true, Dialect: c.Dialect, MaxDepth: 4})
		vs, _ := CheckRoundTrip(c)
		R.Report(rt, "FuzzGrammar", c, vs)
	}))
}

func TestReplay(t *testing.T) {
	rt := func(raw json.RawMessage) hx.Vs {
		var c Case
		if err := json.Unmarshal(raw, &c); err != nil {
			return hx.Vs{{Sig: "harness:decode", Msg: err.Error()}}
		}
		vs, _ := CheckRoundTrip(c)
		return vs
	}
	R.Replay(t, map[string]hx.ReplayHandler{
		"TestRoundTrip":       rt,
		"TestSplice":          rt,
		"TestCorpus":          rt,
		"FuzzParsePrintParse": rt,
		"FuzzGrammar":         rt,
		"TestPrecedence": func(raw json.RawMessage) hx.Vs {
			var c PrecCase
			if err := json.Unmarshal(raw, &c); err != nil {
				return hx.Vs{{Sig: "harness:decode", Msg: err.Error()}}
			}
			return CheckPrecedence(c)
		},
		"TestLiteral": func(raw json.RawMessage) hx.Vs {
			var c LitCase
			if err := json.Unmarshal(raw, &c); err != nil {
				return hx.Vs{{Sig: "harness:decode", Msg: err.Error()}}
			}
			return CheckLiteral(c)
		},
		"TestSubstitution": func(raw json.RawMessage) hx.Vs {
			var c SubCase
			if err := json.Unmarshal(raw, &c); err != nil {
				return hx.Vs{{Sig: "harness:decode", Msg: err.Error()}}
			}
			vs, _ := CheckSubstitution(c)
			return vs
		},
		"TestSubstitutionPG": func(raw json.RawMessage) hx.Vs {
			var c PGSubCase
			if err := json.Unmarshal(raw, &c); err != nil {
				return hx.Vs{{Sig: "harness:decode", Msg: err.Error()}}
			}
			vs, _ := CheckSubstitutionPG(c)
			return vs
		},
		"TestSearchRewrite": func(raw json.RawMessage) hx.Vs {
			var c SRCase
			if err := json.Unmarshal(raw, &c); err != nil {
				return hx.Vs{{Sig: "harness:decode", Msg: err.Error()}}
			}
			vs, _ := CheckSearchRewrite(c)
			return vs
		},
		"TestSearchRewritePG": func(raw json.RawMessage) hx.Vs {
			var c PGSRCase
			if err := json.Unmarshal(raw, &c); err != nil {
				return hx.Vs{{Sig: "harness:decode", Msg: err.Error()}}
			}
			vs, _ := CheckSearchRewritePG(c)
			return vs
		},
	})
}
