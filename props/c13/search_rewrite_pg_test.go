package c13

import (
	"fmt"
	"sort"
	"strings"
	"testing"

	pg_query "github.com/cossacklabs/pg_query_go/v5"
	"pgregory.net/rapid"

	decryptor "github.com/cossacklabs/acra/decryptor/base"
	"github.com/cossacklabs/acra/encryptor/base/config"
	encpg "github.com/cossacklabs/acra/encryptor/postgresql"
	pghash "github.com/cossacklabs/acra/hmac/decryptor/postgresql"
	"github.com/cossacklabs/acra/pseudonymization"
	"github.com/cossacklabs/acra/pseudonymization/storage"

	"verif/internal/fix"
	"verif/internal/hx"
)

// PGSRCase is one PostgreSQL statement for the observers that rewrite search conditions: the PostgreSQL
// HashQuery (searchable encryption) and PostgreSQLTokenizeQuery (consistent tokenization). Both share the
// PostgreSQL SearchableQueryFilter, which visits every operator expression (A_Expr) of the pg_query tree and
// works on the tree in place; as soon as the filter returns one item the whole tree is deparsed.
// Oracle 6: what is emitted parses (pg_query) to the tree that was received, except
//   - search conditions: a searchable / consistently tokenized column compared with a literal or a placeholder
//     (optionally below type casts) by =, <> / !=, IS DISTINCT FROM, IS NOT DISTINCT FROM, either operand order,
//     or two searchable columns compared with each other. There the column may come back as substr(<column>, 1, n),
//     the content of the literal may change and value-left may become column-left - nothing else: the kind of the
//     comparison (plain operator / IS DISTINCT FROM / IS NOT DISTINCT FROM), its operator name, casts around the
//     value and placeholder numbers reach the database as written (whether and into what a condition is rewritten
//     is C09's business);
//   - `<value> op <column>` with the symmetric =, <>, IS [NOT] DISTINCT FROM, which the filter is documented to turn
//     into `<column> op <value>`.
type PGSRCase struct {
	SQL      string `json:"sql"`
	Observer string `json:"observer"` // hash | tokenize | both
}

const pgsrSchema = `
schemas:
  - table: t_s
    columns: ["id", "s", "tok", "plain", "age"]
    encrypted:
      - column: "s"
        searchable: true
      - column: "tok"
        token_type: str
        tokenized: true
        consistent_tokenization: true
  - table: t_v
    columns: ["id", "s2", "memo"]
    encrypted:
      - column: "s2"
        searchable: true
  - table: t_u
    columns: ["id", "note"]
    encrypted:
      - column: "note"
`

var (
	pgsrStore *config.MapTableSchemaStore
	pgsrTok   *pseudonymization.TokenEncryptor
	// column names are unique over the tables of the schema, so a column is known by its bare name
	pgSearchable = map[string]bool{"s": true, "s2": true}
	pgTokenized  = map[string]bool{"tok": true}
)

type jm = map[string]any

func asMap(v any) jm { m, _ := v.(jm); return m }

// aexprOf returns the A_Expr body when v is a node {"A_Expr": {...}}.
func aexprOf(v any) jm {
	m := asMap(v)
	if len(m) != 1 {
		return nil
	}
	return asMap(m["A_Expr"])
}

// pgColumn returns the bare column name when v is a ColumnRef of one or two name parts.
func pgColumn(v any) (string, bool) {
	fields, ok := dig(v, "ColumnRef", "fields").([]any)
	if !ok || len(fields) == 0 || len(fields) > 2 {
		return "", false
	}
	name, ok := dig(fields[len(fields)-1], "String", "sval").(string)
	return name, ok
}

// pgValue: literal or placeholder, optionally below type casts.
func pgValue(v any) bool {
	for dig(v, "TypeCast") != nil {
		v = dig(v, "TypeCast", "arg")
	}
	return dig(v, "A_Const") != nil || dig(v, "ParamRef") != nil
}

func pgOpName(ae jm) string {
	parts, _ := ae["name"].([]any)
	var b strings.Builder
	for _, p := range parts {
		s, _ := dig(p, "String", "sval").(string)
		b.WriteString(s)
	}
	return b.String()
}

// pgLikeFamily: the operators behind [NOT] LIKE / ILIKE (which may also be written as operators).
func pgLikeFamily(op string) bool { return op == "~~" || op == "~~*" || op == "!~~" || op == "!~~*" }

func pgKind(ae jm) string { k, _ := ae["kind"].(string); return k }

func pgSymmetric(ae jm) bool {
	switch pgKind(ae) {
	case "AEXPR_OP", "AEXPR_DISTINCT", "AEXPR_NOT_DISTINCT":
		op := pgOpName(ae)
		return op == "=" || op == "<>"
	}
	return false
}

// pgSearchShape classifies an operator expression of the received statement: "value" = search condition
// <column> op <value> (either order), "join" = two searchable columns, "" = none of the observers' business.
func pgSearchShape(ae jm) string {
	l, lc := pgColumn(ae["lexpr"])
	r, rc := pgColumn(ae["rexpr"])
	search := func(n string) bool { return pgSearchable[n] || pgTokenized[n] }
	if lc && rc && search(l) && pgSearchable[r] {
		switch pgKind(ae) {
		case "AEXPR_OP", "AEXPR_DISTINCT", "AEXPR_NOT_DISTINCT", "AEXPR_LIKE", "AEXPR_ILIKE":
			return "join"
		}
		return ""
	}
	if pgKind(ae) == "AEXPR_NULLIF" && lc && search(l) && pgValue(ae["rexpr"]) {
		// NULLIF(<column>, <value>) is an operator expression named "=" of its own kind; the observers take it for a
		// comparison (it is NULL exactly when the comparison holds). Judged like one: its kind has to survive.
		return "value"
	}
	if !pgSymmetric(ae) {
		return ""
	}
	if (lc && search(l) && pgValue(ae["rexpr"])) || (rc && search(r) && pgValue(ae["lexpr"])) {
		return "value"
	}
	return ""
}

func pgSame(a, b any) bool { _, _, d := pgDiff(a, b, "", nil); return !d }

// pgColumnOrPrefix: b is the column a itself or substr(a, <integer>, <integer>).
func pgColumnOrPrefix(a, b any) bool {
	if pgSame(a, b) {
		return true
	}
	fc := asMap(dig(b, "FuncCall"))
	if fc == nil {
		return false
	}
	names, _ := fc["funcname"].([]any)
	args, _ := fc["args"].([]any)
	if len(names) != 1 || len(args) != 3 {
		return false
	}
	if n, _ := dig(names[0], "String", "sval").(string); n != "substr" {
		return false
	}
	for k := range fc {
		switch k {
		case "funcname", "args", "funcformat":
		default:
			return false
		}
	}
	return pgSame(a, args[0]) && dig(args[1], "A_Const", "ival") != nil && dig(args[2], "A_Const", "ival") != nil
}

// pgValueRewritten: b is the value a with nothing but the content of its literal changed.
func pgValueRewritten(a, b any) bool {
	if ta, tb := asMap(dig(a, "TypeCast")), asMap(dig(b, "TypeCast")); ta != nil || tb != nil {
		if ta == nil || tb == nil || !pgSame(ta["typeName"], tb["typeName"]) {
			return false
		}
		return pgValueRewritten(ta["arg"], tb["arg"])
	}
	if dig(a, "A_Const") != nil {
		return dig(b, "A_Const") != nil && len(asMap(b)) == 1
	}
	return pgSame(a, b) // placeholder
}

// pgSearchRewriteOK judges what came back for a search condition; "" = acceptable, else the class of the defect.
func pgSearchRewriteOK(shape string, a, b jm) string {
	if b == nil {
		return "not-a-comparison"
	}
	like := shape == "join" && pgLikeFamily(pgOpName(a))
	if like && (pgKind(b) != pgKind(a) || pgOpName(b) != pgOpName(a)) {
		// <searchable column> [NOT] LIKE / ILIKE <searchable column> is documented to become the plain comparison
		// = / <> of the two hash prefixes
		want := "="
		if strings.HasPrefix(pgOpName(a), "!") {
			want = "<>"
		}
		if pgKind(b) != "AEXPR_OP" || pgOpName(b) != want {
			return "operator:" + pgKind(a) + ":" + pgOpName(a) + "~" + pgKind(b) + ":" + pgOpName(b)
		}
	} else {
		if pgKind(a) != pgKind(b) {
			return "kind:" + pgKind(a) + "~" + pgKind(b)
		}
		if an, bn := pgOpName(a), pgOpName(b); an != bn {
			return "operator:" + pgKind(a) + ":" + an + "~" + bn
		}
	}
	for k := range a {
		switch k {
		case "kind", "name", "lexpr", "rexpr":
		default:
			return "field:" + k
		}
	}
	for k := range b {
		switch k {
		case "kind", "name", "lexpr", "rexpr":
		default:
			return "field:" + k
		}
	}
	if shape == "join" {
		if pgColumnOrPrefix(a["lexpr"], b["lexpr"]) && pgColumnOrPrefix(a["rexpr"], b["rexpr"]) {
			return ""
		}
		return "operand:join"
	}
	col, val := a["lexpr"], a["rexpr"]
	if _, ok := pgColumn(col); !ok || !pgValue(val) {
		col, val = val, col
		if pgSame(a["lexpr"], b["lexpr"]) && pgSame(a["rexpr"], b["rexpr"]) {
			return "" // forwarded as written
		}
	}
	if !pgColumnOrPrefix(col, b["lexpr"]) {
		return "operand:column"
	}
	if !pgValueRewritten(val, b["rexpr"]) {
		return "operand:value"
	}
	return ""
}

// pgSwapOK: a symmetric `<value> op <column>` that came back as `<column> op <value>`.
func pgSwapOK(a, b jm) bool {
	if b == nil || !pgSymmetric(a) || pgKind(a) != pgKind(b) || pgOpName(a) != pgOpName(b) || len(a) != len(b) {
		return false
	}
	if _, ok := pgColumn(a["rexpr"]); !ok || !pgValue(a["lexpr"]) {
		return false
	}
	return pgSame(a["lexpr"], b["rexpr"]) && pgSame(a["rexpr"], b["lexpr"])
}

// pgDiffSR compares the received and the emitted tree under oracle 6: (signature class, message, differs).
func pgDiffSR(a, b any, path string) (string, string, bool) {
	if ae := aexprOf(a); ae != nil {
		be := aexprOf(b)
		if shape := pgSearchShape(ae); shape != "" {
			if why := pgSearchRewriteOK(shape, ae, be); why != "" {
				return "search-condition[" + shape + "]:" + why, fmt.Sprintf("%s: search condition %s came back as %s (%s)", path, short(a), short(b), why), true
			}
			return "", "", false
		}
		if pgSwapOK(ae, be) {
			return "", "", false
		}
	}
	switch x := a.(type) {
	case jm:
		y, ok := b.(jm)
		if !ok {
			return pathClass(path), fmt.Sprintf("%s: %s became %s", path, short(a), short(b)), true
		}
		for _, k := range sortedKeys(x, y) {
			av, aok := x[k]
			bv, bok := y[k]
			if aok != bok {
				return pathClass(path + "/" + k), fmt.Sprintf("%s/%s: %s became %s", path, k, short(av), short(bv)), true
			}
			if p, m, d := pgDiffSR(av, bv, path+"/"+k); d {
				return p, m, true
			}
		}
		return "", "", false
	case []any:
		y, ok := b.([]any)
		if !ok || len(x) != len(y) {
			return pathClass(path), fmt.Sprintf("%s: %s became %s", path, short(a), short(b)), true
		}
		for i := range x {
			if p, m, d := pgDiffSR(x[i], y[i], fmt.Sprintf("%s/%d", path, i)); d {
				return p, m, true
			}
		}
		return "", "", false
	}
	if fmt.Sprint(a) != fmt.Sprint(b) {
		return pathClass(path), fmt.Sprintf("%s: %s became %s", path, short(a), short(b)), true
	}
	return "", "", false
}

func sortedKeys(x, y jm) []string {
	seen := map[string]bool{}
	var out []string
	for k := range x {
		seen[k] = true
		out = append(out, k)
	}
	for k := range y {
		if !seen[k] {
			out = append(out, k)
		}
	}
	for i := 1; i < len(out); i++ {
		for j := i; j > 0 && out[j] < out[j-1]; j-- {
			out[j], out[j-1] = out[j-1], out[j]
		}
	}
	return out
}

type pgsrInfo struct {
	changed, errored bool
	shapes           map[string]int // <shape>:<kind>[:value-left] of the search conditions of the statement
	nullSafe         bool           // the statement has a search condition written with IS [NOT] DISTINCT FROM
	others           int            // operator expressions that are no search conditions
}

func pgCollect(v any, f func(ae jm)) {
	switch x := v.(type) {
	case jm:
		if ae := aexprOf(x); ae != nil {
			f(ae)
		}
		for _, e := range x {
			pgCollect(e, f)
		}
	case []any:
		for _, e := range x {
			pgCollect(e, f)
		}
	}
}

func pgsrSetup(vs *hx.Vs) bool {
	if pgsrStore != nil {
		return true
	}
	st, err := config.MapTableSchemaStoreFromConfig([]byte(pgsrSchema), config.UsePostgreSQL)
	if err != nil {
		vs.Add("harness:schema", "%v", err)
		return false
	}
	ts, err := storage.NewMemoryTokenStorage()
	if err != nil {
		vs.Add("harness:tokens", "%v", err)
		return false
	}
	tok, err := pseudonymization.NewPseudoanonymizer(ts)
	if err != nil {
		vs.Add("harness:tokens", "%v", err)
		return false
	}
	dt, err := pseudonymization.NewDataTokenizer(tok)
	if err != nil {
		vs.Add("harness:tokens", "%v", err)
		return false
	}
	te, err := pseudonymization.NewTokenEncryptor(dt)
	if err != nil {
		vs.Add("harness:tokens", "%v", err)
		return false
	}
	pgsrStore, pgsrTok = st, te
	return true
}

// CheckSearchRewritePG is oracle 6.
func CheckSearchRewritePG(c PGSRCase) (vs hx.Vs, info pgsrInfo) {
	info.shapes = map[string]int{}
	w := fix.TheWorld()
	if !pgsrSetup(&vs) {
		return vs, info
	}
	t0, err := pgTree(c.SQL)
	if err != nil {
		return vs, info // outside the domain: PostgreSQL's own parser rejects the generated text
	}
	pgCollect(t0, func(ae jm) {
		shape := pgSearchShape(ae)
		if shape == "" {
			info.others++
			return
		}
		cl := shape + ":" + pgKind(ae) + ":" + pgOpName(ae)
		if _, ok := pgColumn(ae["lexpr"]); !ok {
			cl += ":value-left"
		}
		info.shapes[cl]++
		if k := pgKind(ae); k == "AEXPR_DISTINCT" || k == "AEXPR_NOT_DISTINCT" {
			info.nullSafe = true
		}
	})

	ctx := decryptor.SetClientSessionToContext(fix.Ctx(w.Alice), &session{data: map[string]interface{}{}})
	obj := encpg.NewOnQueryObjectFromQuery(c.SQL)
	emitted := c.SQL
	run := func(name string, on func(encpg.OnQueryObject) (encpg.OnQueryObject, bool, error)) bool {
		var out encpg.OnQueryObject
		var changed bool
		var err error
		if hx.Guard(&vs, name+".OnQuery", func() { out, changed, err = on(obj) }) {
			return false
		}
		if err != nil {
			info.errored = true
			return false
		}
		var text string
		var qerr error
		if hx.Guard(&vs, name+".Query", func() { text, qerr = out.Query() }) {
			return false
		}
		if qerr != nil {
			vs.Add("search-rewrite-deparse-fails:pg:"+name, "the rewritten tree cannot be deparsed (%v): %q", qerr, c.SQL)
			return false
		}
		if !changed && text != emitted {
			vs.Add("unchanged-but-rewritten:pg."+name, "OnQuery reported no change but the statement text differs: %q -> %q", emitted, text)
			return false
		}
		if changed {
			info.changed = true
			emitted = text
			// the next observer of the chain gets what this one made (as the proxy does)
			obj = encpg.NewOnQueryObjectFromQuery(text)
		}
		return true
	}
	if c.Observer == "tokenize" || c.Observer == "both" {
		tq := pseudonymization.NewPostgresqlTokenizeQuery(pgsrStore, pgsrTok)
		if !run("PostgreSQLTokenizeQuery", func(o encpg.OnQueryObject) (encpg.OnQueryObject, bool, error) { return tq.OnQuery(ctx, o) }) {
			return vs, info
		}
	}
	if c.Observer == "hash" || c.Observer == "both" {
		hq := pghash.NewHashQuery(w.KS, pgsrStore, w.Reg)
		if !run("HashQuery", func(o encpg.OnQueryObject) (encpg.OnQueryObject, bool, error) { return hq.OnQuery(ctx, o) }) {
			return vs, info
		}
	}
	if !info.changed {
		return vs, info
	}
	t3, err := pgTree(emitted)
	if err != nil {
		vs.Add("search-rewrite-reparse-fails:pg:"+pgsrCulprit(c.SQL, t0, info), "emitted text no longer parses (%v): %q (from %q)", err, emitted, c.SQL)
		return vs, info
	}
	if cls, m, d := pgDiffSR(t0, t3, ""); d {
		if who := pgsrCulprit(c.SQL, t0, info); strings.HasPrefix(who, "deparser") {
			cls = who + ":" + cls
		}
		vs.Add("search-rewrite-alters:pg:"+cls, "after %s the statement differs outside what a search rewrite may change: %s | original %q | emitted %q", c.Observer, m, c.SQL, emitted)
	}
	return vs, info
}

// pgsrCulprit tells who is to blame for a statement that came back broken: "deparser" when pg_query's deparser
// alone (parse, deparse, nothing rewritten) already loses the statement, else the search conditions of a kind other
// than the plain operator that the statement holds ("rewrite" when there is none).
func pgsrCulprit(sql string, t0 any, info pgsrInfo) string {
	if parsed, err := pg_query.Parse(sql); err == nil {
		if text, err := pg_query.Deparse(parsed); err == nil {
			tc, err := pgTree(text)
			if err == nil {
				_, _, d := pgDiff(t0, tc, "", nil)
				if !d {
					tc = nil
				}
			}
			if err != nil || tc != nil {
				// the one shape known to be lost: a null-safe comparison as left operand of a null-safe comparison
				nested := false
				distinct := func(ae jm) bool { return pgKind(ae) == "AEXPR_DISTINCT" || pgKind(ae) == "AEXPR_NOT_DISTINCT" }
				pgCollect(t0, func(ae jm) {
					if in := aexprOf(ae["lexpr"]); in != nil && distinct(ae) && distinct(in) {
						nested = true
					}
				})
				if nested {
					return "deparser[null-safe-comparison-of-null-safe-comparison]"
				}
				return "deparser"
			}
		}
	}
	var special []string
	for s := range info.shapes {
		parts := strings.Split(s, ":") // shape : kind : operator [: value-left]
		switch {
		case pgLikeFamily(parts[2]):
			special = append(special, parts[0]+":-like") // sorts first: the shape known to break
		case parts[1] == "AEXPR_OP":
		default:
			special = append(special, parts[0]+":"+parts[1])
		}
	}
	if len(special) == 0 {
		return "rewrite"
	}
	sort.Strings(special)
	return "rewrite[" + strings.Replace(special[0], ":-like", ":like", 1) + "]"
}

var (
	pgsrSearchCols = []string{"s", "s", "tok", "tok", "t_s.s", `"s"`, "t_s.tok", "S", "s2"}
	pgsrSearchOps  = []string{"=", "=", "<>", "!=", "IS DISTINCT FROM", "IS NOT DISTINCT FROM", "IS DISTINCT FROM", "IS NOT DISTINCT FROM"}
	// values a text / bytea column is compared with (a number there is a statement the database refuses)
	pgsrVals = []string{"'abc'", "'it''s'", `E'esc\\n'`, "'Ünï'", "''", "$1", "$2", `'\x4142'`, `'\x4142'::bytea`, "'abc'::text", "CAST('z' AS text)", "$1::text", "$3::bytea", "'abc'::varchar(10)", "NULL"}
	// values of the other operator expressions
	pgsrAnyVals   = []string{"'abc'", "'it''s'", "42", "-7", "1.5", "true", "$1", "$2", "'abc'::text", "$3::int4", "NULL", `'\x4142'::bytea`, "''"}
	pgsrPlainCols = []string{"plain", "age", "id", "t_s.plain", `"age"`, "memo", "s", "tok", "s2"}
	pgsrNumCols   = []string{"plain", "age", "id", "t_s.age", "memo", `"id"`}
	pgsrOtherOps  = []string{"<", ">", "<=", ">=", "LIKE", "NOT LIKE", "ILIKE", "NOT ILIKE", "~", "!~", "~~", "SIMILAR TO", "=", "<>", "IS DISTINCT FROM", "IS NOT DISTINCT FROM", "||", "+", "-", "*", "%", "@>", "OPERATOR(pg_catalog.=)"}
	pgsrFuncs     = []string{"lower", "upper", "md5", "length", "coalesce", "btrim", "nullif"}
)

func genPGSRCase(t *rapid.T) PGSRCase {
	c := PGSRCase{Observer: rapid.SampledFrom([]string{"hash", "hash", "tokenize", "both"}).Draw(t, "observer")}
	val := func(label string) string { return rapid.SampledFrom(pgsrVals).Draw(t, label) }
	// operand: a column, a value, or a small expression over them. Numbers are compared with the columns that are
	// neither searchable nor tokenized only.
	cols, vals := pgsrPlainCols, pgsrVals
	var operand func(d int) string
	operand = func(d int) string {
		switch k := rapid.IntRange(0, 9).Draw(t, "operand"); {
		case k <= 3 || d <= 0 && k <= 6:
			return rapid.SampledFrom(cols).Draw(t, "col")
		case k <= 6 || d <= 0:
			return rapid.SampledFrom(vals).Draw(t, "val")
		case k == 7:
			fn := rapid.SampledFrom(pgsrFuncs).Draw(t, "func")
			switch fn {
			case "coalesce", "nullif":
				return fn + "(" + operand(d-1) + ", " + operand(d-1) + ")"
			case "btrim": // (substr(<searchable column>, ...) is what the hash observer itself emits: not a client's statement)
				return "btrim(" + operand(d-1) + ", 'x')"
			}
			return fn + "(" + operand(d-1) + ")"
		case k == 8:
			return "(" + operand(d-1) + " " + rapid.SampledFrom([]string{"||", "+", "-", "*"}).Draw(t, "arith") + " " + operand(d-1) + ")"
		default:
			return "CASE WHEN " + operand(d-1) + " " + rapid.SampledFrom([]string{"=", "<>", ">", "IS DISTINCT FROM"}).Draw(t, "caseop") + " " + operand(d-1) + " THEN " + operand(d-1) + " ELSE " + operand(d-1) + " END"
		}
	}
	var term func(d int) string
	term = func(d int) string {
		switch rapid.IntRange(0, 13).Draw(t, "term") {
		case 0, 1, 2, 3, 4: // search condition
			col, op, v := rapid.SampledFrom(pgsrSearchCols).Draw(t, "scol"), rapid.SampledFrom(pgsrSearchOps).Draw(t, "sop"), val("sval")
			if rapid.IntRange(0, 3).Draw(t, "sflip") == 0 {
				return v + " " + op + " " + col
			}
			return col + " " + op + " " + v
		case 5: // two searchable / tokenized columns
			l, r := rapid.SampledFrom([]string{"s", "t_s.s", "tok", "s2", "plain"}).Draw(t, "jl"), rapid.SampledFrom([]string{"s2", "t_v.s2", "s", "tok", "memo"}).Draw(t, "jr")
			op := rapid.SampledFrom([]string{"=", "=", "<>", "IS DISTINCT FROM", "IS NOT DISTINCT FROM", "<", "LIKE", "NOT ILIKE"}).Draw(t, "jop")
			return l + " " + op + " " + r
		case 6, 7, 8, 9: // any other comparison / operator expression, operands in any order
			op := rapid.SampledFrom(pgsrOtherOps).Draw(t, "oop")
			cols, vals = pgsrPlainCols, pgsrVals
			if rapid.Bool().Draw(t, "numeric") {
				cols, vals = pgsrNumCols, pgsrAnyVals
			}
			l, r := operand(1), operand(1)
			switch op {
			case "||", "+", "-", "*", "%":
				return "(" + l + " " + op + " " + r + ") " + rapid.SampledFrom([]string{"=", ">", "IS DISTINCT FROM", "<>"}).Draw(t, "oop2") + " " + operand(0)
			}
			return l + " " + op + " " + r
		case 10: // comparison forms that are operator expressions of their own kind
			col := rapid.SampledFrom(pgsrPlainCols).Draw(t, "kcol")
			cols, vals = pgsrPlainCols, pgsrVals
			switch rapid.IntRange(0, 6).Draw(t, "kind") {
			case 0:
				return col + " IN (" + val("in1") + ", " + val("in2") + ")"
			case 1:
				return col + " NOT IN (" + val("in1") + ")"
			case 2:
				return col + " BETWEEN " + val("b1") + " AND " + val("b2")
			case 3:
				return col + " = ANY (ARRAY[" + val("a1") + ", " + val("a2") + "])"
			case 4:
				return col + " <> ALL (ARRAY[" + val("a1") + "])"
			case 5:
				return "NULLIF(" + col + ", " + val("n1") + ") IS NULL"
			default:
				return col + " NOT BETWEEN SYMMETRIC " + val("b1") + " AND " + val("b2")
			}
		case 11:
			col := rapid.SampledFrom(pgsrPlainCols).Draw(t, "ncol")
			return col + rapid.SampledFrom([]string{" IS NULL", " IS NOT NULL", " IS TRUE", " IS NOT UNKNOWN"}).Draw(t, "nulltest")
		case 12: // a comparison whose operand is a comparison
			if d > 0 {
				return "(" + term(d-1) + ") " + rapid.SampledFrom([]string{"=", "<>", "IS DISTINCT FROM", "IS NOT DISTINCT FROM", ">"}).Draw(t, "nop") + " " + rapid.SampledFrom([]string{"true", "false", "(" + operand(0) + " > 1)", "$4"}).Draw(t, "nrhs")
			}
			return "age > 1"
		default: // sub-select
			return rapid.SampledFrom([]string{
				"EXISTS (SELECT 1 FROM t_u WHERE t_u.id = t_s.id AND note <> 'n')",
				"age IN (SELECT id FROM t_u WHERE note IS DISTINCT FROM 'n')",
				"id = (SELECT max(id) FROM t_u WHERE 'n' = note)",
				"EXISTS (SELECT 1 FROM t_u WHERE t_u.id = t_s.id AND t_s.s = 'abc')",
			}).Draw(t, "sub")
		}
	}
	var where func(d int) string
	where = func(d int) string {
		if d <= 0 {
			return term(1)
		}
		switch rapid.IntRange(0, 5).Draw(t, "glue") {
		case 0, 1:
			return where(d-1) + " AND " + where(d-1)
		case 2:
			return where(d-1) + " OR " + where(d-1)
		case 3:
			return "NOT (" + where(d-1) + ")"
		case 4:
			return "(" + where(d-1) + ")"
		default:
			return term(1)
		}
	}
	wtext := where(rapid.IntRange(0, 3).Draw(t, "wdepth"))
	switch rapid.IntRange(0, 9).Draw(t, "form") {
	case 0, 1:
		c.SQL = "SELECT id, plain FROM t_s WHERE " + wtext + rapid.SampledFrom([]string{"", "", " ORDER BY id DESC NULLS LAST", " LIMIT 3 OFFSET 1", " GROUP BY id, plain HAVING count(id) > 1", " FOR UPDATE"}).Draw(t, "tail")
	case 2:
		c.SQL = "SELECT * FROM t_s " + rapid.SampledFrom([]string{"JOIN", "LEFT JOIN", "INNER JOIN"}).Draw(t, "join") + " t_v ON " + term(1) + " WHERE " + wtext
	case 3:
		c.SQL = "UPDATE t_s SET plain = 'x', age = age + 1 WHERE " + wtext + rapid.SampledFrom([]string{"", " RETURNING id, plain"}).Draw(t, "ret")
	case 4:
		c.SQL = "DELETE FROM t_s WHERE " + wtext + rapid.SampledFrom([]string{"", " RETURNING *"}).Draw(t, "ret")
	case 5:
		c.SQL = "INSERT INTO t_u SELECT id, plain FROM t_s WHERE " + wtext
	case 6: // comparisons in the select list
		c.SQL = "SELECT " + term(1) + " AS hit, (SELECT 1 FROM t_u WHERE 2 > t_u.id LIMIT 1), 'a' < plain FROM t_s WHERE " + wtext
	case 7:
		c.SQL = "SELECT DISTINCT ON (id) id, plain FROM t_s, t_v WHERE t_s.id = t_v.id AND " + wtext
	case 8:
		c.SQL = "SELECT id FROM t_s WHERE " + wtext + " UNION ALL SELECT id FROM t_v WHERE memo = 'm'"
	default:
		c.SQL = "WITH w AS (SELECT id FROM t_u WHERE note = 'n') SELECT count(*) FROM t_s WHERE " + wtext
	}
	return c
}

func TestSearchRewritePG(t *testing.T) {
	R.Rule("TestSearchRewritePG", "PostgreSQL SELECT (joins, DISTINCT ON, UNION, WITH, select-list comparisons, sub-selects) / UPDATE / DELETE [RETURNING] / INSERT..SELECT statements over a schema with searchable columns in two tables and a consistently tokenized column, whose WHERE / ON / select list combine search conditions (column =, <>, !=, IS DISTINCT FROM, IS NOT DISTINCT FROM literal | E'' | bytea | cast | placeholder | NULL, either operand order; searchable column op searchable column with =, <>, IS [NOT] DISTINCT FROM, <, LIKE, NOT ILIKE), every other operator expression with operands in any order (<, LIKE, ILIKE, ~, SIMILAR TO, ||, arithmetic, qualified OPERATOR(), IN, BETWEEN, ANY/ALL, NULLIF, CASE, function calls, IS NULL, comparisons of comparisons); run through PostgreSQLTokenizeQuery and / or HashQuery as the proxy chains them; oracle 6 under pg_query's parser: the emitted text parses to the received tree except that in a search condition the column may come back as substr(column, 1, n), the literal's content may change and value-left may become column-left - the kind of the comparison (operator / IS DISTINCT FROM / IS NOT DISTINCT FROM), its operator name, casts and placeholder numbers stay - and symmetric value-left comparisons may be swapped; non-trivial = the statement was rewritten and holds a null-safe search condition, >= 2 search conditions or an operator expression that is no search condition")
	hx.Checks(1500, 12000)
	rapid.Check(t, func(rt *rapid.T) {
		c := genPGSRCase(rt)
		vs, info := CheckSearchRewritePG(c)
		cl := []string{"observer:" + c.Observer, "form:" + strings.SplitN(c.SQL, " ", 2)[0]}
		switch {
		case info.errored:
			cl = append(cl, "observer-refused")
		case info.changed:
			cl = append(cl, "rewritten")
		default:
			cl = append(cl, "left-alone")
		}
		total := 0
		for s, k := range info.shapes {
			total += k
			if info.changed {
				cl = append(cl, "rewritten-with:"+s)
			}
		}
		cl = append(cl, fmt.Sprintf("search-conditions:%d", min(total, 3)))
		R.Seen("TestSearchRewritePG", c, info.changed && (info.nullSafe || total >= 2 || info.others > 0), cl...)
		R.Report(rt, "TestSearchRewritePG", c, vs)
	})
}
