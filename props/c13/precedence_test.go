package c13

import (
	"encoding/hex"
	"fmt"
	"strings"
	"testing"

	"pgregory.net/rapid"

	"github.com/cossacklabs/acra/sqlparser"

	"verif/internal/hx"
	"verif/internal/sqlgen"
)

// X is an expression tree of the reference model (oracle 2). It has no parenthesis nodes: grouping
// is the tree shape. Kinds:
//
//	col, int, str, null, bool                 atoms (V = name / digits / text / true|false)
//	bin  (V: | & << >> + - * / div % mod ^)   value operators, 2 args
//	un   (V: - + ~ ! binary)                  prefix operators, 1 arg
//	cmp  (V: = < > <= >= != <=> like, not like, regexp, not regexp), 2 args
//	between, notbetween                       3 args
//	in, notin                                 left operand + 1..n list elements
//	is   (V: null, not null, true, not true, false, not false), 1 arg
//	and, or (2 args), not (1 arg)
//	func (V: name, args), case (args: when/then pairs, optional else when odd)
type X struct {
	K string `json:"k"`
	V string `json:"v,omitempty"`
	A []*X   `json:"a,omitempty"`
}

// PrecCase is one expression tree in one dialect, placed in the select list or the WHERE clause.
type PrecCase struct {
	Dialect string `json:"dialect"`
	Where   bool   `json:"where,omitempty"`
	Tree    *X     `json:"tree"`
}

// precedence levels of sql.y (low to high)
const (
	pOr = iota + 1
	pAnd
	pNot
	pBetween
	pCmp // = < > <= >= != <=> IS LIKE REGEXP IN
	pBitOr
	pBitAnd
	pShift
	pAdd
	pMul
	pXor
	pUnary
	pAtom = 20
)

var binPrec = map[string]int{"|": pBitOr, "&": pBitAnd, "<<": pShift, ">>": pShift, "+": pAdd, "-": pAdd, "*": pMul, "/": pMul, "div": pMul, "%": pMul, "mod": pMul, "^": pXor}

func (x *X) prec() int {
	switch x.K {
	case "or":
		return pOr
	case "and":
		return pAnd
	case "not":
		return pNot
	case "between", "notbetween":
		return pBetween
	case "cmp", "in", "notin", "is":
		return pCmp
	case "bin":
		return binPrec[x.V]
	case "un":
		return pUnary
	}
	return pAtom
}

// valueSort tells whether the node is a value_expression (may be an operand of value operators).
func (x *X) valueSort() bool {
	switch x.K {
	case "or", "and", "not", "between", "notbetween", "cmp", "in", "notin", "is":
		return false
	}
	return true
}

// operand prints child for a position that needs a value_expression of at least precedence min.
func operandV(c *X, min int) string {
	s := pr(c)
	if !c.valueSort() || c.prec() < min {
		return "(" + s + ")"
	}
	return s
}

// operandE prints child for an expression position that needs at least precedence min.
func operandE(c *X, min int) string {
	s := pr(c)
	if c.prec() < min {
		return "(" + s + ")"
	}
	return s
}

// pr is the minimal-parentheses printer of the model.
func pr(x *X) string {
	switch x.K {
	case "col", "int", "bool":
		return x.V
	case "null":
		return "null"
	case "str":
		return "'" + strings.ReplaceAll(x.V, "'", "''") + "'"
	case "bin":
		p := binPrec[x.V]
		return operandV(x.A[0], p) + " " + x.V + " " + operandV(x.A[1], p+1)
	case "un":
		o := operandV(x.A[0], pUnary)
		if x.V == "binary" {
			return "binary " + o
		}
		if strings.HasPrefix(o, x.V) || (x.V == "-" && strings.HasPrefix(o, "-")) {
			return x.V + " " + o
		}
		return x.V + o
	case "cmp":
		return operandV(x.A[0], pBitOr) + " " + x.V + " " + operandV(x.A[1], pBitOr)
	case "between", "notbetween":
		op := "between"
		if x.K == "notbetween" {
			op = "not between"
		}
		return operandV(x.A[0], pBitOr) + " " + op + " " + operandV(x.A[1], pBitOr) + " and " + operandV(x.A[2], pBitOr)
	case "in", "notin":
		op := "in"
		if x.K == "notin" {
			op = "not in"
		}
		items := make([]string, 0, len(x.A)-1)
		for _, a := range x.A[1:] {
			items = append(items, pr(a))
		}
		return operandV(x.A[0], pBitOr) + " " + op + " (" + strings.Join(items, ", ") + ")"
	case "is":
		return operandE(x.A[0], pCmp) + " is " + x.V
	case "and":
		return operandE(x.A[0], pAnd) + " and " + operandE(x.A[1], pAnd+1)
	case "or":
		return operandE(x.A[0], pOr) + " or " + operandE(x.A[1], pOr+1)
	case "not":
		return "not " + operandE(x.A[0], pNot)
	case "func":
		args := make([]string, len(x.A))
		for i, a := range x.A {
			args[i] = pr(a)
		}
		return x.V + "(" + strings.Join(args, ", ") + ")"
	case "case":
		var b strings.Builder
		b.WriteString("case")
		i := 0
		for ; i+1 < len(x.A); i += 2 {
			b.WriteString(" when " + pr(x.A[i]) + " then " + pr(x.A[i+1]))
		}
		if i < len(x.A) {
			b.WriteString(" else " + pr(x.A[i]))
		}
		b.WriteString(" end")
		return b.String()
	}
	panic("model printer: unknown kind " + x.K)
}

// model is the canonical tree the statement must parse to. The parser folds a sign into an integer
// literal (-5 is the literal "-5", - -5 is "5", +5 is "5"); the model does the same.
func model(x *X) *cn {
	kids := func(xs []*X) []*cn {
		out := make([]*cn, len(xs))
		for i, a := range xs {
			out[i] = model(a)
		}
		return out
	}
	switch x.K {
	case "col":
		return n("ColName", x.V)
	case "int":
		return n("Lit", fmt.Sprintf("int:%x", x.V))
	case "str":
		return n("Lit", fmt.Sprintf("str:%x", x.V))
	case "null":
		return n("Null", "")
	case "bool":
		return n("Bool", x.V)
	case "bin":
		op := x.V
		if op == "mod" {
			op = "%"
		}
		return n("Binary", op, kids(x.A)...)
	case "un":
		inner := model(x.A[0])
		if digits, ok := intDigits(inner); ok && (x.V == "-" || x.V == "+") {
			switch {
			case x.V == "+":
				return inner
			case strings.HasPrefix(digits, "-"):
				return n("Lit", fmt.Sprintf("int:%x", digits[1:]))
			default:
				return n("Lit", fmt.Sprintf("int:%x", "-"+digits))
			}
		}
		return n("Unary", x.V, inner)
	case "cmp":
		return n("Comparison", x.V, kids(x.A)...)
	case "between":
		return n("Range", "between", kids(x.A)...)
	case "notbetween":
		return n("Range", "not between", kids(x.A)...)
	case "in", "notin":
		op := "in"
		if x.K == "notin" {
			op = "not in"
		}
		return n("Comparison", op, model(x.A[0]), n("Tuple", "", kids(x.A[1:])...))
	case "is":
		return n("Is", "is "+x.V, kids(x.A)...)
	case "and":
		return n("And", "", kids(x.A)...)
	case "or":
		return n("Or", "", kids(x.A)...)
	case "not":
		return n("Not", "", kids(x.A)...)
	case "func":
		out := n("Func", "."+x.V)
		for _, a := range x.A {
			out.C = append(out.C, n("AliasedExpr", "", model(a)))
		}
		return out
	case "case":
		out := n("Case", "")
		i := 0
		for ; i+1 < len(x.A); i += 2 {
			out.C = append(out.C, n("When", "", model(x.A[i]), model(x.A[i+1])))
		}
		if i < len(x.A) {
			out.C = append(out.C, role("Else", model(x.A[i])))
		}
		return out
	}
	panic("model: unknown kind " + x.K)
}

// intDigits returns the text of an integer literal node.
func intDigits(c *cn) (string, bool) {
	if c.K != "Lit" || !strings.HasPrefix(c.A, "int:") {
		return "", false
	}
	b, err := hex.DecodeString(strings.TrimPrefix(c.A, "int:"))
	return string(b), err == nil
}

func (x *X) depth() int {
	d := 0
	for _, a := range x.A {
		if k := a.depth(); k > d {
			d = k
		}
	}
	if len(x.A) > 0 {
		return d + 1
	}
	return 0
}

func (x *X) kinds(into map[string]bool) {
	k := x.K
	if x.K == "bin" || x.K == "un" || x.K == "cmp" {
		k += ":" + x.V
	}
	into[k] = true
	for _, a := range x.A {
		a.kinds(into)
	}
}

func genX(t *rapid.T, d int) *X {
	atom := func() *X {
		switch rapid.IntRange(0, 9).Draw(t, "atom") {
		case 0, 1, 2, 3:
			return &X{K: "col", V: rapid.SampledFrom([]string{"a", "b", "c", "d"}).Draw(t, "col")}
		case 4, 5, 6:
			return &X{K: "int", V: fmt.Sprint(rapid.IntRange(0, 9).Draw(t, "int"))}
		case 7:
			return &X{K: "str", V: rapid.SampledFrom([]string{"x", "it's", ""}).Draw(t, "str")}
		case 8:
			return &X{K: "bool", V: rapid.SampledFrom([]string{"true", "false"}).Draw(t, "bool")}
		default:
			return &X{K: "null"}
		}
	}
	if d <= 0 {
		return atom()
	}
	sub := func() *X { return genX(t, d-1) }
	switch rapid.IntRange(0, 13).Draw(t, "kind") {
	case 0:
		return atom()
	case 1, 2, 3:
		return &X{K: "bin", V: rapid.SampledFrom([]string{"+", "-", "*", "/", "%", "div", "mod", "&", "|", "^", "<<", ">>"}).Draw(t, "binop"), A: []*X{sub(), sub()}}
	case 4:
		return &X{K: "un", V: rapid.SampledFrom([]string{"-", "~", "!", "+", "binary"}).Draw(t, "unop"), A: []*X{sub()}}
	case 5, 6:
		return &X{K: "cmp", V: rapid.SampledFrom([]string{"=", "<", ">", "<=", ">=", "!=", "<=>", "like", "not like", "regexp", "not regexp"}).Draw(t, "cmpop"), A: []*X{sub(), sub()}}
	case 7:
		return &X{K: rapid.SampledFrom([]string{"between", "notbetween"}).Draw(t, "bt"), A: []*X{sub(), sub(), sub()}}
	case 8:
		k := rapid.IntRange(1, 3).Draw(t, "inlen")
		args := []*X{sub()}
		for i := 0; i < k; i++ {
			args = append(args, sub())
		}
		return &X{K: rapid.SampledFrom([]string{"in", "notin"}).Draw(t, "in"), A: args}
	case 9:
		return &X{K: "is", V: rapid.SampledFrom([]string{"null", "not null", "true", "not true", "false", "not false"}).Draw(t, "is"), A: []*X{sub()}}
	case 10:
		return &X{K: "and", A: []*X{sub(), sub()}}
	case 11:
		return &X{K: "or", A: []*X{sub(), sub()}}
	case 12:
		return &X{K: "not", A: []*X{sub()}}
	default:
		if rapid.Bool().Draw(t, "func") {
			k := rapid.IntRange(0, 2).Draw(t, "fargs")
			args := make([]*X, k)
			for i := range args {
				args[i] = sub()
			}
			return &X{K: "func", V: rapid.SampledFrom([]string{"f", "coalesce", "abs"}).Draw(t, "fname"), A: args}
		}
		k := rapid.IntRange(2, 5).Draw(t, "caseargs")
		args := make([]*X, k)
		for i := range args {
			args[i] = sub()
		}
		return &X{K: "case", A: args}
	}
}

func firstExpr(st sqlparser.Statement, where bool) sqlparser.Expr {
	sel, ok := st.(*sqlparser.Select)
	if !ok {
		return nil
	}
	if where {
		if sel.Where == nil {
			return nil
		}
		return sel.Where.Expr
	}
	if len(sel.SelectExprs) != 1 {
		return nil
	}
	if ae, ok := sel.SelectExprs[0].(*sqlparser.AliasedExpr); ok {
		return ae.Expr
	}
	return nil
}

// CheckPrecedence is oracle 2.
func CheckPrecedence(c PrecCase) (vs hx.Vs) {
	sqlgen.SetDialect(c.Dialect)
	pg := c.Dialect == sqlgen.PostgreSQL
	want := model(c.Tree)
	text := pr(c.Tree)
	s := "select " + text + " from t"
	if c.Where {
		s = "select 1 from t where " + text
	}
	stage := func(name, sql string) (printed string, ok bool) {
		st, isDML, err := parseDML(&vs, name, sql)
		if len(vs) > 0 {
			return "", false
		}
		if err != nil || !isDML {
			vs.Add("precedence-"+name+"-rejected", "%s dialect: %q does not parse (%v); model text %q", c.Dialect, sql, err, text)
			return "", false
		}
		e := firstExpr(st, c.Where)
		if e == nil {
			vs.Add("precedence-"+name+"-shape", "%s dialect: %q lost its expression", c.Dialect, sql)
			return "", false
		}
		w := &walker{pg: pg}
		got := stripParens(w.expr(e))
		if p, m, d := diff(want, got, ""); d {
			vs.Add("precedence-"+name+":"+tail(p), "%s dialect: %q was built as %s, the model tree is %s: %s", c.Dialect, sql, got, want, m)
			return "", false
		}
		out, ok := printStmt(&vs, name+"-print", st)
		return out, ok
	}
	s2, ok := stage("parse", s)
	if !ok {
		return vs
	}
	stage("reparse", s2)
	return vs
}

func TestPrecedence(t *testing.T) {
	R.Rule("TestPrecedence", "expression trees of a reference model printed with minimal parentheses according to the precedence table of sql.y, placed in the select list or WHERE; acra's parse, and acra's print followed by parse, must both give the model tree (parentheses removed); non-trivial = operator nesting depth >= 2")
	hx.Checks(3000, 25000)
	rapid.Check(t, func(rt *rapid.T) {
		c := PrecCase{Dialect: genDialect(rt), Where: rapid.Bool().Draw(rt, "where")}
		c.Tree = genX(rt, rapid.IntRange(1, 4).Draw(rt, "depth"))
		vs := CheckPrecedence(c)
		kinds := map[string]bool{}
		c.Tree.kinds(kinds)
		cl := []string{"dialect:" + c.Dialect}
		for k := range kinds {
			cl = append(cl, "model:"+k)
		}
		R.Seen("TestPrecedence", c, c.Tree.depth() >= 2, cl...)
		R.Report(rt, "TestPrecedence", c, vs)
	})
}
