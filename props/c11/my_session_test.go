package c11

// TestMaskSessionsMySQL: the MySQL twin of TestMaskSessions. Generated masking configurations and values go
// through acra's real MySQL proxy (internal/mysess) between a scripted client and the typed fake MySQL server:
// the owner writes, then the owner, a client with other keys and a client without keys read in sessions of
// their own over the same database.
//
// What MySQL does differently from PostgreSQL, and how the model follows it:
//
//   - a result row carries the column value as it is (text protocol) or as a length-encoded string (binary
//     protocol): there is no hex / escape layer between the stored bytes and what the client decodes, so
//     "exactly window||pattern" is a comparison of the bytes of the cell;
//   - values are written as literals in MySQL's spellings ('..' with doubled quotes or backslash escapes, "..",
//     X'..', x'..', 0x.., _binary before a quoted or a hex literal) or as COM_STMT_EXECUTE parameters of the
//     string / blob types a client library may choose; the character set introducer _utf8mb4'..' is property
//     C04's open finding (statement not parsed) and is not generated here;
//   - besides INSERT and UPDATE there are REPLACE and INSERT ... ON DUPLICATE KEY UPDATE (on a new and on an
//     existing key), INSERT ... SET and multi-row INSERT;
//   - declared types are MySQL type ids (str = STRING, bytes = BLOB); the loader refuses integer types for masked
//     columns; the combinations are enumerated through the real loader with config.UseMySQL;
//   - the window is counted in bytes, also for data_type str (a window may cut a UTF-8 sequence: the bytes are
//     delivered as they are);
//   - the empty value has nothing to protect: acra stores it as it is and every reader reads the empty value
//     (checked as "stays empty", as C04 / C19 do);
//   - a column may name a client_id of its own: the value is protected for that identity whoever writes it, and
//     "the owner" of a cell is that identity (the connection's identity otherwise). Each cell is judged by its
//     own column.

import (
	"bytes"
	"encoding/binary"
	"errors"
	"fmt"
	"os"
	"sort"
	"strconv"
	"strings"
	"sync"
	"testing"
	"time"
	"unicode/utf8"

	"github.com/sirupsen/logrus"
	"pgregory.net/rapid"

	"github.com/cossacklabs/acra/crypto"
	"github.com/cossacklabs/acra/encryptor/base/config"

	"verif/internal/fix"
	"verif/internal/gen"
	"verif/internal/hx"
	"verif/internal/myprog"
	"verif/internal/mysess"
)

const myMaskTable = "masked"

// MyCell is the value of one cell: NULL, the parts of a string / bytes value (no parts = the empty value) or
// the number of a plain INT column.
type MyCell struct {
	Null  bool   `json:"null,omitempty"`
	Parts []Part `json:"parts,omitempty"`
	Int   int64  `json:"int,omitempty"`
}

// MyWrite tells how a row gets its values.
type MyWrite struct {
	// insert | replace | update | ondup (INSERT ... ON DUPLICATE KEY UPDATE)
	Op string `json:"op"`
	// Existing (replace, ondup): a row with decoy values and the same key is inserted first. update always
	// works on such a row. ondup on a new key stores the VALUES tuple (the assignments carry decoys), on an
	// existing key the assignments (the VALUES tuple carries decoys).
	Existing bool `json:"existing,omitempty"`
	// Form (insert, replace, ondup): list | nolist | set
	Form string `json:"form,omitempty"`
	// Reverse: column list / assignments in reverse table order
	Reverse  bool `json:"reverse,omitempty"`
	Prepared bool `json:"prepared,omitempty"`
	LitEvery int  `json:"lit_every,omitempty"` // prepared: every n-th value stays an inline literal
	Spelling int  `json:"spelling,omitempty"`  // 0..8, rotates over the values of the statement
	PSeed    int  `json:"pseed,omitempty"`     // selects the protocol types of the parameters
	// LongData (prepared): the string parameters of masked columns are supplied with COM_STMT_SEND_LONG_DATA (two
	// chunks); the COM_STMT_EXECUTE that follows carries their types but not their values. This is the class of
	// the proposed open finding long-data-parameter:mysql and is drawn only when VERIF_C11_LONGDATA is set.
	LongData bool `json:"long_data,omitempty"`
	// SQLPrep (insert / replace / update of one row): through the SQL syntax for prepared statements with COM_QUERY.
	// The values are put into user variables named @<table>__<column> - the convention by which acra finds the
	// column a variable is meant for and protects its value in the SET statement -, the statement is prepared with
	// placeholders only and executed USING the variables: SET ...; PREPARE <name> FROM '...'; EXECUTE <name> USING
	// ...; [DEALLOCATE PREPARE <name>]. Name, Spell, DQuote, Dealloc as for reads; Twice: one SET per variable
	// instead of one SET for all; Using: variable names in upper case.
	SQLPrep *MyPrep `json:"sql_prepare,omitempty"`
}

// MyRead is one SELECT every reader runs.
type MyRead struct {
	Binary  bool `json:"binary,omitempty"` // COM_STMT_PREPARE + COM_STMT_EXECUTE
	Star    bool `json:"star,omitempty"`
	Reverse bool `json:"reverse,omitempty"` // column list in reverse table order
	Alias   bool `json:"alias,omitempty"`   // table alias and column aliases
	Skip    int  `json:"skip,omitempty"`    // list: bit i set = column i (after the key) is left out
	Twice   bool `json:"twice,omitempty"`   // list: the first masked column once more at the end
	// Prep: through PREPARE / EXECUTE statements (Binary is ignored)
	Prep *MyPrep `json:"prep,omitempty"`
}

// MyPrep makes a read go through the SQL syntax for prepared statements, sent with COM_QUERY (text protocol):
// [SET @var = '<select>';] PREPARE <name> FROM '<select>' | @var; [SET @k = 0;] EXECUTE <name> [USING @k];
// [DEALLOCATE | DROP PREPARE <name>]. MySQL does not distinguish letter case in statement names and user variable
// names and accepts them back-quoted: every use of a name has a spelling of its own.
type MyPrep struct {
	Name string `json:"name"`
	// Spell[k]: the name as written in PREPARE (0), EXECUTE (1), DEALLOCATE (2): 0 as it is, 1 lower case, 2 upper
	// case; +4 = in back-quotes
	Spell   []int  `json:"spell,omitempty"`
	DQuote  bool   `json:"dquote,omitempty"`   // the statement text in double quotes
	Using   bool   `json:"using,omitempty"`    // the SELECT ends with WHERE id <> ?, executed USING a variable that holds 0
	FromVar string `json:"from_var,omitempty"` // the statement text is taken from this user variable (SET before)
	Twice   bool   `json:"twice,omitempty"`    // executed twice
	Dealloc int    `json:"dealloc,omitempty"`  // 0 left prepared, 1 DEALLOCATE PREPARE, 2 DROP PREPARE
	// Unrestricted (writes): also the shapes of proposed fixes 03 / 04 - one SET statement for all variables although
	// a protected one is empty, _binary before the literals of SET. Without it such a row gets one SET per variable and
	// hex literals instead of _binary ones. The generator sets it when VERIF_C11_SQLPREP is set.
	Unrestricted bool `json:"unrestricted,omitempty"`
}

func (p MyPrep) name(use int) string {
	sp := 0
	if use < len(p.Spell) {
		sp = p.Spell[use]
	}
	n := p.Name
	switch sp & 3 {
	case 1:
		n = strings.ToLower(n)
	case 2:
		n = strings.ToUpper(n)
	}
	if sp&4 != 0 {
		n = "`" + n + "`"
	}
	return n
}

// MyMaskCase is one table, the rows the owner writes and the reads.
type MyMaskCase struct {
	// Cols: the columns after the key "id" in table order: masked columns (mask_len is resolved from Wins at run
	// time), plain columns, encrypted columns
	Cols []myprog.ColSpec `json:"cols"`
	Wins []Win            `json:"wins"` // window of column i (masked columns), relative to the length of its value in row 0
	Rows [][]MyCell       `json:"rows"`
	// Writes[r]: how row r is written
	Writes []MyWrite `json:"writes"`
	// MultiInsert: the rows written by a plain INSERT go into one statement
	MultiInsert  bool     `json:"multi_insert,omitempty"`
	DeprecateEOF bool     `json:"deprecate_eof,omitempty"`
	Reads        []MyRead `json:"reads"`
	// PrepFirst: the PREPARE statements of all reads that have one are sent before anything is executed (a later
	// PREPARE under a name that is in use replaces the statement, as in MySQL)
	PrepFirst bool `json:"prep_first,omitempty"`
	// SideSpell[i]: how the configuration file spells plaintext_side of column i (masked columns; absent = as
	// documented), see spelledYAML
	SideSpell []Spell `json:"side_spell,omitempty"`
}

// ---------------------------------------------------------------------------------------------
// configurations

type myCombo struct {
	Envelope, DataType, OnFail string
	ByTypeID                   bool
}

var (
	myCombosOnce  sync.Once
	myMaskCombos  []myCombo // masked columns
	myTypedCombos []myCombo // neighbours: encryption with a declared string / bytes type
)

// myCombos enumerates (envelope, declared type, policy, by name / by type id) and keeps what the real loader
// accepts for MySQL.
func myCombos() ([]myCombo, []myCombo) {
	myCombosOnce.Do(func() {
		accepted := func(c myprog.ColSpec) bool {
			if c.OnFail == "default_value" {
				c.HasDefault = true
				c.Default = map[string]string{myprog.LStr: "d", myprog.LBytes: "ZA==", myprog.LInt32: "1", myprog.LInt64: "1"}[c.DataType]
			}
			y := myprog.SchemaYAML([]myprog.TableSpec{{Name: "t", Configured: true, Cols: []myprog.ColSpec{{Name: "id", Kind: myprog.KPlainInt}, c}}})
			_, err := config.MapTableSchemaStoreFromConfig([]byte(y), config.UseMySQL)
			return err == nil
		}
		for _, env := range []string{"", fix.KindStruct, fix.KindBlock} {
			for _, dt := range []string{"", myprog.LStr, myprog.LBytes, myprog.LInt32, myprog.LInt64} {
				for _, of := range []string{"", "ciphertext", "default_value", "error"} {
					for _, byID := range []bool{false, true} {
						if dt == "" && byID {
							continue // nothing to identify
						}
						cb := myCombo{env, dt, of, byID}
						if accepted(myprog.ColSpec{Name: "c", Kind: myprog.KMask, Envelope: env, DataType: dt, OnFail: of, ByTypeID: byID, MaskPat: "xx", MaskLen: 1, MaskSide: "left"}) {
							myMaskCombos = append(myMaskCombos, cb)
						}
						// a reader that cannot decrypt an `error` column loses the whole statement: C19's subject
						if (dt == myprog.LStr || dt == myprog.LBytes) && of != "error" &&
							accepted(myprog.ColSpec{Name: "c", Kind: myprog.KTyped, Envelope: env, DataType: dt, OnFail: of, ByTypeID: byID}) {
							myTypedCombos = append(myTypedCombos, cb)
						}
					}
				}
			}
		}
	})
	return myMaskCombos, myTypedCombos
}

// ---------------------------------------------------------------------------------------------
// generator

type myGenState struct{ seq int }

// marker: "MRK" + 16 hex digits + "#", unique within the case by construction (sequence number + random digits).
func (g *myGenState) marker(t *rapid.T, label string) []byte {
	n := rapid.Uint64().Draw(t, label+".m")
	g.seq++
	return []byte(fmt.Sprintf("MRK%04x%012x#", g.seq&0xffff, n&0xffffffffffff))
}

func (g *myGenState) part(t *rapid.T, label string, text, masked bool) Part {
	if rapid.IntRange(0, 13).Draw(t, label+".digits") == 0 {
		// a number (card numbers are what masking is made for): MySQL also takes it as a numeric literal or an
		// integer parameter and stores its decimal text in a string column
		return Part{Raw: gen.Hex(rapid.OneOf(rapid.SampledFrom([]string{"4111111111111111", "5500005555555559", "7", "42", "900150983"}), rapid.StringMatching(`[1-9][0-9]{0,17}`)).Draw(t, label+".number"))}
	}
	if text {
		switch rapid.IntRange(0, 7).Draw(t, label+".what") {
		case 0, 1, 2, 3:
			return Part{Raw: g.marker(t, label)}
		case 4:
			if masked {
				return Part{Pattern: true}
			}
			return Part{Raw: g.marker(t, label)}
		case 5:
			sym := rapid.SampledFrom([]byte{'"', '%'}).Draw(t, label+".sym")
			return Part{Raw: bytes.Repeat([]byte{sym}, rapid.IntRange(1, 9).Draw(t, label+".nsym"))}
		case 6:
			return Part{Raw: gen.Hex(rapid.SampledFrom([]string{"ünï", "日本語テキスト", "'quote", `back\slash`, "\n", "?", ";--", " ", "ж", "\x00", "\x1a", `\%`, "''", `"dq"`, "/* c */", "0x41", "X'41'", `\`, "€"}).Draw(t, label+".s"))}
		}
		return Part{Raw: gen.Hex(rapid.StringMatching(`[a-zA-Z0-9 ]{1,40}`).Draw(t, label+".ascii"))}
	}
	switch rapid.IntRange(0, 12).Draw(t, label+".what") {
	case 0, 1, 2, 3:
		return Part{Raw: append(g.marker(t, label), rapid.SliceOfN(rapid.Byte(), 0, 30).Draw(t, label+".tail")...)}
	case 4:
		if masked {
			return Part{Pattern: true}
		}
		return Part{Raw: g.marker(t, label)}
	case 5:
		sym := rapid.SampledFrom([]byte{'"', '%'}).Draw(t, label+".sym")
		return Part{Raw: bytes.Repeat([]byte{sym}, rapid.IntRange(1, 9).Draw(t, label+".nsym"))}
	case 6:
		if !masked {
			// (a whole envelope in a neighbour column is revealed to whoever holds its keys: C01's subject)
			return Part{Raw: g.marker(t, label)}
		}
		who := rapid.SampledFrom([]string{"alice", "bobby"}).Draw(t, label+".who")
		kind := rapid.SampledFrom(fix.Kinds).Draw(t, label+".kind")
		form := rapid.SampledFrom([]string{fix.FormRaw, fix.FormContainer}).Draw(t, label+".form")
		return Part{Env: who + "/" + kind + "/" + form, Plain: g.marker(t, label+".envplain")}
	case 7:
		return Part{Raw: gen.Hex(rapid.StringN(1, 24, -1).Draw(t, label+".utf8"))}
	case 8:
		// bogus container header
		b := append([]byte("%%%"), make([]byte, 9)...)
		binary.LittleEndian.PutUint64(b[3:], rapid.SampledFrom([]uint64{12, 13, 40, 200, 5000}).Draw(t, label+".hlen"))
		b[11] = rapid.SampledFrom([]byte{crypto.AcraStructEnvelopeID, crypto.AcraBlockEnvelopeID}).Draw(t, label+".hid")
		return Part{Raw: b}
	case 9:
		return Part{Raw: rapid.SliceOfN(rapid.ByteRange(0x80, 0xff), 1, 24).Draw(t, label+".high")}
	case 10:
		return Part{Raw: gen.Hex(rapid.SampledFrom([]string{"'", `\`, `\x41`, "\x00", "\x1a", `\\`, "''", `"`, "?", `\'`}).Draw(t, label+".lex"))}
	}
	return Part{Raw: gen.Bytes(t, label, 2048)}
}

func genMyMaskCase(t *rapid.T) MyMaskCase {
	var c MyMaskCase
	g := &myGenState{}
	masks, typed := myCombos()
	client := func(name string, other bool) string {
		switch rapid.IntRange(0, 5).Draw(t, name+".explicit") {
		case 0:
			return "alice"
		case 1:
			if other {
				return "bobby"
			}
		}
		return ""
	}
	nm := rapid.IntRange(1, 3).Draw(t, "nmasked")
	for i := 0; i < nm; i++ {
		name := fmt.Sprintf("m%d", i)
		cb := rapid.SampledFrom(masks).Draw(t, name+".combo")
		c.Cols = append(c.Cols, myprog.ColSpec{Name: name, Kind: myprog.KMask, Envelope: cb.Envelope, DataType: cb.DataType, OnFail: cb.OnFail, ByTypeID: cb.ByTypeID,
			MaskPat:  rapid.SampledFrom(sessPatterns).Draw(t, name+".pattern"),
			MaskSide: rapid.SampledFrom([]string{"left", "right"}).Draw(t, name+".side"),
			ClientID: client(name, true)})
	}
	// plain and encrypted columns at generated positions
	nn := rapid.IntRange(0, 3).Draw(t, "nneighbours")
	for i := 0; i < nn; i++ {
		name := fmt.Sprintf("n%d", i)
		col := myprog.ColSpec{Name: name, Kind: rapid.SampledFrom([]string{myprog.KPlainText, myprog.KPlainBlob, myprog.KPlainInt, myprog.KEnc, myprog.KEnc, myprog.KTyped}).Draw(t, name+".kind")}
		switch col.Kind {
		case myprog.KEnc:
			col.Envelope = rapid.SampledFrom([]string{"", fix.KindStruct, fix.KindBlock}).Draw(t, name+".envelope")
			col.ClientID = client(name, false)
		case myprog.KTyped:
			cb := rapid.SampledFrom(typed).Draw(t, name+".combo")
			col.Envelope, col.DataType, col.OnFail, col.ByTypeID = cb.Envelope, cb.DataType, cb.OnFail, cb.ByTypeID
			if col.OnFail == "default_value" {
				col.HasDefault = true
				col.Default = map[string]string{myprog.LStr: "default-str", myprog.LBytes: "ZGVmYXVsdA=="}[col.DataType]
			}
			col.ClientID = client(name, false)
		}
		pos := rapid.IntRange(0, len(c.Cols)).Draw(t, name+".pos")
		c.Cols = append(c.Cols[:pos:pos], append([]myprog.ColSpec{col}, c.Cols[pos:]...)...)
	}
	for _, col := range c.Cols {
		c.Wins = append(c.Wins, genWinL(t, col.Name))
	}
	nrows := rapid.IntRange(1, 3).Draw(t, "nrows")
	for r := 0; r < nrows; r++ {
		var row []MyCell
		for i, col := range c.Cols {
			label := fmt.Sprintf("r%dc%d", r, i)
			masked := col.Kind == myprog.KMask
			if (r > 0 || !masked) && rapid.IntRange(0, 9).Draw(t, label+".null") == 0 {
				row = append(row, MyCell{Null: true})
				continue
			}
			if col.Kind == myprog.KPlainInt {
				row = append(row, MyCell{Int: int64(rapid.OneOf(rapid.Int32(), rapid.SampledFrom([]int32{0, 1, -1, 2147483647, -2147483648})).Draw(t, label+".int"))})
				continue
			}
			np := rapid.SampledFrom([]int{0, 1, 1, 1, 2, 2, 2, 3}).Draw(t, label+".nparts")
			var cell MyCell
			for k := 0; k < np; k++ {
				cell.Parts = append(cell.Parts, g.part(t, fmt.Sprintf("%s.p%d", label, k), col.Logical() == myprog.LStr, masked))
			}
			row = append(row, cell)
		}
		c.Rows = append(c.Rows, row)
		w := MyWrite{Op: rapid.SampledFrom([]string{"insert", "insert", "replace", "update", "ondup"}).Draw(t, fmt.Sprintf("w%d.op", r))}
		label := fmt.Sprintf("w%d", r)
		if w.Op == "replace" || w.Op == "ondup" {
			w.Existing = rapid.Bool().Draw(t, label+".existing")
		}
		if w.Op != "update" {
			w.Form = rapid.SampledFrom([]string{"list", "list", "nolist", "set"}).Draw(t, label+".form")
		}
		w.Reverse = rapid.Bool().Draw(t, label+".reverse")
		w.Spelling = rapid.IntRange(0, 8).Draw(t, label+".spelling")
		w.Prepared = rapid.Bool().Draw(t, label+".prepared")
		if w.Prepared {
			w.PSeed = rapid.IntRange(0, 59).Draw(t, label+".pseed")
			if rapid.IntRange(0, 2).Draw(t, label+".litmix") == 0 {
				w.LitEvery = rapid.IntRange(2, 3).Draw(t, label+".litevery")
			}
			if os.Getenv("VERIF_C11_LONGDATA") != "" {
				w.LongData = rapid.IntRange(0, 3).Draw(t, label+".longdata") == 0
			}
		} else if w.Op != "ondup" && rapid.IntRange(0, 3).Draw(t, label+".sqlprep") == 0 {
			p := &MyPrep{Name: rapid.SampledFrom([]string{"ins", "Upsert", "WRITE_1", "w2"}).Draw(t, label+".prep.name")}
			for k := 0; k < 3; k++ {
				p.Spell = append(p.Spell, rapid.SampledFrom([]int{0, 0, 1, 2, 4, 5, 6}).Draw(t, fmt.Sprintf("%s.prep.spell%d", label, k)))
			}
			p.DQuote = rapid.IntRange(0, 3).Draw(t, label+".prep.dquote") == 0
			p.Twice = rapid.Bool().Draw(t, label+".prep.sets")
			p.Using = rapid.IntRange(0, 3).Draw(t, label+".prep.upper") == 0
			p.Dealloc = rapid.SampledFrom([]int{0, 1, 1, 2}).Draw(t, label+".prep.dealloc")
			p.Unrestricted = mySQLPrepFindings()
			w.SQLPrep = p
		}
		c.Writes = append(c.Writes, w)
	}
	c.MultiInsert = rapid.IntRange(0, 2).Draw(t, "multi_insert") == 0
	c.DeprecateEOF = rapid.Bool().Draw(t, "deprecate_eof")
	nreads := rapid.IntRange(1, 3).Draw(t, "nreads")
	for i := 0; i < nreads; i++ {
		label := fmt.Sprintf("rd%d", i)
		rd := MyRead{Binary: rapid.Bool().Draw(t, label+".binary"), Star: rapid.IntRange(0, 2).Draw(t, label+".star") == 0}
		if i == 1 {
			// the second read uses the other protocol
			rd.Binary = !c.Reads[0].Binary
		}
		if rapid.Bool().Draw(t, label+".prep") {
			// a small pool of names: reads of one case share a name now and then (reused after DEALLOCATE, replaced
			// by a second PREPARE)
			p := &MyPrep{Name: rapid.SampledFrom([]string{"sel", "CardNumber", "STMT_1"}).Draw(t, label+".prep.name")}
			for k := 0; k < 3; k++ {
				p.Spell = append(p.Spell, rapid.SampledFrom([]int{0, 0, 1, 2, 4, 5, 6}).Draw(t, fmt.Sprintf("%s.prep.spell%d", label, k)))
			}
			p.DQuote = rapid.IntRange(0, 3).Draw(t, label+".prep.dquote") == 0
			p.Using = rapid.IntRange(0, 2).Draw(t, label+".prep.using") == 0
			if rapid.IntRange(0, 3).Draw(t, label+".prep.fromvar") == 0 {
				// (capitals in the variable name: proposed fix 02; drawn when VERIF_C11_SQLPREP is set)
				names := []string{"q", "stmt_text", "s1"}
				if mySQLPrepFindings() {
					names = append(names, "Q", "SqlText", "S1")
				}
				p.FromVar = rapid.SampledFrom(names).Draw(t, label+".prep.var")
			}
			p.Twice = rapid.IntRange(0, 3).Draw(t, label+".prep.twice") == 0
			p.Dealloc = rapid.SampledFrom([]int{0, 1, 1, 2}).Draw(t, label+".prep.dealloc")
			rd.Prep = p
		}
		if !rd.Star {
			rd.Reverse = rapid.Bool().Draw(t, label+".reverse")
			rd.Alias = rapid.IntRange(0, 2).Draw(t, label+".alias") == 0
			if rapid.IntRange(0, 2).Draw(t, label+".subset") == 0 {
				rd.Skip = rapid.IntRange(1, 1<<len(c.Cols)-1).Draw(t, label+".skip")
			}
			rd.Twice = rapid.IntRange(0, 3).Draw(t, label+".twice") == 0
		}
		c.Reads = append(c.Reads, rd)
	}
	c.PrepFirst = rapid.Bool().Draw(t, "prep_first")
	c.SideSpell = genSideSpells(t, len(c.Cols))
	return c
}

// ---------------------------------------------------------------------------------------------
// client side: statements

type myRendered struct {
	wr        MyWrite
	n         int
	params    []mysess.Param
	spellings []string
	notes     []string
	pmasked   []bool // parameter i belongs to a masked column
	pvals     []myprog.Val
	pcols     []myprog.ColSpec
}

// myIsNumber: the value is the decimal text of a positive integer that fits 63 bits (what MySQL stores for the
// numeric literal / integer parameter of the same digits).
func myIsNumber(v myprog.Val) bool {
	if v.Null || len(v.B) == 0 || len(v.B) > 18 || v.B[0] == '0' {
		return false
	}
	for _, c := range v.B {
		if c < '0' || c > '9' {
			return false
		}
	}
	return true
}

// lit writes one value: a placeholder with a bound parameter, or a literal in one of the nine spellings acra's
// grammar reads (the tenth, a character set introducer other than _binary, is C04's open finding).
func (r *myRendered) lit(v myprog.Val, col myprog.ColSpec) string {
	r.n++
	sp := r.wr.Spelling
	if sp < 0 {
		sp = -sp
	}
	// a string column takes a number as well
	number := !myprog.IsInt(col.Logical()) && myIsNumber(v) && (sp+r.wr.PSeed+r.n)%2 == 0
	if r.wr.Prepared && !(r.wr.LitEvery > 0 && r.n%r.wr.LitEvery == 0) {
		lt := col.Logical()
		if number {
			lt = myprog.LInt64
			r.notes = append(r.notes, "number-as-integer-parameter/"+col.Kind)
		}
		r.params = append(r.params, myprog.ParamOf(v, lt, r.wr.PSeed+7*len(r.params)))
		r.pmasked = append(r.pmasked, col.Kind == myprog.KMask)
		r.pvals, r.pcols = append(r.pvals, v), append(r.pcols, col)
		return "?"
	}
	if number {
		r.spellings = append(r.spellings, "bare-number")
		r.notes = append(r.notes, "number-as-numeric-literal/"+col.Kind)
		return string(v.B)
	}
	text, name := myprog.Literal(v, col.Logical(), (sp+r.n-1)%9)
	r.spellings = append(r.spellings, name)
	return text
}

// myWriteSQL renders a statement. rows: full rows (key first) of the VALUES tuples / the SET form; assign: full
// row whose non-key values are assigned (UPDATE ... SET, ON DUPLICATE KEY UPDATE); key: the WHERE value of UPDATE.
func myWriteSQL(tb myprog.TableSpec, wr MyWrite, op string, rows [][]myprog.Val, assign []myprog.Val, key myprog.Val) (string, *myRendered) {
	r := &myRendered{wr: wr}
	var order []int
	for i := range tb.Cols {
		order = append(order, i)
	}
	if wr.Reverse && wr.Form != "nolist" {
		for i, j := 0, len(order)-1; i < j; i, j = i+1, j-1 {
			order[i], order[j] = order[j], order[i]
		}
	}
	var b strings.Builder
	assignments := func(vals []myprog.Val, withKey bool) {
		first := true
		for _, ci := range order {
			if ci == 0 && !withKey {
				continue
			}
			if !first {
				b.WriteString(", ")
			}
			first = false
			fmt.Fprintf(&b, "%s = %s", tb.Cols[ci].Name, r.lit(vals[ci], tb.Cols[ci]))
		}
	}
	switch op {
	case "update":
		fmt.Fprintf(&b, "UPDATE %s SET ", tb.Name)
		assignments(assign, false)
		fmt.Fprintf(&b, " WHERE %s = %s", tb.Cols[0].Name, r.lit(key, tb.Cols[0]))
	default:
		verb := "INSERT"
		if op == "replace" {
			verb = "REPLACE"
		}
		fmt.Fprintf(&b, "%s INTO %s", verb, tb.Name)
		if wr.Form == "set" && len(rows) == 1 {
			b.WriteString(" SET ")
			assignments(rows[0], true)
		} else {
			if wr.Form != "nolist" {
				var names []string
				for _, ci := range order {
					names = append(names, tb.Cols[ci].Name)
				}
				fmt.Fprintf(&b, " (%s)", strings.Join(names, ", "))
			}
			b.WriteString(" VALUES ")
			for ri, row := range rows {
				if ri > 0 {
					b.WriteString(", ")
				}
				b.WriteString("(")
				for k, ci := range order {
					if k > 0 {
						b.WriteString(", ")
					}
					b.WriteString(r.lit(row[ci], tb.Cols[ci]))
				}
				b.WriteString(")")
			}
		}
		if op == "ondup" {
			b.WriteString(" ON DUPLICATE KEY UPDATE ")
			assignments(assign, false)
		}
	}
	return b.String(), r
}

// mySQLPrepFindings: with VERIF_C11_SQLPREP set the classes of three defects of acra's handling of the SQL syntax for
// prepared statements are generated (props/c11/proposed-fixes 02-04; the check is red on a tree without the fixes):
// PREPARE ... FROM @Variable with capitals in the variable's name; an empty value of a protected column in a SET
// statement that also sets other variables; _binary before the literal of a SET statement.
func mySQLPrepFindings() bool { return os.Getenv("VERIF_C11_SQLPREP") != "" }

// myLongDataSig is the signature of the proposed open finding: acra relays COM_STMT_SEND_LONG_DATA as it is (the
// value of a protected column reaches the database in clear) and then takes the COM_STMT_EXECUTE, which does not
// repeat such a value, for malformed and closes the session.
const myLongDataSig = "long-data-parameter:mysql"

// myExecuteWithout renders COM_STMT_EXECUTE for parameters of which some were supplied as long data: their types
// are sent, their values are not (what libmysqlclient does after mysql_stmt_send_long_data).
func myExecuteWithout(stmtID uint32, params []mysess.Param, long map[int]bool) []byte {
	out := []byte{mysess.ComStmtExecute}
	out = binary.LittleEndian.AppendUint32(out, stmtID)
	out = append(out, 0)
	out = binary.LittleEndian.AppendUint32(out, 1)
	bm := make([]byte, (len(params)+7)/8)
	for i, p := range params {
		if p.Null && !long[i] {
			bm[i/8] |= 1 << uint(i%8)
		}
	}
	out = append(append(out, bm...), 1)
	for _, p := range params {
		f := byte(0)
		if p.Unsigned {
			f = 0x80
		}
		out = append(out, p.Type, f)
	}
	for i, p := range params {
		if p.Null || long[i] {
			continue
		}
		if w := mysess.BinaryWidth(p.Type); w >= 0 {
			b := append([]byte{}, p.B...)
			for len(b) < w {
				b = append(b, 0)
			}
			out = append(out, b[:w]...)
		} else {
			out = mysess.AppendLenEncStr(out, p.B)
		}
	}
	return out
}

// myDecoy is a value that is written and overwritten (or never stored).
func myDecoy(col myprog.ColSpec, r, i, k int) myprog.Val {
	if myprog.IsInt(col.Logical()) {
		return myprog.Val{B: []byte(strconv.Itoa(900000 + 1000*r + 10*i + k))}
	}
	return myprog.Val{B: []byte(fmt.Sprintf("DECOY-%d-%d-%d-0123456789abcdef0123456789", r, i, k))}
}

func myOwnerOf(col myprog.ColSpec) string {
	if col.ClientID != "" {
		return col.ClientID
	}
	return "alice"
}

func myReaderClass(owner bool) string {
	if owner {
		return "owner"
	}
	return "non-owner"
}

var myTypeNames = map[byte]string{mysess.TypeTiny: "TINY", mysess.TypeShort: "SHORT", mysess.TypeLong: "LONG", mysess.TypeLongLong: "LONGLONG",
	mysess.TypeNull: "NULL", mysess.TypeVarString: "VAR_STRING", mysess.TypeString: "STRING", mysess.TypeVarchar: "VARCHAR", mysess.TypeBlob: "BLOB",
	mysess.TypeLongBlob: "LONG_BLOB", mysess.TypeMediumBlob: "MEDIUM_BLOB", mysess.TypeTinyBlob: "TINY_BLOB"}

func myTypeName(t byte) string {
	if n, ok := myTypeNames[t]; ok {
		return n
	}
	return fmt.Sprintf("0x%02x", t)
}

// leakStride is leak with a step between the slices tried (for searches in long streams).
func leakStride(got, secret, expected []byte, n, stride int) (int, bool) {
	for i := 0; i+n <= len(secret); i += stride {
		s := secret[i : i+n]
		if bytes.Contains(got, s) && !bytes.Contains(expected, s) {
			return i, true
		}
	}
	return 0, false
}

// ---------------------------------------------------------------------------------------------
// the check

type myCellInfo struct {
	val                   myprog.Val
	stored                mysess.Value
	win, hidden, env      []byte
	want                  []byte
	window                int
	passthrough, inWindow bool
	empty                 bool // the empty value, stored as it is
	skip                  bool
	hasEnv                bool // the value holds a generated whole envelope
}

// CheckMaskMySQL runs the case.
func CheckMaskMySQL(c MyMaskCase) (vs hx.Vs, nontrivial bool, classes []string) {
	cl := map[string]bool{}
	defer func() {
		for k := range cl {
			classes = append(classes, k)
		}
		sort.Strings(classes)
	}()
	// a COM_STMT_EXECUTE after long data that acra does not refuse is taken apart wrongly (the values that follow
	// the omitted one move up): whatever deviates afterwards belongs to the long-data finding
	longAnswered := false
	defer func() {
		if !longAnswered || len(vs) == 0 {
			return
		}
		first := vs[0]
		vs = nil
		addKnown(&vs, myLongDataSig, "a COM_STMT_EXECUTE whose masked parameters were supplied as long data was answered with OK, then: [%s] %s", first.Sig, first.Msg)
		cl["excluded:long-data-parameter"] = true
	}()
	w := fix.TheWorld()
	debug := os.Getenv("VERIF_DEBUG") != ""
	if os.Getenv("VERIF_DEBUG") == "2" {
		// acra's own log on stderr (diagnostics only)
		logrus.SetLevel(logrus.DebugLevel)
		logrus.SetOutput(os.Stderr)
	}
	if len(c.Rows) == 0 || len(c.Cols) == 0 || len(c.Wins) != len(c.Cols) || len(c.Writes) != len(c.Rows) || len(c.Reads) == 0 {
		vs.Add("harness:case", "malformed case: %d columns, %d windows, %d rows, %d writes, %d reads", len(c.Cols), len(c.Wins), len(c.Rows), len(c.Writes), len(c.Reads))
		return
	}
	cols := append([]myprog.ColSpec(nil), c.Cols...)
	// ---- the values; the windows are resolved against row 0
	values := make([][]myprog.Val, len(c.Rows))
	var everything []byte // all cells incl. the plaintexts inside generated envelopes: a marker that occurs twice proves nothing
	for r, row := range c.Rows {
		if len(row) != len(cols) {
			vs.Add("harness:case", "row %d has %d cells, the table %d columns", r, len(row), len(cols))
			return
		}
		values[r] = make([]myprog.Val, len(cols))
		for i, col := range cols {
			cell := row[i]
			switch {
			case cell.Null:
				values[r][i] = myprog.Val{Null: true}
			case col.Kind == myprog.KPlainInt:
				values[r][i] = myprog.Val{B: []byte(strconv.FormatInt(int64(int32(cell.Int)), 10))}
			default:
				pat := ""
				if col.Kind == myprog.KMask {
					pat = col.MaskPat
				}
				v, vcl, err := render(w, cell.Parts, pat)
				if err != nil {
					vs.Add("harness:render", "%v", err)
					return
				}
				if col.Logical() == myprog.LStr && !utf8.Valid(v) {
					vs.Add("harness:text", "generated value of the text column %s is not valid UTF-8", col.Name)
					return
				}
				if v == nil {
					v = []byte{}
				}
				values[r][i] = myprog.Val{B: v}
				if col.Kind == myprog.KMask {
					for _, k := range vcl {
						cl[k] = true
					}
					if !utf8.Valid(v) {
						cl["value:not-utf8"] = true
					}
				}
			}
			everything = append(append(everything, values[r][i].B...), 0)
			for _, p := range cell.Parts {
				everything = append(append(everything, p.Plain...), 0)
			}
		}
	}
	for i := range cols {
		if cols[i].Kind == myprog.KMask {
			cols[i].MaskLen = c.Wins[i].resolve(len(values[0][i].B))
		}
	}
	tables := []myprog.TableSpec{{Name: myMaskTable, Configured: true, Cols: append([]myprog.ColSpec{{Name: "id", Kind: myprog.KPlainInt}}, cols...)}}
	tb := tables[0]
	meant := make([]string, len(cols))
	for i := range cols {
		meant[i] = cols[i].MaskSide // "" for columns that are not masked
	}
	yaml := spelledYAML(func(k string) { cl[k] = true }, c.SideSpell, meant, true, func(sides []string) string {
		written := append([]myprog.ColSpec(nil), cols...)
		for i := range written {
			written[i].MaskSide = sides[i]
		}
		return myprog.SchemaYAML([]myprog.TableSpec{{Name: myMaskTable, Configured: true, Cols: append([]myprog.ColSpec{{Name: "id", Kind: myprog.KPlainInt}}, written...)}})
	})
	defs := myprog.Defs(tables)
	if debug {
		fmt.Printf("CONFIG\n%s\n", yaml)
	}
	caps := uint32(mysess.DefaultCaps)
	if c.DeprecateEOF {
		caps |= mysess.CapDeprecateEOF
		cl["caps:deprecate-eof"] = true
	} else {
		cl["caps:eof-packets"] = true
	}
	inconclusive := func(where string) {
		R.Note("inconclusive: i/o deadline while %s (MySQL)", where)
		cl["inconclusive"] = true
		nontrivial = false
	}
	broken := func(s *mysess.Session, sig, what string, err error) {
		if ps := s.Panics(); len(ps) > 0 {
			vs.Add("handler-panic:"+hx.PanicFunc(ps[0]), "%s made the connection handler panic: %.1500s", what, ps[0])
			return
		}
		vs.Add(sig, "%s: %v; proxy errors %q", what, err, s.ProxyErrors())
	}

	// ---- the owner writes
	s, err := mysess.Start(mysess.Config{SchemaYAML: yaml, KeyStore: w.KS, ClientID: w.Alice, Tables: defs, ClientCaps: caps})
	if errors.Is(err, mysess.ErrTimeout) {
		inconclusive("starting the writing session")
		return
	}
	if err != nil {
		vs.Add("harness:start", "%v\n%s", err, yaml)
		return
	}
	defer s.Close()
	s.DB.Store.AliasInFields = true
	// run sends one statement; false = stop
	run := func(wr MyWrite, op, sql string, rd *myRendered) bool {
		how := "literal"
		var rep *mysess.Reply
		var err error
		if wr.Prepared {
			how = "param"
			var ps *mysess.Stmt
			ps, err = s.Prepare(sql)
			if err == nil && ps.Err != nil {
				vs.Add("statement-error:mysql:prepare:"+op, "COM_STMT_PREPARE %.200q: %d %q", sql, ps.Err.Code, ps.Err.Message)
				return false
			}
			if err == nil && len(ps.Params) != len(rd.params) {
				vs.Add("prepare-param-count:mysql", "%.200q prepared with %d parameters, sent %d placeholders", sql, len(ps.Params), len(rd.params))
				return false
			}
			long := map[int]bool{}
			if wr.LongData {
				for i, p := range rd.params {
					if rd.pmasked[i] && !p.Null && mysess.BinaryWidth(p.Type) == -1 {
						long[i] = true
					}
				}
			}
			switch {
			case err != nil:
			case len(long) == 0:
				rep, err = s.Execute(ps, rd.params)
			default:
				how = "long-data"
				for i := 0; i < len(rd.params) && err == nil; i++ {
					if !long[i] {
						continue
					}
					b := rd.params[i].B
					for _, chunk := range [][]byte{b[:len(b)/2], b[len(b)/2:]} {
						ld := binary.LittleEndian.AppendUint16(binary.LittleEndian.AppendUint32([]byte{mysess.ComStmtSendLong}, ps.ID), uint16(i))
						if err == nil {
							err = s.SendCommand(append(ld, chunk...))
						}
					}
				}
				if err == nil {
					err = s.SendCommand(myExecuteWithout(ps.ID, rd.params, long))
				}
				var p mysess.Packet
				if err == nil {
					p, err = s.ReadPacket()
				}
				if errors.Is(err, mysess.ErrTimeout) {
					inconclusive("writing")
					return false
				}
				if err != nil || len(p.Payload) == 0 || p.Payload[0] != 0x00 {
					// (the count is part of the message only; the fake server may still be reading)
					dbGot, _ := s.DBStreams()
					for try := 0; try < 20 && !bytes.Contains(dbGot, []byte{mysess.ComStmtSendLong}); try++ {
						time.Sleep(5 * time.Millisecond)
						dbGot, _ = s.DBStreams()
					}
					clear := 0
					for i := range long {
						if len(rd.params[i].B) >= 8 && bytes.Contains(dbGot, rd.params[i].B[:len(rd.params[i].B)/2]) {
							clear++
						}
					}
					addKnown(&vs, myLongDataSig, "%s with %d parameter(s) of masked columns supplied by COM_STMT_SEND_LONG_DATA: %v, reply %.60q, proxy errors %q; %d of the values reached the database in clear (%.160s)", op, len(long), err, p.Payload, s.ProxyErrors(), clear, sql)
					cl["excluded:long-data-parameter"] = true
					return false
				}
				longAnswered = true
				rep = &mysess.Reply{Sets: []mysess.ResultSet{{OK: &mysess.OK{}}}}
			}
		} else {
			rep, err = s.Query(sql)
		}
		if debug {
			fmt.Printf("WRITE %s %s %.300s\n", op, how, sql)
			for i, p := range rd.params {
				fmt.Printf("   ?%d %s null=%v %.60q\n", i+1, myTypeName(p.Type), p.Null, p.B)
			}
			recv := s.DB.Received()
			for _, rc := range recv[max(0, len(recv)-2):] {
				fmt.Printf("   DB got %s %.300s\n", rc.Kind, rc.SQL)
			}
		}
		if errors.Is(err, mysess.ErrTimeout) {
			inconclusive("writing")
			return false
		}
		if err != nil {
			broken(s, "session-broken:mysql:write:"+op+":"+how, fmt.Sprintf("%s (%.160s)", op, sql), err)
			return false
		}
		rs := rep.First()
		if rs.Err != nil {
			vs.Add("statement-error:mysql:write:"+op+":"+how, "%.200s: %d %q", sql, rs.Err.Code, rs.Err.Message)
			return false
		}
		if rs.OK == nil {
			vs.Add("no-ok:mysql:"+op, "%.200s: answered with a result set", sql)
			return false
		}
		cl["write:"+op+"/"+how] = true
		for _, sp := range rd.spellings {
			cl["spelling:"+sp] = true
		}
		for _, n := range rd.notes {
			cl["value:"+n] = true
		}
		for _, p := range rd.params {
			k := "param-type:" + myTypeName(p.Type)
			if p.Null {
				k += "/null"
			}
			cl[k] = true
		}
		if wr.Prepared && wr.LitEvery > 0 {
			cl["write:prepared-with-literals-mixed-in"] = true
		}
		return true
	}
	full := func(r int) []myprog.Val {
		return append([]myprog.Val{{B: []byte(strconv.Itoa(r + 1))}}, values[r]...)
	}
	decoys := func(r, k int) []myprog.Val {
		out := []myprog.Val{{B: []byte(strconv.Itoa(r + 1))}}
		for i, col := range cols {
			out = append(out, myDecoy(col, r, i, k))
		}
		return out
	}
	var multi []int
	if c.MultiInsert {
		for r, wr := range c.Writes {
			if wr.Op == "insert" && wr.Form != "set" {
				multi = append(multi, r)
			}
		}
	}
	inMulti := map[int]bool{}
	if len(multi) >= 2 {
		for _, r := range multi[1:] {
			inMulti[r] = true
		}
	}
	for r, wr := range c.Writes {
		if inMulti[r] {
			continue
		}
		key := myprog.Val{B: []byte(strconv.Itoa(r + 1))}
		op := wr.Op
		existing := wr.Existing || op == "update"
		if op != "insert" && op != "replace" && op != "update" && op != "ondup" {
			vs.Add("harness:case", "unknown write %q", op)
			return
		}
		if existing && op != "insert" {
			sql, rd := myWriteSQL(tb, MyWrite{Form: "list", Spelling: 3}, "insert", [][]myprog.Val{decoys(r, 0)}, nil, key)
			if !run(MyWrite{}, "insert", sql, rd) {
				return
			}
		}
		var sql string
		var rd *myRendered
		switch op {
		case "insert":
			rows := [][]myprog.Val{full(r)}
			if len(multi) >= 2 && multi[0] == r {
				for _, r2 := range multi[1:] {
					rows = append(rows, full(r2))
				}
				cl["write:multi-row-insert"] = true
			}
			sql, rd = myWriteSQL(tb, wr, op, rows, nil, key)
		case "replace":
			sql, rd = myWriteSQL(tb, wr, op, [][]myprog.Val{full(r)}, nil, key)
			cl["write:replace/"+map[bool]string{true: "existing-key", false: "new-key"}[existing]] = true
		case "update":
			sql, rd = myWriteSQL(tb, wr, op, nil, full(r), key)
		case "ondup":
			if existing {
				sql, rd = myWriteSQL(tb, wr, op, [][]myprog.Val{decoys(r, 1)}, full(r), key)
			} else {
				sql, rd = myWriteSQL(tb, wr, op, [][]myprog.Val{full(r)}, decoys(r, 2), key)
			}
			cl["write:ondup/"+map[bool]string{true: "existing-key", false: "new-key"}[existing]] = true
		}
		if op != "update" {
			cl["write-form:"+wr.Form] = true
		}
		if pr := wr.SQLPrep; pr != nil && op != "ondup" && !wr.Prepared && !(op == "insert" && len(multi) >= 2 && multi[0] == r) {
			// SQL syntax for prepared statements: every value through a user variable named after its column
			wp := wr
			wp.Prepared, wp.LitEvery, wp.LongData = true, 0, false
			text, pd := myWriteSQL(tb, wp, op, [][]myprog.Val{full(r)}, full(r), key)
			var sets, using []string
			lr := &myRendered{}
			for i, v := range pd.pvals {
				name := "@" + myMaskTable + "__" + pd.pcols[i].Name
				if pr.Using {
					name = strings.ToUpper(name)
				}
				var text string
				if !myprog.IsInt(pd.pcols[i].Logical()) && myIsNumber(v) && (wr.Spelling+i)%2 == 0 {
					text = string(v.B)
					lr.spellings = append(lr.spellings, "bare-number")
					lr.notes = append(lr.notes, "number-as-numeric-literal/"+pd.pcols[i].Kind)
				} else {
					sp := (wr.Spelling + i) % 9
					if sp < 0 {
						sp = -sp
					}
					if !pr.Unrestricted {
						// (_binary before the literal of a SET statement: proposed fix 04) hex spellings instead
						if sp >= 6 {
							sp -= 3
						}
						if !v.Null && !utf8.Valid(v.B) && sp < 3 {
							sp += 3
						}
					}
					var spn string
					text, spn = myprog.Literal(v, pd.pcols[i].Logical(), sp)
					lr.spellings = append(lr.spellings, spn)
				}
				sets = append(sets, name+" = "+text)
				using = append(using, name)
			}
			// (proposed fix 03) an empty value of a protected column makes acra give up on the whole SET statement and
			// forward it as it is - with the values of the other variables in clear. Unless the case says otherwise such
			// a row gets one SET per variable.
			separate := pr.Twice
			if !pr.Unrestricted {
				for i, v := range pd.pvals {
					if pd.pcols[i].Protected() && !v.Null && len(v.B) == 0 {
						separate = true
					}
				}
			}
			var stmts []string
			if separate {
				for _, a := range sets {
					stmts = append(stmts, "SET "+a)
				}
			} else {
				stmts = append(stmts, "SET "+strings.Join(sets, ", "))
			}
			quoted, _ := myprog.Literal(myprog.Val{B: []byte(text)}, myprog.LStr, map[bool]int{false: 0, true: 2}[pr.DQuote])
			stmts = append(stmts, "PREPARE "+pr.name(0)+" FROM "+quoted, "EXECUTE "+pr.name(1)+" USING "+strings.Join(using, ", "))
			if pr.Dealloc > 0 {
				stmts = append(stmts, map[int]string{1: "DEALLOCATE", 2: "DROP"}[pr.Dealloc]+" PREPARE "+pr.name(2))
			}
			for i, st := range stmts {
				rdi := &myRendered{}
				if i == 0 {
					rdi = lr // (the spellings of the literals)
				}
				if !run(MyWrite{}, "sql-prepare/"+op, st, rdi) {
					return
				}
			}
			continue
		}
		if !run(wr, op, sql, rd) {
			return
		}
	}
	if ps := s.Panics(); len(ps) > 0 {
		vs.Add("handler-panic:"+hx.PanicFunc(ps[0]), "the connection handler panicked while the owner wrote: %.1500s", ps[0])
		return
	}

	// ---- stored form
	byID := map[string][]mysess.Value{}
	storedRows := s.DB.Store.Rows(myMaskTable)
	for _, row := range storedRows {
		byID[string(row[0].B)] = row
	}
	if len(storedRows) != len(values) || len(byID) != len(values) {
		vs.Add("stored-row-count:mysql", "the database holds %d rows (%d keys), %d were written", len(storedRows), len(byID), len(values))
		return
	}
	cells := make([][]myCellInfo, len(values))
	for r := range values {
		cells[r] = make([]myCellInfo, len(cols))
		row := byID[strconv.Itoa(r+1)]
		if row == nil {
			vs.Add("stored-row-count:mysql", "row %d is not in the database", r+1)
			return
		}
		for i, col := range cols {
			ci := &cells[r][i]
			v := values[r][i]
			st := row[i+1]
			ci.val, ci.stored = v, st
			for _, p := range c.Rows[r][i].Parts {
				ci.hasEnv = ci.hasEnv || p.Env != ""
			}
			if v.Null != st.Null {
				vs.Add("null-changed:mysql:stored", "column %s (%s): written null=%v, stored null=%v", col.Name, col.Kind, v.Null, st.Null)
				ci.skip = true
				continue
			}
			if col.Kind != myprog.KMask {
				if !col.Protected() && !v.Null && !bytes.Equal(v.B, st.B) {
					vs.Add("neighbour-changed:mysql:stored:"+col.Kind, "plain column %s: stored %.60q, written %.60q", col.Name, st.B, v.B)
				}
				continue
			}
			if v.Null {
				cl["value:null"] = true
				continue
			}
			envelope := col.Envelope
			if envelope == "" {
				envelope = fix.KindBlock // the loader's default envelope
			}
			ci.window = col.MaskLen
			ci.win, ci.hidden = split(v.B, col.MaskLen, col.MaskSide)
			ci.want = join(ci.win, []byte(col.MaskPat), col.MaskSide)
			cl["side:"+col.MaskSide], cl["envelope:"+envelope], cl[winClass(col.MaskLen, len(v.B))], cl[patternClass(col.MaskPat)] = true, true, true, true
			cl["layer:mysql-session"] = true
			cl["data-type:"+map[string]string{"": "untyped", myprog.LStr: "str", myprog.LBytes: "bytes"}[col.DataType]] = true
			if col.ByTypeID {
				cl["data-type:declared-by-type-id"] = true
			}
			switch col.ClientID {
			case "":
				cl["column-client:implicit"] = true
			case "alice":
				cl["column-client:explicit-own"] = true
			default:
				cl["column-client:explicit-other"] = true
			}
			if len(v.B) == 0 {
				cl["value:empty"] = true
				if len(st.B) == 0 {
					// nothing to protect: stored as it is, read as it is
					ci.empty = true
					continue
				}
			}
			if col.MaskLen > 0 && col.MaskLen < len(v.B) {
				nontrivial = true
				if !utf8.Valid(ci.win) && utf8.Valid(v.B) {
					cl["window-cuts-code-point"] = true
					if col.DataType == myprog.LStr {
						cl["window-cuts-code-point/str"] = true
					}
				}
			}
			if col.MaskLen == len(v.B)-1 {
				cl["window:len-1"] = true
			}
			if bytes.Contains(v.B, []byte(col.MaskPat)) {
				cl["value:pattern-inside"] = true
			}
			// neighbours in the table
			for _, j := range []int{i - 1, i + 1} {
				if j >= 0 && j < len(cols) {
					switch {
					case cols[j].Kind == myprog.KMask:
						cl["neighbour:masked"] = true
					case cols[j].Protected():
						cl["neighbour:encrypted"] = true
					default:
						cl["neighbour:plain"] = true
					}
				}
			}
			env, pass, ok := storedFormFor(&vs, w, []byte(myOwnerOf(col)), "mysql", v.B, st.B, col.MaskLen, col.MaskSide, envelope)
			if !ok {
				ci.skip = true
				continue
			}
			ci.env, ci.passthrough = env, pass
			ci.inWindow = envelopeStartsInWindow(st.B, len(ci.win), col.MaskSide)
			if ci.inWindow {
				cl["window-starts-envelope"] = true
			}
			if pass {
				cl["hidden-part-already-protected"] = true
			}
		}
	}
	if len(vs) > 0 {
		return
	}

	// ---- every reader, in a session of its own
	for _, reader := range []string{"alice", "bobby", "carol"} {
		s2, err := mysess.Start(mysess.Config{SchemaYAML: yaml, KeyStore: w.KS, ClientID: []byte(reader), Tables: defs, Store: s.DB.Store, ClientCaps: caps})
		if errors.Is(err, mysess.ErrTimeout) {
			inconclusive("starting a reading session")
			return
		}
		if err != nil {
			vs.Add("harness:start2", "%v", err)
			return
		}
		ok := func() bool {
			defer s2.Close()
			// the statements
			type plan struct {
				sql   string
				order []int // table columns in the result
			}
			plans := make([]plan, len(c.Reads))
			for ri, rd := range c.Reads {
				var order []int
				for i := range tb.Cols {
					if !rd.Star && i > 0 && rd.Skip&(1<<(i-1)) != 0 {
						cl["read:subset"] = true
						continue
					}
					order = append(order, i)
				}
				sql := "SELECT * FROM " + myMaskTable
				qual := ""
				if !rd.Star {
					if rd.Reverse {
						for i, j := 0, len(order)-1; i < j; i, j = i+1, j-1 {
							order[i], order[j] = order[j], order[i]
						}
					}
					if rd.Twice {
						for i, col := range cols {
							if col.Kind == myprog.KMask {
								order = append(order, i+1)
								cl["read:column-twice"] = true
								break
							}
						}
					}
					var names []string
					for k, ci := range order {
						n := tb.Cols[ci].Name
						if rd.Alias {
							n = "q." + n
							if k%2 == 0 {
								n += fmt.Sprintf(" AS a%d", k)
							}
						}
						names = append(names, n)
					}
					sql = "SELECT " + strings.Join(names, ", ") + " FROM " + myMaskTable
					if rd.Alias {
						sql += " AS q"
						qual = "q."
					}
				}
				if rd.Prep != nil && rd.Prep.Using {
					sql += " WHERE " + qual + "id <> ?"
				}
				plans[ri] = plan{sql, order}
			}
			// send runs one COM_QUERY (or, binary, COM_STMT_PREPARE + COM_STMT_EXECUTE); nil = stop
			send := func(sql, proto string, binary bool) *mysess.Reply {
				var rep *mysess.Reply
				var err error
				if binary {
					var ps *mysess.Stmt
					ps, err = s2.Prepare(sql)
					if err == nil && ps.Err != nil {
						vs.Add("statement-error:mysql:read:prepare", "COM_STMT_PREPARE %q by %s: %d %q", sql, reader, ps.Err.Code, ps.Err.Message)
						return nil
					}
					if err == nil {
						rep, err = s2.Execute(ps, nil)
					}
				} else {
					rep, err = s2.Query(sql)
				}
				if debug {
					fmt.Printf("READ by %s (%s) %s\n", reader, proto, sql)
					recv := s2.DB.Received()
					if len(recv) > 0 {
						fmt.Printf("   DB got %s %.300s\n", recv[len(recv)-1].Kind, recv[len(recv)-1].SQL)
					}
				}
				if errors.Is(err, mysess.ErrTimeout) {
					inconclusive("reading")
					return nil
				}
				if err != nil {
					what := fmt.Sprintf("%s read by %s (%s)", proto, reader, sql)
					if errors.Is(err, mysess.ErrMalformed) {
						if ps := s2.Panics(); len(ps) == 0 {
							vs.Add("malformed-reply:mysql:"+proto, "%s: %v", what, err)
							return nil
						}
					}
					broken(s2, "session-broken:mysql:read:"+proto, what, err)
					return nil
				}
				return rep
			}
			// command: a statement that is answered with OK (PREPARE, SET, DEALLOCATE)
			command := func(sql string) bool {
				rep := send(sql, "sql-prepare", false)
				if rep == nil {
					return false
				}
				if rs := rep.First(); rs.Err != nil || rs.OK == nil {
					vs.Add("statement-error:mysql:read:sql-prepare", "%q by %s was not answered with OK: %v", sql, reader, rs.Err)
					return false
				}
				return true
			}
			// rows judges a result set that must hold the columns of pl
			rows := func(pl plan, rep *mysess.Reply, proto, sql string) {
				rs := rep.First()
				if rs.Err != nil {
					vs.Add("statement-error:mysql:read:"+proto, "%q by %s: %d %q", sql, reader, rs.Err.Code, rs.Err.Message)
					return
				}
				order := pl.order
				if rs.OK != nil || len(rep.Sets) != 1 || len(rs.Fields) != len(order) {
					vs.Add("no-result-set:mysql:read", "%q by %s: %d result sets, %d fields, want %d", sql, reader, len(rep.Sets), len(rs.Fields), len(order))
					return
				}
				if len(rs.Rows) != len(values) {
					vs.Add("row-count:mysql:read", "%s got %d rows, %d stored (%s)", reader, len(rs.Rows), len(values), sql)
					return
				}
				idPos := 0 // position of the key in the result
				for k, ci := range order {
					if ci == 0 {
						idPos = k
					}
				}
				if debug {
					for _, f := range rs.Fields {
						fmt.Printf("   field %s/%s %s\n", f.Name, f.OrgName, myTypeName(f.Type))
					}
					for _, row := range rs.Rows {
						fmt.Printf("   row %.80q\n", row)
					}
				}
				seen := map[int]bool{}
				for _, row := range rs.Rows {
					id, derr := myprog.Decode(row[idPos], rs.Fields[idPos].Type, rs.Binary)
					r, perr := strconv.Atoi(string(id.B))
					r--
					if derr != nil || perr != nil || id.Null || r < 0 || r >= len(values) || seen[r] {
						vs.Add("neighbour-changed:mysql:id", "%s received the key %v (%s, %v)", reader, row[idPos], myTypeName(rs.Fields[idPos].Type), derr)
						continue
					}
					seen[r] = true
					for k, ci := range order {
						if ci > 0 {
							myCheckCell(&vs, cl, w, c, cols[ci-1], cells[r][ci-1], row[k], rs.Fields[k], rs.Binary, reader)
						}
					}
				}
			}
			// SQL-level prepared statements of the connection, as MySQL keeps them: lower-cased name -> read whose
			// SELECT is registered under it
			registered := map[string]int{}
			prepare := func(ri int) bool {
				pr := c.Reads[ri].Prep
				text, _ := myprog.Literal(myprog.Val{B: []byte(plans[ri].sql)}, myprog.LStr, map[bool]int{false: 0, true: 2}[pr.DQuote])
				if pr.FromVar != "" {
					if !command("SET @" + pr.FromVar + " = " + text) {
						return false
					}
					text = "@" + pr.FromVar
					cl["read:sql-prepare/text-from-variable"] = true
					if pr.FromVar != strings.ToLower(pr.FromVar) {
						cl["read:sql-prepare/text-from-variable/capitals-in-its-name"] = true
					}
				}
				if !command("PREPARE " + pr.name(0) + " FROM " + text) {
					return false
				}
				key := strings.ToLower(pr.Name)
				if _, ok := registered[key]; ok {
					cl["read:sql-prepare/name-prepared-again-replaces"] = true
				}
				registered[key] = ri
				return true
			}
			used := map[string]bool{} // names that were deallocated once
			if c.PrepFirst {
				n := 0
				for ri, rd := range c.Reads {
					if rd.Prep != nil {
						if !prepare(ri) {
							return false
						}
						n++
					}
				}
				if n >= 2 {
					cl["read:sql-prepare/several-prepared-before-the-first-is-executed"] = true
				}
			}
			for ri, rd := range c.Reads {
				pl := plans[ri]
				if rd.Prep == nil {
					proto := "text"
					if rd.Binary {
						proto = "binary"
					}
					rep := send(pl.sql, proto, rd.Binary)
					if rep == nil {
						return false
					}
					cl["read:"+proto] = true
					rows(pl, rep, proto, pl.sql)
				} else {
					pr := rd.Prep
					key := strings.ToLower(pr.Name)
					if !c.PrepFirst {
						if used[key] {
							cl["read:sql-prepare/name-reused-after-deallocate"] = true
						}
						if !prepare(ri) {
							return false
						}
					}
					// the statement that runs is the one registered under the name now
					cur, ok := registered[key]
					if !ok {
						cl["read:sql-prepare/deallocated-by-a-namesake(not executed)"] = true
						continue
					}
					exec := "EXECUTE " + pr.name(1)
					if c.Reads[cur].Prep.Using {
						if !command("SET @k = 0") {
							return false
						}
						exec += " USING @k"
						cl["read:sql-prepare/using-variable"] = true
					}
					for n := 0; n < 1 || (n < 2 && pr.Twice); n++ {
						rep := send(exec, "sql-prepare", false)
						if rep == nil {
							return false
						}
						rows(plans[cur], rep, "sql-prepare", exec+" <- "+plans[cur].sql)
					}
					cl["read:sql-prepare"] = true
					for k, use := range []string{"prepare", "execute", "deallocate"} {
						if k == 2 && pr.Dealloc == 0 {
							continue
						}
						sp := 0
						if k < len(pr.Spell) {
							sp = pr.Spell[k]
						}
						what := map[int]string{0: "as-it-is", 1: "lower-case", 2: "upper-case"}[sp&3]
						if pr.Name == strings.ToLower(pr.Name) && sp&3 != 2 {
							what = "lower-case"
						}
						if sp&4 != 0 {
							what += "/back-quoted"
						}
						cl["read:sql-prepare/name-in-"+use+":"+what] = true
					}
					if pr.Dealloc > 0 {
						if !command(map[int]string{1: "DEALLOCATE", 2: "DROP"}[pr.Dealloc] + " PREPARE " + pr.name(2)) {
							return false
						}
						delete(registered, key)
						used[key] = true
						cl["read:sql-prepare/deallocate"] = true
					}
				}
				if rd.Star {
					cl["read:star"] = true
				} else {
					cl["read:list"] = true
				}
				if rd.Alias {
					cl["read:alias"] = true
				}
			}
			return true
		}()
		if ps := s2.Panics(); len(ps) > 0 && len(vs) == 0 {
			vs.Add("handler-panic:"+hx.PanicFunc(ps[0]), "the connection handler of %s panicked: %.1500s", reader, ps[0])
		}
		if !ok {
			return
		}
		cl["reader:"+reader] = true

		// ---- byte search in everything this reader received
		_, recv := s2.ClientStreams()
		// what the reader may legitimately receive
		var legit []byte
		for r := range values {
			for i, col := range cols {
				ci := cells[r][i]
				switch {
				case ci.val.Null:
				case !col.Protected() || myOwnerOf(col) == reader:
					legit = append(append(legit, ci.val.B...), 0)
				case col.Kind == myprog.KMask:
					legit = append(append(legit, ci.want...), 0)
				default:
					legit = append(append(legit, ci.stored.B...), 0)
				}
			}
		}
		for r := range values {
			for i, col := range cols {
				ci := cells[r][i]
				if col.Kind != myprog.KMask || ci.val.Null || ci.skip || ci.empty || myOwnerOf(col) == reader {
					continue
				}
				if ci.passthrough && readerCanOpen(w, []byte(reader), ci.hidden) {
					continue
				}
				for _, mk := range markersIn(ci.hidden) {
					if bytes.Count(everything, mk) > 1 || bytes.Contains(legit, mk) {
						continue
					}
					for _, e := range encodings(mk) {
						if bytes.Contains(recv, e) {
							vs.Add("hidden-plaintext-leaked:mysql", "the bytes %s received contain the marker %s of the hidden part of %s", reader, mk, col.Name)
						}
					}
				}
				if ci.env != nil {
					// bytes that also occur in another stored value are envelope structure (container / AcraBlock / Secure
					// Cell headers are the same in every envelope), no evidence that THIS envelope went out
					expected := append([]byte{}, legit...)
					for r2 := range values {
						for i2 := range cols {
							if r2 != r || i2 != i {
								expected = append(append(expected, cells[r2][i2].stored.B...), 0)
							}
						}
					}
					if at, found := leakStride(recv, ci.env, expected, 16, 3); found && ci.inWindow {
						addKnown(&vs, "window-envelope-masked:session", "the bytes %s received contain 16 bytes of the stored envelope of %s (offset %d): an envelope-shaped piece starts inside the clear window (MySQL)", reader, col.Name, at)
					} else if found {
						vs.Add("ciphertext-leaked:mysql", "the bytes %s received contain 16 bytes of the stored envelope of %s (offset %d of %d)", reader, col.Name, at, len(ci.env))
					}
				}
			}
		}
		if len(vs) > 0 {
			return
		}
	}
	return
}

// myCheckCell judges one received cell by its own column.
func myCheckCell(vs *hx.Vs, cl map[string]bool, w *fix.World, c MyMaskCase, col myprog.ColSpec, ci myCellInfo, raw mysess.Value, f mysess.ColumnDef, binaryProto bool, reader string) {
	proto := "text"
	if binaryProto {
		proto = "binary"
	}
	owner := myOwnerOf(col) == reader
	if ci.skip {
		return
	}
	if ci.val.Null {
		if !raw.Null {
			vs.Add("null-changed:mysql:read", "NULL in column %s (%s) came back to %s as %.40q", col.Name, col.Kind, reader, raw.B)
		}
		return
	}
	if raw.Null {
		vs.Add("null-changed:mysql:read", "the value of column %s (%s) came back to %s as NULL", col.Name, col.Kind, reader)
		return
	}
	if col.Kind != myprog.KMask && ci.hasEnv {
		// (never generated: a whole envelope in a neighbour column is revealed to whoever holds its keys - C01's subject)
		return
	}
	switch {
	case !col.Protected():
		got, err := myprog.Decode(raw, f.Type, binaryProto)
		if err != nil || !myprog.Same(got, ci.val) {
			vs.Add("neighbour-changed:mysql:"+col.Kind, "plain column %s came back to %s (%s) as %.60q (%s, %v), written %.60q", col.Name, reader, proto, raw.B, myTypeName(f.Type), err, ci.val.B)
		}
		return
	case col.Kind != myprog.KMask:
		// an encrypted neighbour: the value for its owner; for the others what C04 / C19 say - here only that no marker
		// of it arrives and that a column without declared type comes as stored
		if owner {
			if !bytes.Equal(raw.B, ci.val.B) {
				vs.Add("neighbour-changed:mysql:"+col.Kind+":owner", "encrypted column %s came back to its owner %s (%s) as %.60q, written %.60q", col.Name, reader, proto, raw.B, ci.val.B)
			}
			return
		}
		for _, mk := range markersIn(ci.val.B) {
			if bytes.Contains(raw.B, mk) {
				vs.Add("neighbour-changed:mysql:"+col.Kind+":plaintext-to-non-owner", "encrypted column %s delivered its plaintext marker to %s (%s)", col.Name, reader, proto)
				return
			}
		}
		if col.Kind == myprog.KEnc && !bytes.Equal(raw.B, ci.stored.B) {
			vs.Add("neighbour-changed:mysql:"+col.Kind+":non-owner", "encrypted column %s without declared type came back to %s (%s) as %d bytes %.40q, the database holds %d bytes %.40q", col.Name, reader, proto, len(raw.B), raw.B, len(ci.stored.B), ci.stored.B)
		}
		return
	}
	// a masked column
	out := raw.B
	cl[fmt.Sprintf("cell:%s/%s/%s", myReaderClass(owner), proto, winClass(ci.window, len(ci.val.B)))] = true
	cl[fmt.Sprintf("cell:%s/%s/%s", reader, myReaderClass(owner), col.MaskSide)] = true
	if !owner {
		cl["non-owner-sees-type:"+myTypeName(f.Type)] = true
	}
	if ci.empty {
		if len(out) != 0 {
			vs.Add("empty-changed:mysql", "the empty value of %s came back to %s (%s) as %.40q", col.Name, reader, proto, out)
		}
		return
	}
	detail := fmt.Sprintf("%s, data_type %q, on_fail %q, client_id %q, %s protocol, window %d of %d, side %s", col.Name, col.DataType, col.OnFail, col.ClientID, proto, ci.window, len(ci.val.B), col.MaskSide)
	if owner {
		if ci.passthrough {
			return // what an application-side envelope reveals is C01's matter
		}
		if !bytes.Equal(out, ci.val.B) && ci.inWindow {
			addKnown(vs, "window-envelope-masked:session", "owner %s wrote %d bytes and got %d bytes back: an envelope-shaped piece starts inside the clear window (%s)", reader, len(ci.val.B), len(out), detail)
		} else if !bytes.Equal(out, ci.val.B) {
			vs.Add("owner-read-differs:mysql", "owner %s got %d bytes %.40q, wrote %d bytes %.40q (%s)", reader, len(out), out, len(ci.val.B), ci.val.B, detail)
		}
		return
	}
	if ci.passthrough && readerCanOpen(w, []byte(reader), ci.hidden) {
		cl["hidden-part-is-readers-own-envelope"] = true
		return
	}
	if len(ci.hidden) > 0 {
		// not with an envelope-shaped piece inside the clear window: the reader may open its own envelope there, and
		// what that reveals can share 4 bytes with the hidden part (all markers start alike); the marker search over
		// the whole stream and the exact known-finding branch below stay
		if at, found := leak(out, ci.hidden, append(append([]byte{}, ci.want...), ci.env...), 4); found && !ci.inWindow {
			vs.Add("hidden-plaintext-leaked:mysql", "%s received 4 bytes of the hidden part (offset %d of %d): %.60q (%s)", reader, at, len(ci.hidden), out, detail)
		}
	}
	if ci.env != nil {
		if at, found := leak(out, ci.env, ci.want, 8); found && ci.inWindow {
			addKnown(vs, "window-envelope-masked:session", "%s received 8 bytes of the stored envelope (offset %d): an envelope-shaped piece starts inside the clear window (%s)", reader, at, detail)
		} else if found {
			vs.Add("ciphertext-leaked:mysql", "%s received 8 bytes of the stored envelope (offset %d of %d) (%s)", reader, at, len(ci.env), detail)
		}
	}
	if !bytes.Equal(out, ci.want) && ci.inWindow {
		addKnown(vs, "window-envelope-masked:session", "%s got %d bytes, window||pattern has %d: an envelope-shaped piece starts inside the clear window (%s)", reader, len(out), len(ci.want), detail)
	} else if !bytes.Equal(out, ci.want) {
		vs.Add("masked-read-differs:mysql", "%s got %d bytes %.60q, want window||pattern = %d bytes %.60q (%s)", reader, len(out), out, len(ci.want), ci.want, detail)
	}
}

func TestMaskSessionsMySQL(t *testing.T) {
	masks, typed := myCombos()
	R.Rule("TestMaskSessionsMySQL", fmt.Sprintf("one MySQL table with 1-3 masked columns drawn from the %d combinations MapTableSchemaStoreFromConfig(UseMySQL) accepts (acrastruct / acrablock / default envelope, untyped / data_type str / bytes by name or MySQL type id, failure policies, client_id absent / the connection's / another identity's) with generated pattern, side and window (0, inside, len-1, len, len+1, absolute; relative to the value of row 0) and 0-3 plain (VARCHAR, BLOB, INT) or encrypted (untyped, %d typed str/bytes combinations) columns at generated positions; 1-3 rows of generated values (unique markers, bytes >= 0x80, UTF-8, tag runs, bogus container headers, copies of the pattern, whole envelopes of alice / bobby, SQL-lexical bytes, numbers (also spelled as numeric literals / sent as integer parameters), the empty value, NULL; text-safe parts for str columns) written by alice through acra's real MySQL proxy: INSERT (column list in table or reverse order / no list / SET form / multi-row), REPLACE and INSERT ... ON DUPLICATE KEY UPDATE on new and existing keys, UPDATE over a decoy row; COM_QUERY with literals in the nine MySQL spellings acra's grammar reads or COM_STMT_PREPARE + COM_STMT_EXECUTE with generated parameter types (literals mixed in), with or without CLIENT_DEPRECATE_EOF (with VERIF_C11_LONGDATA also parameters supplied by COM_STMT_SEND_LONG_DATA - the proposed open finding long-data-parameter:mysql); then alice, bobby and carol each read everything in a session of their own over the same fake database, text and / or binary protocol, star / list in table or reverse order / a subset of the columns / a column twice / aliases, or through the SQL syntax for prepared statements sent with COM_QUERY: PREPARE <name> FROM '<select>' | the same in double quotes | @variable (SET before), EXECUTE <name> [USING @k] (once or twice), DEALLOCATE | DROP PREPARE <name>, with statement names from a small pool spelled anew at every use (as written / lower / upper case, back-quoted), names reused after DEALLOCATE, prepared again without DEALLOCATE, all PREPAREs sent before the first EXECUTE; the statement that runs is the one MySQL has under the name at that moment. Writes of one row also as SET @masked__<column> = <literal> (one SET or one per variable, variable names in lower or upper case); PREPARE <name> FROM 'INSERT | REPLACE | UPDATE with placeholders'; EXECUTE <name> USING the variables. (With VERIF_C11_SQLPREP the shapes of proposed fixes 02-04: capitals in the name of the variable that holds the statement text, an empty protected value in a SET of several variables, _binary literals in SET.) In one case of three the configuration file spells plaintext_side of the masked columns the hand-written way (Capitalised / UPPER / alternating case, quoted, blanks inside the quotes): a file MapTableSchemaStoreFromConfig(UseMySQL) accepts is the configuration of all sessions of the case and the columns are judged by the side the spelling MEANS, a file it refuses (a correct outcome) is replaced by the documented spelling. Oracle per cell, by the cell's own column (its owner = the column's client_id or the writing connection): stored form = clear window + one container of the configured kind that the owner's keys open (library) to the rest, whole value inside when len <= window; owner reads the original; the others read exactly window||pattern / pattern||window / pattern; no 4-byte slice of the hidden part and no 8-byte slice of the stored envelope in the cell; no marker of a hidden part (raw, hex, base64, octal) and no 16-byte slice of a stored envelope anywhere in the bytes a non-owner received; NULL stays NULL, the empty value stays empty; plain neighbours unchanged for everybody, encrypted neighbours readable by their owner, never in plaintext for others, untyped ones as stored; no statement error, no handler panic, no closed session. Non-trivial = some masked cell with 0 < window < len (every case is read by two readers that do not own it)", len(masks), len(typed)))
	hx.Checks(50, 1200)
	rapid.Check(t, func(rt *rapid.T) {
		c := genMyMaskCase(rt)
		vs, nt, cl := CheckMaskMySQL(c)
		R.Seen("TestMaskSessionsMySQL", c, nt, cl...)
		R.Report(rt, "TestMaskSessionsMySQL", c, vs)
	})
}
