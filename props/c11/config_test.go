package c11

// Configuration layer: the masked column is configured the way people write encryptor configs by hand. The YAML
// text is generated - every scalar option of the column in one of the spellings a hand-written file may use
// (letter case, quoting style, blanks inside the quotes, the YAML spellings of an integer, option lines in any
// order, the envelope named at the column / in the defaults section / not at all, a second masked column with the
// opposite settings next to it) - and given to the real loader, config.MapTableSchemaStoreFromConfig.
//
// What a spelling means is fixed here, by the reference, independent of acra and of the YAML library: an
// enumerated word means the documented word it equals after trimming blanks and folding letter case ("Left",
// "LEFT", " left " mean left; "lefty", "start", "" mean nothing), an integer means its number ("+4", "0x4", "4.0"
// mean 4).
//
// The loader may refuse any configuration (refusing is a correct outcome; only the plain documented spelling must
// load). A configuration it accepts must behave as configured: the setting it hands out is run through the masking
// encryptor and the proxies' read chain and judged by the oracle of TestMaskComponent with the MEANING of the
// options - side, length, pattern, envelope.

import (
	"fmt"
	"strings"
	"testing"

	"pgregory.net/rapid"

	"github.com/cossacklabs/acra/encryptor/base/config"

	"verif/internal/fix"
	"verif/internal/hx"
)

// Spell is how a hand-written configuration spells an enumerated word.
type Spell struct {
	Case  int `json:"case,omitempty"`  // 0 as documented (lower case), 1 Capitalised, 2 UPPER CASE, 3 aLtErNaTiNg
	Pad   int `json:"pad,omitempty"`   // blanks that belong to the scalar (quoted styles only): 1 in front, 2 behind, 3 both
	Quote int `json:"quote,omitempty"` // YAML style: 0 plain, 1 "double-quoted", 2 'single-quoted'
}

// Content is the string the scalar holds (what a YAML reader hands to the application).
func (s Spell) Content(word string) string {
	switch s.Case {
	case 1:
		if len(word) > 0 {
			word = strings.ToUpper(word[:1]) + word[1:]
		}
	case 2:
		word = strings.ToUpper(word)
	case 3:
		b := []byte(word)
		for i := 1; i < len(b); i += 2 {
			b[i] = strings.ToUpper(string(b[i]))[0]
		}
		word = string(b)
	}
	if s.Quote != 0 {
		if s.Pad&1 != 0 {
			word = " " + word
		}
		if s.Pad&2 != 0 {
			word = word + " "
		}
	}
	return word
}

// YAML is the scalar as written in the file.
func (s Spell) YAML(word string) string {
	c := s.Content(word)
	switch s.Quote {
	case 1:
		return `"` + c + `"`
	case 2:
		return `'` + c + `'`
	}
	if c == "" {
		return `""` // a plain scalar cannot be empty
	}
	return c
}

// Documented: the spelling is the documented one (quoting does not change a scalar).
func (s Spell) Documented() bool { return s.Case == 0 && (s.Pad == 0 || s.Quote == 0) }

// meaning: the documented word that content stands for, "" when it stands for none.
func meaning(content string, words ...string) string {
	f := strings.ToLower(strings.TrimSpace(content))
	for _, w := range words {
		if f == w {
			return w
		}
	}
	return ""
}

func genSpell(t *rapid.T, label string, documentedOf, of int) Spell {
	var s Spell
	s.Quote = rapid.SampledFrom([]int{0, 0, 1, 2}).Draw(t, label+".quote")
	if rapid.IntRange(1, of).Draw(t, label+".documented") <= documentedOf {
		return s
	}
	s.Case = rapid.SampledFrom([]int{1, 1, 2, 2, 3, 0}).Draw(t, label+".case")
	if s.Case == 0 || rapid.IntRange(0, 4).Draw(t, label+".padded") == 0 {
		s.Pad = rapid.IntRange(1, 3).Draw(t, label+".pad")
		if s.Quote == 0 {
			s.Quote = 1
		}
	}
	return s
}

// lenYAML spells the integer n: 0 decimal, 1 with a plus sign, 2 hexadecimal, 3 with a zero fraction, 4 decimal in
// quotes, 5 decimal with a comment behind it.
func lenYAML(n, style int) string {
	switch style {
	case 1:
		return fmt.Sprintf("+%d", n)
	case 2:
		return fmt.Sprintf("0x%x", n)
	case 3:
		return fmt.Sprintf("%d.0", n)
	case 4:
		return fmt.Sprintf(`"%d"`, n)
	case 5:
		return fmt.Sprintf("%d   # bytes", n)
	}
	return fmt.Sprintf("%d", n)
}

// patternYAML writes the pattern double-quoted (0) or single-quoted (1). (The generated patterns are printable
// text: both styles hold them exactly.)
func patternYAML(p string, style int) string {
	if style == 1 {
		return `'` + strings.ReplaceAll(p, `'`, `''`) + `'`
	}
	return `"` + strings.NewReplacer(`\`, `\\`, `"`, `\"`).Replace(p) + `"`
}

// words that are no side
var noSides = []string{"lefty", "l", "start", "end", "both", "true", "0", "left,right", ""}

// ConfCase is a Case whose masked column comes out of a generated configuration file.
type ConfCase struct {
	// Case: what the configuration means (pattern, window, side, envelope), the value and the reader
	Case
	DB string `json:"db"` // loader flavour: mysql | postgresql
	// SideWord: written instead of the side when not empty ("-" = the empty string): a word that means no side
	SideWord  string `json:"side_word,omitempty"`
	SideSpell Spell  `json:"side_spell"`
	// EnvPlace: where the envelope is named: column | defaults | absent (then the documented default, acrablock,
	// is what the configuration means; Envelope is ignored)
	EnvPlace  string `json:"env_place"`
	EnvSpell  Spell  `json:"env_spell"`
	LenStyle  int    `json:"len_style,omitempty"`
	PatStyle  int    `json:"pat_style,omitempty"`
	DataType  string `json:"data_type,omitempty"` // "", str, bytes
	Order     int    `json:"order,omitempty"`     // rotation of the option lines of the column
	Neighbour int    `json:"neighbour,omitempty"` // 1 / 2: a second masked column (opposite side, other pattern and length) before / behind
}

func genConfCase(t *rapid.T) ConfCase {
	c := ConfCase{Case: genCase(t)}
	c.Pattern = rapid.SampledFrom(sessPatterns).Draw(t, "conf.pattern")
	c.DB = rapid.SampledFrom([]string{"mysql", "postgresql"}).Draw(t, "conf.db")
	c.SideSpell = genSpell(t, "conf.side", 5, 10)
	if rapid.IntRange(0, 14).Draw(t, "conf.noside") == 0 {
		c.SideWord = rapid.SampledFrom(noSides).Draw(t, "conf.sideword")
		if c.SideWord == "" {
			c.SideWord = "-"
		}
	}
	c.EnvPlace = rapid.SampledFrom([]string{"column", "column", "defaults", "absent"}).Draw(t, "conf.envplace")
	if c.EnvPlace == "absent" {
		c.Envelope = fix.KindBlock
	} else {
		c.EnvSpell = genSpell(t, "conf.env", 5, 6)
	}
	c.LenStyle = rapid.SampledFrom([]int{0, 0, 0, 1, 2, 3, 4, 5}).Draw(t, "conf.lenstyle")
	c.PatStyle = rapid.IntRange(0, 1).Draw(t, "conf.patstyle")
	c.DataType = rapid.SampledFrom([]string{"", "", "", "str", "bytes"}).Draw(t, "conf.datatype")
	c.Order = rapid.IntRange(0, 4).Draw(t, "conf.order")
	c.Neighbour = rapid.SampledFrom([]int{0, 0, 1, 2}).Draw(t, "conf.neighbour")
	return c
}

func (c ConfCase) sideWord() string {
	switch c.SideWord {
	case "":
		return c.Side
	case "-":
		return ""
	}
	return c.SideWord
}

func (c ConfCase) envelope() string {
	if c.EnvPlace == "absent" {
		return fix.KindBlock
	}
	return c.Envelope
}

// yaml renders the configuration file for window bytes of plaintext.
func (c ConfCase) yaml(window int) string {
	var b strings.Builder
	if c.EnvPlace == "defaults" {
		fmt.Fprintf(&b, "defaults:\n  crypto_envelope: %s\n", c.EnvSpell.YAML(c.Envelope))
	}
	b.WriteString("schemas:\n  - table: t\n    columns:\n      - id\n")
	names := []string{"c"}
	switch c.Neighbour {
	case 1:
		names = []string{"d", "c"}
	case 2:
		names = []string{"c", "d"}
	}
	for _, n := range names {
		fmt.Fprintf(&b, "      - %s\n", n)
	}
	b.WriteString("    encrypted:\n")
	for _, n := range names {
		if n == "d" {
			other := "left"
			if c.Side == "left" {
				other = "right"
			}
			fmt.Fprintf(&b, "      - column: d\n        masking: \"<neighbour>\"\n        plaintext_length: %d\n        plaintext_side: %s\n", window/2+3, other)
			continue
		}
		lines := []string{
			"masking: " + patternYAML(c.Pattern, c.PatStyle),
			"plaintext_length: " + lenYAML(window, c.LenStyle),
			"plaintext_side: " + c.SideSpell.YAML(c.sideWord()),
		}
		if c.EnvPlace == "column" {
			lines = append(lines, "crypto_envelope: "+c.EnvSpell.YAML(c.Envelope))
		}
		if c.DataType != "" {
			lines = append(lines, "data_type: "+c.DataType)
		}
		b.WriteString("      - column: c\n")
		k := c.Order % len(lines)
		if k < 0 {
			k = 0
		}
		for _, l := range append(append([]string{}, lines[k:]...), lines[:k]...) {
			b.WriteString("        " + l + "\n")
		}
	}
	return b.String()
}

// CheckConfig runs the case.
func CheckConfig(c ConfCase) (vs hx.Vs, nontrivial bool, classes []string) {
	var extra []string
	accepted := false
	inner := c.Case
	inner.Envelope = c.envelope()
	sideMeans := meaning(c.SideSpell.Content(c.sideWord()), "left", "right")
	envMeans := c.envelope()
	if c.EnvPlace != "absent" {
		envMeans = meaning(c.EnvSpell.Content(c.Envelope), fix.KindStruct, fix.KindBlock)
	}
	documented := c.SideWord == "" && c.SideSpell.Documented() && (c.EnvPlace == "absent" || c.EnvSpell.Documented()) && c.LenStyle == 0
	vs, nontrivial, classes = checkMasked(inner, "config", func(vs *hx.Vs, window int) (config.ColumnEncryptionSetting, string, string) {
		y := c.yaml(window)
		var store *config.MapTableSchemaStore
		var err error
		if hx.Guard(vs, "config-loader", func() { store, err = config.MapTableSchemaStoreFromConfig([]byte(y), c.DB == "mysql") }) {
			return nil, "", ""
		}
		spelling := "spelling:documented"
		if !documented {
			spelling = "spelling:hand-written"
		}
		extra = append(extra, "db:"+c.DB, spelling, fmt.Sprintf("side-spelling:case-%d/pad-%d/quote-%d", c.SideSpell.Case, c.SideSpell.Pad, c.SideSpell.Quote),
			fmt.Sprintf("length-spelling:%d", c.LenStyle), "envelope-at:"+c.EnvPlace, "data-type:"+map[string]string{"": "untyped", "str": "str", "bytes": "bytes"}[c.DataType])
		if sideMeans == "" {
			extra = append(extra, "side:no-side-word")
		}
		if err != nil {
			extra = append(extra, "config:refused", "config:refused/"+spelling)
			// the documented spelling of an untyped masked column is the one configuration that has to load
			if documented && c.DataType == "" {
				vs.Add("documented-config-refused:config", "the loader (%s) refuses a masked column in the documented spelling: %v\n%s", c.DB, err, y)
			}
			return nil, "", ""
		}
		extra = append(extra, "config:accepted", "config:accepted/"+spelling)
		var setting config.ColumnEncryptionSetting
		if ts := store.GetTableSchema("t"); ts != nil {
			setting = ts.GetColumnEncryptionSettings("c")
		}
		if setting == nil {
			vs.Add("setting-lost:config", "the loader accepts the configuration and has no setting for column c of table t\n%s", y)
			return nil, "", ""
		}
		if sideMeans == "" {
			vs.Add("no-side-accepted:config", "the loader accepts plaintext_side %q, which names no side\n%s", c.SideSpell.Content(c.sideWord()), y)
			return nil, "", ""
		}
		if envMeans == "" {
			vs.Add("no-envelope-accepted:config", "the loader accepts crypto_envelope %q, which names no envelope\n%s", c.EnvSpell.Content(c.Envelope), y)
			return nil, "", ""
		}
		accepted = true
		return setting, sideMeans, envMeans
	})
	classes = append(classes, extra...)
	nontrivial = nontrivial && accepted
	return
}

func TestMaskConfig(t *testing.T) {
	R.Rule("TestMaskConfig", "the masked column of TestMaskComponent configured through a generated encryptor configuration FILE given to the real loader (MapTableSchemaStoreFromConfig, MySQL and PostgreSQL flavour): plaintext_side and crypto_envelope in hand-written spellings (lower case as documented, Capitalised, UPPER, aLtErNaTiNg; plain / double- / single-quoted; blanks inside the quotes; now and then a word that names no side), plaintext_length as decimal / +n / hexadecimal / n.0 / quoted / with a comment, the pattern double- or single-quoted, option lines in any rotation, the envelope at the column / in the defaults section / absent (= acrablock), untyped / data_type str / bytes, optionally a second masked column with the opposite side before or behind. The reference fixes what a spelling means (trim + fold case against the documented words; the number an integer spelling denotes), independent of acra and the YAML library. Oracle: the loader may refuse anything but the documented spelling of an untyped column; a configuration it ACCEPTS must name a side and an envelope and its setting, run through masking.NewMaskingDataEncryptor and the proxies' read chain, must satisfy the oracle of TestMaskComponent for the MEANT side, length, pattern and envelope (stored form, owner reads the original, others exactly window||pattern, no hidden plaintext / ciphertext bytes). Non-trivial = accepted, 0 < window < len, reader is not the owner")
	hx.Checks(400, 10000)
	rapid.Check(t, func(rt *rapid.T) {
		c := genConfCase(rt)
		vs, nt, cl := CheckConfig(c)
		R.Seen("TestMaskConfig", c, nt, cl...)
		R.Report(rt, "TestMaskConfig", c, vs)
	})
}
