package c11

import (
	"bytes"
	"encoding/base64"
	"encoding/hex"
	"errors"
	"fmt"
	"strings"
	"testing"
	"unicode/utf8"

	"pgregory.net/rapid"

	"github.com/cossacklabs/acra/encryptor/base/config"

	"verif/internal/fix"
	"verif/internal/gen"
	"verif/internal/hx"
	"verif/internal/pgprog"
	"verif/internal/pgsess"
)

// SessCase: one table with masked columns; the owner inserts rows through acra's PostgreSQL proxy, then every
// kind of reader selects them in a session of its own over the same database.
type SessCase struct {
	Cols []pgprog.ColSpec `json:"cols"` // masked columns (mask_len is resolved from Wins at run time)
	Wins []Win            `json:"wins"` // window of column i, relative to the length of its value in row 0
	Rows [][][]Part       `json:"rows"` // Rows[r][c]: parts of the value; empty = NULL
	// write options (see pgprog.Step)
	Write pgprog.Step `json:"write"`
	// read options
	ReadExt   bool  `json:"read_ext,omitempty"`
	ResultFmt int16 `json:"result_fmt,omitempty"`
	Star      bool  `json:"star,omitempty"`
	// SideSpell[i]: how the configuration file spells plaintext_side of column i (absent = as documented). A file
	// the loader refuses because of such a spelling is replaced by the documented spelling (see spelledYAML)
	SideSpell []Spell `json:"side_spell,omitempty"`
}

var sessPatterns = []string{"*", "xxxx", "MASK", "x y", "%%%", "%", `"`, `""""""""`, `%%%"""`, "0123456789012345678901234567890123456789", "маска"}

func genTextPart(t *rapid.T, label string) Part {
	switch rapid.IntRange(0, 7).Draw(t, label+".what") {
	case 0, 1, 2, 3:
		m := gen.Marker(t, label)
		return Part{Raw: m[:20]} // "MRK" + 16 hex digits + "#"
	case 4:
		return Part{Pattern: true}
	case 5:
		sym := rapid.SampledFrom([]byte{'"', '%'}).Draw(t, label+".sym")
		return Part{Raw: bytes.Repeat([]byte{sym}, rapid.IntRange(1, 9).Draw(t, label+".nsym"))}
	case 6:
		return Part{Raw: gen.Hex(rapid.SampledFrom([]string{"ünï", "日本語テキスト", "'quote", `back\slash`, "\n", "$1", ";--", " ", "ж"}).Draw(t, label+".s"))}
	}
	return Part{Raw: gen.Hex(rapid.StringMatching(`[a-zA-Z0-9 ]{1,40}`).Draw(t, label+".ascii"))}
}

func genSessCase(t *rapid.T) SessCase {
	var c SessCase
	n := rapid.IntRange(1, 3).Draw(t, "ncols")
	for i := 0; i < n; i++ {
		name := fmt.Sprintf("m%d", i)
		col := pgprog.GenCol(t, name, []string{pgprog.KMask}, "alice")
		col.MaskPat = rapid.SampledFrom(sessPatterns).Draw(t, name+".pattern")
		col.MaskSide = rapid.SampledFrom([]string{"left", "right"}).Draw(t, name+".side")
		col.MaskLen = 0
		c.Cols = append(c.Cols, col)
		c.Wins = append(c.Wins, genWinL(t, name))
	}
	nrows := rapid.IntRange(1, 3).Draw(t, "nrows")
	for r := 0; r < nrows; r++ {
		var row [][]Part
		for i, col := range c.Cols {
			label := fmt.Sprintf("r%dc%d", r, i)
			if r > 0 && rapid.IntRange(0, 9).Draw(t, label+".null") == 0 {
				row = append(row, nil)
				continue
			}
			np := rapid.SampledFrom([]int{1, 1, 2, 2, 3}).Draw(t, label+".nparts")
			var ps []Part
			for k := 0; k < np; k++ {
				if col.DataType == "str" {
					ps = append(ps, genTextPart(t, fmt.Sprintf("%s.p%d", label, k)))
				} else {
					ps = append(ps, genPart(t, fmt.Sprintf("%s.p%d", label, k)))
				}
			}
			row = append(row, ps)
		}
		c.Rows = append(c.Rows, row)
	}
	w := pgprog.Step{Op: "insert", Ext: rapid.Bool().Draw(t, "w.ext"), Spelling: rapid.IntRange(0, 3).Draw(t, "w.spelling"), Cast: rapid.IntRange(0, 4).Draw(t, "w.cast") == 0}
	if w.Ext {
		w.ParamFmt = int16(rapid.IntRange(0, 1).Draw(t, "w.pfmt"))
		w.Declare = rapid.Bool().Draw(t, "w.declare")
		w.Describe = rapid.SampledFrom([]string{"S", "P"}).Draw(t, "w.describe")
		w.MixedFmt = rapid.IntRange(0, 3).Draw(t, "w.mixed") == 0
		if rapid.IntRange(0, 2).Draw(t, "w.litmix") == 0 {
			w.LitEvery = rapid.IntRange(2, 3).Draw(t, "w.litevery")
		}
	}
	c.Write = w
	c.ReadExt = rapid.Bool().Draw(t, "r.ext")
	if c.ReadExt {
		c.ResultFmt = int16(rapid.IntRange(0, 1).Draw(t, "r.rfmt"))
	}
	c.Star = rapid.Bool().Draw(t, "r.star")
	c.SideSpell = genSideSpells(t, len(c.Cols))
	return c
}

// genSideSpells: one case in three spells the side of some masked column the hand-written way.
func genSideSpells(t *rapid.T, ncols int) []Spell {
	if rapid.IntRange(0, 2).Draw(t, "sidespell") != 0 {
		return nil
	}
	sp := make([]Spell, ncols)
	for i := range sp {
		sp[i] = genSpell(t, fmt.Sprintf("sidespell%d", i), 1, 3)
	}
	return sp
}

// spelledYAML gives the configuration file of a session case: render(sides) is the file with the given
// plaintext_side scalars (sides[i] for column i, as written in the file). With hand-written spellings (spells) the
// real loader decides: a file it accepts is the configuration of the case - the columns must behave as the
// spellings MEAN, which is what the case's columns say -, a file it refuses (a correct outcome) is replaced by the
// documented spelling so that the rest of the case is not lost.
func spelledYAML(cl func(string), spells []Spell, meant []string, mysql bool, render func(sides []string) string) string {
	documented := render(meant)
	hand := false
	sides := append([]string(nil), meant...)
	for i := range sides {
		if i < len(spells) && sides[i] != "" {
			sides[i] = spells[i].YAML(meant[i])
			hand = hand || !spells[i].Documented()
		}
	}
	if !hand {
		return documented
	}
	y := render(sides)
	if _, err := config.MapTableSchemaStoreFromConfig([]byte(y), mysql); err != nil {
		cl("config:hand-written-side/refused")
		return documented
	}
	cl("config:hand-written-side/accepted")
	return y
}

func genWinL(t *rapid.T, label string) Win {
	w := Win{Rel: rapid.SampledFrom([]string{"zero", "inside", "inside", "inside", "inside", "len-1", "len", "len+1", "abs"}).Draw(t, label+".win.rel")}
	switch w.Rel {
	case "inside":
		w.K = rapid.OneOf(rapid.IntRange(0, 12), rapid.IntRange(0, 1<<16)).Draw(t, label+".win.k")
	case "abs":
		w.K = rapid.OneOf(rapid.IntRange(0, 40), rapid.IntRange(0, 5000)).Draw(t, label+".win.abs")
	}
	return w
}

func encodings(m []byte) [][]byte {
	var oct strings.Builder
	for _, c := range m {
		fmt.Fprintf(&oct, `\%03o`, c)
	}
	return [][]byte{m, []byte(hex.EncodeToString(m)), []byte(strings.ToUpper(hex.EncodeToString(m))), []byte(base64.StdEncoding.EncodeToString(m)), []byte(oct.String())}
}

// markersIn returns the complete generated markers ("MRK" + 16 hex digits) inside b.
func markersIn(b []byte) [][]byte {
	var out [][]byte
	for i := 0; i+19 <= len(b); i++ {
		if b[i] == 'M' && b[i+1] == 'R' && b[i+2] == 'K' {
			ok := true
			for _, c := range b[i+3 : i+19] {
				ok = ok && ((c >= '0' && c <= '9') || (c >= 'a' && c <= 'f'))
			}
			if ok {
				out = append(out, b[i:i+19])
			}
		}
	}
	return out
}

// CheckSession runs the case.
func CheckSession(c SessCase) (vs hx.Vs, nontrivial bool, classes []string) {
	w := fix.TheWorld()
	if len(c.Rows) == 0 || len(c.Cols) == 0 {
		return
	}
	// materialise the values; resolve the windows against row 0
	values := make([][][]byte, len(c.Rows))
	cols := append([]pgprog.ColSpec(nil), c.Cols...)
	for r, row := range c.Rows {
		values[r] = make([][]byte, len(cols))
		for i := range cols {
			if i >= len(row) || len(row[i]) == 0 {
				continue
			}
			v, vcl, err := render(w, row[i], cols[i].MaskPat)
			if err != nil {
				vs.Add("harness:render", "%v", err)
				return
			}
			if cols[i].DataType == "str" && (!utf8.Valid(v) || bytes.IndexByte(v, 0) >= 0) {
				vs.Add("harness:text", "generated text value is not valid text")
				return
			}
			if len(v) > 0 {
				values[r][i] = v
				classes = append(classes, vcl...)
			}
		}
	}
	// everything any cell holds, incl. the plaintexts inside generated envelopes: a marker that occurs twice
	// (after shrinking) proves nothing when it shows up at a reader
	var everything []byte
	for r, row := range c.Rows {
		for i := range row {
			if i < len(cols) {
				everything = append(append(everything, values[r][i]...), 0)
			}
			for _, p := range row[i] {
				everything = append(append(everything, p.Plain...), 0)
			}
		}
	}
	for i := range cols {
		L := 0
		if values[0][i] != nil {
			L = len(values[0][i])
		}
		cols[i].MaskLen = c.Wins[i].resolve(L)
	}
	tables := []pgprog.TableSpec{{Name: "masked", Configured: true, Cols: append([]pgprog.ColSpec{{Name: "id", Kind: pgprog.KPlainInt}}, cols...)}}
	meant := make([]string, len(cols))
	for i := range cols {
		meant[i] = cols[i].MaskSide
	}
	yaml := spelledYAML(func(k string) { classes = append(classes, k) }, c.SideSpell, meant, false, func(sides []string) string {
		written := append([]pgprog.ColSpec(nil), cols...)
		for i := range written {
			written[i].MaskSide = sides[i]
		}
		return pgprog.SchemaYAML([]pgprog.TableSpec{{Name: "masked", Configured: true, Cols: append([]pgprog.ColSpec{{Name: "id", Kind: pgprog.KPlainInt}}, written...)}})
	})
	defs := pgprog.Defs(tables)

	// write, one INSERT per row, by the owner
	s, err := pgsess.Start(pgsess.Config{SchemaYAML: yaml, KeyStore: w.KS, ClientID: w.Alice, Tables: defs})
	if err != nil {
		vs.Add("harness:start", "%v\n%s", err, yaml)
		return
	}
	defer s.Close()
	if c.Write.Ext {
		classes = append(classes, fmt.Sprintf("write:extended/param-format-%d", c.Write.ParamFmt))
	} else {
		classes = append(classes, "write:simple")
	}
	for r := range values {
		st := c.Write
		st.Op, st.Table, st.Cols, st.Returning = "insert", 0, nil, nil
		row := []pgprog.Val{{B: []byte(fmt.Sprint(r + 1))}}
		for i := range cols {
			if values[r][i] == nil {
				row = append(row, pgprog.Val{Null: true})
			} else {
				row = append(row, pgprog.Val{B: values[r][i]})
			}
		}
		st.Rows = [][]pgprog.Val{row}
		rd := pgprog.Render(tables, st)
		var rep *pgsess.Reply
		if st.Ext {
			rep, err = s.Extended(pgprog.ExtOf(st, rd, fmt.Sprintf("ins%d", r)))
		} else {
			rep, err = s.Simple(rd.SQL)
		}
		if errors.Is(err, pgsess.ErrTimeout) {
			R.Note("inconclusive: deadline while writing")
			return vs, false, append(classes, "inconclusive")
		}
		if err != nil {
			vs.Add("session-broken:write", "%v", err)
			return
		}
		if len(rep.Errors) > 0 {
			vs.Add("statement-error:write", "INSERT of row %d answered %q (%.200s)", r+1, rep.Errors, rd.SQL)
			return
		}
	}
	// stored form
	stored := s.DB.Store.Rows("masked")
	if len(stored) != len(values) {
		vs.Add("stored-row-count", "stored %d rows, wrote %d", len(stored), len(values))
		return
	}
	type cellInfo struct {
		value, win, hidden, env []byte
		want                    []byte
		window                  int
		passthrough, inWindow   bool
		skip                    bool
	}
	cells := make([][]cellInfo, len(values))
	var allWant [][]byte
	for r := range values {
		cells[r] = make([]cellInfo, len(cols))
		for i, col := range cols {
			v := values[r][i]
			ci := &cells[r][i]
			if v == nil {
				ci.skip = true
				if !stored[r][i+1].Null {
					vs.Add("null-changed:session", "NULL written to %s, %d bytes stored", col.Name, len(stored[r][i+1].B))
				}
				continue
			}
			envelope := col.Envelope
			if envelope == "" {
				envelope = fix.KindBlock // the loader's default envelope
			}
			ci.value, ci.window = v, col.MaskLen
			ci.win, ci.hidden = split(v, col.MaskLen, col.MaskSide)
			ci.want = join(ci.win, []byte(col.MaskPat), col.MaskSide)
			allWant = append(allWant, ci.want)
			classes = append(classes, "side:"+col.MaskSide, "envelope:"+envelope, winClass(col.MaskLen, len(v)), patternClass(col.MaskPat), "layer:session", "data-type:"+map[string]string{"": "untyped", "str": "str", "bytes": "bytes"}[col.DataType])
			if col.MaskLen > 0 && col.MaskLen < len(v) {
				nontrivial = true
				if col.DataType != "str" && !utf8.Valid(ci.win) && utf8.Valid(v) {
					classes = append(classes, "window-cuts-code-point")
				}
			}
			st := stored[r][i+1]
			if st.Null {
				vs.Add("null-changed:session", "value written to %s, NULL stored", col.Name)
				ci.skip = true
				continue
			}
			env, pass, ok := storedForm(&vs, w, "session", v, st.B, col.MaskLen, col.MaskSide, envelope)
			if !ok {
				ci.skip = true
				continue
			}
			ci.env, ci.passthrough = env, pass
			ci.inWindow = envelopeStartsInWindow(st.B, len(ci.win), col.MaskSide)
			if ci.inWindow {
				classes = append(classes, "window-starts-envelope")
			}
			if pass {
				classes = append(classes, "hidden-part-already-protected")
			}
		}
	}
	if len(vs) > 0 {
		return
	}
	// reads
	var names []string
	for _, col := range tables[0].Cols {
		names = append(names, col.Name)
	}
	sql := "SELECT " + strings.Join(names, ", ") + " FROM masked"
	if c.Star {
		sql = "SELECT * FROM masked"
	}
	if c.ReadExt {
		classes = append(classes, fmt.Sprintf("read:extended/result-format-%d", c.ResultFmt))
	} else {
		classes = append(classes, "read:simple/result-format-0")
	}
	for _, reader := range []string{"alice", "bobby", "carol"} {
		s2, err := pgsess.Start(pgsess.Config{SchemaYAML: yaml, KeyStore: w.KS, ClientID: []byte(reader), Tables: defs, Store: s.DB.Store})
		if err != nil {
			vs.Add("harness:start2", "%v", err)
			return
		}
		var rep *pgsess.Reply
		if c.ReadExt {
			rep, err = s2.Extended(pgsess.Ext{SQL: sql, StmtName: "sel", ResultFormats: []int16{c.ResultFmt}, DescribePort: true})
		} else {
			rep, err = s2.Simple(sql)
		}
		_, recv := s2.ClientStreams()
		s2.Close()
		if errors.Is(err, pgsess.ErrTimeout) {
			R.Note("inconclusive: deadline while reading")
			return vs, false, append(classes, "inconclusive")
		}
		if err != nil {
			vs.Add("session-broken:read", "reader %s: %v", reader, err)
			return
		}
		classes = append(classes, "reader:"+reader)
		if len(rep.Errors) > 0 {
			vs.Add("statement-error:read:"+readerClass(reader), "SELECT by %s answered %q", reader, rep.Errors)
			continue
		}
		if len(rep.Rows) != len(values) {
			vs.Add("row-count:read", "reader %s got %d rows, %d stored", reader, len(rep.Rows), len(values))
			continue
		}
		for r := range values {
			for i, col := range cols {
				ci := cells[r][i]
				raw := rep.Rows[r][i+1]
				if ci.skip {
					continue
				}
				oid := uint32(17)
				if i+1 < len(rep.Fields) {
					oid = rep.Fields[i+1].DataTypeOID
				}
				wantOID := uint32(17)
				if col.DataType == "str" {
					wantOID = 25
				}
				if oid != wantOID {
					vs.Add("wrong-type-described:"+readerClass(reader), "column %s (data_type %q) described with oid %d to %s", col.Name, col.DataType, oid, reader)
					continue
				}
				got, _, derr := pgprog.Decode(raw, oid, c.ResultFmt)
				if derr != nil || got.Null {
					vs.Add("undecodable:"+readerClass(reader), "column %s for %s: null=%v err=%v raw %.40q", col.Name, reader, got.Null, derr, raw)
					continue
				}
				out := []byte(got.B)
				layer := "session"
				if reader == "alice" {
					if ci.passthrough {
						continue
					}
					if !bytes.Equal(out, ci.value) && ci.inWindow {
						addKnown(&vs, "window-envelope-masked:"+layer, "owner wrote %d bytes to %s and got %d bytes back: an envelope-shaped piece starts inside the clear window (window %d, side %s)", len(ci.value), col.Name, len(out), ci.window, col.MaskSide)
					} else if !bytes.Equal(out, ci.value) {
						vs.Add("owner-read-differs:"+layer, "owner got %d bytes %.40q from %s (data_type %q, format %d), wrote %d bytes %.40q (window %d, side %s)", len(out), out, col.Name, col.DataType, c.ResultFmt, len(ci.value), ci.value, ci.window, col.MaskSide)
					}
					continue
				}
				if ci.passthrough && readerCanOpen(w, []byte(reader), ci.hidden) {
					continue
				}
				if len(ci.hidden) > 0 {
					// not with an envelope-shaped piece inside the clear window: the reader may open its own envelope
					// there, and what that reveals can share 4 bytes with the hidden part (see the component layer)
					if at, found := leak(out, ci.hidden, append(append([]byte{}, ci.want...), ci.env...), 4); found && !ci.inWindow {
						vs.Add("hidden-plaintext-leaked:"+layer, "%s received 4 bytes of the hidden part of %s (offset %d of %d): %.60q", reader, col.Name, at, len(ci.hidden), out)
					}
					// the whole byte stream the reader received, in the usual encodings
					for _, mk := range markersIn(ci.hidden) {
						legit := bytes.Count(everything, mk) > 1
						for _, wnt := range allWant {
							legit = legit || bytes.Contains(wnt, mk)
						}
						if legit {
							continue
						}
						for _, e := range encodings(mk) {
							if bytes.Contains(recv, e) {
								vs.Add("hidden-plaintext-leaked:"+layer, "the bytes %s received contain the marker %s of the hidden part of %s", reader, mk, col.Name)
							}
						}
					}
				}
				if ci.env != nil {
					if at, found := leak(out, ci.env, ci.want, 8); found && ci.inWindow {
						addKnown(&vs, "window-envelope-masked:"+layer, "%s received 8 bytes of the stored envelope of %s (offset %d): an envelope-shaped piece starts inside the clear window", reader, col.Name, at)
					} else if found {
						vs.Add("ciphertext-leaked:"+layer, "%s received 8 bytes of the stored envelope of %s (offset %d of %d)", reader, col.Name, at, len(ci.env))
					}
				}
				if !bytes.Equal(out, ci.want) && ci.inWindow {
					addKnown(&vs, "window-envelope-masked:"+layer, "%s got %d bytes from %s, window||pattern has %d: an envelope-shaped piece starts inside the clear window", reader, len(out), col.Name, len(ci.want))
				} else if !bytes.Equal(out, ci.want) {
					vs.Add("masked-read-differs:"+layer, "%s got %d bytes %.60q from %s (data_type %q, on_fail %q, format %d), want window||pattern = %d bytes %.60q (window %d of %d, side %s)", reader, len(out), out, col.Name, col.DataType, col.OnFail, c.ResultFmt, len(ci.want), ci.want, ci.window, len(ci.value), col.MaskSide)
				}
			}
		}
	}
	return
}

func readerClass(reader string) string {
	if reader == "alice" {
		return "owner"
	}
	return "non-owner"
}

func TestMaskSessions(t *testing.T) {
	R.Rule("TestMaskSessions", "one table with 1-3 masked columns drawn from the configurations the loader accepts (envelope, untyped / data_type str / bytes incl. by type id, failure policy, explicit client) with generated pattern, side and window (relative to the value of row 0); 1-3 rows of generated values (text-safe parts for str columns) inserted by alice through acra's real PostgreSQL proxy (simple or extended protocol, text/binary parameters, literal spellings, casts, inline literals); then alice, bobby and carol each select everything in a session of their own over the same fake database (simple/extended, text/binary results, star/list). In one case of three the configuration file spells plaintext_side of the columns the hand-written way (Capitalised / UPPER / alternating case, quoted, blanks inside the quotes): a file the real loader accepts is the configuration of all sessions of the case and the columns are judged by the side the spelling MEANS, a file it refuses (a correct outcome) is replaced by the documented spelling. Oracle: stored form as in TestMaskComponent; owner reads the original under the declared type; the others read exactly window||pattern; byte search for hidden-part slices, markers (all usual encodings, whole received stream) and ciphertext slices. Non-trivial = some cell with 0 < window < len (every case is read by two readers that are not the owner)")
	hx.Checks(75, 1500)
	rapid.Check(t, func(rt *rapid.T) {
		c := genSessCase(rt)
		vs, nt, cl := CheckSession(c)
		seen := map[string]bool{}
		var ucl []string
		for _, k := range cl {
			if !seen[k] {
				seen[k] = true
				ucl = append(ucl, k)
			}
		}
		R.Seen("TestMaskSessions", c, nt, ucl...)
		R.Report(rt, "TestMaskSessions", c, vs)
	})
}
