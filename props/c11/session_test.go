package c11

import "verif/internal/hx"

// SessCase placeholder (replaced below).
type SessCase struct{}

// CheckSession placeholder.
func CheckSession(c SessCase) (hx.Vs, bool, []string) { return nil, false, nil }
