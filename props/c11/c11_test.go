// Package c11: masked columns show only the allowed window to clients that cannot decrypt.
package c11

import (
	"bytes"
	"encoding/binary"
	"encoding/json"
	"fmt"
	"os"
	"strings"
	"testing"

	"pgregory.net/rapid"

	"github.com/cossacklabs/acra/acrablock"
	"github.com/cossacklabs/acra/acrastruct"
	"github.com/cossacklabs/acra/crypto"
	"github.com/cossacklabs/acra/decryptor/base"
	encryptor "github.com/cossacklabs/acra/encryptor/base"
	"github.com/cossacklabs/acra/encryptor/base/config"
	"github.com/cossacklabs/acra/masking"
	maskingCommon "github.com/cossacklabs/acra/masking/common"

	"verif/internal/fix"
	"verif/internal/gen"
	"verif/internal/hx"
)

var R = hx.New("C11")

func TestMain(m *testing.M) { os.Exit(R.Main(m)) }

// addKnown records a violation of a class that is a known finding; with VERIF_ASSUME_KNOWN=<sig>,<sig> (a
// development aid: search behind a finding before it is listed in known_findings.json) the class is only counted.
func addKnown(vs *hx.Vs, sig, format string, args ...any) {
	for _, s := range strings.Split(os.Getenv("VERIF_ASSUME_KNOWN"), ",") {
		if s == sig {
			R.Class("assumed-known", sig)
			return
		}
	}
	vs.Add(sig, format, args...)
}

// ---------------------------------------------------------------------------------------------
// values

// Part is one chunk of a generated value.
type Part struct {
	Raw gen.Hex `json:"raw,omitempty"`
	// Env: whole envelope "<who>/<kind>/<form>" holding Plain (made at run time)
	Env   string  `json:"env,omitempty"`
	Plain gen.Hex `json:"plain,omitempty"`
	// Pattern: a copy of the masking pattern
	Pattern bool `json:"pattern,omitempty"`
}

// Win is the window length relative to the value length L: zero, inside (1 + K mod (L-1)), len-1, len,
// len+1, or abs (K itself).
type Win struct {
	Rel string `json:"rel"`
	K   int    `json:"k,omitempty"`
}

func (w Win) resolve(L int) int {
	switch w.Rel {
	case "zero":
		return 0
	case "inside":
		if L < 2 {
			return 0
		}
		return 1 + w.K%(L-1)
	case "len-1":
		if L < 1 {
			return 0
		}
		return L - 1
	case "len":
		return L
	case "len+1":
		return L + 1
	}
	return w.K
}

func genWin(t *rapid.T) Win {
	w := Win{Rel: rapid.SampledFrom([]string{"zero", "inside", "inside", "inside", "inside", "len-1", "len", "len+1", "abs"}).Draw(t, "win.rel")}
	switch w.Rel {
	case "inside":
		w.K = rapid.OneOf(rapid.IntRange(0, 12), rapid.IntRange(0, 1<<16)).Draw(t, "win.k")
	case "abs":
		w.K = rapid.OneOf(rapid.IntRange(0, 40), rapid.IntRange(0, 5000)).Draw(t, "win.abs")
	}
	return w
}

var patterns = []string{"*", "xxxx", "MASK", "x y", "%%%", "%", `"`, `""""""""`, `%%%"""`, "0123456789012345678901234567890123456789", "маска", "\x00\xff"}

func genPattern(t *rapid.T) string {
	return rapid.SampledFrom(patterns).Draw(t, "pattern")
}

func patternClass(p string) string {
	switch {
	case bytes.Contains([]byte(p), []byte("%%%")):
		return "pattern:has-container-tag"
	case bytes.ContainsAny([]byte(p), `%"`):
		return "pattern:has-tag-symbol"
	case len(p) >= 20:
		return "pattern:long"
	case len(p) == 1:
		return "pattern:one-char"
	}
	return "pattern:plain"
}

func genPart(t *rapid.T, label string) Part {
	switch rapid.IntRange(0, 11).Draw(t, label+".what") {
	case 0, 1, 2, 3:
		return Part{Raw: gen.Marker(t, label)}
	case 4:
		return Part{Pattern: true}
	case 5:
		sym := rapid.SampledFrom([]byte{'"', '%'}).Draw(t, label+".sym")
		return Part{Raw: bytes.Repeat([]byte{sym}, rapid.IntRange(1, 9).Draw(t, label+".nsym"))}
	case 6:
		who := rapid.SampledFrom([]string{"alice", "bobby"}).Draw(t, label+".who")
		kind := rapid.SampledFrom(fix.Kinds).Draw(t, label+".kind")
		form := rapid.SampledFrom([]string{fix.FormRaw, fix.FormContainer}).Draw(t, label+".form")
		return Part{Env: who + "/" + kind + "/" + form, Plain: gen.Marker(t, label+".envplain")}
	case 7:
		return Part{Raw: gen.Hex(rapid.StringN(1, 24, -1).Draw(t, label+".utf8"))}
	case 8:
		// bogus container header
		b := append([]byte("%%%"), make([]byte, 9)...)
		binary.LittleEndian.PutUint64(b[3:], rapid.SampledFrom([]uint64{12, 13, 40, 200, 5000}).Draw(t, label+".hlen"))
		b[11] = rapid.SampledFrom([]byte{crypto.AcraStructEnvelopeID, crypto.AcraBlockEnvelopeID}).Draw(t, label+".hid")
		return Part{Raw: b}
	}
	return Part{Raw: gen.Bytes(t, label, 2048)}
}

func genValue(t *rapid.T) []Part {
	n := rapid.SampledFrom([]int{1, 1, 2, 2, 3}).Draw(t, "nparts")
	var ps []Part
	for i := 0; i < n; i++ {
		ps = append(ps, genPart(t, fmt.Sprintf("p%d", i)))
	}
	return ps
}

func render(w *fix.World, ps []Part, pattern string) ([]byte, []string, error) {
	var out []byte
	var cl []string
	for _, p := range ps {
		switch {
		case p.Env != "":
			parts := bytes.Split([]byte(p.Env), []byte("/"))
			v, err := w.Protect(parts[0], string(parts[1]), string(parts[2]), p.Plain, -1)
			if err != nil {
				return nil, nil, err
			}
			out = append(out, v...)
			cl = append(cl, "value:has-whole-envelope")
		case p.Pattern:
			out = append(out, pattern...)
			cl = append(cl, "value:has-pattern")
		default:
			out = append(out, p.Raw...)
		}
	}
	if bytes.Contains(out, []byte("%%%")) || bytes.Contains(out, []byte(`""""`)) {
		cl = append(cl, "value:has-envelope-tag")
	}
	return out, cl, nil
}

// ---------------------------------------------------------------------------------------------
// reference pieces

// Case is one masked column, one value written by alice, one reader.
type Case struct {
	Pattern  string `json:"pattern"`
	Win      Win    `json:"win"`
	Side     string `json:"side"`     // left | right: where the plaintext window is
	Envelope string `json:"envelope"` // acrastruct | acrablock
	Value    []Part `json:"value"`
	Reader   string `json:"reader"` // alice (owner) | bobby (other keys) | carol (no keys)
}

func genCase(t *rapid.T) Case {
	return Case{
		Pattern:  genPattern(t),
		Win:      genWin(t),
		Side:     rapid.SampledFrom([]string{"left", "right"}).Draw(t, "side"),
		Envelope: rapid.SampledFrom(fix.Kinds).Draw(t, "envelope"),
		Value:    genValue(t),
		Reader:   rapid.SampledFrom([]string{"alice", "bobby", "bobby", "carol", "carol"}).Draw(t, "reader"),
	}
}

func maskSetting(pattern string, window int, side, envelope string) (*config.BasicColumnEncryptionSetting, error) {
	env := config.CryptoEnvelopeTypeAcraStruct
	if envelope == fix.KindBlock {
		env = config.CryptoEnvelopeTypeAcraBlock
	}
	reencrypt := true // the loader's default, part of every accepted masking combination
	s := &config.BasicColumnEncryptionSetting{Name: "c", CryptoEnvelope: &env, ReEncryptToAcraBlock: &reencrypt, MaskingPattern: pattern, PartialPlaintextLenBytes: window, PlaintextSide: maskingCommon.PlainTextSide(side)}
	return s, s.Init(false)
}

// openContainer decrypts, from library parts, a stored envelope that must be exactly one serialized
// container of the configured kind made for the client.
func openContainer(w *fix.World, id []byte, kind string, b []byte) ([]byte, error) {
	if len(b) <= 12 || !bytes.HasPrefix(b, []byte("%%%")) {
		return nil, fmt.Errorf("no container tag (%d bytes, starts %.12x)", len(b), b)
	}
	if ln := binary.LittleEndian.Uint64(b[3:11]); ln != uint64(len(b)) {
		return nil, fmt.Errorf("container declares %d bytes, the protected part has %d", ln, len(b))
	}
	inner := b[12:]
	switch {
	case kind == fix.KindStruct && b[11] == crypto.AcraStructEnvelopeID:
		privs, err := w.KS.GetServerDecryptionPrivateKeys(id)
		if err != nil {
			return nil, err
		}
		return acrastruct.DecryptRotatedAcrastruct(inner, privs, nil)
	case kind == fix.KindBlock && b[11] == crypto.AcraBlockEnvelopeID:
		keys, err := w.KS.GetClientIDSymmetricKeys(id)
		if err != nil {
			return nil, err
		}
		blk, err := acrablock.NewAcraBlockFromData(inner)
		if err != nil {
			return nil, err
		}
		if len(blk) != len(inner) {
			return nil, fmt.Errorf("AcraBlock of %d bytes inside %d bytes", len(blk), len(inner))
		}
		return blk.Decrypt(keys, nil)
	}
	return nil, fmt.Errorf("envelope id %#x for a column configured as %s", b[11], kind)
}

// bareEnvelope: b is exactly one bare AcraStruct or AcraBlock (structure only).
func bareEnvelope(b []byte) bool {
	if len(b) >= 145 && bytes.HasPrefix(b, []byte(`""""""""`)) && binary.LittleEndian.Uint64(b[137:145]) == uint64(len(b)-145) {
		return true
	}
	if n, _, err := acrablock.ExtractAcraBlockFromData(b); err == nil && n == len(b) {
		return true
	}
	return false
}

// looksProtected: the bytes already are a protected value - exactly one serialized container or exactly one
// bare envelope, nothing in front of it or behind it: acra stores such input as it is (application-side
// encryption, property C01's pass-through clause).
func looksProtected(w *fix.World, b []byte) bool {
	if len(b) > 12 && bytes.HasPrefix(b, []byte("%%%")) && binary.LittleEndian.Uint64(b[3:11]) == uint64(len(b)) &&
		(b[11] == crypto.AcraStructEnvelopeID || b[11] == crypto.AcraBlockEnvelopeID) {
		return bareEnvelope(b[12:])
	}
	return bareEnvelope(b)
}

// envelopePrefix: b starts with a whole serialized container or a whole bare AcraBlock and goes on after it.
func envelopePrefix(b []byte) bool {
	if len(b) > 12 && bytes.HasPrefix(b, []byte("%%%")) && (b[11] == crypto.AcraStructEnvelopeID || b[11] == crypto.AcraBlockEnvelopeID) {
		if ln := binary.LittleEndian.Uint64(b[3:11]); ln > 12 && ln < uint64(len(b)) && bareEnvelope(b[12:ln]) {
			return true
		}
	}
	if n, _, err := acrablock.ExtractAcraBlockFromData(b); err == nil && n < len(b) {
		return true
	}
	return false
}

// holdsEnvelopeAt: b starts with a well-formed serialized container or a well-formed bare envelope.
func holdsEnvelopeAt(b []byte) bool {
	if len(b) > 12 && b[0] == '%' && b[1] == '%' && b[2] == '%' && (b[11] == crypto.AcraStructEnvelopeID || b[11] == crypto.AcraBlockEnvelopeID) {
		ln := binary.LittleEndian.Uint64(b[3:11])
		if ln >= 12 && ln <= uint64(len(b)) {
			return true
		}
	}
	if len(b) >= 145 && bytes.HasPrefix(b, []byte(`""""""""`)) {
		if dl := binary.LittleEndian.Uint64(b[137:145]); dl <= uint64(len(b)-145) {
			return true
		}
	}
	if len(b) >= 18 && bytes.HasPrefix(b, []byte(`""""`)) {
		if _, _, err := acrablock.ExtractAcraBlockFromData(b); err == nil {
			return true
		}
	}
	return false
}

// envelopeStartsInWindow: some offset inside the clear window of the stored value starts a well-formed
// serialized container or bare envelope (possibly reaching beyond the window). The read chain cannot know
// where the window ends and treats it as an envelope.
func envelopeStartsInWindow(stored []byte, window int, side string) bool {
	from, to := 0, window
	if side != "left" {
		from, to = len(stored)-window, len(stored)
	}
	if window <= 0 || from < 0 || to > len(stored) {
		return false
	}
	for i := from; i < to; i++ {
		if holdsEnvelopeAt(stored[i:]) {
			return true
		}
	}
	return false
}

// split gives window and hidden part of a value.
func split(value []byte, window int, side string) (win, hidden []byte) {
	if window >= len(value) {
		return nil, value
	}
	if side == "left" {
		return value[:window], value[window:]
	}
	return value[len(value)-window:], value[:len(value)-window]
}

func join(win, mid []byte, side string) []byte {
	if side == "left" {
		return append(append([]byte{}, win...), mid...)
	}
	return append(append([]byte{}, mid...), win...)
}

// leak searches got for an n-byte slice of secret that the expected output does not contain.
func leak(got, secret, expected []byte, n int) (int, bool) {
	for i := 0; i+n <= len(secret); i++ {
		s := secret[i : i+n]
		if bytes.Contains(got, s) && !bytes.Contains(expected, s) {
			return i, true
		}
	}
	return 0, false
}

func winClass(window, L int) string {
	switch {
	case window == 0:
		return "window:0"
	case window < L:
		return "window:<len"
	case window == L:
		return "window:=len"
	}
	return "window:>len"
}

// storedForm checks what the masking encryptor produced; returns the stored envelope (nil when the hidden
// part was passed through because it already is a protected value).
func storedForm(vs *hx.Vs, w *fix.World, layer string, value, stored []byte, window int, side, envelope string) (env []byte, passthrough, ok bool) {
	return storedFormFor(vs, w, w.Alice, layer, value, stored, window, side, envelope)
}

// storedFormFor is storedForm for a column that belongs to owner (the identity whose keys protect it).
func storedFormFor(vs *hx.Vs, w *fix.World, owner []byte, layer string, value, stored []byte, window int, side, envelope string) (env []byte, passthrough, ok bool) {
	win, hidden := split(value, window, side)
	if len(stored) < len(win) {
		vs.Add("stored-form:"+layer, "stored value has %d bytes, the clear window alone has %d", len(stored), len(win))
		return nil, false, false
	}
	var sw []byte
	if side == "left" {
		sw, env = stored[:len(win)], stored[len(win):]
	} else {
		sw, env = stored[len(stored)-len(win):], stored[:len(stored)-len(win)]
	}
	if !bytes.Equal(sw, win) {
		vs.Add("stored-form:"+layer, "stored value does not keep the %d window bytes in clear on the %s: %.40x, want %.40x", len(win), side, sw, win)
		return nil, false, false
	}
	if looksProtected(w, hidden) {
		if !bytes.Equal(env, hidden) {
			vs.Add("stored-form:"+layer, "hidden part that already is a protected value was not passed through unchanged (%d -> %d bytes)", len(hidden), len(env))
			return nil, true, false
		}
		return nil, true, true
	}
	plain, err := openContainer(w, owner, envelope, env)
	if err != nil {
		if bytes.Equal(env, hidden) && envelopePrefix(hidden) {
			addKnown(vs, "envelope-then-plaintext-stored-in-clear:"+layer, "the part outside the window (%d bytes) starts with a whole envelope followed by other bytes and is stored in clear as if it were an already protected value (window %d of %d, side %s)", len(hidden), window, len(value), side)
		} else if bytes.Equal(env, hidden) {
			vs.Add("stored-in-clear:"+layer, "the part outside the window (%d bytes) is stored in clear (window %d of %d, side %s)", len(hidden), window, len(value), side)
		} else {
			vs.Add("stored-form:"+layer, "the protected part (%d bytes) is not one %s container for the owner: %v (window %d of %d, side %s)", len(env), envelope, err, window, len(value), side)
		}
		return nil, false, false
	}
	if !bytes.Equal(plain, hidden) {
		vs.Add("stored-form:"+layer, "the stored envelope holds %d bytes %.30x, the part outside the window is %d bytes %.30x", len(plain), plain, len(hidden), hidden)
		return nil, false, false
	}
	return env, false, true
}

// readChain is the proxies' read side for deployments with a masked column: container detector with the
// decrypt handler over the masking processor, context carrying the column's setting and the reader.
func readChain(w *fix.World, reader []byte, setting config.ColumnEncryptionSetting, stored []byte) ([]byte, error) {
	det := crypto.NewEnvelopeDetector()
	wrapper := crypto.NewOldContainerDetectorWrapper(det)
	proc, err := masking.NewProcessor(w.Reg)
	if err != nil {
		return nil, err
	}
	det.AddCallback(crypto.NewDecryptHandler(w.KS, proc))
	ctx := encryptor.NewContextWithEncryptionSetting(fix.Ctx(reader), setting)
	_, out, err := wrapper.OnColumn(ctx, stored)
	return out, err
}

// CheckComponent runs the masking encryptor and the read chain with a setting built in memory.
func CheckComponent(c Case) (vs hx.Vs, nontrivial bool, classes []string) {
	return checkMasked(c, "component", func(vs *hx.Vs, window int) (config.ColumnEncryptionSetting, string, string) {
		setting, err := maskSetting(c.Pattern, window, c.Side, c.Envelope)
		if err != nil {
			vs.Add("harness:setting", "%v", err)
			return nil, "", ""
		}
		return setting, c.Side, c.Envelope
	})
}

// knownSig: the signature of a finding that lives in the read chain, whatever made the setting.
func knownSig(class, layer string) string {
	if layer == "config" {
		layer = "component"
	}
	return class + ":" + layer
}

// checkMasked runs the masking encryptor and the read chain with the setting that source supplies for the
// resolved window, and judges them by what the configuration means: side and envelope as source reports them,
// pattern and window of the case. A nil setting ends the case (source has recorded why).
func checkMasked(c Case, layer string, source func(vs *hx.Vs, window int) (config.ColumnEncryptionSetting, string, string)) (vs hx.Vs, nontrivial bool, classes []string) {
	w := fix.TheWorld()
	value, vcl, err := render(w, c.Value, c.Pattern)
	if err != nil {
		vs.Add("harness:render", "%v", err)
		return
	}
	if len(value) == 0 {
		return vs, false, []string{"value:empty"}
	}
	window := c.Win.resolve(len(value))
	setting, side, envelope := source(&vs, window)
	if setting == nil {
		return vs, false, append(vcl, "layer:"+layer)
	}
	c.Side, c.Envelope = side, envelope
	classes = append(vcl, "side:"+c.Side, "envelope:"+c.Envelope, winClass(window, len(value)), "reader:"+c.Reader, patternClass(c.Pattern), "layer:"+layer)
	classes = append(classes, fmt.Sprintf("%s/%s/%s/%s", c.Side, c.Envelope, winClass(window, len(value)), c.Reader))
	win, hidden := split(value, window, c.Side)
	if window == len(value)-1 {
		classes = append(classes, "window:len-1")
	}
	if bytes.Contains(hidden, []byte(c.Pattern)) || bytes.Contains(win, []byte(c.Pattern)) {
		classes = append(classes, "value:pattern-inside")
	}
	nontrivial = window > 0 && window < len(value) && c.Reader != "alice"

	enc, err := masking.NewMaskingDataEncryptor(w.KS, encryptor.NewChainDataEncryptor(w.Reg))
	if err != nil {
		vs.Add("harness:encryptor", "%v", err)
		return
	}
	var stored []byte
	var eerr error
	if hx.Guard(&vs, "masking-encryptor", func() { stored, eerr = enc.EncryptWithClientID(w.Alice, append([]byte(nil), value...), setting) }) {
		return
	}
	if eerr != nil {
		vs.Add("encrypt-error:"+layer, "masking encryptor failed on a %d-byte value: %v", len(value), eerr)
		return
	}
	env, passthrough, ok := storedForm(&vs, w, layer, value, stored, window, c.Side, c.Envelope)
	if !ok {
		return
	}
	if passthrough {
		classes = append(classes, "hidden-part-already-protected")
	}
	// an envelope-shaped piece that starts inside the clear window is taken for an envelope by the read chain
	// (it cannot know where the window ends): known finding, class excluded from the exact oracles below
	inWindow := envelopeStartsInWindow(stored, len(win), c.Side)
	if inWindow {
		classes = append(classes, "window-starts-envelope")
	}

	if env != nil {
		processorContract(&vs, setting, c.Pattern, env, hidden)
	}
	reader := []byte(c.Reader)
	var out []byte
	var rerr error
	if hx.Guard(&vs, "read-chain", func() { out, rerr = readChain(w, reader, setting, append([]byte(nil), stored...)) }) {
		return
	}
	if rerr != nil {
		vs.Add("read-error:"+layer, "read chain failed for %s: %v", c.Reader, rerr)
		return
	}
	if c.Reader == "alice" {
		if passthrough {
			return // what an application-side envelope reveals to is C01's matter
		}
		if !bytes.Equal(out, value) && inWindow {
			addKnown(&vs, knownSig("window-envelope-masked", layer), "owner wrote %d bytes and got %d bytes back: an envelope-shaped piece starts inside the clear window (window %d, side %s, pattern %q)", len(value), len(out), window, c.Side, c.Pattern)
		} else if !bytes.Equal(out, value) {
			vs.Add("owner-read-differs:"+layer, "owner got %d bytes %.40x, wrote %d bytes %.40x (window %d, side %s)", len(out), out, len(value), value, window, c.Side)
		}
		return
	}
	if passthrough && readerCanOpen(w, reader, hidden) {
		classes = append(classes, "hidden-part-is-readers-own-envelope")
		return
	}
	want := join(win, []byte(c.Pattern), c.Side)
	if len(hidden) > 0 && !inWindow {
		// bytes that also occur in the stored envelope say nothing about the plaintext (envelope headers repeat
		// when the hidden part itself holds an envelope); a ciphertext leak is looked for separately. With an
		// envelope-shaped piece inside the clear window the reader may legitimately open it (its own envelope):
		// what it reveals can share 4 bytes with the hidden part (markers share a prefix), so that class is
		// left to the exact comparison of the known-finding branch below
		if at, found := leak(out, hidden, append(append([]byte{}, want...), env...), 4); found {
			vs.Add("hidden-plaintext-leaked:"+layer, "%s received 4 bytes of the hidden part (offset %d of %d): output %.60q", c.Reader, at, len(hidden), out)
		}
	}
	if env != nil {
		if at, found := leak(out, env, want, 8); found && inWindow {
			addKnown(&vs, knownSig("window-envelope-masked", layer), "%s received 8 bytes of the stored envelope (offset %d of %d): an envelope-shaped piece starts inside the clear window (window %d, side %s, pattern %q)", c.Reader, at, len(env), window, c.Side, c.Pattern)
		} else if found {
			vs.Add("ciphertext-leaked:"+layer, "%s received 8 bytes of the stored envelope (offset %d of %d)", c.Reader, at, len(env))
		}
	}
	if !bytes.Equal(out, want) && inWindow {
		addKnown(&vs, knownSig("window-envelope-masked", layer), "%s got %d bytes, window||pattern has %d: an envelope-shaped piece starts inside the clear window (window %d, side %s, pattern %q)", c.Reader, len(out), len(want), window, c.Side, c.Pattern)
	} else if !bytes.Equal(out, want) {
		vs.Add("masked-read-differs:"+layer, "%s got %d bytes %.60q, want window||pattern = %d bytes %.60q (window %d of %d, side %s)", c.Reader, len(out), out, len(want), want, window, len(value), c.Side)
	}
	return
}

// stubDecryptor stands for the decrypting processor behind masking.Processor: it fails, hands the data back
// unchanged (what a processor does that finds nothing it can decrypt) or returns a plaintext.
type stubDecryptor struct {
	mode  string
	plain []byte
}

func (s stubDecryptor) Process(data []byte, _ *base.DataProcessorContext) ([]byte, error) {
	switch s.mode {
	case "error":
		return nil, fmt.Errorf("cannot decrypt")
	case "error-with-data":
		return data, fmt.Errorf("cannot decrypt")
	case "unchanged":
		return data, nil
	}
	return s.plain, nil
}

func (s stubDecryptor) MatchDataSignature([]byte) bool { return true }

// processorContract: masking.Processor replaces what its decryptor could not turn into plaintext - error or
// data handed back unchanged - by the pattern, returns the plaintext otherwise, and without a masking
// setting in the context is transparent.
func processorContract(vs *hx.Vs, setting config.ColumnEncryptionSetting, pattern string, container, plain []byte) {
	for _, mode := range []string{"error", "error-with-data", "unchanged", "plain"} {
		proc, err := masking.NewProcessor(stubDecryptor{mode, plain})
		if err != nil {
			vs.Add("harness:processor", "%v", err)
			return
		}
		ctx := &base.DataProcessorContext{Context: encryptor.NewContextWithEncryptionSetting(fix.Ctx([]byte("carol")), setting)}
		var out []byte
		var perr error
		if hx.Guard(vs, "masking.Processor", func() { out, perr = proc.Process(append([]byte(nil), container...), ctx) }) {
			return
		}
		if mode == "plain" {
			if perr != nil || !bytes.Equal(out, plain) {
				vs.Add("processor-contract:plain", "decryptor returned a plaintext, masking processor returned %d bytes, err %v", len(out), perr)
			}
			continue
		}
		if perr != nil || !bytes.Equal(out, []byte(pattern)) {
			vs.Add("processor-contract:"+mode, "decryptor %s: masking processor returned %.40q (err %v), want the pattern %q", mode, out, perr, pattern)
		}
	}
}

// readerCanOpen: the bytes are an envelope the reader decrypts with its own keys.
func readerCanOpen(w *fix.World, reader, b []byte) bool {
	for _, kind := range fix.Kinds {
		for _, r := range w.Reveals(reader, kind) {
			if r.Name == "RegistryHandler.Process" {
				if _, err := r.F(append([]byte(nil), b...)); err == nil {
					return true
				}
			}
		}
	}
	return false
}

func TestMaskComponent(t *testing.T) {
	R.Rule("TestMaskComponent", "masking configuration (pattern: one char / plain / long / with tag symbols / with the container tag / non-ASCII; window 0, inside, len-1, len, len+1, absolute; side left/right; envelope acrastruct/acrablock) x value of 1-3 parts (unique markers, G-bytes classes, multi-byte UTF-8, tag runs, bogus container headers, copies of the pattern, whole envelopes of alice/bobby) written by alice through masking.NewMaskingDataEncryptor and read by alice, bobby (other keys) or carol (no keys) through the proxies' read chain for masked deployments. Oracle: stored form = window in clear on the configured side + one container of the configured kind that decrypts (library) to the rest, whole value inside when len <= window; owner reads the original; others read exactly window||pattern / pattern||window / pattern; no 4-byte slice of the hidden part and no 8-byte slice of the stored envelope in what they get. Non-trivial = 0 < window < len and reader is not the owner")
	hx.Checks(750, 20000)
	rapid.Check(t, func(rt *rapid.T) {
		c := genCase(rt)
		vs, nt, cl := CheckComponent(c)
		R.Seen("TestMaskComponent", c, nt, cl...)
		R.Report(rt, "TestMaskComponent", c, vs)
	})
}

func TestReplay(t *testing.T) {
	R.Replay(t, map[string]hx.ReplayHandler{
		"TestMaskComponent": func(raw json.RawMessage) hx.Vs {
			var c Case
			if err := json.Unmarshal(raw, &c); err != nil {
				return hx.Vs{{Sig: "harness:decode", Msg: err.Error()}}
			}
			vs, _, _ := CheckComponent(c)
			return vs
		},
		"TestMaskConfig": func(raw json.RawMessage) hx.Vs {
			var c ConfCase
			if err := json.Unmarshal(raw, &c); err != nil {
				return hx.Vs{{Sig: "harness:decode", Msg: err.Error()}}
			}
			vs, _, _ := CheckConfig(c)
			return vs
		},
		"TestMaskSessionsMySQL": func(raw json.RawMessage) hx.Vs {
			var c MyMaskCase
			if err := json.Unmarshal(raw, &c); err != nil {
				return hx.Vs{{Sig: "harness:decode", Msg: err.Error()}}
			}
			vs, _, _ := CheckMaskMySQL(c)
			return vs
		},
		"TestMaskSessions": func(raw json.RawMessage) hx.Vs {
			var c SessCase
			if err := json.Unmarshal(raw, &c); err != nil {
				return hx.Vs{{Sig: "harness:decode", Msg: err.Error()}}
			}
			vs, _, _ := CheckSession(c)
			return vs
		},
	})
}
