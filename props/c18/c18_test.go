// Package c18: exported keys import to an identical keystore and stay confidential in transit.
package c18

import (
	"bytes"
	"encoding/base64"
	"encoding/hex"
	"encoding/json"
	"fmt"
	"os"
	"path/filepath"
	"regexp"
	"sort"
	"strings"
	"testing"

	"github.com/cossacklabs/themis/gothemis/keys"
	"pgregory.net/rapid"

	"github.com/cossacklabs/acra/keystore"
	"github.com/cossacklabs/acra/keystore/filesystem"
	kv2 "github.com/cossacklabs/acra/keystore/v2/keystore"
	v2api "github.com/cossacklabs/acra/keystore/v2/keystore/api"
	"github.com/cossacklabs/acra/keystore/v2/keystore/filesystem/backend"
	backendapi "github.com/cossacklabs/acra/keystore/v2/keystore/filesystem/backend/api"

	"verif/internal/fix"
	"verif/internal/gen"
	"verif/internal/hx"
	"verif/internal/kshist"
)

var R = hx.New("C18")

func TestMain(m *testing.M) { os.Exit(R.Main(m)) }

// ---------------------------------------------------------------------------------------------
// the case

// Sel is one selected key: kind + client id; Half says which half of a key pair an export by id asks for.
type Sel struct {
	Kind string `json:"kind"`
	ID   string `json:"id,omitempty"`
	Half string `json:"half,omitempty"` // pairs, export by id: "private" | "public"
}

// Tamper is one manipulation of the bundle or of its access keys.
type Tamper struct {
	What string `json:"what"` // bundle-byte | key-byte | truncate | other-keys
	Pos  int    `json:"pos"`  // byte position (mod length); truncate: number of bytes cut off the end (1 + mod length)
	Mask int    `json:"mask"` // 1..255
}

// Case is one export/import (or migration) between two keystores.
type Case struct {
	Path string      `json:"path"` // v1v1 | v2v2 | v1v2
	IDs  []string    `json:"ids"`
	Ops  []kshist.Op `json:"ops"` // history that builds the source keystore
	// Bulk: export everything (v1: no export ids; v2: mode "all" lists every ring, or every ring path
	// is passed to ExportKeyRings). Otherwise Keys are exported by id.
	Bulk bool   `json:"bulk"`
	Keys []Sel  `json:"keys,omitempty"`
	Mode string `json:"mode"` // public | private | all
	// Via: v2: "backuper" = KeyBackuper.Export/Import (what acra-keys uses), "rings" = ExportKeyRings/ImportKeyRings;
	// v1: "" = KeyBackuper called directly, "acra-backup" = the acra-backup binary built from the tree under test
	// (--action=export / --action=import as separate processes)
	Via      string  `json:"via,omitempty"`
	Target   string  `json:"target"`             // empty | unrelated | conflict
	Decision string  `json:"decision,omitempty"` // v2 rings import into a conflicting target: abort | skip | overwrite
	Tamper   *Tamper `json:"tamper,omitempty"`
	// DirSpell (v1 paths): how the key directory is written on the command line / handed to the KeyBackuper:
	// 0 = clean path, 1 = trailing slash (shell completion), 2 = "/./" before the last element, 3 = doubled separator
	DirSpell int `json:"dir_spell,omitempty"`
}

// spellDir writes a clean absolute directory path the way a user might.
func spellDir(dir string, how int) string {
	i := strings.LastIndex(dir, "/")
	switch how {
	case 1:
		return dir + "/"
	case 2:
		if i > 0 {
			return dir[:i] + "/." + dir[i:]
		}
	case 3:
		if i > 0 {
			return dir[:i] + "/" + dir[i:]
		}
	}
	return dir
}

var idPool = []string{"alice", "alice_1", "Alice", "bob 2-x", "x_storage", "k_hmac_z", "storage_sym", "aaaaa"}

const unrelatedID = "unrelated-zz"

func genCase(t *rapid.T, path string, tamper bool) Case {
	c := Case{Path: path}
	c.IDs = rapid.SliceOfNDistinct(rapid.SampledFrom(idPool), 1, 3, rapid.ID[string]).Draw(t, "ids")
	c.Ops = kshist.GenOps(t, 14, c.IDs)
	// GenOps digs deep into one focus key; half of the sources start as a complete keystore
	// (every kind for the first id) so that every kind takes part in bulk exports and migrations
	if rapid.Bool().Draw(t, "complete") {
		var pre []kshist.Op
		for _, kind := range kshist.Kinds {
			o := kshist.Op{Kind: kshist.OpGen, Key: kind}
			if kshist.PerClient(kind) {
				o.ID = c.IDs[0]
			}
			pre = append(pre, o)
		}
		c.Ops = append(pre, c.Ops...)
	}
	c.Target = rapid.SampledFrom([]string{"empty", "empty", "unrelated", "conflict"}).Draw(t, "target")
	if path == "v1v1" && rapid.IntRange(0, 2).Draw(t, "dirspell") == 0 {
		c.DirSpell = rapid.IntRange(1, 3).Draw(t, "dirspell.how")
	}
	c.Bulk = rapid.IntRange(0, 2).Draw(t, "bulk") == 0
	if path == "v1v2" {
		// the migration takes what EnumerateExportedKeys lists; the selection filters that list
		c.Mode = "private"
		c.Bulk = rapid.IntRange(0, 2).Draw(t, "bulk.migrate") != 0
	} else {
		c.Mode = rapid.SampledFrom([]string{"private", "private", "public", "all"}).Draw(t, "mode")
	}
	if path == "v1v1" && !tamper && rapid.IntRange(0, 5).Draw(t, "cli") == 0 {
		// through the real acra-backup binary (always everything, private and public)
		c.Via, c.Bulk, c.Mode = "acra-backup", true, "all"
	}
	if path == "v2v2" {
		c.Via = rapid.SampledFrom([]string{"backuper", "rings"}).Draw(t, "via")
		if c.Target == "conflict" && c.Via == "rings" {
			c.Decision = rapid.SampledFrom([]string{"abort", "skip", "overwrite"}).Draw(t, "decision")
		}
		if c.Via == "backuper" && !tamper && rapid.IntRange(0, 2).Draw(t, "cli.v2") == 0 {
			// through the real acra-keys binary: export [--all] [--private_keys] [key ids], then import, as separate processes
			c.Via = "acra-keys"
		}
		if c.Via == "backuper" || c.Via == "acra-keys" {
			// as the CLI drives it: --all lists every ring (mode "all", or "private" when --private_keys is given
			// as well); explicit ids come with public or private
			if c.Bulk {
				if c.Mode != "private" {
					c.Mode = "all"
				}
			} else if c.Mode == "all" {
				c.Mode = "private"
			}
		}
	}
	if !c.Bulk {
		n := rapid.IntRange(1, 4).Draw(t, "nkeys")
		seen := map[Sel]bool{}
		for i := 0; i < n; i++ {
			s := Sel{Kind: rapid.SampledFrom(kshist.Kinds).Draw(t, "sel.kind")}
			// mostly keys the history touches
			if rapid.IntRange(0, 3).Draw(t, "sel.fromops") != 0 && len(c.Ops) > 0 {
				o := c.Ops[rapid.IntRange(0, len(c.Ops)-1).Draw(t, "sel.op")]
				if o.Key != "" {
					s.Kind, s.ID = o.Key, o.ID
				}
			}
			if kshist.PerClient(s.Kind) && s.ID == "" {
				s.ID = rapid.SampledFrom(c.IDs).Draw(t, "sel.id")
			}
			if !kshist.PerClient(s.Kind) {
				s.ID = ""
			}
			if kshist.IsPair(s.Kind) && path == "v1v1" {
				s.Half = "private"
				if c.Mode == "public" {
					s.Half = "public"
				}
			}
			if !seen[s] {
				seen[s] = true
				c.Keys = append(c.Keys, s)
			}
		}
	}
	if c.Via == "acra-keys" && !c.Bulk && c.Mode == "public" {
		// the command refuses to export symmetric keys by id without --private_keys
		for _, k := range c.Keys {
			if k.Kind == kshist.StorageSym || k.Kind == kshist.HMAC {
				c.Mode = "private"
			}
		}
	}
	if tamper {
		tm := Tamper{What: rapid.SampledFrom([]string{"bundle-byte", "bundle-byte", "bundle-byte", "key-byte", "key-byte", "truncate", "other-keys"}).Draw(t, "tamper")}
		switch rapid.IntRange(0, 3).Draw(t, "tamper.where") {
		case 0:
			tm.Pos = rapid.IntRange(0, 31).Draw(t, "pos.head")
		case 1:
			tm.Pos = -1 - rapid.IntRange(0, 63).Draw(t, "pos.tail")
		default:
			tm.Pos = rapid.IntRange(0, 1<<16).Draw(t, "pos")
		}
		if rapid.Bool().Draw(t, "bit") {
			tm.Mask = 1 << rapid.IntRange(0, 7).Draw(t, "bitno")
		} else {
			tm.Mask = rapid.IntRange(1, 255).Draw(t, "mask")
		}
		c.Tamper = &tm
		// a tampered bundle is only interesting when it carries something
		if c.Mode == "public" && path == "v1v1" {
			c.Mode = "private"
			for i := range c.Keys {
				if c.Keys[i].Half == "public" {
					c.Keys[i].Half = "private"
				}
			}
		}
	}
	return c
}

// ---------------------------------------------------------------------------------------------
// keystores

// store is one keystore (source or target) with raw access to what it holds.
type store struct {
	format string // v1 | v2
	fx     kshist.Fixture
	dir    string             // v1
	mem    backendapi.Backend // v2 (in-memory back end)
	close  func()
}

func openStore(format string) (*store, error) {
	s := &store{format: format}
	if format == "v1" {
		dir := fix.TempDir("c18-v1-")
		fx, err := kshist.NewV1On(dir, nil, kshist.CacheOff)
		if err != nil {
			os.RemoveAll(dir)
			return nil, err
		}
		s.fx, s.dir, s.close = fx, dir, func() { fx.Close(); os.RemoveAll(dir) }
		return s, nil
	}
	m := backend.NewInMemory()
	fx, err := kshist.NewV2On("v2/mem", func() (backendapi.Backend, error) { return m, nil })
	if err != nil {
		return nil, err
	}
	s.fx, s.mem, s.close = fx, m, func() { fx.Close() }
	return s, nil
}

func (s *store) v1() *filesystem.KeyStore { return s.fx.KS().(*filesystem.KeyStore) }
func (s *store) v2() *kv2.ServerKeyStore  { return s.fx.KS().(*kv2.ServerKeyStore) }

// raw returns every stored object: name -> content.
func (s *store) raw() map[string]string {
	out := map[string]string{}
	if s.mem != nil {
		paths, _ := s.mem.ListAll()
		for _, p := range paths {
			if d, err := s.mem.Get(p); err == nil {
				out[p] = string(d)
			}
		}
		return out
	}
	filepath.Walk(s.dir, func(p string, info os.FileInfo, err error) error {
		if err != nil {
			return nil
		}
		rel, _ := filepath.Rel(s.dir, p)
		if info.IsDir() {
			out[rel+"/"] = ""
		} else if d, rerr := os.ReadFile(p); rerr == nil {
			out[rel] = string(d)
		}
		return nil
	})
	return out
}

func rawDiff(a, b map[string]string) []string {
	var out []string
	for k, v := range b {
		if w, ok := a[k]; !ok {
			out = append(out, "created "+k)
		} else if w != v {
			out = append(out, "changed "+k)
		}
	}
	for k := range a {
		if _, ok := b[k]; !ok {
			out = append(out, "removed "+k)
		}
	}
	sort.Strings(out)
	return out
}

// clone returns a v2 keystore handle on a copy of the store's back end: the v2 getters create empty
// key rings for keys that do not exist, so observing must not happen on the real thing.
func (s *store) cloneV2() (*kv2.ServerKeyStore, func()) {
	m := backend.NewInMemory()
	paths, _ := s.mem.ListAll()
	for _, p := range paths {
		if d, err := s.mem.Get(p); err == nil {
			m.Put(p, append([]byte(nil), d...))
		}
	}
	ks, ms := fix.V2OnBackend(m)
	return ks, func() { ms.Close() }
}

// ---------------------------------------------------------------------------------------------
// observation through the API

// slot is one reader's result: the values in the order offered, or that it failed.
type slot struct {
	Vals []string // hex
	Err  string   // "" = success
}

func (s slot) ok() bool { return s.Err == "" }

func (s slot) equal(o slot) bool {
	if s.ok() != o.ok() {
		return false
	}
	if !s.ok() {
		return true
	}
	if len(s.Vals) != len(o.Vals) {
		return false
	}
	for i := range s.Vals {
		if s.Vals[i] != o.Vals[i] {
			return false
		}
	}
	return true
}

func (s slot) String() string {
	if !s.ok() {
		return "error(" + s.Err + ")"
	}
	sh := make([]string, len(s.Vals))
	for i, v := range s.Vals {
		if len(v) > 8 {
			v = v[len(v)-8:]
		}
		sh[i] = "…" + v
	}
	return "[" + strings.Join(sh, " ") + "]"
}

// Slots of a key: "current" (private or symmetric key), "all" (keys offered for decryption, newest
// first; absent for HMAC / audit-log keys), "public" (pairs).
const (
	slotCurrent = "current"
	slotAll     = "all"
	slotPublic  = "public"
)

func slotsOf(kind string) []string {
	switch {
	case kshist.IsPair(kind):
		return []string{slotCurrent, slotAll, slotPublic}
	case kshist.HasAllKeys(kind):
		return []string{slotCurrent, slotAll}
	}
	return []string{slotCurrent}
}

type obs map[kshist.K]map[string]slot

func hexes(vs ...[]byte) []string {
	out := make([]string, len(vs))
	for i, v := range vs {
		out[i] = hex.EncodeToString(v)
	}
	return out
}

func mk(vals []string, err error) slot {
	if err != nil {
		return slot{Err: scrub(err.Error())}
	}
	return slot{Vals: vals}
}

// readKey reads one key through every reader the keystore API has for its kind. The v1 poison public
// key has no reader of its own (GetPoisonKeyPair needs the private key too): see readPoisonPublicV1.
func readKey(ks kshist.KeyStore, k kshist.K) map[string]slot {
	id := []byte(k.ID)
	out := map[string]slot{}
	privs := func(ps []*keys.PrivateKey, err error) slot {
		var v []string
		for _, p := range ps {
			v = append(v, hex.EncodeToString(p.Value))
		}
		return mk(v, err)
	}
	syms := func(ss [][]byte, err error) slot { return mk(hexes(ss...), err) }
	switch k.Kind {
	case kshist.StoragePair:
		p, err := ks.GetServerDecryptionPrivateKey(id)
		if err == nil {
			out[slotCurrent] = mk(hexes(p.Value), nil)
		} else {
			out[slotCurrent] = mk(nil, err)
		}
		out[slotAll] = privs(ks.GetServerDecryptionPrivateKeys(id))
		pub, err := ks.GetClientIDEncryptionPublicKey(id)
		if err == nil {
			out[slotPublic] = mk(hexes(pub.Value), nil)
		} else {
			out[slotPublic] = mk(nil, err)
		}
	case kshist.StorageSym:
		s, err := ks.GetClientIDSymmetricKey(id)
		out[slotCurrent] = mk(hexes(s), err)
		out[slotAll] = syms(ks.GetClientIDSymmetricKeys(id))
	case kshist.HMAC:
		s, err := ks.GetHMACSecretKey(id)
		out[slotCurrent] = mk(hexes(s), err)
	case kshist.PoisonPair:
		kp, err := ks.GetPoisonKeyPair()
		if err == nil {
			out[slotCurrent] = mk(hexes(kp.Private.Value), nil)
			out[slotPublic] = mk(hexes(kp.Public.Value), nil)
		} else {
			out[slotCurrent] = mk(nil, err)
			out[slotPublic] = mk(nil, err)
		}
		out[slotAll] = privs(ks.GetPoisonPrivateKeys())
	case kshist.PoisonSym:
		s, err := ks.GetPoisonSymmetricKey()
		out[slotCurrent] = mk(hexes(s), err)
		out[slotAll] = syms(ks.GetPoisonSymmetricKeys())
	case kshist.AuditLog:
		s, err := ks.GetLogSecretKey()
		out[slotCurrent] = mk(hexes(s), err)
	}
	// "all" of an empty set is reported as an error by some readers and as an empty list by others
	if a, ok := out[slotAll]; ok && a.ok() && len(a.Vals) == 0 {
		out[slotAll] = slot{Err: "no keys"}
	}
	return out
}

// universe lists every key the case can touch: all kinds x (case ids + the unrelated id).
func universe(ids []string) []kshist.K {
	var out []kshist.K
	for _, id := range append(append([]string{}, ids...), unrelatedID) {
		for _, kind := range []string{kshist.StoragePair, kshist.StorageSym, kshist.HMAC} {
			out = append(out, kshist.K{Kind: kind, ID: id})
		}
	}
	for _, kind := range []string{kshist.PoisonPair, kshist.PoisonSym, kshist.AuditLog} {
		out = append(out, kshist.K{Kind: kind})
	}
	return out
}

// observe reads every key of the universe. v1: on a fresh cache-less handle; v2: on a clone.
func (s *store) observe(ids []string) obs {
	var ks kshist.KeyStore
	if s.format == "v1" {
		ks = fix.V1(s.dir, keystore.WithoutCache)
	} else {
		c, done := s.cloneV2()
		defer done()
		ks = c
	}
	out := obs{}
	for _, k := range universe(ids) {
		out[k] = readKey(ks, k)
	}
	if s.format == "v1" {
		// the public half of the poison pair, as stored
		pk := kshist.K{Kind: kshist.PoisonPair}
		if b, err := os.ReadFile(filepath.Join(s.dir, ".poison_key", "poison_key.pub")); err == nil {
			out[pk][slotPublic] = mk(hexes(b), nil)
		} else {
			out[pk][slotPublic] = slot{Err: "no file"}
		}
	}
	return out
}

// listing is what ListKeys / ListRotatedKeys show, normalised (no times).
func (s *store) listing() []string {
	var ks kshist.KeyStore
	if s.format == "v1" {
		ks = fix.V1(s.dir, keystore.WithoutCache)
	} else {
		c, done := s.cloneV2()
		defer done()
		ks = c
	}
	var out []string
	cur, err := ks.ListKeys()
	if err != nil {
		out = append(out, "ListKeys error")
	}
	for _, d := range cur {
		out = append(out, fmt.Sprintf("current %s #%d %s", d.KeyID, d.Index, d.State))
	}
	rot, err := ks.ListRotatedKeys()
	if err != nil {
		out = append(out, "ListRotatedKeys error")
	}
	for _, d := range rot {
		out = append(out, fmt.Sprintf("rotated %s #%d %s", d.KeyID, d.Index, d.State))
	}
	sort.Strings(out)
	return out
}

// ---------------------------------------------------------------------------------------------
// v2 key rings, as stored (order, states, current marker)

type ringKey struct {
	Seq   int
	State int
	Pub   string
	Priv  string // value or "error:..."
	Sym   string
}

type ringObs struct {
	Exists  bool
	Err     string
	Current int // seqnum, -1 = none
	Keys    []ringKey
}

func ringPath(k kshist.K) string {
	switch k.Kind {
	case kshist.StoragePair:
		return "client/" + k.ID + "/storage"
	case kshist.StorageSym:
		return "client/" + k.ID + "/storage-sym"
	case kshist.HMAC:
		return "client/" + k.ID + "/hmac-sym"
	case kshist.PoisonPair:
		return "poison-record"
	case kshist.PoisonSym:
		return "poison-record-sym"
	}
	return "audit-log"
}

func readRing(ks *kv2.ServerKeyStore, k kshist.K) ringObs {
	r, err := ks.OpenKeyRing(ringPath(k))
	if err == backendapi.ErrNotExist {
		return ringObs{}
	}
	if err != nil {
		return ringObs{Exists: true, Err: scrub(err.Error())}
	}
	o := ringObs{Exists: true, Current: -1}
	if c, err := r.CurrentKey(); err == nil {
		o.Current = c
	}
	seqs, _ := r.AllKeys()
	for i := len(seqs) - 1; i >= 0; i-- { // oldest first
		q := seqs[i]
		st, _ := r.State(q)
		rk := ringKey{Seq: q, State: int(st)}
		val := func(b []byte, err error) string {
			if err != nil {
				return "error:" + err.Error()
			}
			return hex.EncodeToString(b)
		}
		if kshist.IsPair(k.Kind) {
			rk.Pub = val(r.PublicKey(q, v2api.ThemisKeyPairFormat))
			rk.Priv = val(r.PrivateKey(q, v2api.ThemisKeyPairFormat))
		} else {
			rk.Sym = val(r.SymmetricKey(q, v2api.ThemisSymmetricKeyFormat))
		}
		o.Keys = append(o.Keys, rk)
	}
	return o
}

func (a ringObs) equal(b ringObs) bool {
	if a.Exists != b.Exists || a.Err != b.Err || a.Current != b.Current || len(a.Keys) != len(b.Keys) {
		return false
	}
	for i := range a.Keys {
		if a.Keys[i] != b.Keys[i] {
			return false
		}
	}
	return true
}

func (a ringObs) String() string {
	if !a.Exists {
		return "absent"
	}
	if a.Err != "" {
		return "error(" + a.Err + ")"
	}
	var ks []string
	for _, k := range a.Keys {
		v := k.Priv + k.Sym
		if strings.HasPrefix(v, "error:") {
			v = "(" + strings.TrimPrefix(v, "error:") + ")"
		} else if len(v) > 6 {
			v = "…" + v[len(v)-6:]
		}
		ks = append(ks, fmt.Sprintf("#%d/state%d/%s", k.Seq, k.State, v))
	}
	return fmt.Sprintf("current=#%d keys=%v", a.Current, ks)
}

func (s *store) rings(ids []string) map[kshist.K]ringObs {
	ks, done := s.cloneV2()
	defer done()
	out := map[kshist.K]ringObs{}
	for _, k := range universe(ids) {
		out[k] = readRing(ks, k)
	}
	return out
}

// ---------------------------------------------------------------------------------------------
// helpers

var scratch = regexp.MustCompile(`[^\s:"']*(c18-v[12]-|kshist-v[12]-)[0-9]+`)
var timeName = regexp.MustCompile(`[0-9]{4}-[0-9]{2}-[0-9]{2}T[0-9]{2}:[0-9]{2}:[0-9]{2}(\.[0-9]+)?`)

func scrub(s string) string {
	return timeName.ReplaceAllString(scratch.ReplaceAllString(s, "<keystore>"), "<time>")
}

func errs(err error) string {
	if err == nil {
		return "<nil>"
	}
	return scrub(err.Error())
}

// secretsOf lists every private/symmetric key value of the source, learnt through the API.
func secretsOf(m *kshist.Model) map[string][]byte {
	out := map[string][]byte{}
	for _, k := range m.Keys() {
		for _, g := range m.H(k).Gens {
			if g.Learnt && len(g.Val.Secret) >= 16 {
				out[k.String()+"/"+g.Label()] = append([]byte(nil), g.Val.Secret...)
			}
		}
	}
	return out
}

// findSecret looks for a secret in data: raw, hex, base64.
func findSecret(data []byte, secrets map[string][]byte) string {
	var names []string
	for n := range secrets {
		names = append(names, n)
	}
	sort.Strings(names)
	for _, n := range names {
		v := secrets[n]
		h := hex.EncodeToString(v)
		for form, pat := range map[string][]byte{"raw": v, "hex": []byte(h), "HEX": []byte(strings.ToUpper(h)),
			"base64": []byte(base64.StdEncoding.EncodeToString(v)), "base64-nopad": []byte(base64.RawStdEncoding.EncodeToString(v)),
			"base64url": []byte(base64.URLEncoding.EncodeToString(v)), "raw-tail": v[len(v)-16:]} {
			if bytes.Contains(data, pat) {
				return fmt.Sprintf("%s (%s)", n, form)
			}
		}
	}
	return ""
}

func tamperBytes(b []byte, t *Tamper) []byte {
	out := append([]byte(nil), b...)
	if len(out) == 0 {
		return out
	}
	pos := t.Pos % len(out)
	if pos < 0 {
		pos += len(out)
	}
	m := byte(t.Mask)
	if m == 0 {
		m = 1
	}
	out[pos] ^= m
	return out
}

func decode[T any](raw json.RawMessage) (T, hx.Vs) {
	var c T
	if err := json.Unmarshal(raw, &c); err != nil {
		return c, hx.Vs{{Sig: "harness:decode", Msg: err.Error()}}
	}
	return c, nil
}

var _ = gen.Hex(nil)
