package c18

import (
	"encoding/json"
	"flag"
	"fmt"
	"testing"

	"pgregory.net/rapid"

	"verif/internal/hx"
)

func classes(c Case, res *result) []string {
	cl := []string{"path:" + c.Path, "mode:" + c.Mode, "target:" + c.Target}
	if c.Bulk {
		cl = append(cl, "selection:bulk")
	} else {
		cl = append(cl, "selection:by-id")
	}
	if c.Via != "" {
		cl = append(cl, "via:"+c.Via)
	}
	if c.DirSpell != 0 {
		cl = append(cl, fmt.Sprintf("key-directory-spelling:%d", c.DirSpell))
	}
	if c.Decision != "" {
		cl = append(cl, "decision:"+c.Decision)
	}
	if c.Tamper != nil {
		cl = append(cl, "tamper-requested:"+c.Tamper.What)
	}
	return append(cl, res.classes...)
}

func runProp(t *testing.T, name, rule, path string, tamper bool, quick, thorough int) {
	R.Rule(name, rule)
	hx.Checks(quick, thorough)
	flag.Set("rapid.shrinktime", "15s")
	rapid.Check(t, func(rt *rapid.T) {
		p := path
		if p == "" {
			p = rapid.SampledFrom([]string{"v1v1", "v2v2", "v2v2"}).Draw(rt, "path")
		}
		c := genCase(rt, p, tamper)
		vs, res := Check(c)
		R.Seen(name, c, res.nontrivial, classes(c, res)...)
		R.Report(rt, name, c, vs)
	})
}

const common = "source keystore built by a kshist history (1-14 operations: rotations, destructions, 6 key kinds, 1-3 client ids); selection = everything (bulk) or 1-4 keys by id (mostly keys the history touches); mode public / private / all; target empty, with unrelated keys, or with conflicting keys of its own. Honest import: every exported part of every selected key is offered by the target exactly as the source offers it (v2: key ring compared key by key: order, states, current marker, values), nothing else changes, and no secret learnt from the source occurs (raw/hex/base64) in the bundle. Non-trivial = the selection covers a key with at least one rotated generation, or a tamper was applied."

// Quick: 4 shards x (35 + 35 + 30 + 30) = 520 cases.
func TestExportImportV1(t *testing.T) {
	runProp(t, "TestExportImportV1", "v1 -> v1 through filesystem.KeyBackuper Export/Import (bulk = no export ids, as acra-backup and `acra-keys export --all`; by id = ExportIDs as `acra-keys export <ids>`). "+common, "v1v1", false, 35, 1000)
}

func TestExportImportV2(t *testing.T) {
	runProp(t, "TestExportImportV2", "v2 -> v2 through the v2 KeyBackuper (as acra-keys drives it) or ExportKeyRings/ImportKeyRings with a conflict delegate (abort/skip/overwrite). "+common, "v2v2", false, 35, 1500)
}

func TestMigrateV1toV2(t *testing.T) {
	runProp(t, "TestMigrateV1toV2", "v1 -> v2 as `acra-keys migrate-keys` does it: EnumerateExportedKeys + ImportKeyFileV1 for every (selected) key; the target must offer every migrated key as the source does (current, public, and the keys offered for decryption). "+common, "v1v2", false, 30, 600)
}

func TestTamper(t *testing.T) {
	runProp(t, "TestTamper", "v1 -> v1 and v2 -> v2 with one manipulation: single-byte change of the bundle (position anywhere / head / tail; bit flip or mask), single-byte change of the access keys, truncated bundle, access keys of another export of the same selection. The import must fail and the target's stored bytes, every key read through the API and both listings must be what they were. "+common, "", true, 30, 900)
}

func TestReplay(t *testing.T) {
	h := func(raw json.RawMessage) hx.Vs {
		c, vs := decode[Case](raw)
		if vs != nil {
			return vs
		}
		out, _ := Check(c)
		return out
	}
	R.Replay(t, map[string]hx.ReplayHandler{"TestExportImportV1": h, "TestExportImportV2": h, "TestMigrateV1toV2": h, "TestTamper": h})
}
