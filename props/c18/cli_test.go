package c18

import (
	"bytes"
	"encoding/base64"
	"fmt"
	"os"
	"os/exec"
	"path/filepath"
	"regexp"
	"strings"
	"sync"

	"verif/internal/fix"
)

// The acra-backup binary is built once per test process from the tree under test: the module graph of
// /verif (VERIF_ROOT) replaces github.com/cossacklabs/acra by that tree (the driver exports the generated
// module file as VERIF_MODFILE when it checks another tree than /repo).
var (
	cliOnce sync.Once
	cliBin  string
	cliErr  error
)

func acraBackupBinary() (string, error) {
	cliOnce.Do(func() {
		root := os.Getenv("VERIF_ROOT")
		if root == "" {
			root = "/verif"
		}
		dir, err := os.MkdirTemp("", "c18-cli-")
		if err != nil {
			cliErr = err
			return
		}
		cliBin = filepath.Join(dir, "acra-backup")
		args := []string{"build", "-o", cliBin}
		if mf := os.Getenv("VERIF_MODFILE"); mf != "" {
			args = append(args, "-modfile="+mf)
		}
		args = append(args, "github.com/cossacklabs/acra/cmd/acra-backup")
		cmd := exec.Command("go", args...)
		cmd.Dir = root
		cmd.Env = append(os.Environ(), "GOFLAGS=-mod=mod", "GOPROXY=off", "GOSUMDB=off", "GOTOOLCHAIN=local")
		if out, err := cmd.CombinedOutput(); err != nil {
			cliErr = fmt.Errorf("building acra-backup: %v: %s", err, out)
		}
	})
	return cliBin, cliErr
}

var backupKeyLine = regexp.MustCompile(`Backup master key: ([A-Za-z0-9+/=]+)`)

func runBackup(env []string, args ...string) (string, error) {
	bin, err := acraBackupBinary()
	if err != nil {
		return "", err
	}
	work, err := os.MkdirTemp("", "c18-cli-run-")
	if err != nil {
		return "", err
	}
	defer os.RemoveAll(work)
	cmd := exec.Command(bin, args...)
	cmd.Dir = work // no configs/ directory here: the tool runs on flags and defaults only
	cmd.Env = append([]string{"PATH=" + os.Getenv("PATH"), "ACRA_MASTER_KEY=" + base64.StdEncoding.EncodeToString(fix.MasterKey)}, env...)
	var out bytes.Buffer
	cmd.Stdout, cmd.Stderr = &out, &out
	err = cmd.Run()
	return out.String(), err
}

// cliExport runs `acra-backup --action=export` on a v1 key directory.
func cliExport(dir string) (*bundle, error) {
	f, err := os.CreateTemp("", "c18-backup-")
	if err != nil {
		return nil, err
	}
	f.Close()
	defer os.Remove(f.Name())
	out, err := runBackup(nil, "--action=export", "--keys_private_dir="+dir, "--file="+f.Name())
	if err != nil {
		if strings.HasPrefix(err.Error(), "building") {
			return nil, fmt.Errorf("harness: %v", err)
		}
		return nil, fmt.Errorf("acra-backup --action=export: %v: %s", err, lastLines(out))
	}
	m := backupKeyLine.FindStringSubmatch(out)
	if m == nil {
		return nil, fmt.Errorf("acra-backup --action=export printed no backup master key: %s", lastLines(out))
	}
	key, err := base64.StdEncoding.DecodeString(m[1])
	if err != nil {
		return nil, fmt.Errorf("acra-backup --action=export printed an undecodable backup master key %q", m[1])
	}
	data, err := os.ReadFile(f.Name())
	if err != nil {
		return nil, err
	}
	return &bundle{data: data, keys: key}, nil
}

// cliImport runs `acra-backup --action=import` into a v1 key directory.
func cliImport(dir string, b *bundle) error {
	f, err := os.CreateTemp("", "c18-backup-")
	if err != nil {
		return err
	}
	defer os.Remove(f.Name())
	if _, err := f.Write(b.data); err != nil {
		return err
	}
	f.Close()
	out, err := runBackup([]string{"BACKUP_MASTER_KEY=" + base64.StdEncoding.EncodeToString(b.keys)}, "--action=import", "--keys_private_dir="+dir, "--file="+f.Name())
	if err != nil {
		return fmt.Errorf("acra-backup --action=import: %v: %s", err, lastLines(out))
	}
	return nil
}

var logPrefix = regexp.MustCompile(`^time="[^"]*" `)

// lastLines keeps the error entries of the tool's output, without time stamps (messages must not depend on the run).
func lastLines(s string) string {
	var keep []string
	for _, l := range strings.Split(strings.TrimSpace(s), "\n") {
		if strings.Contains(l, "level=error") || strings.Contains(l, "panic") {
			keep = append(keep, logPrefix.ReplaceAllString(l, ""))
		}
	}
	if len(keep) > 3 {
		keep = keep[len(keep)-3:]
	}
	return strings.Join(keep, " | ")
}
