package c18

import (
	"bytes"
	"encoding/base64"
	"fmt"
	"os"
	"os/exec"
	"path/filepath"
	"regexp"
	"strings"
	"sync"

	kv2 "github.com/cossacklabs/acra/keystore/v2/keystore"
	"github.com/cossacklabs/acra/keystore/v2/keystore/filesystem/backend"
	backendapi "github.com/cossacklabs/acra/keystore/v2/keystore/filesystem/backend/api"

	"verif/internal/fix"
)

// The acra-backup binary is built once per test process from the tree under test: the module graph of
// /verif (VERIF_ROOT) replaces github.com/cossacklabs/acra by that tree (the driver exports the generated
// module file as VERIF_MODFILE when it checks another tree than /repo).
var (
	cliOnce sync.Once
	cliBin  string
	cliErr  error

	keysOnce sync.Once
	keysBin  string
	keysErr  error
)

func buildTool(name string) (string, error) {
	root := os.Getenv("VERIF_ROOT")
	if root == "" {
		root = "/verif"
	}
	dir, err := os.MkdirTemp("", "c18-cli-")
	if err != nil {
		return "", err
	}
	bin := filepath.Join(dir, name)
	args := []string{"build", "-o", bin}
	if mf := os.Getenv("VERIF_MODFILE"); mf != "" {
		args = append(args, "-modfile="+mf)
	}
	args = append(args, "github.com/cossacklabs/acra/cmd/"+name)
	cmd := exec.Command("go", args...)
	cmd.Dir = root
	cmd.Env = append(os.Environ(), "GOFLAGS=-mod=mod", "GOPROXY=off", "GOSUMDB=off", "GOTOOLCHAIN=local")
	if out, err := cmd.CombinedOutput(); err != nil {
		return "", fmt.Errorf("building %s: %v: %s", name, err, out)
	}
	return bin, nil
}

func acraBackupBinary() (string, error) {
	cliOnce.Do(func() { cliBin, cliErr = buildTool("acra-backup") })
	return cliBin, cliErr
}

func acraKeysBinary() (string, error) {
	keysOnce.Do(func() { keysBin, keysErr = buildTool("acra-keys") })
	return keysBin, keysErr
}

var backupKeyLine = regexp.MustCompile(`Backup master key: ([A-Za-z0-9+/=]+)`)

func runBackup(env []string, args ...string) (string, error) {
	bin, err := acraBackupBinary()
	if err != nil {
		return "", err
	}
	work, err := os.MkdirTemp("", "c18-cli-run-")
	if err != nil {
		return "", err
	}
	defer os.RemoveAll(work)
	cmd := exec.Command(bin, args...)
	cmd.Dir = work // no configs/ directory here: the tool runs on flags and defaults only
	cmd.Env = append([]string{"PATH=" + os.Getenv("PATH"), "ACRA_MASTER_KEY=" + base64.StdEncoding.EncodeToString(fix.MasterKey)}, env...)
	var out bytes.Buffer
	cmd.Stdout, cmd.Stderr = &out, &out
	err = cmd.Run()
	return out.String(), err
}

// cliExport runs `acra-backup --action=export` on a v1 key directory.
func cliExport(dir string) (*bundle, error) {
	f, err := os.CreateTemp("", "c18-backup-")
	if err != nil {
		return nil, err
	}
	f.Close()
	defer os.Remove(f.Name())
	out, err := runBackup(nil, "--action=export", "--keys_private_dir="+dir, "--file="+f.Name())
	if err != nil {
		if strings.HasPrefix(err.Error(), "building") {
			return nil, fmt.Errorf("harness: %v", err)
		}
		return nil, fmt.Errorf("acra-backup --action=export: %v: %s", err, lastLines(out))
	}
	m := backupKeyLine.FindStringSubmatch(out)
	if m == nil {
		return nil, fmt.Errorf("acra-backup --action=export printed no backup master key: %s", lastLines(out))
	}
	key, err := base64.StdEncoding.DecodeString(m[1])
	if err != nil {
		return nil, fmt.Errorf("acra-backup --action=export printed an undecodable backup master key %q", m[1])
	}
	data, err := os.ReadFile(f.Name())
	if err != nil {
		return nil, err
	}
	return &bundle{data: data, keys: key}, nil
}

// cliImport runs `acra-backup --action=import` into a v1 key directory.
func cliImport(dir string, b *bundle) error {
	f, err := os.CreateTemp("", "c18-backup-")
	if err != nil {
		return err
	}
	defer os.Remove(f.Name())
	if _, err := f.Write(b.data); err != nil {
		return err
	}
	f.Close()
	out, err := runBackup([]string{"BACKUP_MASTER_KEY=" + base64.StdEncoding.EncodeToString(b.keys)}, "--action=import", "--keys_private_dir="+dir, "--file="+f.Name())
	if err != nil {
		return fmt.Errorf("acra-backup --action=import: %v: %s", err, lastLines(out))
	}
	return nil
}

var logPrefix = regexp.MustCompile(`^time="[^"]*" `)

// lastLines keeps the error entries of the tool's output, without time stamps (messages must not depend on the run).
func lastLines(s string) string {
	var keep []string
	for _, l := range strings.Split(strings.TrimSpace(s), "\n") {
		if strings.Contains(l, "level=error") || strings.Contains(l, "level=fatal") || strings.Contains(l, "panic") {
			keep = append(keep, logPrefix.ReplaceAllString(l, ""))
		}
	}
	if len(keep) > 3 {
		keep = keep[len(keep)-3:]
	}
	return strings.Join(keep, " | ")
}

// ---- acra-keys on a keystore v2 -------------------------------------------------------------------

// v2MasterKeyEnv is ACRA_MASTER_KEY of the fixtures' v2 key stores (fix.V2Suite).
func v2MasterKeyEnv() string {
	enc, sig := make([]byte, 32), make([]byte, 32)
	for i := range enc {
		enc[i], sig[i] = byte(i+1), byte(0xA0+i)
	}
	b, _ := (&kv2.SerializedKeys{Encryption: enc, Signature: sig}).Marshal()
	return "ACRA_MASTER_KEY=" + base64.StdEncoding.EncodeToString(b)
}

// memToDir writes the content of an in-memory back end into a fresh directory back end.
func memToDir(m backendapi.Backend) (string, error) {
	root := fix.TempDir("c18-v2dir-")
	dir := filepath.Join(root, "keys")
	d, err := backend.CreateDirectoryBackend(dir)
	if err != nil {
		os.RemoveAll(root)
		return "", err
	}
	defer d.Close()
	paths, err := m.ListAll()
	if err != nil {
		os.RemoveAll(root)
		return "", err
	}
	for _, p := range paths {
		data, err := m.Get(p)
		if err == nil {
			err = d.Put(p, data)
		}
		if err != nil {
			os.RemoveAll(root)
			return "", err
		}
	}
	return dir, nil
}

// dirToMem brings the in-memory back end to the state of the directory (objects are never removed by an import).
func dirToMem(dir string, m backendapi.Backend) error {
	d, err := backend.OpenDirectoryBackend(dir)
	if err != nil {
		return err
	}
	defer d.Close()
	paths, err := d.ListAll()
	if err != nil {
		return err
	}
	have := map[string]bool{}
	for _, p := range paths {
		have[p] = true
		data, err := d.Get(p)
		if err != nil {
			return err
		}
		if old, err := m.Get(p); err == nil && bytes.Equal(old, data) {
			continue
		}
		if err := m.Put(p, data); err != nil {
			return err
		}
	}
	old, _ := m.ListAll()
	for _, p := range old {
		if !have[p] {
			return fmt.Errorf("object %q disappeared from the directory", p)
		}
	}
	return nil
}

func runKeys(args ...string) (string, error) {
	bin, err := acraKeysBinary()
	if err != nil {
		return "", fmt.Errorf("harness: %v", err)
	}
	work, err := os.MkdirTemp("", "c18-cli-run-")
	if err != nil {
		return "", err
	}
	defer os.RemoveAll(work)
	cmd := exec.Command(bin, args...)
	cmd.Dir = work
	cmd.Env = []string{"PATH=" + os.Getenv("PATH"), v2MasterKeyEnv()}
	var out bytes.Buffer
	cmd.Stdout, cmd.Stderr = &out, &out
	err = cmd.Run()
	return out.String(), err
}

// keysExportV2 runs `acra-keys export` on a copy of the in-memory v2 store: --all (with --private_keys for mode
// "private") or the named keys.
func keysExportV2(m backendapi.Backend, all, private bool, keyIDs []string) (*bundle, error) {
	dir, err := memToDir(m)
	if err != nil {
		return nil, fmt.Errorf("harness: %v", err)
	}
	defer os.RemoveAll(filepath.Dir(dir))
	out := filepath.Dir(dir)
	dataFile, keysFile := filepath.Join(out, "bundle.dat"), filepath.Join(out, "bundle.key")
	args := []string{"export", "--keys_dir=" + dir, "--key_bundle_file=" + dataFile, "--key_bundle_secret=" + keysFile}
	if all {
		args = append(args, "--all")
	}
	if private {
		args = append(args, "--private_keys")
	}
	args = append(args, keyIDs...)
	o, err := runKeys(args...)
	if err != nil {
		if strings.HasPrefix(err.Error(), "harness") {
			return nil, err
		}
		return nil, fmt.Errorf("acra-keys export: %v: %s", err, lastLines(o))
	}
	data, err := os.ReadFile(dataFile)
	if err != nil {
		return nil, fmt.Errorf("acra-keys export reported success but wrote no bundle: %v", err)
	}
	keys, err := os.ReadFile(keysFile)
	if err != nil {
		return nil, fmt.Errorf("acra-keys export reported success but wrote no bundle secret: %v", err)
	}
	return &bundle{data: data, keys: keys}, nil
}

// keysImportV2 runs `acra-keys import` on a directory copy of the in-memory target and brings the result back.
func keysImportV2(m backendapi.Backend, b *bundle) error {
	dir, err := memToDir(m)
	if err != nil {
		return fmt.Errorf("harness: %v", err)
	}
	defer os.RemoveAll(filepath.Dir(dir))
	out := filepath.Dir(dir)
	dataFile, keysFile := filepath.Join(out, "bundle.dat"), filepath.Join(out, "bundle.key")
	if err := os.WriteFile(dataFile, b.data, 0o600); err != nil {
		return err
	}
	if err := os.WriteFile(keysFile, b.keys, 0o600); err != nil {
		return err
	}
	o, rerr := runKeys("import", "--keys_dir="+dir, "--key_bundle_file="+dataFile, "--key_bundle_secret="+keysFile)
	if rerr != nil && strings.HasPrefix(rerr.Error(), "harness") {
		return rerr
	}
	if err := dirToMem(dir, m); err != nil {
		return fmt.Errorf("harness: %v", err)
	}
	if rerr != nil {
		return fmt.Errorf("acra-keys import: %v: %s", rerr, lastLines(o))
	}
	return nil
}
