package c18

import (
	"fmt"
	"sort"
	"strings"

	"github.com/cossacklabs/acra/keystore"
	"github.com/cossacklabs/acra/keystore/filesystem"
	kv2 "github.com/cossacklabs/acra/keystore/v2/keystore"
	v2api "github.com/cossacklabs/acra/keystore/v2/keystore/api"
	"github.com/cossacklabs/acra/keystore/v2/keystore/asn1"
	v2crypto "github.com/cossacklabs/acra/keystore/v2/keystore/crypto"

	"verif/internal/fix"
	"verif/internal/hx"
	"verif/internal/kshist"
)

// result describes what a case exercised.
type result struct {
	classes    []string
	nontrivial bool
}

func (r *result) class(format string, args ...any) {
	r.classes = append(r.classes, fmt.Sprintf(format, args...))
}

// run is the state of one case.
type run struct {
	c        Case
	res      *result
	src, tgt *store
	model    *kshist.Model
	sel      []kshist.K          // selected keys
	half     map[kshist.K]string // export by id of a pair: which half
	obsSrc   obs
	before   obs
	rawB     map[string]string
	listB    []string
	ringsSrc map[kshist.K]ringObs
	ringsB   map[kshist.K]ringObs
	// migration: every key that failed to import was a file of a history (".old") directory
	failedOnlyHistory bool
}

func exportMode(m string) keystore.ExportMode {
	switch m {
	case "private":
		return keystore.ExportPrivateKeys
	case "all":
		return keystore.ExportAllKeys
	}
	return keystore.ExportPublicOnly
}

type decider struct{ d string }

func (d decider) DecideKeyRingOverwrite(currentData, newData *asn1.KeyRing) (v2api.ImportDecision, error) {
	switch d.d {
	case "skip":
		return v2api.ImportSkip, nil
	case "overwrite":
		return v2api.ImportOverwrite, nil
	}
	return v2api.ImportAbort, fmt.Errorf("c18: import aborted by the delegate")
}

// bundle is an export: data + access keys.
type bundle struct {
	data, keys []byte
	suite      *v2crypto.KeyStoreSuite // v2 "rings": the access keys as a crypto suite
}

func suiteFor(seed byte) *v2crypto.KeyStoreSuite {
	enc, sig := make([]byte, 32), make([]byte, 32)
	for i := range enc {
		enc[i], sig[i] = seed+byte(i), seed^0x5a+byte(3*i)
	}
	s, err := kv2.NewSCellSuite(enc, sig)
	if err != nil {
		panic(err)
	}
	return s
}

// export runs the export of the case's path. nth distinguishes repeated exports (other access keys).
func (r *run) export(nth int) (*bundle, error) {
	c := r.c
	switch c.Path {
	case "v1v1":
		if c.Via == "acra-backup" {
			return cliExport(spellDir(r.src.dir, c.DirSpell))
		}
		bk, err := filesystem.NewKeyBackuper(spellDir(r.src.dir, c.DirSpell), "", &filesystem.DummyStorage{}, fix.V1Encryptor(), r.src.v1())
		if err != nil {
			return nil, err
		}
		var ids []keystore.ExportID
		if !c.Bulk {
			for _, k := range r.sel {
				id := keystore.ExportID{ContextID: []byte(k.ID)}
				switch k.Kind {
				case kshist.StoragePair:
					id.KeyKind = keystore.KeyStoragePrivate
					if r.half[k] == "public" {
						id.KeyKind = keystore.KeyStoragePublic
					}
				case kshist.PoisonPair:
					id.KeyKind, id.ContextID = keystore.KeyPoisonPrivate, nil
					if r.half[k] == "public" {
						id.KeyKind = keystore.KeyPoisonPublic
					}
				case kshist.StorageSym:
					id.KeyKind = keystore.KeySymmetric
				case kshist.HMAC:
					id.KeyKind = keystore.KeySearch
				}
				ids = append(ids, id)
			}
			if len(ids) == 0 {
				return nil, fmt.Errorf("c18: nothing selected")
			}
		}
		b, err := bk.Export(ids, exportMode(c.Mode))
		if err != nil {
			return nil, err
		}
		return &bundle{data: b.Data, keys: b.Keys}, nil
	case "v2v2":
		ks := r.src.v2()
		if c.Via == "acra-keys" {
			var ids []string
			if !c.Bulk {
				for _, k := range r.sel {
					switch k.Kind {
					case kshist.StoragePair:
						ids = append(ids, "client/"+k.ID+"/storage")
					case kshist.StorageSym:
						ids = append(ids, "client/"+k.ID+"/symmetric")
					case kshist.HMAC:
						ids = append(ids, "client/"+k.ID+"/searchable")
					case kshist.PoisonPair:
						ids = append(ids, "poison-record")
					default:
						return nil, fmt.Errorf("c18: acra-keys export has no key id for %s", k)
					}
				}
			}
			return keysExportV2(r.src.mem, c.Bulk, c.Mode == "private", ids)
		}
		if c.Via == "backuper" {
			bk, err := kv2.NewKeyBackuper("", "", ks)
			if err != nil {
				return nil, err
			}
			var ids []keystore.ExportID
			if !c.Bulk {
				for _, k := range r.sel {
					id := keystore.ExportID{ContextID: []byte(k.ID)}
					switch k.Kind {
					case kshist.StoragePair:
						id.KeyKind = keystore.KeyStoragePrivate
					case kshist.PoisonPair:
						id.KeyKind = keystore.KeyPoisonPrivate
					case kshist.PoisonSym:
						id.KeyKind = keystore.KeyPoisonSymmetric
					case kshist.StorageSym:
						id.KeyKind = keystore.KeySymmetric
					case kshist.HMAC:
						id.KeyKind = keystore.KeySearch
					}
					ids = append(ids, id)
				}
			}
			b, err := bk.Export(ids, exportMode(c.Mode))
			if err != nil {
				return nil, err
			}
			return &bundle{data: b.Data, keys: b.Keys}, nil
		}
		var paths []string
		if c.Bulk {
			var err error
			if paths, err = ks.ListKeyRings(); err != nil {
				return nil, err
			}
		} else {
			for _, k := range r.sel {
				paths = append(paths, ringPath(k))
			}
		}
		suite := suiteFor(byte(0x11 + 0x40*nth))
		data, err := ks.ExportKeyRings(paths, suite, exportMode(c.Mode))
		if err != nil {
			return nil, err
		}
		return &bundle{data: data, suite: suite}, nil
	}
	return nil, fmt.Errorf("c18: no export for path %q", c.Path)
}

// imp imports a bundle into the target.
func (r *run) imp(b *bundle) error {
	switch r.c.Path {
	case "v1v1":
		if r.c.Via == "acra-backup" {
			return cliImport(spellDir(r.tgt.dir, r.c.DirSpell), b)
		}
		bk, err := filesystem.NewKeyBackuper(spellDir(r.tgt.dir, r.c.DirSpell), "", &filesystem.DummyStorage{}, fix.V1Encryptor(), nil)
		if err != nil {
			return err
		}
		_, err = bk.Import(&keystore.KeysBackup{Data: b.data, Keys: b.keys})
		return err
	case "v2v2":
		ks := r.tgt.v2()
		if r.c.Via == "acra-keys" {
			return keysImportV2(r.tgt.mem, b)
		}
		if r.c.Via == "backuper" {
			bk, err := kv2.NewKeyBackuper("", "", ks)
			if err != nil {
				return err
			}
			_, err = bk.Import(&keystore.KeysBackup{Data: b.data, Keys: b.keys})
			return err
		}
		var d v2api.KeyRingImportDelegate
		if r.c.Decision != "" {
			d = decider{r.c.Decision}
		}
		_, err := ks.ImportKeyRings(b.data, b.suite, d)
		return err
	}
	return fmt.Errorf("c18: no import for path %q", r.c.Path)
}

// migrate is `acra-keys migrate`: cmd/acra-keys/keys.MigrateV1toV2, restricted to the selection.
func (r *run) migrate() (imported, failed int, firstErr error) {
	r.failedOnlyHistory = true
	src, dst := r.src.v1(), r.tgt.v2()
	ks, err := filesystem.EnumerateExportedKeys(src)
	if err != nil {
		return 0, 0, err
	}
	selected := map[string]bool{}
	for _, k := range r.sel {
		selected[k.String()] = true
	}
	// deterministic order (EnumerateExportedKeys iterates a map)
	sort.Slice(ks, func(i, j int) bool {
		a, b := ks[i], ks[j]
		return a.KeyContext.Purpose.String()+string(keystore.GetKeyContextFromContext(a.KeyContext))+a.PrivatePath+a.SymmetricPath+a.PublicPath <
			b.KeyContext.Purpose.String()+string(keystore.GetKeyContextFromContext(b.KeyContext))+b.PrivatePath+b.SymmetricPath+b.PublicPath
	})
	for _, k := range ks {
		if !r.c.Bulk {
			mk, ok := exportedKeyToK(k)
			if !ok || !selected[mk.String()] {
				continue
			}
		}
		if err := dst.ImportKeyFileV1(src, k); err != nil {
			failed++
			if !strings.Contains(k.PrivatePath+k.SymmetricPath+k.PublicPath, ".old/") {
				r.failedOnlyHistory = false
			}
			if firstErr == nil {
				firstErr = fmt.Errorf("%s %q: %w", k.KeyContext.Purpose, string(keystore.GetKeyContextFromContext(k.KeyContext)), err)
			}
			continue
		}
		imported++
	}
	if failed > 0 {
		return imported, failed, fmt.Errorf("Incomplete key import (%d of %d failed; first: %v)", failed, imported+failed, firstErr)
	}
	return imported, failed, nil
}

func exportedKeyToK(k filesystem.ExportedKey) (kshist.K, bool) {
	id := string(k.KeyContext.ClientID)
	switch k.KeyContext.Purpose {
	case keystore.PurposeStorageClientKeyPair:
		return kshist.K{Kind: kshist.StoragePair, ID: id}, true
	case keystore.PurposeStorageClientSymmetricKey:
		return kshist.K{Kind: kshist.StorageSym, ID: id}, true
	case keystore.PurposeSearchHMAC:
		return kshist.K{Kind: kshist.HMAC, ID: id}, true
	case keystore.PurposePoisonRecordKeyPair:
		return kshist.K{Kind: kshist.PoisonPair}, true
	case keystore.PurposePoisonRecordSymmetricKey:
		return kshist.K{Kind: kshist.PoisonSym}, true
	case keystore.PurposeAuditLog:
		return kshist.K{Kind: kshist.AuditLog}, true
	}
	return kshist.K{}, false
}

// Check runs one case.
func Check(c Case) (vs hx.Vs, res *result) {
	res = &result{}
	r := &run{c: c, res: res, half: map[kshist.K]string{}}
	if len(c.Path) != 4 {
		vs.Add("harness:path", "bad path %q", c.Path)
		return
	}
	var err error
	if r.src, err = openStore(c.Path[:2]); err != nil {
		vs.Add("harness:open", "source: %v", errs(err))
		return
	}
	defer r.src.close()
	if r.tgt, err = openStore(c.Path[2:]); err != nil {
		vs.Add("harness:open", "target: %v", errs(err))
		return
	}
	defer r.tgt.close()

	// the source keystore
	var hres *kshist.Result
	if hx.Guard(&vs, "history/"+r.src.format, func() { hres = kshist.Run(r.src.fx, c.Ops, kshist.Hooks{}) }) {
		return
	}
	if hres.Discard != "" {
		res.class("discarded")
		return
	}
	for _, v := range hres.Vs {
		if strings.HasPrefix(v.Sig, "harness:") {
			vs = append(vs, v)
			return
		}
	}
	r.model = hres.Model

	// the target keystore
	prep := func(kind, id string) bool {
		if gerr := r.tgt.fx.Generate(kind, id); gerr != nil {
			vs.Add("harness:prepare-target", "generate %s/%s: %v", kind, id, errs(gerr))
			return false
		}
		return true
	}
	if c.Target != "empty" {
		for _, kind := range []string{kshist.StoragePair, kshist.StorageSym, kshist.HMAC} {
			if !prep(kind, unrelatedID) || !prep(kind, unrelatedID) {
				return
			}
		}
	}
	if c.Target == "conflict" {
		for _, id := range c.IDs {
			for _, kind := range []string{kshist.StoragePair, kshist.StorageSym, kshist.HMAC} {
				if !prep(kind, id) {
					return
				}
			}
		}
		for _, kind := range []string{kshist.PoisonPair, kshist.PoisonSym, kshist.AuditLog, kshist.StorageSym} {
			if !prep(kind, c.IDs[0]) {
				return
			}
		}
	}

	// the selection
	if c.Bulk {
		r.sel = r.model.Keys()
		if c.Path == "v2v2" {
			// every key ring the source has, including empty ones created by reads
			ks, done := r.src.cloneV2()
			for _, k := range universe(c.IDs) {
				if readRing(ks, k).Exists && !contains(r.sel, k) {
					r.sel = append(r.sel, k)
				}
			}
			done()
		}
	} else {
		seen := map[kshist.K]bool{}
		for _, s := range c.Keys {
			k := kshist.K{Kind: s.Kind, ID: s.ID}
			if !kshist.PerClient(k.Kind) {
				k.ID = ""
			}
			if c.Path == "v1v1" && (k.Kind == kshist.PoisonSym || k.Kind == kshist.AuditLog) {
				continue // keystore v1 has no export id for these kinds
			}
			if c.Path == "v2v2" && (c.Via == "backuper" || c.Via == "acra-keys") && k.Kind == kshist.AuditLog {
				continue // no export id for the audit log key
			}
			if c.Path == "v2v2" && c.Via == "acra-keys" && k.Kind == kshist.PoisonSym {
				continue // the export command has no key id for the symmetric poison key
			}
			if !seen[k] {
				seen[k] = true
				r.sel = append(r.sel, k)
				r.half[k] = s.Half
			}
		}
		if len(r.sel) == 0 {
			res.class("empty-selection")
			return
		}
	}
	rotated, destroyed := false, false
	for _, k := range r.sel {
		if r.model.Has(k) {
			h := r.model.H(k)
			if len(h.Gens) >= 2 {
				rotated = true
			}
			for _, g := range h.Gens {
				if g.Destroyed {
					destroyed = true
				}
			}
		}
	}
	if rotated {
		res.class("selection-has-rotated-key")
		res.nontrivial = true
	}
	if destroyed {
		res.class("selection-has-destroyed-key")
	}

	// observations before
	r.obsSrc = r.src.observe(c.IDs)
	r.before = r.tgt.observe(c.IDs)
	r.rawB = r.tgt.raw()
	r.listB = r.tgt.listing()
	if r.src.format == "v2" {
		r.ringsSrc = r.src.rings(c.IDs)
	}
	if r.tgt.format == "v2" {
		r.ringsB = r.tgt.rings(c.IDs)
	}
	rawSrc := r.src.raw()

	switch c.Path {
	case "v1v2":
		r.checkMigration(&vs)
	default:
		r.checkBundle(&vs)
	}
	// the source is never changed by an export
	if d := rawDiff(rawSrc, r.src.raw()); len(d) > 0 && len(vs) == 0 {
		vs.Add("source-changed-by-export:"+c.Path, "%s: exporting changed the source keystore: %v", c.Path, d)
	}
	return
}

// nothingToExport tells whether the selection names a key the source cannot export.
func (r *run) nothingToExport() (bool, string) {
	for _, k := range r.sel {
		if r.src.format == "v2" {
			if ro := r.ringsSrc[k]; !ro.Exists {
				return true, k.String() + " has no key ring"
			}
			continue
		}
		s := r.obsSrc[k]
		want := slotCurrent
		if r.half[k] == "public" {
			want = slotPublic
		}
		if !s[want].ok() {
			return true, fmt.Sprintf("%s has no %s key (%s)", k, want, s[want].Err)
		}
		if k.Kind == kshist.PoisonPair && (!s[slotCurrent].ok() || !s[slotPublic].ok()) {
			return true, k.String() + " is incomplete" // export by id reads the whole poison pair
		}
	}
	return false, ""
}

func (r *run) how() string {
	h := "bulk"
	if !r.c.Bulk {
		h = "by-id"
	}
	if r.c.Via != "" {
		h += "/" + r.c.Via
	}
	return h
}

func (r *run) checkBundle(vs *hx.Vs) {
	c := r.c
	var b *bundle
	var err error
	if hx.Guard(vs, "export/"+c.Path, func() { b, err = r.export(0) }) {
		return
	}
	if err != nil {
		if nothing, why := r.nothingToExport(); nothing {
			r.res.class("export-refused:nothing-to-export")
			_ = why
			return
		}
		vs.Add(fmt.Sprintf("export-fails:%s:%s:%s", c.Path, r.how(), r.exportErrClass()), "%s %s mode=%s: export of %v failed although the source holds these keys: %v || source: %s", c.Path, r.how(), c.Mode, r.sel, errs(err), r.model.Snapshot())
		return
	}
	r.res.class("exported")
	// confidentiality of the bundle
	if hit := findSecret(b.data, secretsOf(r.model)); hit != "" {
		vs.Add("clear-secret-in-bundle:"+c.Path, "%s %s mode=%s: the bundle contains %s in clear", c.Path, r.how(), c.Mode, hit)
		return
	}
	if c.Tamper == nil {
		var ierr error
		if hx.Guard(vs, "import/"+c.Path, func() { ierr = r.imp(b) }) {
			return
		}
		r.verdict(vs, ierr, "")
		return
	}
	// tamper cases
	r.res.nontrivial = true
	t := c.Tamper
	tb := &bundle{data: b.data, keys: b.keys, suite: b.suite}
	what := t.What
	switch t.What {
	case "bundle-byte":
		tb.data = tamperBytes(b.data, t)
	case "truncate":
		n := 1
		if len(b.data) > 0 {
			n = 1 + (t.Pos%len(b.data)+len(b.data))%len(b.data)
		}
		if n > len(b.data) {
			n = len(b.data)
		}
		tb.data = append([]byte(nil), b.data[:len(b.data)-n]...)
	case "key-byte":
		if b.suite != nil {
			m := byte(t.Mask)
			if m == 0 {
				m = 1
			}
			tb.suite = suiteFor(byte(0x11) ^ m) // "rings": the access keys are a crypto suite, not bytes: a different one
			what = "other-keys"
		} else {
			tb.keys = tamperBytes(b.keys, t)
		}
	case "other-keys":
		var b2 *bundle
		if hx.Guard(vs, "export/"+c.Path, func() { b2, err = r.export(1) }) {
			return
		}
		if err != nil {
			vs.Add("harness:second-export", "%v", errs(err))
			return
		}
		tb.keys, tb.suite = b2.keys, b2.suite
	default:
		vs.Add("harness:tamper", "unknown tamper %q", t.What)
		return
	}
	r.res.class("tamper:" + what)
	var ierr error
	if hx.Guard(vs, "import-tampered/"+c.Path, func() { ierr = r.imp(tb) }) {
		return
	}
	if ierr == nil {
		if t.What == "key-byte" && what == "key-byte" {
			// the access keys file is text (v2: JSON with base64): a changed byte that decodes to the same
			// keys is no modification of the keys; then the import must be exactly the honest one
			var hv hx.Vs
			r.verdict(&hv, nil, "")
			if len(hv) == 0 {
				r.res.class("tamper:key-byte-without-effect")
				return
			}
		}
		vs.Add(fmt.Sprintf("tampered-import-accepted:%s:%s", c.Path, what), "%s %s: import returned no error for %s (pos %d, mask 0x%02x; bundle %d bytes, access keys %d bytes)", c.Path, r.how(), what, t.Pos, t.Mask&0xff, len(b.data), len(b.keys))
		return
	}
	r.res.class("tamper-rejected")
	// rejected: the target must be what it was
	if d := rawDiff(r.rawB, r.tgt.raw()); len(d) > 0 {
		vs.Add(fmt.Sprintf("rejected-import-changed-target:%s:%s", c.Path, what), "%s %s: import of a bundle with %s was rejected (%v) but the target's storage changed: %v", c.Path, r.how(), what, errs(ierr), d)
		return
	}
	after := r.tgt.observe(c.IDs)
	for _, k := range universe(c.IDs) {
		for _, s := range slotsOf(k.Kind) {
			if !after[k][s].equal(r.before[k][s]) {
				vs.Add(fmt.Sprintf("rejected-import-changed-target:%s:%s", c.Path, what), "%s: rejected import changed %s/%s: %s -> %s", c.Path, k, s, r.before[k][s], after[k][s])
				return
			}
		}
	}
	if l := r.tgt.listing(); strings.Join(l, "|") != strings.Join(r.listB, "|") {
		vs.Add(fmt.Sprintf("rejected-import-changed-target:%s:%s", c.Path, what), "%s: rejected import changed the listing: %v -> %v", c.Path, r.listB, l)
	}
}

// exportErrClass names the shape of the source for an export failure.
func (r *run) exportErrClass() string {
	for _, k := range r.sel {
		if !r.model.Has(k) {
			continue
		}
		for _, g := range r.model.H(k).Gens {
			if g.Destroyed {
				return "destroyed-key"
			}
		}
	}
	kinds := map[string]bool{}
	for _, k := range r.model.Keys() {
		if r.c.Bulk || contains(r.sel, k) {
			kinds[k.Kind] = true
		}
	}
	switch {
	case kinds[kshist.PoisonSym]:
		return "poison-symmetric"
	case kinds[kshist.PoisonPair]:
		return "poison-pair"
	}
	return "other"
}

func contains(ks []kshist.K, k kshist.K) bool {
	for _, x := range ks {
		if x == k {
			return true
		}
	}
	return false
}

// privateCarried tells whether the export carries private/symmetric key data.
func (r *run) privateCarried(k kshist.K) bool {
	c := r.c
	if c.Path == "v1v1" {
		if !c.Bulk {
			return r.half[k] != "public"
		}
		return c.Mode == "private" || c.Mode == "all"
	}
	return c.Mode == "private"
}

// verdict compares the target after an honest import with what the property asks for.
func (r *run) verdict(vs *hx.Vs, ierr error, _ string) {
	c := r.c
	how := r.how()
	conflict := c.Target == "conflict"
	if ierr != nil {
		switch {
		case c.Path == "v2v2" && conflict && (c.Decision == "" || c.Decision == "abort"):
			// the documented outcome of a conflict: abort. What existed before must be untouched.
			r.res.class("conflict-aborted")
			after := r.tgt.rings(c.IDs)
			for _, k := range universe(c.IDs) {
				if r.ringsB[k].Exists && !after[k].equal(r.ringsB[k]) {
					vs.Add("aborted-import-changed-existing-ring:v2v2", "%s: import aborted on a conflict (%v) but the existing key ring of %s changed: %s -> %s", how, errs(ierr), k, r.ringsB[k], after[k])
					return
				}
			}
			return
		}
		shape := "intact"
		for _, k := range r.sel {
			if r.model.Has(k) {
				for _, g := range r.model.H(k).Gens {
					if g.Destroyed {
						shape = "destroyed-key"
					}
				}
			}
		}
		vs.Add(fmt.Sprintf("import-fails:%s:%s:%s", c.Path, how, shape), "%s %s mode=%s target=%s: import of an untouched bundle with the right access keys failed: %v || source: %s", c.Path, how, c.Mode, c.Target, errs(ierr), r.model.Snapshot())
		return
	}
	r.res.class("imported")
	selected := map[kshist.K]bool{}
	for _, k := range r.sel {
		selected[k] = true
	}
	if c.Path == "v2v2" {
		after := r.tgt.rings(c.IDs)
		for _, k := range universe(c.IDs) {
			src, was, now := r.ringsSrc[k], r.ringsB[k], after[k]
			exported := selected[k] && src.Exists
			if exported && !r.privateCarried(k) && !kshist.IsPair(k.Kind) {
				// symmetric keys have no public data: the ring is skipped, unless it holds no key data at
				// all (empty, or destroyed keys only), then it may be carried over as it is
				live := false
				for _, x := range src.Keys {
					live = live || !strings.HasPrefix(x.Sym, "error:")
				}
				if live || now.equal(was) {
					exported = false
				}
			}
			if exported && was.Exists && c.Decision == "skip" {
				exported = false
			}
			if !exported {
				if !now.equal(was) {
					sig := "unselected-key-changed"
					if selected[k] {
						sig = "unexported-part-changed"
					}
					vs.Add(fmt.Sprintf("%s:v2v2:%s", sig, k.Kind), "%s mode=%s target=%s: key ring of %s was not part of the export but changed: %s -> %s", how, c.Mode, c.Target, k, was, now)
					return
				}
				continue
			}
			want := src
			if !r.privateCarried(k) && kshist.IsPair(k.Kind) {
				// public only: the same keys in the same order with the same current marker, without private data
				want = ringObs{Exists: true, Current: src.Current}
				for _, x := range src.Keys {
					y := x
					if !strings.HasPrefix(y.Priv, "error:") {
						y.Priv = "error:" + v2api.ErrNoKeyData.Error()
					}
					want.Keys = append(want.Keys, y)
				}
			}
			if !now.equal(want) {
				sig := "imported-ring-differs"
				switch {
				case now.Exists && now.Err == "" && now.Current != want.Current:
					sig = "current-marker-lost"
				case now.Exists && now.Err == "" && len(now.Keys) != len(want.Keys):
					sig = "history-lost"
				case !r.privateCarried(k):
					for _, x := range now.Keys {
						if x.Priv != "" && !strings.HasPrefix(x.Priv, "error:") {
							sig = "private-key-in-public-export"
						}
					}
				}
				vs.Add(fmt.Sprintf("%s:v2v2:%s", sig, k.Kind), "%s mode=%s target=%s: key ring of %s after import: %s, expected %s", how, c.Mode, c.Target, k, now, want)
				return
			}
		}
		return
	}
	// v1 -> v1
	after := r.tgt.observe(c.IDs)
	for _, k := range universe(c.IDs) {
		src, was, now := r.obsSrc[k], r.before[k], after[k]
		for _, s := range slotsOf(k.Kind) {
			exp := was[s]
			carried := false
			if selected[k] {
				switch {
				case c.Bulk:
					carried = (s == slotPublic && c.Mode != "public") || (s != slotPublic && r.privateCarried(k))
				case s == slotPublic:
					carried = r.half[k] == "public"
				default:
					carried = r.privateCarried(k)
				}
			}
			if carried && src[s].ok() {
				exp = src[s]
				if !c.Bulk && s == slotAll {
					// export by id carries the current key only
					if src[slotCurrent].ok() && len(src[slotCurrent].Vals) > 0 {
						exp = slot{Vals: []string{src[slotCurrent].Vals[0]}}
					} else {
						exp = was[s]
					}
				}
				if s == slotCurrent && k.Kind == kshist.PoisonPair && !c.Bulk {
					continue // GetPoisonKeyPair needs both halves; the "all" slot decides
				}
				if conflict && s == slotAll {
					// the target keeps its own generations next to the imported ones: the source's keys must be
					// among them in the source's order, and the source's current key (if it has one) comes first
					ok := now[s].ok() && len(exp.Vals) > 0
					if ok && src[slotCurrent].ok() {
						ok = len(now[s].Vals) > 0 && now[s].Vals[0] == exp.Vals[0]
					}
					if ok {
						i := 0
						for _, v := range now[s].Vals {
							if i < len(exp.Vals) && v == exp.Vals[i] {
								i++
							}
						}
						ok = i == len(exp.Vals)
					}
					if !ok {
						vs.Add(fmt.Sprintf("imported-key-differs:v1v1:%s:%s/%s", how, k.Kind, s), "%s mode=%s target=conflict: %s/%s after import: %s, expected the source's keys %s (newest first) among them", how, c.Mode, k, s, now[s], exp)
						return
					}
					continue
				}
				if !now[s].equal(exp) {
					sig := "imported-key-differs"
					if now[s].ok() && len(now[s].Vals) > 0 && strings.Trim(now[s].Vals[0], "0") == "" {
						sig = "imported-key-is-all-zero"
					} else if s == slotAll && now[s].ok() && exp.ok() && len(now[s].Vals) < len(exp.Vals) {
						sig = "history-lost"
					}
					vs.Add(fmt.Sprintf("%s:v1v1:%s:%s/%s", sig, how, k.Kind, s), "%s mode=%s target=%s: %s/%s after import: %s, the source offers %s", how, c.Mode, c.Target, k, s, now[s], exp)
					return
				}
				continue
			}
			if conflict && selected[k] {
				continue // a conflicting key that was (partly) overwritten: only the carried slots are decided
			}
			if !now[s].equal(exp) {
				sig := "unselected-key-changed"
				if selected[k] {
					sig = "unexported-part-changed"
					if s != slotPublic && now[s].ok() {
						sig = "private-key-in-public-export"
					}
				}
				vs.Add(fmt.Sprintf("%s:v1v1:%s:%s/%s", sig, how, k.Kind, s), "%s mode=%s target=%s: %s/%s was not part of the export but changed: %s -> %s", how, c.Mode, c.Target, k, s, was[s], now[s])
				return
			}
		}
	}
}

const sigNoHistory = "migration-without-rotated-keys:v1v2"

// sigSilentNoHistory: the whole keystore was migrated (as `acra-keys migrate` does), the migration reported
// success, and the new keystore lacks rotated keys the old one offers. (The open finding above is loud in
// that situation: "Incomplete key import"; silence is only known for the harness's own selection by id,
// which leaves the history files out.)
const sigSilentNoHistory = "migration-reports-success-without-rotated-keys:v1v2"

// checkMigration: v1 -> v2 through EnumerateExportedKeys + ImportKeyFileV1.
func (r *run) checkMigration(vs *hx.Vs) {
	c := r.c
	var imported, failed int
	var err error
	if hx.Guard(vs, "migrate/v1v2", func() { imported, failed, err = r.migrate() }) {
		return
	}
	_ = imported
	after := r.tgt.observe(c.IDs)
	selected := map[kshist.K]bool{}
	for _, k := range r.sel {
		selected[k] = true
	}
	conflict := c.Target == "conflict"
	shape := "intact"
	for _, k := range r.sel {
		if r.model.Has(k) && len(r.model.H(k).Gens) >= 2 {
			shape = "rotated-key"
		}
	}
	// SigNoHistory: `acra-keys migrate-keys` does not carry rotated keys over. The files of the ".old"
	// history directories are classified as storage private keys of a client named after the time
	// stamp; importing them fails (the migration then ends with "Incomplete key import"), and when
	// they are left out the new keystore offers the current keys only. One finding, recognised by
	// "all failures are history files" / "fewer keys offered for decryption, newest equal".
	lostHistory := false
	if err != nil {
		if !r.failedOnlyHistory {
			vs.Add(fmt.Sprintf("migration-fails:v1v2:%s", shape), "v1v2 bulk=%v target=%s: migration of %v failed: %v || source: %s", c.Bulk, c.Target, r.sel, errs(err), r.model.Snapshot())
			return
		}
		lostHistory = true
		vs.Add(sigNoHistory, "v1v2 bulk=%v target=%s: migration of %v ends with an error because the rotated keys cannot be imported: %v || source: %s", c.Bulk, c.Target, r.sel, errs(err), r.model.Snapshot())
	}
	_ = failed
	r.res.class("migrated")
	for _, k := range universe(c.IDs) {
		src, was, now := r.obsSrc[k], r.before[k], after[k]
		for _, s := range slotsOf(k.Kind) {
			if selected[k] && src[s].ok() {
				exp := src[s]
				if conflict && s == slotAll {
					continue
				}
				if s == slotAll && now[s].ok() && len(now[s].Vals) > 0 && len(exp.Vals) > 0 && now[s].Vals[0] == exp.Vals[0] && len(now[s].Vals) < len(exp.Vals) {
					if !lostHistory {
						lostHistory = true
						sig := sigNoHistory
						if c.Bulk && err == nil {
							sig = sigSilentNoHistory
						}
						vs.Add(sig, "v1v2 bulk=%v: %s/%s after migration: %s, the source offers %s: data protected with the older keys cannot be read from the new keystore", c.Bulk, k, s, now[s], exp)
					}
					continue
				}
				if s == slotAll && !src[slotCurrent].ok() && !now[s].ok() && r.model.Has(k) && len(r.model.H(k).Gens) >= 2 {
					// current key destroyed, rotated keys survive in the source: none of them is carried over
					if !lostHistory {
						lostHistory = true
						sig := sigNoHistory
						if c.Bulk && err == nil {
							sig = sigSilentNoHistory
						}
						vs.Add(sig, "v1v2 bulk=%v: %s/%s after migration: %s, the source offers %s", c.Bulk, k, s, now[s], exp)
					}
					continue
				}
				if !now[s].equal(exp) {
					vs.Add(fmt.Sprintf("migrated-key-differs:v1v2:%s/%s", k.Kind, s), "v1v2 target=%s: %s/%s after migration: %s, the source offers %s", c.Target, k, s, now[s], exp)
					return
				}
				continue
			}
			if conflict && selected[k] {
				continue
			}
			if !now[s].equal(was[s]) && !(selected[k] && !src[s].ok()) {
				vs.Add(fmt.Sprintf("unselected-key-changed:v1v2:%s/%s", k.Kind, s), "v1v2: %s/%s was not migrated but changed: %s -> %s", k, s, was[s], now[s])
				return
			}
		}
	}
}
