package c14

import (
	"bytes"
	"context"
	"encoding/binary"
	"io"
	"net"
	"strings"
	"sync"
	"testing"
	"time"

	"pgregory.net/rapid"

	"github.com/cossacklabs/acra/decryptor/base"
	"github.com/cossacklabs/acra/decryptor/mysql"
	mybase "github.com/cossacklabs/acra/decryptor/mysql/base"
	"github.com/cossacklabs/acra/sqlparser"
	mysqldialect "github.com/cossacklabs/acra/sqlparser/dialect/mysql"

	"verif/internal/fix"
	"verif/internal/hx"
)

// ---- an independent little MySQL codec (harness side) -------------------------------------------

func myPacket(seq byte, payload []byte) []byte {
	h := []byte{byte(len(payload)), byte(len(payload) >> 8), byte(len(payload) >> 16), seq}
	return append(h, payload...)
}

func myLenencInt(n uint64) []byte {
	switch {
	case n <= 250:
		return []byte{byte(n)}
	case n <= 0xffff:
		return []byte{0xfc, byte(n), byte(n >> 8)}
	case n <= 0xffffff:
		return []byte{0xfd, byte(n), byte(n >> 8), byte(n >> 16)}
	}
	b := make([]byte, 9)
	b[0] = 0xfe
	binary.LittleEndian.PutUint64(b[1:], n)
	return b
}

func myLenencStr(s []byte) []byte { return append(myLenencInt(uint64(len(s))), s...) }

func myColumnDef(table, name string, typ byte, flags uint16) []byte {
	var b []byte
	b = append(b, myLenencStr([]byte("def"))...)
	b = append(b, myLenencStr([]byte("db"))...)
	b = append(b, myLenencStr([]byte(table))...)
	b = append(b, myLenencStr([]byte(table))...)
	b = append(b, myLenencStr([]byte(name))...)
	b = append(b, myLenencStr([]byte(name))...)
	b = append(b, 0x0c, 0x3f, 0x00, 0xff, 0xff, 0x00, 0x00, typ, byte(flags), byte(flags>>8), 0x00, 0x00, 0x00)
	return b
}

func myHandshake(capLow, capHigh uint16, mariaExt uint32) []byte {
	var b []byte
	b = append(b, 10)
	b = append(b, "8.0.0-verif"...)
	b = append(b, 0)
	b = append(b, 1, 0, 0, 0)                      // connection id
	b = append(b, "12345678"...)                   // auth data 1
	b = append(b, 0)                               // filler
	b = append(b, byte(capLow), byte(capLow>>8))   // capabilities (lower)
	b = append(b, 0x21, 0x02, 0x00)                // charset, status
	b = append(b, byte(capHigh), byte(capHigh>>8)) // capabilities (upper)
	b = append(b, 21)                              // auth data len
	b = append(b, 0, 0, 0, 0, 0, 0)                // filler (6)
	b = binary.LittleEndian.AppendUint32(b, mariaExt)
	b = append(b, "123456789012"...)
	b = append(b, 0)
	b = append(b, "mysql_native_password"...)
	b = append(b, 0)
	return b
}

func myHandshakeResponse(caps uint32, mariaExt uint32) []byte {
	var b []byte
	b = binary.LittleEndian.AppendUint32(b, caps)
	b = append(b, 0, 0, 0, 1) // max packet
	b = append(b, 0x21)       // charset
	b = append(b, make([]byte, 19)...)
	b = binary.LittleEndian.AppendUint32(b, mariaExt)
	b = append(b, "user"...)
	b = append(b, 0)
	b = append(b, myLenencStr([]byte("authresponse"))...)
	b = append(b, "db"...)
	b = append(b, 0)
	return b
}

var (
	myOK  = []byte{0x00, 0x00, 0x00, 0x02, 0x00, 0x00, 0x00}
	myEOF = []byte{0xfe, 0x00, 0x00, 0x02, 0x00}
	myErr = append([]byte{0xff, 0x28, 0x04, '#', '4', '2', '0', '0', '0'}, "syntax error"...)
)

const mySelect = "select id, enc, blk, srch, tok32, tokstr, mask, tstr, ti32 from t"

type myCol struct {
	name string
	typ  byte
}

var myCols = []myCol{{"id", 3}, {"enc", 0xfc}, {"blk", 0xfc}, {"srch", 0xfc}, {"tok32", 3}, {"tokstr", 0xfd}, {"mask", 0xfc}, {"tstr", 0xfc}, {"ti32", 0xfc}}

func myValues() [][]byte {
	w := fix.TheWorld()
	p := func(kind, form, plain string) []byte {
		b, err := w.Protect(w.Alice, kind, form, []byte(plain), -1)
		if err != nil {
			panic(err)
		}
		return b
	}
	return [][]byte{[]byte("1"), p(fix.KindStruct, fix.FormContainer, "secret"), p(fix.KindBlock, fix.FormContainer, "block"), p(fix.KindStruct, fix.FormSearchWrapped, "find"),
		[]byte("-5"), []byte("abc"), p(fix.KindBlock, fix.FormContainer, "maskedvalue"), p(fix.KindBlock, fix.FormContainer, "str"), p(fix.KindBlock, fix.FormContainer, "123")}
}

func myTextRow(vals [][]byte) []byte {
	var b []byte
	for _, v := range vals {
		if v == nil {
			b = append(b, 0xfb)
		} else {
			b = append(b, myLenencStr(v)...)
		}
	}
	return b
}

func myBinaryRow(vals [][]byte) []byte {
	n := len(vals)
	b := make([]byte, 1+(n+7+2)/8)
	for i, v := range vals {
		if v == nil {
			b[1+(i+2)/8] |= 1 << uint((i+2)%8)
			continue
		}
		switch myCols[i].typ {
		case 3:
			b = append(b, 1, 0, 0, 0)
		default:
			b = append(b, myLenencStr(v)...)
		}
	}
	return b
}

// ---- lock-step connections ---------------------------------------------------------------------

// stepConn is a net.Conn whose reader parks when the fed bytes are exhausted; the harness feeds one
// chunk at a time and waits until the reader has consumed it, which makes a two-goroutine proxy run
// in a deterministic order.
type stepConn struct {
	mu       sync.Mutex
	cond     *sync.Cond
	buf      []byte
	eof      bool
	parked   bool
	finished bool
}

func newStepConn() *stepConn {
	c := &stepConn{}
	c.cond = sync.NewCond(&c.mu)
	return c
}

func (c *stepConn) Read(p []byte) (int, error) {
	c.mu.Lock()
	defer c.mu.Unlock()
	for len(c.buf) == 0 && !c.eof {
		c.parked = true
		c.cond.Broadcast()
		c.cond.Wait()
	}
	c.parked = false
	if len(c.buf) == 0 {
		return 0, io.EOF
	}
	n := copy(p, c.buf)
	c.buf = c.buf[n:]
	return n, nil
}
func (c *stepConn) Write(p []byte) (int, error) { return len(p), nil }
func (c *stepConn) Close() error {
	c.mu.Lock()
	c.eof = true
	c.cond.Broadcast()
	c.mu.Unlock()
	return nil
}
func (c *stepConn) LocalAddr() net.Addr                { return fakeAddr{} }
func (c *stepConn) RemoteAddr() net.Addr               { return fakeAddr{} }
func (c *stepConn) SetDeadline(t time.Time) error      { return nil }
func (c *stepConn) SetReadDeadline(t time.Time) error  { return nil }
func (c *stepConn) SetWriteDeadline(t time.Time) error { return nil }

// feed hands bytes to the reader and waits until it has consumed them and parked again (or ended).
func (c *stepConn) feed(b []byte) {
	c.mu.Lock()
	defer c.mu.Unlock()
	if c.finished || c.eof {
		return
	}
	c.buf = append(c.buf, b...)
	c.parked = false
	c.cond.Broadcast()
	for !c.finished && !(c.parked && len(c.buf) == 0) {
		c.cond.Wait()
	}
}

func (c *stepConn) waitParked() {
	c.mu.Lock()
	defer c.mu.Unlock()
	for !c.finished && !c.parked {
		c.cond.Wait()
	}
}

func (c *stepConn) finish() {
	c.mu.Lock()
	c.finished = true
	c.cond.Broadcast()
	c.mu.Unlock()
}

// step is one chunk of a session script.
type step struct {
	db   bool
	data []byte
}

func encodeSteps(steps []step) []byte {
	var out []byte
	for _, s := range steps {
		side := byte(0)
		if s.db {
			side = 1
		}
		out = append(out, side, byte(len(s.data)>>8), byte(len(s.data)))
		out = append(out, s.data...)
	}
	return out
}

func decodeSteps(data []byte) []step {
	var out []step
	for len(data) >= 3 && len(out) < 64 {
		n := int(data[1])<<8 | int(data[2])
		rest := data[3:]
		if n > len(rest) {
			n = len(rest)
		}
		out = append(out, step{db: data[0]&1 == 1, data: rest[:n:n]})
		data = rest[n:]
	}
	return out
}

// ---- targets -----------------------------------------------------------------------------------

func targetMyLenenc(data []byte) (vs hx.Vs) {
	hx.Guard(&vs, "mysql.lenenc", func() {
		num, isNull, n, err := mybase.LengthEncodedInt(data)
		if err == nil {
			if n < 1 || n > len(data) {
				vs.Add("bounds:mysql.lenenc", "LengthEncodedInt consumed %d of %d bytes", n, len(data))
			}
			if !isNull {
				if back, _, _, err2 := mybase.LengthEncodedInt(mybase.PutLengthEncodedInt(num)); err2 != nil || back != num {
					vs.Add("roundtrip:mysql.lenenc", "PutLengthEncodedInt(%d) decodes to %d, %v", num, back, err2)
				}
			}
		}
		s, sn, serr := mybase.LengthEncodedString(data)
		if serr == nil && s != nil {
			if sn > len(data) || sn < len(s) || !bytes.Equal(s, data[sn-len(s):sn]) {
				vs.Add("bounds:mysql.lenenc", "LengthEncodedString returned %d bytes, consumed %d of %d", len(s), sn, len(data))
			}
		}
		kn, kerr := mybase.SkipLengthEncodedString(data)
		if kerr == nil && (kn < 0 || kn > len(data)) {
			vs.Add("bounds:mysql.lenenc", "SkipLengthEncodedString consumed %d of %d bytes", kn, len(data))
		}
	})
	return vs
}

// targetMyRead: ReadPacket over a connection, then the packet predicates and the fixed-layout parsers.
func targetMyRead(data []byte) (vs hx.Vs) {
	hx.Guard(&vs, "mysql.read", func() {
		conn := newFakeConn(data)
		for i := 0; i <= len(data); i++ {
			p, err := mysql.ReadPacket(conn)
			if err != nil {
				return
			}
			_ = p.IsOK()
			_ = p.IsEOF()
			_ = p.IsErr()
			_ = p.GetSequenceNumber()
			_ = p.GetPacketPayloadLength()
			_ = p.Dump()
			_, _ = mysql.ParsePrepareStatementResponse(p.GetData())
			p.SetData(p.GetData())
		}
	})
	return vs
}

// framed wraps a payload into one packet and reads it through ReadPacket (the only way to get a *Packet).
func framed(payload []byte) *mysql.Packet {
	if len(payload) == 0 || len(payload) >= mysql.MaxPayloadLen {
		return nil
	}
	p, err := mysql.ReadPacket(newFakeConn(myPacket(1, payload))) // ReadPacket allocates exactly the declared length
	if err != nil {
		return nil
	}
	return p
}

func targetMyField(data []byte) (vs hx.Vs) {
	if len(data) < 1 {
		return nil
	}
	ext := data[0]&1 == 1
	p := framed(data[1:])
	if p == nil {
		return nil
	}
	hx.Guard(&vs, "mysql.field", func() {
		f, err := mysql.ParseResultField(p, ext)
		if err != nil || f == nil {
			return
		}
		_ = f.Dump()
	})
	return vs
}

func targetMyBind(data []byte) (vs hx.Vs) {
	if len(data) < 2 {
		return nil
	}
	paramNum := int(data[0])
	if data[0] == 0xff {
		paramNum = 0xffff
	}
	p := framed(data[1:])
	if p == nil {
		return nil
	}
	hx.Guard(&vs, "mysql.bind", func() {
		vals, err := p.GetBindParameters(paramNum)
		if err != nil {
			return
		}
		for _, v := range vals {
			if v == nil {
				return // parameters not re-bound
			}
		}
		_ = p.SetParameters(vals)
	})
	return vs
}

func targetMyBoundValue(data []byte) (vs hx.Vs) {
	if len(data) < 1 {
		return nil
	}
	typ := mybase.Type(data[0])
	hx.Guard(&vs, "mysql.boundvalue", func() {
		v, n, err := mysql.NewMysqlBoundValue(data[1:], base.BinaryFormat, typ)
		if err != nil || v == nil {
			return
		}
		if n < 0 || n > len(data)-1 {
			vs.Add("bounds:mysql.boundvalue", "NewMysqlBoundValue consumed %d of %d bytes (type %d)", n, len(data)-1, typ)
		}
		enc, eerr := v.Encode()
		if eerr == nil && n <= len(data)-1 && n >= 0 && !bytes.Equal(enc, data[1:1+n]) {
			if _, isNumeric := mybase.NumericTypesStorageBytes[typ]; isNumeric || (len(data) > 1 && data[1] < 0xfb) {
				if typ != mybase.TypeFloat && typ != mybase.TypeDouble { // float text is not canonical
					vs.Add("roundtrip:mysql.boundvalue", "bound value of type %d decoded from %x re-encodes to %x", typ, trunc(data[1:1+n], 32), trunc(enc, 32))
				}
			}
		}
		_ = v.Copy()
	})
	return vs
}

// targetMySession: the whole MySQL proxy as wired by the factory, driven in lock-step by a script of
// chunks (side, length, bytes) - see decodeSteps.
func targetMySession(data []byte) (vs hx.Vs) {
	sqlparser.SetDefaultDialect(mysqldialect.NewMySQLDialect())
	steps := decodeSteps(data)
	schema, _ := sessionSchemas()
	w := fix.TheWorld()
	client, db := newStepConn(), newStepConn()
	s := newSession(client, db)
	f, err := mysql.NewProxyFactory(proxySetting(schema), w.KS, newTokenizer())
	if err != nil {
		panic("harness: " + err.Error())
	}
	var p base.Proxy
	if hx.Guard(&vs, "mysql.session", func() {
		if p, err = f.New(w.Alice, s); err != nil {
			panic("harness: " + err.Error())
		}
	}) {
		return vs
	}
	ac := base.NewAccessContext(base.WithClientID(w.Alice))
	p.AddClientIDObserver(ac)
	ctx := base.SetAccessContextToContext(s.ctx, ac)
	s.ctx = ctx
	errCh := make(chan base.ProxyError, 8)
	var wg sync.WaitGroup
	var mu sync.Mutex
	side := func(c *stepConn, f func(context.Context, chan<- base.ProxyError)) {
		defer wg.Done()
		defer c.finish()
		var lvs hx.Vs
		guardClassified(&lvs, "mysql.session", classifyMySession, func() { f(ctx, errCh) })
		mu.Lock()
		vs = append(vs, lvs...)
		mu.Unlock()
	}
	wg.Add(2)
	go side(client, p.ProxyClientConnection)
	go side(db, p.ProxyDatabaseConnection)
	client.waitParked()
	db.waitParked()
	for _, st := range steps {
		if st.db {
			db.feed(st.data)
		} else {
			client.feed(st.data)
		}
	}
	client.Close()
	db.Close()
	wg.Wait()
	return vs
}

// sigUnboundParams: COM_STMT_EXECUTE whose new-params-bound flag is 0 (legal when a statement is executed
// again) makes Packet.GetBindParameters return nil BoundValues; the first bind observer that touches one
// panics. One root cause, several panic sites, hence one signature.
const sigUnboundParams = "panic:mysql.session@handleStatementExecute/params-not-rebound"

func classifyMySession(stack string, p interface{}) string {
	if err, ok := p.(error); ok && strings.Contains(err.Error(), "nil pointer dereference") &&
		strings.Contains(stack, ".handleStatementExecute") && strings.Contains(stack, ".OnBind") {
		return sigUnboundParams
	}
	return ""
}

const (
	capProtocol41   = 0x0200
	capDeprecateEOF = 0x01000000
)

func mySessionSeeds() [][]byte {
	vals := myValues()
	defs := func(seq byte) (out []byte, next byte) {
		for _, c := range myCols {
			out = append(out, myPacket(seq, myColumnDef("t", c.name, c.typ, 0))...)
			seq++
		}
		return out, seq
	}
	hs := myPacket(0, myHandshake(0xf7ff&^0x0800, 0x81ff, 0))
	resp := myPacket(1, myHandshakeResponse(capProtocol41|0x8000|0x85, 0))
	ok := myPacket(2, myOK)
	query := myPacket(0, append([]byte{3}, mySelect...))
	d, seq := defs(2)
	resultText := cat(myPacket(1, []byte{byte(len(myCols))}), d, myPacket(seq, myEOF), myPacket(seq+1, myTextRow(vals)), myPacket(seq+2, myTextRow(append([][]byte{nil}, vals[1:]...))), myPacket(seq+3, myEOF))
	prepare := myPacket(0, append([]byte{0x16}, "select id, enc from t where srch = ? and tok32 = ?"...))
	prepOK := myPacket(1, []byte{0, 1, 0, 0, 0, 2, 0, 2, 0, 0, 0, 0})
	prepDefs := cat(myPacket(2, myColumnDef("", "?", 0xfd, 0)), myPacket(3, myColumnDef("", "?", 8, 0)), myPacket(4, myEOF),
		myPacket(5, myColumnDef("t", "id", 3, 0)), myPacket(6, myColumnDef("t", "enc", 0xfc, 0)), myPacket(7, myEOF))
	// COM_STMT_EXECUTE: cmd, stmt id, flags, iteration count, null bitmap, new-params-bound, types, values
	execute := myPacket(0, cat([]byte{0x17, 1, 0, 0, 0, 0, 1, 0, 0, 0, 0x00, 1, 0xfd, 0, 3, 0}, myLenencStr([]byte("find")), []byte{5, 0, 0, 0}))
	binDefs := cat(myPacket(2, myColumnDef("t", "id", 3, 0)), myPacket(3, myColumnDef("t", "enc", 0xfc, 0)))
	binRow := cat([]byte{0, 0}, []byte{1, 0, 0, 0}, myLenencStr(vals[1]))
	resultBin := cat(myPacket(1, []byte{2}), binDefs, myPacket(4, myEOF), myPacket(5, binRow), myPacket(6, myEOF))
	quit := myPacket(0, []byte{1})
	respDep := myPacket(1, myHandshakeResponse(capProtocol41|capDeprecateEOF|0x85, 0))
	resultDep := cat(myPacket(1, []byte{byte(len(myCols))}), d, myPacket(seq, myTextRow(vals)), myPacket(seq+1, append([]byte{0xfe}, myOK[1:]...)))
	hsMaria := myPacket(0, myHandshake(0xf7ff&^0x0800, 0x81ff, 0x8))
	respMaria := myPacket(1, myHandshakeResponse(capProtocol41|0x85, 0x8))
	dm := cat(myPacket(2, cat(myColumnDef("t", "id", 3, 0)[:len(myColumnDef("t", "id", 3, 0))-13], []byte{0}, myColumnDef("t", "id", 3, 0)[len(myColumnDef("t", "id", 3, 0))-13:])))
	return [][]byte{
		encodeSteps([]step{{true, hs}, {false, resp}, {true, ok}, {false, query}, {true, resultText}, {false, quit}}),
		encodeSteps([]step{{true, hs}, {false, resp}, {true, ok}, {false, prepare}, {true, prepOK}, {true, prepDefs}, {false, execute}, {true, resultBin}, {false, quit}}),
		encodeSteps([]step{{true, hs}, {false, respDep}, {true, ok}, {false, query}, {true, resultDep}}),
		encodeSteps([]step{{true, hs}, {false, resp}, {true, ok}, {false, query}, {true, myPacket(1, myErr)}, {false, myPacket(0, []byte{0x0e})}, {true, ok}}),
		encodeSteps([]step{{true, hsMaria}, {false, respMaria}, {true, ok}, {false, myPacket(0, append([]byte{3}, "select id from t"...))}, {true, cat(myPacket(1, []byte{1}), dm, myPacket(3, myEOF), myPacket(4, myTextRow([][]byte{[]byte("1")})), myPacket(5, myEOF))}}),
		encodeSteps([]step{{true, hs}, {false, resp}, {true, ok}, {false, myPacket(0, append([]byte{3}, "insert into t (id, enc, tok32, tokstr) values (1, 'x', 5, 'abc')"...))}, {true, ok}}),
	}
}

func mySessionHostile(t *rapid.T, seeds [][]byte) []byte {
	hs := myPacket(0, myHandshake(0xf7ff&^0x0800, 0x81ff, rapid.SampledFrom([]uint32{0, 0x8, 0x10, 0x18}).Draw(t, "ext")))
	caps := rapid.SampledFrom([]uint32{capProtocol41 | 0x85, capProtocol41 | capDeprecateEOF | 0x85, 0x85, capProtocol41 | 1}).Draw(t, "caps")
	resp := myPacket(1, myHandshakeResponse(caps, rapid.SampledFrom([]uint32{0, 0x8, 0x18}).Draw(t, "cext")))
	ok := myPacket(2, myOK)
	short := func(label string, b []byte) []byte {
		if rapid.Bool().Draw(t, label+".cut") {
			return b[:rapid.IntRange(0, len(b)).Draw(t, label+".at")]
		}
		return b
	}
	pre := []step{{true, hs}, {false, resp}, {true, ok}}
	switch rapid.SampledFrom([]int{0, 1, 2, 2, 3, 3, 3, 4, 4, 5, 6, 6}).Draw(t, "where") {
	case 0: // truncated / hostile handshake from the database
		h := short("hs", myHandshake(0xffff, 0xffff, 0))
		return encodeSteps([]step{{true, myPacket(0, h)}, {false, resp}})
	case 1: // short handshake response from the client
		r := short("resp", myHandshakeResponse(caps, 0))
		if len(r) == 0 {
			r = []byte{0}
		}
		return encodeSteps([]step{{true, hs}, {false, myPacket(1, r)}, {true, ok}})
	case 2: // text result set with a hostile column definition or row
		def := myColumnDef("t", "enc", 0xfc, 0)
		row := myTextRow([][]byte{[]byte("x")})
		switch rapid.IntRange(0, 3).Draw(t, "what") {
		case 0:
			def = short("def", def)
		case 1:
			pos := rapid.IntRange(0, len(def)-1).Draw(t, "pos")
			def = append(append(append([]byte(nil), def[:pos]...), drawHostileLenenc(t)...), def[pos:]...)
		case 2:
			row = append(drawHostileLenenc(t), rapid.SliceOfN(rapid.Byte(), 0, 6).Draw(t, "rowtail")...)
		default:
			row = short("row", row)
		}
		if len(def) == 0 {
			def = []byte{0}
		}
		if len(row) == 0 {
			row = []byte{0xfb}
		}
		q := myPacket(0, append([]byte{3}, "select enc from t"...))
		return encodeSteps(append(pre, step{false, q}, step{true, cat(myPacket(1, []byte{1}), myPacket(2, def), myPacket(3, myEOF), myPacket(4, row), myPacket(5, myEOF))}))
	case 3: // binary result set with short rows
		types := []byte{1, 2, 3, 8, 4, 5, 0xfc, 0xfd, 13, 9, 6, 0x10, 0xf6, 0x99}
		n := rapid.IntRange(1, 4).Draw(t, "ncols")
		var defs []byte
		for i := 0; i < n; i++ {
			defs = append(defs, myPacket(byte(2+i), myColumnDef("t", "enc", rapid.SampledFrom(types).Draw(t, "typ"), 0))...)
		}
		row := append([]byte{rapid.SampledFrom([]byte{0, 0, 0, 0, 0, 0xfe, 0xff, 1}).Draw(t, "hdr")}, rapid.SliceOfN(rapid.SampledFrom([]byte{0, 0, 0, 1, 2, 0xfb, 0xfc, 0xfe, 0xff}), 0, 12).Draw(t, "rowbytes")...)
		ex := myPacket(0, []byte{0x17, 9, 0, 0, 0, 0, 1, 0, 0, 0})
		return encodeSteps(append(pre, step{false, ex}, step{true, cat(myPacket(1, []byte{byte(n)}), defs, myPacket(byte(2+n), myEOF), myPacket(byte(3+n), row), myPacket(byte(4+n), myEOF))}))
	case 4: // prepare response with hostile counts, then execute with hostile parameter block
		prepare := myPacket(0, append([]byte{0x16}, "select id, enc from t where srch = ? and tok32 = ?"...))
		np := rapid.SampledFrom([]uint16{0, 1, 2, 3, 8, 9, 0xff, 0xffff}).Draw(t, "nparams")
		nc := rapid.SampledFrom([]uint16{0, 1, 2, 0xffff}).Draw(t, "ncols")
		prepOK := []byte{0, 1, 0, 0, 0, byte(nc), byte(nc >> 8), byte(np), byte(np >> 8), 0, 0, 0}
		st := append(pre, step{false, prepare}, step{true, myPacket(1, short("prepok", prepOK))})
		body := cat([]byte{0x17, 1, 0, 0, 0, 0, 1, 0, 0, 0}, rapid.SliceOfN(rapid.Byte(), 0, 16).Draw(t, "params"))
		if rapid.Bool().Draw(t, "valid-head") {
			body = cat([]byte{0x17, 1, 0, 0, 0, 0, 1, 0, 0, 0, 0x00, 1, 0xfd, 0, 3, 0}, drawHostileLenenc(t), rapid.SliceOfN(rapid.Byte(), 0, 6).Draw(t, "ptail"))
		}
		return encodeSteps(append(st, step{false, myPacket(0, short("execbody", body))}, step{true, myPacket(1, myOK)}))
	case 6: // statement commands that refer to statements in a state the proxy may not expect (nothing prepared, unknown / special ids)
		st := pre
		if rapid.Bool().Draw(t, "prepared") {
			prepare := myPacket(0, append([]byte{0x16}, rapid.SampledFrom([]string{"select id, enc from t where srch = ?", "insert into t (id, enc) values (?, ?)", "do ?", ""}).Draw(t, "psql")...))
			reply := myPacket(1, []byte{0, 1, 0, 0, 0, 0, 0, 0, 0, 0, 0, 0})
			if rapid.Bool().Draw(t, "prepare-fails") {
				reply = myPacket(1, myErr)
			}
			st = append(st, step{false, prepare}, step{true, reply})
		}
		n := rapid.IntRange(1, 3).Draw(t, "ncmds")
		for i := 0; i < n; i++ {
			id := rapid.SampledFrom([]uint32{0, 1, 2, 0xffffffff, 0xfffffffe, 0x7fffffff}).Draw(t, "stmt-id")
			idb := []byte{byte(id), byte(id >> 8), byte(id >> 16), byte(id >> 24)}
			var cmd []byte
			switch rapid.SampledFrom([]string{"execute", "execute", "execute-params", "close", "reset", "fetch", "long-data", "field-list", "reset-connection", "change-user"}).Draw(t, "cmd") {
			case "execute":
				cmd = cat([]byte{0x17}, idb, []byte{0, 1, 0, 0, 0})
			case "execute-params":
				cmd = cat([]byte{0x17}, idb, []byte{0, 1, 0, 0, 0, 0x00, 1, 0xfd, 0}, myLenencStr([]byte("find")))
			case "close":
				cmd = cat([]byte{0x19}, idb)
			case "reset":
				cmd = cat([]byte{0x1a}, idb)
			case "fetch":
				cmd = cat([]byte{0x1c}, idb, []byte{1, 0, 0, 0})
			case "long-data":
				cmd = cat([]byte{0x18}, idb, []byte{0, 0}, []byte("data"))
			case "field-list":
				cmd = append([]byte{0x04}, "t\x00"...)
			case "reset-connection":
				cmd = []byte{0x1f}
			default:
				cmd = append([]byte{0x11}, "user\x00\x00db\x00"...)
			}
			reply := myPacket(1, rapid.SampledFrom([][]byte{myOK, myErr, myEOF}).Draw(t, "reply"))
			st = append(st, step{false, myPacket(0, short("cmd", cmd))}, step{true, reply})
		}
		return encodeSteps(st)
	default: // header with hostile declared length from either side
		l := rapid.SampledFrom([]uint32{0, 1, 2, 0xff, 0xffff, 0xfffffe, 0xffffff}).Draw(t, "plen")
		hdr := []byte{byte(l), byte(l >> 8), byte(l >> 16), 0}
		return encodeSteps(append(pre, step{rapid.Bool().Draw(t, "side"), append(hdr, rapid.SliceOfN(rapid.Byte(), 0, 8).Draw(t, "body")...)}))
	}
}

func drawHostileLenenc(t *rapid.T) []byte {
	switch rapid.IntRange(0, 4).Draw(t, "lk") {
	case 0:
		return []byte{0xfb}
	case 1:
		return append([]byte{0xfc}, putInt(rapid.IntRange(0, 2).Draw(t, "w2"), false, rapid.SampledFrom(hostileInts).Draw(t, "v2"))...)
	case 2:
		return append([]byte{0xfd}, putInt(rapid.IntRange(0, 3).Draw(t, "w3"), false, rapid.SampledFrom(hostileInts).Draw(t, "v3"))...)
	case 3:
		return append([]byte{0xfe}, putInt(rapid.SampledFrom([]int{0, 1, 4, 7, 8, 8, 8}).Draw(t, "w8"), false, rapid.SampledFrom(hostileInts).Draw(t, "v8"))...)
	default:
		return []byte{rapid.SampledFrom([]byte{0, 1, 2, 0x7f, 0xfa, 0xff}).Draw(t, "b")}
	}
}

func myLenencHostile(t *rapid.T, seeds [][]byte) []byte {
	return append(drawHostileLenenc(t), rapid.SliceOfN(rapid.Byte(), 0, 10).Draw(t, "tail")...)
}

func init() {
	lenencMagic := []byte{0xfb, 0xfc, 0xfd, 0xfe, 0xff, 0, 1, 250}
	register(&target{name: "mysql.lenenc", group: "FuzzMySQL", fn: targetMyLenenc, nontrivial: func(d []byte) bool { return len(d) > 0 },
		seeds: func() [][]byte {
			return [][]byte{myLenencStr([]byte("abc")), myLenencStr(bytes.Repeat([]byte{'x'}, 300)), myLenencStr(bytes.Repeat([]byte{'y'}, 70000)), {0xfb}, {0},
				append(myLenencInt(1<<32), "tail"...)}
		}, magic: lenencMagic, hostile: myLenencHostile})
	register(&target{name: "mysql.read", group: "FuzzMySQL", fn: targetMyRead, weight: 0.5,
		nontrivial: func(d []byte) bool {
			if len(d) < 5 {
				return false
			}
			l := int(d[0]) | int(d[1])<<8 | int(d[2])<<16
			return l >= 1 && l+4 <= len(d)
		},
		seeds: func() [][]byte {
			return [][]byte{myPacket(0, myOK), myPacket(1, myEOF), myPacket(1, myErr), myPacket(0, myHandshake(0xffff, 0xffff, 0)), myPacket(1, []byte{0, 1, 0, 0, 0, 2, 0, 2, 0, 0, 0, 0}),
				cat(myPacket(0, []byte{1}), myPacket(1, myColumnDef("t", "a", 3, 0)), myPacket(2, myEOF))}
		},
		hostile: func(t *rapid.T, seeds [][]byte) []byte {
			l := rapid.SampledFrom([]uint32{0, 1, 2, 3, 0xff, 0x100, 0xffff, 0x10000, 0xfffffe, 0xffffff}).Draw(t, "len")
			return append([]byte{byte(l), byte(l >> 8), byte(l >> 16), 0}, rapid.SliceOfN(rapid.Byte(), 0, 12).Draw(t, "tail")...)
		}})
	fieldSeeds := func() [][]byte {
		d := myColumnDef("t", "col", 0xfc, 0x90)
		withDefault := cat(d, myLenencStr([]byte("dflt")))
		ext := cat(d[:len(d)-13], []byte{0}, d[len(d)-13:])
		ext2 := cat(d[:len(d)-13], myLenencStr([]byte("\x00\x04json")), d[len(d)-13:])
		return [][]byte{append([]byte{0}, d...), append([]byte{0}, withDefault...), append([]byte{1}, ext...), append([]byte{1}, ext2...)}
	}
	register(&target{name: "mysql.field", group: "FuzzMySQL", fn: targetMyField,
		nontrivial: func(d []byte) bool { return len(d) >= 5 && d[1] == 3 && bytes.Equal(d[2:5], []byte("def")) },
		seeds:      fieldSeeds,
		hostile: func(t *rapid.T, seeds [][]byte) []byte {
			s := rapid.SampledFrom(seeds).Draw(t, "seed")
			pos := rapid.IntRange(1, len(s)).Draw(t, "pos")
			if rapid.IntRange(0, 2).Draw(t, "relative") == 0 {
				// a length prefix of every width whose value is just below / at / above what is left of the packet,
				// at a generated position or where the MariaDB extended type info of the seed starts
				if rapid.Bool().Draw(t, "at-ext") && len(s) > 14 {
					pos = len(s) - 13
					if s[0] == 1 {
						pos = len(s) - 13 - 1 // the seeds with the flag carry extended info in front of the fixed part
					}
				}
				tail := s[pos:]
				if rapid.Bool().Draw(t, "cut-tail") {
					tail = tail[:rapid.IntRange(0, len(tail)).Draw(t, "tail-len")]
				}
				width := rapid.SampledFrom([]int{1, 3, 4, 9}).Draw(t, "width")
				v := len(tail) + width + rapid.IntRange(-width-3, 3).Draw(t, "delta")
				if v < 0 {
					v = 0
				}
				var pre []byte
				switch width {
				case 1:
					pre = []byte{byte(v % 251)}
				case 3:
					pre = []byte{0xfc, byte(v), byte(v >> 8)}
				case 4:
					pre = []byte{0xfd, byte(v), byte(v >> 8), byte(v >> 16)}
				default:
					pre = []byte{0xfe, byte(v), byte(v >> 8), byte(v >> 16), byte(v >> 24), 0, 0, 0, 0}
				}
				flag := s[0]
				if rapid.IntRange(0, 3).Draw(t, "force-ext") > 0 {
					flag = 1
				}
				return cat([]byte{flag}, s[1:pos], pre, tail)
			}
			out := append(append([]byte(nil), s[:pos]...), drawHostileLenenc(t)...)
			if rapid.Bool().Draw(t, "keep") {
				out = append(out, s[pos:]...)
			}
			return out
		}})
	register(&target{name: "mysql.bind", group: "FuzzMySQL", fn: targetMyBind,
		nontrivial: func(d []byte) bool { return len(d) >= 12 && d[1] == 0x17 },
		seeds: func() [][]byte {
			e1 := cat([]byte{2}, []byte{0x17, 1, 0, 0, 0, 0, 1, 0, 0, 0, 0x00, 1, 0xfd, 0, 3, 0}, myLenencStr([]byte("find")), []byte{5, 0, 0, 0})
			e2 := cat([]byte{3}, []byte{0x17, 1, 0, 0, 0, 0, 1, 0, 0, 0, 0x02, 1, 8, 0, 6, 0, 5, 0x80}, []byte{1, 2, 3, 4, 5, 6, 7, 8}, []byte{0, 0, 0, 0, 0, 0, 0xf0, 0x3f})
			e3 := cat([]byte{1}, []byte{0x17, 1, 0, 0, 0, 0, 1, 0, 0, 0, 0x00, 0})
			e4 := cat([]byte{9}, []byte{0x17, 1, 0, 0, 0, 0, 1, 0, 0, 0, 0x00, 0x00, 1}, bytes.Repeat([]byte{1, 0}, 9), bytes.Repeat([]byte{7}, 9))
			return [][]byte{e1, e2, e3, e4}
		},
		hostile: func(t *rapid.T, seeds [][]byte) []byte {
			n := rapid.SampledFrom([]byte{0, 1, 2, 7, 8, 9, 16, 17, 0x7f, 0xfe, 0xff}).Draw(t, "nparams")
			body := cat([]byte{0x17, 1, 0, 0, 0, 0, 1, 0, 0, 0}, rapid.SliceOfN(rapid.Byte(), 0, 24).Draw(t, "rest"))
			if rapid.Bool().Draw(t, "short") {
				body = body[:rapid.IntRange(1, len(body)).Draw(t, "cut")]
			}
			return append([]byte{n}, body...)
		}})
	register(&target{name: "mysql.boundvalue", group: "FuzzMySQL", fn: targetMyBoundValue, nontrivial: func(d []byte) bool { return len(d) >= 2 },
		seeds: func() [][]byte {
			return [][]byte{{1, 0x7f}, {2, 1, 2}, {3, 1, 2, 3, 4}, {8, 1, 2, 3, 4, 5, 6, 7, 8}, {4, 0, 0, 0x80, 0x3f}, {5, 0, 0, 0, 0, 0, 0, 0xf0, 0x3f}, {6},
				append([]byte{0xfd}, myLenencStr([]byte("text"))...), append([]byte{0xfc}, myLenencStr(bytes.Repeat([]byte{9}, 300))...), {13, 0xe4, 0x07}}
		}, magic: []byte{0, 1, 2, 3, 4, 5, 6, 8, 9, 13, 0xfc, 0xfd, 0xfe},
		hostile: func(t *rapid.T, seeds [][]byte) []byte {
			typ := rapid.SampledFrom([]byte{0, 1, 2, 3, 4, 5, 6, 7, 8, 9, 13, 15, 0xf6, 0xfc, 0xfd, 0xfe, 0xff}).Draw(t, "typ")
			if rapid.Bool().Draw(t, "lenenc") {
				return append([]byte{typ}, myLenencHostile(t, nil)...)
			}
			return append([]byte{typ}, rapid.SliceOfN(rapid.Byte(), 0, 9).Draw(t, "v")...)
		}})
	register(&target{name: "mysql.session", group: "FuzzMySQLSession", fn: targetMySession,
		nontrivial: func(d []byte) bool {
			st := decodeSteps(d)
			for _, s := range st {
				if len(s.data) >= 5 {
					l := int(s.data[0]) | int(s.data[1])<<8 | int(s.data[2])<<16
					if l >= 1 && l+4 <= len(s.data) {
						return true
					}
				}
			}
			return false
		},
		seeds: mySessionSeeds, hostile: mySessionHostile, weight: 1.5})
}

func FuzzMySQL(f *testing.F)        { fuzzGroup(f, "FuzzMySQL") }
func FuzzMySQLSession(f *testing.F) { fuzzGroup(f, "FuzzMySQLSession") }
