package c14

import (
	stdasn1 "encoding/asn1"
	"os"
	"path/filepath"
	"sync"
	"testing"
	"time"

	"pgregory.net/rapid"

	"github.com/cossacklabs/acra/keystore"
	ksasn1 "github.com/cossacklabs/acra/keystore/v2/keystore/asn1"
	"github.com/cossacklabs/acra/keystore/v2/keystore/filesystem/backend"
	"github.com/cossacklabs/acra/keystore/v2/keystore/signature"

	"verif/internal/fix"
	"verif/internal/hx"
)

// ---- keystore v2 -------------------------------------------------------------------------------

var v2RingPaths = []string{"client/alice/storage", "client/alice/storage-sym", "client/alice/hmac-sym", "poison-record", "poison-record-sym", "audit-log"}

// v2Sign wraps ring bytes into a correctly signed container for a path, the way the keystore does
// (the signature context is a format constant: "AKSv2 keystore: key ring signature: <path>").
func v2Sign(path string, contentType ksasn1.ContentType, version int, ringDER []byte) ([]byte, error) {
	notary, err := signature.NewNotary(fix.V2Suite().SignatureAlgorithms)
	if err != nil {
		return nil, err
	}
	c := ksasn1.SignedContainer{Payload: ksasn1.SignedPayload{ContentType: contentType, Version: version, LastModified: time.Unix(1600000000, 0).UTC(),
		Data: stdasn1.RawValue{FullBytes: ringDER}}}
	return notary.Sign(&c, []byte("AKSv2 keystore: key ring signature: "+path))
}

var (
	v2Once     sync.Once
	v2Files    map[string][]byte // valid ring files by path
	v2RingDERs [][]byte          // valid ring DER (payload data) of every path
)

func v2Valid() (map[string][]byte, [][]byte) {
	v2Once.Do(func() {
		ks, b := fix.V2Mem()
		id := []byte("alice")
		for i := 0; i < 2; i++ {
			fix.GenClientKeys(ks, id)
			must(ks.GeneratePoisonKeyPair())
			must(ks.GeneratePoisonSymmetricKey())
			must(ks.GenerateLogKey())
		}
		v2Files = map[string][]byte{}
		for _, p := range v2RingPaths {
			data, err := b.Get(p + ".keyring")
			if err != nil {
				panic("v2 fixture: " + p + ": " + err.Error())
			}
			v2Files[p] = clone(data)
			vc, err := ksasn1.UnmarshalVerifiedContainer(data)
			if err != nil {
				panic(err)
			}
			v2RingDERs = append(v2RingDERs, append([]byte(nil), vc.Payload.Data.FullBytes...))
		}
	})
	return v2Files, v2RingDERs
}

func must(err error) {
	if err != nil {
		panic(err)
	}
}

// ks.v2.ring: arbitrary bytes as key-ring files read through the server keystore API.
// First byte: bits 0-1 = 0 raw file bytes; 1 = bytes are the ring DER, wrapped and signed correctly;
// 2 = as 1 with ContentType/Version taken from the next two bytes; 3 = raw bytes for one ring, valid files for the others.
func targetKsV2Ring(data []byte) (vs hx.Vs) {
	if len(data) < 1 {
		return nil
	}
	mode, body := data[0]&3, data[1:]
	valid, _ := v2Valid()
	b := backend.NewInMemory()
	ct, ver := ksasn1.TypeKeyRing, ksasn1.KeyRingVersion2
	if mode == 2 {
		if len(body) < 2 {
			return nil
		}
		ct, ver, body = ksasn1.ContentType(int8(body[0])), int(int8(body[1])), body[2:]
	}
	for i, p := range v2RingPaths {
		file := body
		switch mode {
		case 1, 2:
			signed, err := v2Sign(p, ct, ver, body)
			if err != nil {
				return nil // the harness cannot build this container (not an input of the decoder)
			}
			file = signed
		case 3:
			if i != int(data[0]>>2)%len(v2RingPaths) {
				file = valid[p]
			}
		}
		if err := b.Put(p+".keyring", clone(file)); err != nil {
			panic("harness: " + err.Error())
		}
	}
	hx.Guard(&vs, "ks.v2.ring", func() {
		ks, _ := fix.V2OnBackend(b)
		id := []byte("alice")
		_, _ = ks.GetClientIDSymmetricKeys(id)
		_, _ = ks.GetClientIDSymmetricKey(id)
		_, _ = ks.GetServerDecryptionPrivateKeys(id)
		_, _ = ks.GetServerDecryptionPrivateKey(id)
		_, _ = ks.GetClientIDEncryptionPublicKey(id)
		_, _ = ks.GetHMACSecretKey(id)
		_, _ = ks.GetPoisonKeyPair()
		_, _ = ks.GetPoisonPrivateKeys()
		_, _ = ks.GetPoisonSymmetricKeys()
		_, _ = ks.GetPoisonSymmetricKey()
		_, _ = ks.GetLogSecretKey()
		_, _ = ks.ListKeys()
		_, _ = ks.ListRotatedKeys()
		for _, p := range v2RingPaths {
			_, _ = ks.DescribeKeyRing(p)
			_, _ = ks.DescribeRotatedKeyRing(p)
		}
	})
	// writers over a hostile ring: rotate and destroy
	hx.Guard(&vs, "ks.v2.ring", func() {
		ks, _ := fix.V2OnBackend(b)
		id := []byte("alice")
		_ = ks.GenerateClientIDSymmetricKey(id)
		_ = ks.DestroyRotatedClientIDSymmetricKey(id, 2) // index 1 is the current key (argument checks are C06 matter)
		_ = ks.DestroyClientIDSymmetricKey(id)
		_ = ks.GenerateHmacKey(id)
	})
	return vs
}

// ks.v2.asn1: the ASN.1 readers and the signature verifier directly.
func targetKsV2ASN1(data []byte) (vs hx.Vs) {
	hx.Guard(&vs, "ks.v2.asn1", func() {
		if c, err := ksasn1.UnmarshalVerifiedContainer(data); err == nil && c != nil {
			_, _ = ksasn1.UnmarshalKeyRing(c.Payload.Data.FullBytes)
		}
		if r, err := ksasn1.UnmarshalKeyRing(data); err == nil && r != nil {
			for _, s := range []int{-1, 0, 1, r.Current, 0x7fffffff} {
				_, _ = r.KeyWithSeqnum(s)
			}
		}
		_, _ = ksasn1.UnmarshalKeyDirectory(data)
		_, _ = ksasn1.UnmarshalEncryptedKeys(data)
		notary, err := signature.NewNotary(fix.V2Suite().SignatureAlgorithms)
		if err != nil {
			panic("harness: " + err.Error())
		}
		if vc, err := notary.Verify(data, []byte("AKSv2 keystore: key ring signature: client/alice/storage")); err == nil && vc != nil {
			_, _ = ksasn1.UnmarshalKeyRing(vc.Payload.Data.FullBytes)
		}
	})
	return vs
}

func ksV2RingSeeds() [][]byte {
	files, ders := v2Valid()
	var out [][]byte
	for _, p := range v2RingPaths {
		out = append(out, append([]byte{0}, files[p]...))
	}
	for _, d := range ders {
		out = append(out, append([]byte{1}, d...), append([]byte{2, byte(ksasn1.TypeKeyRing), ksasn1.KeyRingVersion2}, d...))
	}
	for i := range v2RingPaths {
		out = append(out, append([]byte{byte(3 | i<<2)}, files[v2RingPaths[i]]...))
	}
	return out
}

// ksV2Hostile builds rings whose fields hold hostile values, correctly signed.
func ksV2Hostile(t *rapid.T, seeds [][]byte) []byte {
	ints := []int{-0x80000000, -2, -1, 0, 1, 2, 3, 0x7f, 0x7fffffff}
	nkeys := rapid.IntRange(0, 3).Draw(t, "nkeys")
	ring := ksasn1.KeyRing{Purpose: []byte(rapid.SampledFrom([]string{"", "client/alice/storage", "x"}).Draw(t, "purpose")), Current: rapid.SampledFrom(ints).Draw(t, "current")}
	for i := 0; i < nkeys; i++ {
		k := ksasn1.Key{Seqnum: rapid.SampledFrom(ints).Draw(t, "seqnum"), State: ksasn1.KeyState(rapid.SampledFrom([]int{0, 1, 2, 3, 4, 5, 6, 7, -1}).Draw(t, "state")),
			ValidSince: time.Unix(1600000000, 0).UTC(), ValidUntil: time.Unix(int64(rapid.SampledFrom([]int{0, 1, 1600000000, 1700000000}).Draw(t, "until")), 0).UTC()}
		nd := rapid.IntRange(0, 2).Draw(t, "ndata")
		for j := 0; j < nd; j++ {
			kd := ksasn1.KeyData{Format: ksasn1.KeyFormat(rapid.SampledFrom([]int{0, 1, 2, 3, 4, -1}).Draw(t, "format"))}
			blob := rapid.SliceOfN(rapid.Byte(), 0, 40).Draw(t, "blob")
			switch rapid.IntRange(0, 3).Draw(t, "which") {
			case 0:
				kd.PublicKey = blob
			case 1:
				kd.PrivateKey = blob
			case 2:
				kd.SymmetricKey = blob
			}
			k.Data = append(k.Data, kd)
		}
		ring.Keys = append(ring.Keys, k)
	}
	der, err := stdasn1.Marshal(ring)
	if err != nil {
		return []byte{1}
	}
	if rapid.IntRange(0, 4).Draw(t, "cut") == 0 {
		der = der[:rapid.IntRange(0, len(der)).Draw(t, "at")]
	}
	if rapid.Bool().Draw(t, "ctver") {
		return append([]byte{2, byte(rapid.SampledFrom([]int{0, 1, 2, 3, 4, 5, -1}).Draw(t, "ct")), byte(rapid.SampledFrom([]int{0, 1, 2, 3, -1}).Draw(t, "ver"))}, der...)
	}
	return append([]byte{1}, der...)
}

// ---- keystore v1 -------------------------------------------------------------------------------

var (
	v1Once  sync.Once
	v1Dir   string
	v1Seeds [][]byte
)

var v1Names = []string{"xenia_storage", "xenia_storage.pub", "xenia_storage_sym", "xenia_hmac", ".poison_key/poison_key", ".poison_key/poison_key.pub", ".poison_key/poison_key_sym", "secure_log_key",
	"xenia_storage_sym.old/2020-01-01T00:00:00.5", "xenia_storage.old/2020-01-01T00:00:00.5"}

func v1Setup() {
	v1Once.Do(func() {
		// valid examples come from a throw-away keystore
		src := fix.TempDir("verif-c14-v1src-")
		ks := fix.V1(src, keystore.WithoutCache)
		fix.GenClientKeys(ks, []byte("xenia"))
		must(ks.GeneratePoisonKeyPair())
		must(ks.GeneratePoisonSymmetricKey())
		must(ks.GenerateLogKey())
		for _, n := range v1Names[:8] {
			b, err := os.ReadFile(filepath.Join(src, n))
			if err != nil {
				panic("v1 fixture: " + err.Error())
			}
			v1Seeds = append(v1Seeds, b)
		}
		os.RemoveAll(src)
		v1Dir = fix.TempDir("verif-c14-v1-")
	})
}

// ks.v1.file: arbitrary bytes as every kind of key file of a filesystem keystore, read through its API.
func targetKsV1File(data []byte) (vs hx.Vs) {
	v1Setup()
	if v1Dir == "" {
		panic("harness: v1 scratch directory not initialised")
	}
	for _, n := range v1Names {
		p := filepath.Join(v1Dir, n)
		if err := os.MkdirAll(filepath.Dir(p), 0o700); err != nil {
			panic("harness: " + err.Error())
		}
		if err := os.WriteFile(p, data, 0o600); err != nil {
			panic("harness: " + err.Error())
		}
	}
	hx.Guard(&vs, "ks.v1.file", func() {
		ks := fix.V1(v1Dir, keystore.WithoutCache)
		id := []byte("xenia")
		_, _ = ks.GetClientIDSymmetricKeys(id)
		_, _ = ks.GetClientIDSymmetricKey(id)
		_, _ = ks.GetServerDecryptionPrivateKeys(id)
		_, _ = ks.GetServerDecryptionPrivateKey(id)
		_, _ = ks.GetClientIDEncryptionPublicKey(id)
		_, _ = ks.GetHMACSecretKey(id)
		_, _ = ks.GetPoisonKeyPair()
		_, _ = ks.GetPoisonPrivateKeys()
		_, _ = ks.GetPoisonSymmetricKeys()
		_, _ = ks.GetPoisonSymmetricKey()
		_, _ = ks.GetLogSecretKey()
		_, _ = ks.ListKeys()
		_, _ = ks.ListRotatedKeys()
		// the same with a warm cache
		ks = fix.V1(v1Dir, keystore.InfiniteCacheSize)
		for i := 0; i < 2; i++ {
			_, _ = ks.GetClientIDSymmetricKeys(id)
			_, _ = ks.GetServerDecryptionPrivateKeys(id)
			_, _ = ks.GetHMACSecretKey(id)
			_, _ = ks.GetPoisonKeyPair()
		}
	})
	return vs
}

func init() {
	derMagic := []byte{0x30, 0x31, 0x02, 0x04, 0x0a, 0x17, 0xa1}
	register(&target{name: "ks.v2.ring", group: "FuzzKeystore", fn: targetKsV2Ring, seeds: ksV2RingSeeds, hostile: ksV2Hostile, magic: []byte{0, 1, 2, 3}, weight: 0.6,
		nontrivial: func(d []byte) bool {
			if len(d) < 3 {
				return false
			}
			if d[0]&3 == 2 {
				return len(d) > 3 && d[3] == 0x30
			}
			return d[1] == 0x30
		}})
	register(&target{name: "ks.v2.asn1", group: "FuzzKeystore", fn: targetKsV2ASN1, magic: derMagic,
		seeds: func() [][]byte {
			files, ders := v2Valid()
			out := append([][]byte(nil), ders...)
			for _, p := range v2RingPaths {
				out = append(out, files[p])
			}
			return out
		},
		nontrivial: func(d []byte) bool { return len(d) >= 2 && d[0] == 0x30 }})
	register(&target{name: "ks.v1.file", group: "FuzzKeystore", fn: targetKsV1File, weight: 0.4,
		seeds:      func() [][]byte { v1Setup(); return v1Seeds },
		magic:      []byte{0, 'R', 'U', 0x20},
		nontrivial: func(d []byte) bool { return len(d) >= 4 }})
}

func FuzzKeystore(f *testing.F) { fuzzGroup(f, "FuzzKeystore") }
