package c14

import (
	"bytes"
	"encoding/hex"
	"encoding/json"
	"os"
	"path/filepath"
	"sort"
	"strings"
	"testing"

	"pgregory.net/rapid"

	acracensor "github.com/cossacklabs/acra/acra-censor"
	"github.com/cossacklabs/acra/encryptor/base/config"
	"github.com/cossacklabs/acra/logging"
	"github.com/cossacklabs/acra/sqlparser"
	mysqldialect "github.com/cossacklabs/acra/sqlparser/dialect/mysql"
	"github.com/cossacklabs/acra/utils"

	"verif/internal/hx"
)

// ---- bytea codecs ------------------------------------------------------------------------------

func targetBytea(data []byte) (vs hx.Vs) {
	orig := clone(data)
	hx.Guard(&vs, "codec.bytea", func() {
		// decoders on the raw input
		_, _ = utils.DecodeOctal(clone(orig))
		out, err := utils.DecodeEscaped(clone(orig))
		if err != nil && !bytes.Equal(out, orig) {
			vs.Add("error-changed:codec.bytea", "DecodeEscaped failed (%v) but did not return the input unchanged", err)
		}
		// round trips: every byte string survives encode + decode
		enc := utils.EncodeToOctal(clone(orig))
		if dec, err := utils.DecodeOctal(enc); err != nil || !bytes.Equal(dec, orig) {
			vs.Add("roundtrip:codec.bytea", "DecodeOctal(EncodeToOctal(%x)) = %x, %v", trunc(orig, 32), trunc(dec, 32), err)
		}
		if dec, err := utils.DecodeEscaped(enc); err != nil || !bytes.Equal(dec, orig) {
			if !(len(enc) >= 2 && enc[0] == '\\' && enc[1] == 'x') { // an octal text that starts like the hex form is read as hex
				vs.Add("roundtrip:codec.bytea", "DecodeEscaped(EncodeToOctal(%x)) = %x, %v", trunc(orig, 32), trunc(dec, 32), err)
			}
		}
		hexed := utils.PgEncodeToHex(clone(orig))
		if dec, err := utils.DecodeEscaped(hexed); err != nil || !bytes.Equal(dec, orig) {
			vs.Add("roundtrip:codec.bytea", "DecodeEscaped(PgEncodeToHex(%x)) = %x, %v", trunc(orig, 32), trunc(dec, 32), err)
		}
		_ = utils.QuoteValue(string(orig))
		_ = utils.IsPrintablePostgresqlString(orig)
		_ = (&utils.MysqlEncoder{}).EncodeToString(orig)
		_ = (&utils.EscapeEncoder{}).EncodeToString(orig)
		_ = (&utils.HexEncoder{}).EncodeToString(orig)
		_ = (&utils.PqEncoder{}).EncodeToString(orig)
	})
	return vs
}

// ---- audit log parsers --------------------------------------------------------------------------

var logFormats = []string{logging.PlaintextFormatString, logging.CefFormatString, logging.JSONFormatString}

var logKey = []byte("c14-audit-log-key-0123456789abcdef")

// logChain builds a valid audit-log chain of a format independently of the formatters.
func logChain(format string, n int) []string {
	calc := logging.NewLogEntryIntegrityCalculator(logKey)
	var lines []string
	for i := 0; i < n; i++ {
		msg := "message " + string(rune('a'+i))
		last := i == n-1
		if last {
			msg = logging.EndOfAuditLogChainMessage
		}
		switch format {
		case logging.JSONFormatString:
			m := map[string]interface{}{"level": "info", "msg": msg, "product": "verif", "timestamp": "2020-01-01T00:00:00Z", "unixTime": "1577836800.000", "n": float64(i)}
			if last {
				m["chain"] = "end"
			}
			keys := make([]string, 0, len(m))
			for k := range m {
				keys = append(keys, k)
			}
			sort.Strings(keys)
			var raw []byte
			for _, k := range keys {
				v, _ := json.Marshal(m[k])
				raw = append(raw, "delimiter"+k+"delimiter"...)
				raw = append(raw, v...)
				raw = append(raw, "delimiter"...)
			}
			integ, _, _ := calc.CalculateIntegrityCheck(raw)
			m["integrity"] = hex.EncodeToString(integ)
			if i == 0 {
				m["chain"] = "new"
			}
			b, _ := json.Marshal(m)
			lines = append(lines, string(b))
		default:
			raw := `time="2020-01-01T00:00:00Z" level=info msg="` + msg + `" product=verif unixTime=1577836800.000`
			if format == logging.CefFormatString {
				raw = "CEF:0|cossacklabs|verif|0.95|100|" + msg + "|1|unixTime=1577836800.000"
			}
			if last {
				raw += " chain=end"
			}
			integ, _, _ := calc.CalculateIntegrityCheck([]byte(raw))
			line := raw + " integrity=" + hex.EncodeToString(integ)
			if i == 0 {
				line += " chain=new"
			}
			lines = append(lines, line)
		}
	}
	return lines
}

// log.parse: first byte selects the format; the rest is a log file (lines).
func targetLogParse(data []byte) (vs hx.Vs) {
	if len(data) < 1 {
		return nil
	}
	format := logFormats[int(data[0])%len(logFormats)]
	text := string(data[1:])
	lines := strings.Split(text, "\n")
	hx.Guard(&vs, "log.parse", func() {
		parser, err := logging.NewLogParser(format)
		if err != nil {
			panic("harness: " + err.Error())
		}
		for _, l := range lines {
			e, err := parser.ParseEntry(l)
			if err == nil && e == nil {
				vs.Add("nil-entry:log.parse", "%s parser returned neither an entry nor an error", format)
			}
		}
		v, err := logging.NewIntegrityCheckVerifier(logKey, parser)
		if err != nil {
			panic("harness: " + err.Error())
		}
		ch := make(chan *logging.LogEntryInfo, len(lines))
		for i, l := range lines {
			ch <- &logging.LogEntryInfo{RawLogEntry: l, LineNumber: i}
		}
		close(ch)
		_, _ = v.VerifyIntegrityCheck(&logging.LogEntrySource{Entries: ch})
	})
	return vs
}

func logSeeds() [][]byte {
	var out [][]byte
	for i, f := range logFormats {
		chain := logChain(f, 4)
		out = append(out, append([]byte{byte(i)}, strings.Join(chain, "\n")...))
		out = append(out, append([]byte{byte(i)}, chain[0]...))
		out = append(out, append([]byte{byte(i)}, strings.Join(append(chain, logChain(f, 2)...), "\n")...))
	}
	return out
}

// ---- YAML loaders --------------------------------------------------------------------------------

var encryptorConfigs = []string{
	sessionSchema,
	`defaults:
  crypto_envelope: acrablock
  reencrypting_to_acrablocks: false
  consistent_tokenization: true
database_settings:
  mysql:
    case_sensitive_table_identifiers: true
  postgresql: {}
schemas:
  - table: a
    columns: [x, y]
    encrypted:
      - column: x
        client_id: client
      - column: y
        searchable: true
        crypto_envelope: acrastruct
  - table: b
    columns: [z]
`,
	`schemas:
  - table: t
    columns:
      - id
      - v
    encrypted:
      - column: v
        data_type: int32
        response_on_fail: default_value
        default_data_value: "1"
      - column: id
        data_type_db_identifier: 23
        response_on_fail: error
`,
	`schemas:
  - table: m
    columns: [a]
    encrypted:
      - column: a
        masking: "xx"
        plaintext_length: 9223372036854775807
        plaintext_side: left
`,
	`schemas: []`,
	``,
}

func encryptorSeeds() [][]byte {
	var out [][]byte
	for _, c := range encryptorConfigs {
		out = append(out, []byte(c))
	}
	repo := os.Getenv("VERIF_REPO")
	if repo == "" {
		repo = "/repo"
	}
	files, _ := filepath.Glob(filepath.Join(repo, "tests", "encryptor_configs", "*.yaml"))
	sort.Strings(files)
	for _, f := range files {
		if b, err := os.ReadFile(f); err == nil && len(b) < 1<<15 {
			out = append(out, b)
		}
	}
	return out
}

func targetYamlEncryptor(data []byte) (vs hx.Vs) {
	for _, useMySQL := range []bool{false, true} {
		useMySQL := useMySQL
		hx.Guard(&vs, "yaml.encryptor", func() {
			store, err := config.MapTableSchemaStoreFromConfig(clone(data), useMySQL)
			if err != nil || store == nil {
				return
			}
			_ = store.GetGlobalSettingsMask()
			_ = store.GetDatabaseSettings()
			for _, name := range []string{"t", "a", "b", "m", "", "test_type_aware_decryption_with_defaults", "test_searchable_transparent_encryption"} {
				sch := store.GetTableSchema(name)
				if sch == nil {
					continue
				}
				_ = sch.Name()
				for _, col := range append(sch.Columns(), "id", "enc", "x", "") {
					_ = sch.NeedToEncrypt(col)
					s := sch.GetColumnEncryptionSettings(col)
					if s == nil {
						continue
					}
					_ = s.ColumnName()
					_ = s.ClientID()
					_ = s.GetDBDataTypeID()
					_ = s.GetEncryptedDataType()
					_ = s.GetDefaultDataValue()
					_ = s.GetResponseOnFail()
					_ = s.IsSearchable()
					_ = s.GetMaskingPattern()
					_ = s.GetPartialPlaintextLen()
					_ = s.IsEndMasking()
					_ = s.OnlyEncryption()
					_ = s.IsTokenized()
					_ = s.IsConsistentTokenization()
					_ = s.GetTokenType()
					_ = s.GetCryptoEnvelope()
					_ = s.ShouldReEncryptAcraStructToAcraBlock()
					_ = config.HasTypeAwareSupport(s)
					_ = config.IsBinaryDataOperation(s)
				}
			}
		})
	}
	return vs
}

// censorTouchesFS: the configuration mentions (or could spell through escapes/tags) an option that makes
// the loader open files and start writer goroutines. Those inputs are not given to LoadConfiguration:
// the harness must not create files at input-chosen paths.
func censorTouchesFS(data []byte) bool {
	l := bytes.ToLower(data)
	for _, s := range []string{"parse_errors_log", "query_capture", "filepath", "binary", "%tag", "\\x", "\\u", "\\\n", "\\\r"} {
		if bytes.Contains(l, []byte(s)) {
			return true
		}
	}
	return false
}

func targetYamlCensor(data []byte) (vs hx.Vs) {
	sqlparser.SetDefaultDialect(mysqldialect.NewMySQLDialect())
	if censorTouchesFS(data) {
		R.Class("TestTargets/yaml.censor", "excluded-filesystem-options")
		return nil
	}
	hx.Guard(&vs, "yaml.censor", func() {
		c := acracensor.NewAcraCensor()
		if err := c.LoadConfiguration(clone(data)); err != nil {
			return
		}
		_ = c.HandleQuery("select 1")
		_ = c.HandleQuery("insert into t (a) values ('x')")
		_ = c.HandleQuery("not sql at all")
		c.ReleaseAll()
	})
	return vs
}

func censorSeeds() [][]byte {
	out := [][]byte{[]byte(censorConfigDeny), []byte(censorConfigAllow),
		[]byte("version: 0.85.0\nhandlers:\n  - handler: denyall\n"),
		[]byte("version: 0.84.0\nhandlers:\n  - handler: allowall\n"),
		[]byte("version: 1.0.0\nignore_parse_error: true\nhandlers:\n  - handler: query_ignore\n    queries:\n      - select 1\n  - handler: deny\n    patterns:\n      - \"%%SELECT%%\"\n"),
		[]byte("handlers: []\n"), []byte("version: x.y.z\n"), []byte("")}
	repo := os.Getenv("VERIF_REPO")
	if repo == "" {
		repo = "/repo"
	}
	files, _ := filepath.Glob(filepath.Join(repo, "tests", "acra-censor_configs", "*.yaml"))
	sort.Strings(files)
	for _, f := range files {
		if b, err := os.ReadFile(f); err == nil && !censorTouchesFS(b) {
			out = append(out, b)
		}
	}
	return out
}

var yamlHostileValues = []string{"null", "~", "", "[]", "{}", "[null]", "[~, ~]", "{a: b}", "[[]]", "- null", "123", "-1", "0", "1e999", "99999999999999999999", "true", "no", "\"\"", "''",
	"!!binary aGVsbG8=", "!!int x", "!!str", "&a x", "*a", "|\n    text", ">-\n    folded", "'unterminated", "\"unterminated", "[1, 2", "{a: 1", "? complex", "\t", "- - - x", "a: b: c"}

// yamlHostile replaces the value of one line of a valid configuration (or one list item) with a value of
// another type, a null, an alias, ... or damages the indentation / duplicates a line.
func yamlHostile(t *rapid.T, seeds [][]byte) []byte {
	s := string(rapid.SampledFrom(seeds).Draw(t, "seed"))
	lines := strings.Split(s, "\n")
	if len(lines) == 0 {
		return []byte(rapid.SampledFrom(yamlHostileValues).Draw(t, "bare"))
	}
	i := rapid.IntRange(0, len(lines)-1).Draw(t, "line")
	l := lines[i]
	v := rapid.SampledFrom(yamlHostileValues).Draw(t, "value")
	switch rapid.IntRange(0, 5).Draw(t, "op") {
	case 0, 1, 2: // replace the value after "key:" or the item after "- "
		if k := strings.Index(l, ":"); k >= 0 {
			lines[i] = l[:k+1] + " " + v
		} else if k := strings.Index(l, "- "); k >= 0 {
			lines[i] = l[:k+2] + v
		} else {
			lines[i] = v
		}
	case 3: // a list item that is null / scalar at this indentation
		ind := len(l) - len(strings.TrimLeft(l, " "))
		lines = append(lines[:i+1], append([]string{strings.Repeat(" ", ind) + "- " + v}, lines[i+1:]...)...)
	case 4: // indentation damage
		lines[i] = strings.Repeat(" ", rapid.IntRange(0, 9).Draw(t, "indent")) + strings.TrimLeft(l, " ")
	default: // duplicate the line
		lines = append(lines[:i+1], append([]string{l}, lines[i+1:]...)...)
	}
	return []byte(strings.Join(lines, "\n"))
}

func yamlNontrivial(d []byte) bool {
	return bytes.Contains(d, []byte("schemas")) || bytes.Contains(d, []byte("handlers")) || bytes.Contains(d, []byte("version")) || bytes.Contains(d, []byte("defaults"))
}

func init() {
	register(&target{name: "codec.bytea", group: "FuzzCodec", fn: targetBytea, text: true, nontrivial: func(d []byte) bool { return bytes.IndexByte(d, '\\') >= 0 },
		seeds: func() [][]byte {
			return [][]byte{[]byte("\\x6162"), []byte("\\x"), []byte("abc"), []byte("a\\\\b"), []byte("\\000\\001\\377"), []byte("\\141bc\\012"), []byte("caf\xc3\xa9\\303\\251"), utils.EncodeToOctal([]byte{0, 1, 2, 0x7f, 0x80, 0xff, '\\', 'a'}), utils.PgEncodeToHex([]byte{0, 0xff})}
		}})
	register(&target{name: "log.parse", group: "FuzzCodec", fn: targetLogParse, text: true, seeds: logSeeds, magic: []byte{0, 1, 2},
		nontrivial: func(d []byte) bool {
			return len(d) > 1 && (bytes.Contains(d, []byte(" integrity=")) || (int(d[0])%3 == 2 && d[1] == '{'))
		}})
	register(&target{name: "yaml.encryptor", group: "FuzzYAML", fn: targetYamlEncryptor, text: true, seeds: encryptorSeeds, hostile: yamlHostile, nontrivial: yamlNontrivial})
	register(&target{name: "yaml.censor", group: "FuzzYAML", fn: targetYamlCensor, text: true, seeds: censorSeeds, hostile: yamlHostile, nontrivial: yamlNontrivial})
}

func FuzzCodec(f *testing.F) { fuzzGroup(f, "FuzzCodec") }
func FuzzYAML(f *testing.F)  { fuzzGroup(f, "FuzzYAML") }
