package c14

import (
	"bufio"
	"bytes"
	"encoding/binary"
	"encoding/hex"
	"io"
	"testing"

	"github.com/jackc/pgx/v5/pgproto3"
	"github.com/sirupsen/logrus"
	"pgregory.net/rapid"

	"github.com/cossacklabs/acra/decryptor/postgresql"
	"github.com/cossacklabs/acra/sqlparser"
	pgdialect "github.com/cossacklabs/acra/sqlparser/dialect/postgresql"

	"verif/internal/fix"
	"verif/internal/hx"
)

// pgMaxDeclared: declared lengths above this are clamped by the harness before the decoder sees them. On the pinned
// tree the readers allocated by the declared length (fixed since: they grow with the data that really arrives), and
// the clamp protected the harness. It now lets every 32-bit value through - lengths with the top bit set included,
// which a signed conversion would turn negative - and stays only as the one place to bound them again if needed.
const pgMaxDeclared = 0xffffffff

func pgEnc(m interface{ Encode([]byte) ([]byte, error) }) []byte {
	b, err := m.Encode(nil)
	if err != nil {
		panic(err)
	}
	return b
}

const pgSelectAll = "select id, enc, blk, srch, tok32, tok64, tokstr, tokbytes, tokemail, mask, tstr, tbytes, ti32, ti64 from t"

func pgHexText(b []byte) []byte { return []byte("\\x" + hex.EncodeToString(b)) }

// pgRow builds a DataRow for pgSelectAll with valid protected values for alice.
func pgRow() *pgproto3.DataRow {
	w := fix.TheWorld()
	must := func(b []byte, err error) []byte {
		if err != nil {
			panic(err)
		}
		return b
	}
	as := must(w.Protect(w.Alice, fix.KindStruct, fix.FormContainer, []byte("secret"), -1))
	ab := must(w.Protect(w.Alice, fix.KindBlock, fix.FormContainer, []byte("block"), -1))
	sr := must(w.Protect(w.Alice, fix.KindStruct, fix.FormSearchWrapped, []byte("find"), -1))
	ms := must(w.Protect(w.Alice, fix.KindBlock, fix.FormContainer, []byte("maskedvalue"), -1))
	i32 := must(w.Protect(w.Alice, fix.KindBlock, fix.FormContainer, []byte("123"), -1))
	return &pgproto3.DataRow{Values: [][]byte{
		[]byte("1"), pgHexText(as), pgHexText(ab), pgHexText(sr), []byte("-5"), []byte("77"), []byte("abc"), pgHexText([]byte{1, 2}), []byte("a@b.us"),
		pgHexText(ms), pgHexText(must(w.Protect(w.Alice, fix.KindBlock, fix.FormContainer, []byte("str"), -1))), pgHexText(ab), pgHexText(i32), nil,
	}}
}

func pgRowDescription() *pgproto3.RowDescription {
	names := []string{"id", "enc", "blk", "srch", "tok32", "tok64", "tokstr", "tokbytes", "tokemail", "mask", "tstr", "tbytes", "ti32", "ti64"}
	rd := &pgproto3.RowDescription{}
	for i, n := range names {
		oid := uint32(17)
		if i == 0 {
			oid = 23
		}
		rd.Fields = append(rd.Fields, pgproto3.FieldDescription{Name: []byte(n), TableOID: 1, TableAttributeNumber: uint16(i + 1), DataTypeOID: oid, DataTypeSize: -1, TypeModifier: -1})
	}
	return rd
}

func pgClientMessages() [][]byte {
	return [][]byte{
		pgEnc(&pgproto3.StartupMessage{ProtocolVersion: pgproto3.ProtocolVersionNumber, Parameters: map[string]string{"user": "u", "database": "d"}}),
		pgEnc(&pgproto3.SSLRequest{}),
		pgEnc(&pgproto3.CancelRequest{ProcessID: 1, SecretKey: 2}),
		pgEnc(&pgproto3.GSSEncRequest{}),
		pgEnc(&pgproto3.Query{String: pgSelectAll}),
		pgEnc(&pgproto3.Query{String: "insert into t (id, enc, tok32, tokemail) values (1, 'x', 5, 'a@b.c')"}),
		pgEnc(&pgproto3.Query{String: ""}),
		pgEnc(&pgproto3.Parse{Name: "s1", Query: "select id, enc from t where srch = $1 and tok32 = $2", ParameterOIDs: []uint32{17, 23}}),
		pgEnc(&pgproto3.Parse{Name: "", Query: "insert into t (id, enc, tokstr) values ($1, $2, $3)"}),
		pgEnc(&pgproto3.Bind{DestinationPortal: "p1", PreparedStatement: "s1", ParameterFormatCodes: []int16{0, 1}, Parameters: [][]byte{[]byte("find"), {0, 0, 0, 5}}, ResultFormatCodes: []int16{0, 1}}),
		pgEnc(&pgproto3.Bind{DestinationPortal: "", PreparedStatement: "", ParameterFormatCodes: []int16{1}, Parameters: [][]byte{{0, 0, 0, 1}, nil, []byte("tok")}, ResultFormatCodes: nil}),
		pgEnc(&pgproto3.Describe{ObjectType: 'S', Name: "s1"}),
		pgEnc(&pgproto3.Execute{Portal: "p1", MaxRows: 0}),
		pgEnc(&pgproto3.Execute{Portal: "", MaxRows: 10}),
		pgEnc(&pgproto3.Sync{}),
		pgEnc(&pgproto3.Flush{}),
		pgEnc(&pgproto3.Close{ObjectType: 'S', Name: "s1"}),
		pgEnc(&pgproto3.PasswordMessage{Password: "pw"}),
		pgEnc(&pgproto3.Terminate{}),
	}
}

func pgDbMessages() [][]byte {
	row := pgRow()
	binRow := &pgproto3.DataRow{Values: [][]byte{{0, 0, 0, 1}, row.Values[1][2:]}}
	return [][]byte{
		pgEnc(&pgproto3.AuthenticationOk{}),
		pgEnc(&pgproto3.ParameterStatus{Name: "server_version", Value: "14"}),
		pgEnc(&pgproto3.BackendKeyData{ProcessID: 1, SecretKey: 2}),
		pgEnc(&pgproto3.ReadyForQuery{TxStatus: 'I'}),
		pgEnc(pgRowDescription()),
		pgEnc(row),
		pgEnc(binRow),
		pgEnc(&pgproto3.DataRow{}),
		pgEnc(&pgproto3.CommandComplete{CommandTag: []byte("SELECT 1")}),
		pgEnc(&pgproto3.ParseComplete{}),
		pgEnc(&pgproto3.BindComplete{}),
		pgEnc(&pgproto3.ParameterDescription{ParameterOIDs: []uint32{17, 23}}),
		pgEnc(&pgproto3.NoData{}),
		pgEnc(&pgproto3.EmptyQueryResponse{}),
		pgEnc(&pgproto3.PortalSuspended{}),
		pgEnc(&pgproto3.ErrorResponse{Severity: "ERROR", Code: "42601", Message: "syntax"}),
		pgEnc(&pgproto3.NoticeResponse{Severity: "NOTICE", Message: "n"}),
	}
}

func cat(parts ...[]byte) []byte { return bytes.Join(parts, nil) }

// pgClampGeneral clamps the declared lengths of a stream of general messages (type + BE32 length).
func pgClampGeneral(data []byte) {
	for pos := 0; pos+5 <= len(data); {
		l := binary.BigEndian.Uint32(data[pos+1:])
		if l > pgMaxDeclared {
			binary.BigEndian.PutUint32(data[pos+1:], pgMaxDeclared)
			return
		}
		if l < 4 || uint64(pos)+1+uint64(l) > uint64(len(data)) {
			return
		}
		if data[pos] == 'D' { // DataRow: clamp column lengths that would allocate more than 2 GiB (0xffffffff is NULL)
			p := data[pos+5 : pos+1+int(l)]
			if len(p) >= 2 {
				n := int(binary.BigEndian.Uint16(p))
				q := 2
				for i := 0; i < n && q+4 <= len(p); i++ {
					cl := binary.BigEndian.Uint32(p[q:])
					if cl != 0xffffffff && cl > pgMaxDeclared {
						binary.BigEndian.PutUint32(p[q:], pgMaxDeclared)
						cl = pgMaxDeclared
					}
					q += 4
					if cl == 0xffffffff {
						continue
					}
					if uint64(q)+uint64(cl) > uint64(len(p)) {
						break
					}
					q += int(cl)
				}
			}
		}
		pos += 1 + int(l)
	}
}

// pgClampStartup clamps the BE32 length at the start of a startup-format stream.
func pgClampStartup(data []byte) (rest []byte) {
	if len(data) < 8 {
		return nil
	}
	l := binary.BigEndian.Uint32(data)
	if l > pgMaxDeclared {
		binary.BigEndian.PutUint32(data, pgMaxDeclared)
		return nil
	}
	if l < 8 || int(l) > len(data) {
		return nil
	}
	return data[l:]
}

func pgLogger() *logrus.Entry { return logrus.NewEntry(logrus.StandardLogger()) }

// pgCompletePacket: at least one complete general packet (type, length >= 4, payload present).
func pgCompletePacket(data []byte) bool {
	if len(data) < 5 {
		return false
	}
	l := binary.BigEndian.Uint32(data[1:])
	return l >= 4 && uint64(l)+1 <= uint64(len(data))
}

func pgInspect(vs *hx.Vs, name string, p *postgresql.PacketHandler, client bool) {
	_ = p.IsDataRow() || p.IsRowDescription() || p.IsParameterDescription() || p.IsReadyForQuery() || p.IsCommandComplete() || p.IsErrorResponse() ||
		p.IsEmptyQueryResponse() || p.IsNoData() || p.IsPortalSuspended() || p.IsParseComplete() || p.IsBindComplete() || p.IsSSLRequestAllowed() || p.IsSSLRequestDeny()
	if p.IsRowDescription() {
		_, _ = p.GetRowDescriptionData()
	}
	if p.IsParameterDescription() {
		_, _ = p.GetParameterDescriptionData()
	}
	if !client {
		_, _ = p.Marshal()
		return
	}
	if p.IsSimpleQuery() {
		q, err := p.GetSimpleQuery()
		if err == nil {
			p.ReplaceQuery(q + " ")
		}
	}
	if p.IsParse() {
		if parse, err := p.GetParseData(); err == nil && parse != nil {
			_ = parse.Name()
			_ = parse.QueryString()
			_ = parse.Marshal()
			_ = p.SetParsePacket(parse)
			p.ReplaceQuery("select 1")
		}
	}
	if p.IsBind() {
		if bind, err := p.GetBindData(); err == nil && bind != nil {
			_, _ = bind.GetParameters()
			_, _ = bind.GetResultFormats()
			_ = p.ReplaceBind(bind)
		}
	}
	if p.IsExecute() {
		if ex, err := p.GetExecuteData(); err == nil && ex != nil {
			_ = ex.PortalName()
		}
	}
	_, _ = p.Marshal()
}

// pg.read.db: the database-facing reader; every packet read is inspected through the exported accessors.
func targetPgReadDb(data []byte) (vs hx.Vs) {
	pgClampGeneral(data)
	var sink bytes.Buffer
	hx.Guard(&vs, "pg.read.db", func() {
		p, err := postgresql.NewDbSidePacketHandler(bytes.NewReader(data), bufio.NewWriter(&sink), pgLogger())
		if err != nil {
			return
		}
		for i := 0; i <= len(data); i++ {
			p.Reset()
			if err := p.ReadPacket(); err != nil {
				return
			}
			pgInspect(&vs, "pg.read.db", p, false)
		}
	})
	return vs
}

// pg.read.client: the client-facing reader; first byte: bit 0 = the startup packet has already been seen.
func targetPgReadClient(data []byte) (vs hx.Vs) {
	if len(data) == 0 {
		return nil
	}
	started := data[0]&1 == 1
	stream := data[1:]
	if started {
		pgClampGeneral(stream)
	} else if rest := pgClampStartup(stream); rest != nil {
		pgClampGeneral(rest)
	}
	var sink bytes.Buffer
	hx.Guard(&vs, "pg.read.client", func() {
		p, err := postgresql.NewClientSidePacketHandler(bytes.NewReader(stream), bufio.NewWriter(&sink), pgLogger())
		if err != nil {
			return
		}
		if started {
			p.SetStarted()
		}
		for i := 0; i <= len(stream); i++ {
			if err := p.ReadClientPacket(); err != nil {
				return
			}
			_ = p.IsAlreadyStarted()
			pgInspect(&vs, "pg.read.client", p, true)
		}
	})
	return vs
}

func targetPgParse(data []byte) (vs hx.Vs) {
	hx.Guard(&vs, "pg.parse", func() {
		_, _ = postgresql.FetchQueryFromParse(data)
		p, err := postgresql.NewParsePacket(data)
		if err != nil || p == nil {
			return
		}
		_ = p.Name()
		_ = p.QueryString()
		out := p.Marshal()
		if p.Length() != len(out) {
			vs.Add("length-mismatch:pg.parse", "ParsePacket.Length() = %d but Marshal() produced %d bytes", p.Length(), len(out))
		}
		p.ReplaceQuery("select 1")
		_ = p.Marshal()
		p.Zeroize()
	})
	return vs
}

func targetPgBind(data []byte) (vs hx.Vs) {
	orig := clone(data)
	hx.Guard(&vs, "pg.bind", func() {
		b, err := postgresql.NewBindPacket(data)
		if err != nil || b == nil {
			return
		}
		_ = b.PortalName()
		_ = b.StatementName()
		params, perr := b.GetParameters()
		_, _ = b.GetResultFormats()
		var buf bytes.Buffer
		n, merr := b.MarshalInto(&buf)
		if merr == nil && n != buf.Len() {
			vs.Add("length-mismatch:pg.bind", "MarshalInto reported %d bytes, wrote %d", n, buf.Len())
		}
		// an accepted packet re-marshals to a prefix-equal message (trailing garbage after the last array is dropped)
		if merr == nil && !bytes.HasPrefix(orig, buf.Bytes()) {
			vs.Add("roundtrip:pg.bind", "accepted Bind payload %x re-marshals to %x", trunc(orig, 64), trunc(buf.Bytes(), 64))
		}
		if perr == nil {
			b.SetParameters(params)
			buf.Reset()
			_, _ = b.MarshalInto(&buf)
		}
		b.Zeroize()
	})
	return vs
}

func targetPgExecute(data []byte) (vs hx.Vs) {
	hx.Guard(&vs, "pg.execute", func() {
		e, err := postgresql.NewExecutePacket(data)
		if err == nil && e != nil {
			_ = e.PortalName()
			e.Zeroize()
		}
	})
	return vs
}

// pg.session: the whole proxy, client stream first, then the database stream (see splitSession).
func targetPgSession(data []byte) (vs hx.Vs) {
	sqlparser.SetDefaultDialect(pgdialect.NewPostgreSQLDialect())
	client, db := splitSession(data)
	client, db = clone(client), clone(db)
	if rest := pgClampStartup(client); rest != nil {
		pgClampGeneral(rest)
	}
	if len(db) > 0 {
		// 'N' (SSL denied) makes the proxy wait for its sibling goroutine and restart it: outside a single-goroutine harness
		if db[0] == 'N' {
			db[0] = 'n'
		}
		if db[0] != 'S' {
			pgClampGeneral(db)
		}
	}
	_, schema := sessionSchemas()
	w := fix.TheWorld()
	hx.Guard(&vs, "pg.session", func() {
		s := newSession(newFakeConn(client), newFakeConn(db))
		f, err := postgresql.NewProxyFactory(proxySetting(schema), w.KS, newTokenizer())
		if err != nil {
			panic("harness: " + err.Error())
		}
		p, err := f.New(w.Alice, s)
		if err != nil {
			panic("harness: " + err.Error())
		}
		runProxy(p, s, w.Alice)
	})
	return vs
}

func pgSessionSeeds() [][]byte {
	c, d := pgClientMessages(), pgDbMessages()
	startup, query, parse, parse2, bind, bind2, describe, execute, execute2, syncm, term := c[0], c[4], c[7], c[8], c[9], c[10], c[11], c[12], c[13], c[14], c[18]
	auth, ps, kd, rfq, rd, row, binrow, cc, pc, bc, pd, errm := d[0], d[1], d[2], d[3], d[4], d[5], d[6], d[8], d[9], d[10], d[11], d[15]
	return [][]byte{
		joinSession(cat(startup, query, term), cat(auth, ps, kd, rfq, rd, row, row, cc, rfq)),
		joinSession(cat(startup, parse, bind, describe, execute, syncm, term), cat(auth, rfq, pc, bc, pd, rd, binrow, cc, rfq)),
		joinSession(cat(startup, parse2, bind2, execute2, syncm), cat(auth, rfq, pc, bc, cc, rfq)),
		joinSession(cat(startup, c[5], c[6], term), cat(auth, rfq, cc, rfq, d[13], rfq)),
		joinSession(cat(startup, query), cat(auth, rfq, errm, rfq)),
		joinSession(cat(c[1]), []byte{'S'}),
		joinSession(cat(startup, query), cat(auth, rfq, rd, pgEnc(&pgproto3.DataRow{Values: [][]byte{[]byte("1"), []byte("plain"), nil}}), cc, rfq)),
	}
}

// pgHostile builds a packet header with a hostile declared length at the structural position.
func pgHostile(client bool) func(t *rapid.T, seeds [][]byte) []byte {
	return func(t *rapid.T, seeds [][]byte) []byte {
		lens := []uint32{0, 1, 2, 3, 4, 4, 4, 5, 5, 6, 6, 7, 8, 9, 0x7f, 0xff, 0x100, 0xffff, 0x10000, 0x4000004, 0x8000000, 0x7fffffff, 0x80000000, 0xfffffffe, 0xffffffff}
		l := rapid.SampledFrom(lens).Draw(t, "len")
		tail := rapid.SliceOfN(rapid.Byte(), 0, 12).Draw(t, "tail")
		if rapid.Bool().Draw(t, "exact") && l >= 4 && l < 0x100 {
			// payload of exactly the declared size (zeros or bytes)
			tail = rapid.SliceOfN(rapid.SampledFrom([]byte{0, 0, 0, 1, 'a', 0xff}), int(l-4), int(l-4)).Draw(t, "payload")
		}
		var out []byte
		if client {
			started := byte(rapid.IntRange(0, 1).Draw(t, "started"))
			out = append(out, started)
			if started == 0 {
				tag := rapid.SampledFrom([][]byte{postgresql.StartupRequest, postgresql.SSLRequest, postgresql.CancelRequest, postgresql.GSSENCRequest}).Draw(t, "tag")
				out = binary.BigEndian.AppendUint32(out, l)
				out = append(out, tag...)
				return append(out, tail...)
			}
		}
		typ := rapid.SampledFrom([]byte("QQQPPBBEEDDSXCdcfHFpRTTttZ1n2sIKNA")).Draw(t, "type")
		// optionally after a valid first packet
		if rapid.Bool().Draw(t, "second") && len(seeds) > 0 && !client {
			out = append(out, rapid.SampledFrom(seeds).Draw(t, "first")...)
		}
		out = append(out, typ)
		out = binary.BigEndian.AppendUint32(out, l)
		return append(out, tail...)
	}
}

// pgPayloadHostile edits count/length fields inside Parse/Bind/Execute payloads.
func pgPayloadHostile(t *rapid.T, seeds [][]byte) []byte {
	names := rapid.SampledFrom([]string{"", "s", "portal"}).Draw(t, "name")
	var out []byte
	switch rapid.IntRange(0, 3).Draw(t, "shape") {
	case 0: // name\0 query\0 nparams(u16) oids...
		out = append(out, names...)
		out = append(out, 0)
		out = append(out, "select 1"...)
		out = append(out, 0)
		out = append(out, putInt(rapid.SampledFrom([]int{0, 1, 2}).Draw(t, "w"), true, rapid.SampledFrom([]uint64{0, 1, 2, 0x7fff, 0xffff}).Draw(t, "n"))...)
		out = append(out, rapid.SliceOfN(rapid.Byte(), 0, 9).Draw(t, "oids")...)
	case 1: // portal\0 stmt\0 nfmt(u16) fmts nparams(u16) (len(u32) data)* nres(u16) res
		out = append(out, names...)
		out = append(out, 0, 's', 0)
		cnt := []uint64{0, 1, 2, 3, 0x7fff, 0x8000, 0xffff}
		out = append(out, putInt(2, true, rapid.SampledFrom(cnt).Draw(t, "nf"))...)
		out = append(out, rapid.SliceOfN(rapid.Byte(), 0, 4).Draw(t, "fmts")...)
		out = append(out, putInt(2, true, rapid.SampledFrom(cnt).Draw(t, "np"))...)
		out = append(out, putInt(4, true, rapid.SampledFrom([]uint64{0, 1, 4, 0x7fffffff, 0x80000000, 0xfffffffe, 0xffffffff}).Draw(t, "pl"))...)
		out = append(out, rapid.SliceOfN(rapid.Byte(), 0, 6).Draw(t, "pdata")...)
		out = append(out, putInt(2, true, rapid.SampledFrom(cnt).Draw(t, "nr"))...)
		out = append(out, rapid.SliceOfN(rapid.Byte(), 0, 4).Draw(t, "res")...)
	case 2: // terminators only
		out = bytes.Repeat([]byte{0}, rapid.IntRange(0, 5).Draw(t, "zeros"))
	default: // portal\0 maxrows
		out = append(out, names...)
		out = append(out, 0)
		out = append(out, rapid.SliceOfN(rapid.Byte(), 0, 5).Draw(t, "rows")...)
	}
	return out
}

func pgSessionHostile(t *rapid.T, seeds [][]byte) []byte {
	c, d := pgClientMessages(), pgDbMessages()
	startup, query, parse, bind, execute, syncm := c[0], c[4], c[7], c[9], c[12], c[14]
	auth, rfq, rd, row, cc := d[0], d[3], d[4], d[5], d[8]
	client := cat(startup, query)
	if rapid.Bool().Draw(t, "extended") {
		client = cat(startup, parse, bind, execute, syncm)
	}
	lens := []uint32{0, 1, 2, 3, 4, 5, 6, 0x7f, 0xffff, 0x8000000, 0x7fffffff, 0x80000000, 0xfffffffe, 0xffffffff}
	var hostile []byte
	switch rapid.IntRange(0, 3).Draw(t, "where") {
	case 0: // hostile header from the database after a valid prelude
		hostile = append([]byte{rapid.SampledFrom([]byte("DTtCZE12nsI")).Draw(t, "type")}, putInt(4, true, uint64(rapid.SampledFrom(lens).Draw(t, "len")))...)
		return joinSession(client, cat(auth, rfq, rd, hostile, rapid.SliceOfN(rapid.Byte(), 0, 8).Draw(t, "tail")))
	case 1: // DataRow with hostile column count / column length
		payload := putInt(2, true, rapid.SampledFrom([]uint64{0, 1, 2, 14, 0xffff}).Draw(t, "ncol"))
		payload = append(payload, putInt(4, true, uint64(rapid.SampledFrom(lens).Draw(t, "collen")))...)
		payload = append(payload, rapid.SliceOfN(rapid.Byte(), 0, 8).Draw(t, "coldata")...)
		if rapid.Bool().Draw(t, "short") {
			payload = payload[:rapid.IntRange(0, len(payload)).Draw(t, "cut")]
		}
		hostile = append([]byte{'D'}, putInt(4, true, uint64(len(payload)+4))...)
		return joinSession(client, cat(auth, rfq, rd, hostile, payload, cc, rfq))
	case 2: // hostile header from the client
		hostile = append([]byte{rapid.SampledFrom([]byte("QPBEX")).Draw(t, "ctype")}, putInt(4, true, uint64(rapid.SampledFrom(lens).Draw(t, "clen")))...)
		return joinSession(cat(startup, hostile, rapid.SliceOfN(rapid.Byte(), 0, 8).Draw(t, "ctail")), cat(auth, rfq, rd, row, cc, rfq))
	default: // client payload with hostile counts in a well-framed Parse/Bind/Execute/Query
		payload := pgPayloadHostile(t, nil)
		hostile = append([]byte{rapid.SampledFrom([]byte("QPBE")).Draw(t, "ptype")}, putInt(4, true, uint64(len(payload)+4))...)
		return joinSession(cat(startup, hostile, payload, syncm), cat(auth, rfq, rd, row, cc, rfq))
	}
}

func init() {
	pgTypes := []byte("QPBEDSXCdcfHFpRTtZ1n2sIKNA")
	register(&target{name: "pg.read.db", group: "FuzzPG", fn: targetPgReadDb, nontrivial: pgCompletePacket,
		seeds: func() [][]byte { m := pgDbMessages(); return append(m, cat(m[4], m[5], m[8], m[3])) }, magic: pgTypes, hostile: pgHostile(false)})
	register(&target{name: "pg.read.client", group: "FuzzPG", fn: targetPgReadClient,
		nontrivial: func(d []byte) bool {
			if len(d) < 9 {
				return false
			}
			if d[0]&1 == 1 {
				return pgCompletePacket(d[1:])
			}
			l := binary.BigEndian.Uint32(d[1:])
			return l >= 8 && int(l) <= len(d)-1
		},
		seeds: func() [][]byte {
			var out [][]byte
			for i, m := range pgClientMessages() {
				if i < 4 {
					out = append(out, append([]byte{0}, m...))
				} else {
					out = append(out, append([]byte{1}, m...))
				}
			}
			c := pgClientMessages()
			return append(out, cat([]byte{0}, c[0], c[4], c[7], c[9], c[12], c[14], c[18]))
		}, magic: []byte{0, 1}, hostile: pgHostile(true)})
	payload := func(idx ...int) func() [][]byte {
		return func() [][]byte {
			var out [][]byte
			c := pgClientMessages()
			for _, i := range idx {
				out = append(out, c[i][5:])
			}
			return out
		}
	}
	hasNul := func(d []byte) bool { return bytes.IndexByte(d, 0) >= 0 }
	register(&target{name: "pg.parse", group: "FuzzPG", fn: targetPgParse, nontrivial: func(d []byte) bool { return bytes.Count(d, []byte{0}) >= 2 }, seeds: payload(7, 8), hostile: pgPayloadHostile})
	register(&target{name: "pg.bind", group: "FuzzPG", fn: targetPgBind, nontrivial: func(d []byte) bool { return bytes.Count(d, []byte{0}) >= 2 }, seeds: payload(9, 10), hostile: pgPayloadHostile})
	register(&target{name: "pg.execute", group: "FuzzPG", fn: targetPgExecute, nontrivial: hasNul, seeds: payload(12, 13), hostile: pgPayloadHostile})
	register(&target{name: "pg.session", group: "FuzzPGSession", fn: targetPgSession,
		nontrivial: func(d []byte) bool {
			c, db := splitSession(d)
			return (len(c) >= 8 && bytes.Equal(c[4:8], postgresql.StartupRequest)) || pgCompletePacket(db)
		},
		seeds: pgSessionSeeds, hostile: pgSessionHostile, weight: 0.6})
}

func FuzzPG(f *testing.F)        { fuzzGroup(f, "FuzzPG") }
func FuzzPGSession(f *testing.F) { fuzzGroup(f, "FuzzPGSession") }

var _ = io.EOF
