package c14

import (
	"bytes"
	"errors"
	"testing"
	"time"

	"pgregory.net/rapid"

	"github.com/cossacklabs/acra/encryptor/base/config"
	"github.com/cossacklabs/acra/pseudonymization"
	tokencommon "github.com/cossacklabs/acra/pseudonymization/common"
	"github.com/cossacklabs/acra/pseudonymization/storage"

	"verif/internal/fix"
	"verif/internal/hx"
)

var tokenTypes = []tokencommon.TokenType{tokencommon.TokenType_Int32, tokencommon.TokenType_Int64, tokencommon.TokenType_String, tokencommon.TokenType_Bytes, tokencommon.TokenType_Email}

// recordStorage is a token storage that answers every Get with one fixed record (what a corrupted or
// hostile store would hand back).
type recordStorage struct{ record []byte }

func (s recordStorage) Save(id []byte, ctx tokencommon.TokenContext, data []byte) error { return nil }
func (s recordStorage) Get(id []byte, ctx tokencommon.TokenContext) ([]byte, error) {
	return clone(s.record), nil
}
func (s recordStorage) Stat(id []byte, ctx tokencommon.TokenContext) (tokencommon.TokenMetadata, error) {
	return tokencommon.TokenMetadata{}, nil
}
func (s recordStorage) VisitMetadata(cb func(int, tokencommon.TokenMetadata) (tokencommon.TokenAction, error)) error {
	return nil
}
func (s recordStorage) SetAccessTimeGranularity(time.Duration) error { return nil }

func tokenCtx() tokencommon.TokenContext {
	return tokencommon.TokenContext{ClientID: []byte("alice")}
}

func valueOfType(data []byte, tt tokencommon.TokenType) interface{} {
	switch tt {
	case tokencommon.TokenType_Int32:
		var v int32
		for i := 0; i < len(data) && i < 4; i++ {
			v |= int32(data[i]) << (8 * uint(i))
		}
		return v
	case tokencommon.TokenType_Int64:
		var v int64
		for i := 0; i < len(data) && i < 8; i++ {
			v |= int64(data[i]) << (8 * uint(i))
		}
		return v
	case tokencommon.TokenType_String:
		return string(data)
	case tokencommon.TokenType_Email:
		return tokencommon.Email(data)
	default:
		return data
	}
}

// tok.metadata: the stored-record decoders.
func targetTokMetadata(data []byte) (vs hx.Vs) {
	hx.Guard(&vs, "tok.metadata", func() {
		payload, md, err := tokencommon.ExtractMetadata(data)
		if err == nil {
			back := tokencommon.EmbedMetadata(payload, md)
			p2, md2, err2 := tokencommon.ExtractMetadata(back)
			if err2 != nil || !bytes.Equal(p2, payload) || !md2.Equal(md) {
				vs.Add("roundtrip:tok.metadata", "metadata record %x does not survive Embed/Extract: %v", trunc(data, 48), err2)
			}
			_ = md.AccessedBefore(time.Unix(0, 0), time.Hour)
		}
		if tv, err := tokencommon.TokenValueFromData(data); err == nil && tv != nil {
			_ = tokencommon.ValidateTokenType(tv.Type)
			_, _ = tv.Type.ToConfigString()
			_, _ = tokencommon.EncodeTokenValue(tv)
		}
	})
	return vs
}

// tok.storage: records read back from the token store, through every reader of the pseudonymizer.
func targetTokStorage(data []byte) (vs hx.Vs) {
	hx.Guard(&vs, "tok.storage", func() {
		p, err := pseudonymization.NewPseudoanonymizer(recordStorage{data})
		if err != nil {
			panic("harness: " + err.Error())
		}
		for _, tt := range tokenTypes {
			tok := valueOfType([]byte("12345678"), tt)
			_, _ = p.Deanonymize(tok, tokenCtx(), tt)
			_, _ = p.AnonymizeConsistently(tok, tokenCtx(), tt)
		}
	})
	hx.Guard(&vs, "tok.storage", func() {
		w := fix.TheWorld()
		enc, err := storage.NewSCellEncryptor(w.KS)
		if err != nil {
			panic("harness: " + err.Error())
		}
		p, err := pseudonymization.NewPseudoanonymizer(storage.WrapStorageWithEncryption(recordStorage{data}, enc))
		if err != nil {
			panic("harness: " + err.Error())
		}
		for _, tt := range tokenTypes {
			tok := valueOfType([]byte("12345678"), tt)
			_, _ = p.Deanonymize(tok, tokenCtx(), tt)
			_, _ = p.AnonymizeConsistently(tok, tokenCtx(), tt)
		}
	})
	return vs
}

// tok.generate: token generation for values of every length (incl. 0, 1, 2) and type.
func targetTokGenerate(data []byte) (vs hx.Vs) {
	data = capLen(data, tokMaxLen)
	for _, tt := range tokenTypes {
		tt := tt
		hx.Guard(&vs, "tok.generate", func() {
			ts, err := storage.NewMemoryTokenStorage()
			if err != nil {
				panic("harness: " + err.Error())
			}
			p, err := pseudonymization.NewPseudoanonymizer(ts)
			if err != nil {
				panic("harness: " + err.Error())
			}
			v := valueOfType(data, tt)
			for _, consistent := range []bool{false, true} {
				var tok interface{}
				if consistent {
					tok, err = p.AnonymizeConsistently(v, tokenCtx(), tt)
				} else {
					tok, err = p.Anonymize(v, tokenCtx(), tt)
				}
				if err != nil {
					continue
				}
				switch tt {
				case tokencommon.TokenType_String:
					if len(tok.(string)) != len(data) {
						vs.Add("length:tok.generate", "string token of %d bytes for a %d-byte value", len(tok.(string)), len(data))
					}
				case tokencommon.TokenType_Bytes:
					if len(tok.([]byte)) != len(data) {
						vs.Add("length:tok.generate", "bytes token of %d bytes for a %d-byte value", len(tok.([]byte)), len(data))
					}
				case tokencommon.TokenType_Email:
					if len(tok.(tokencommon.Email)) != len(data) {
						vs.Add("length:tok.generate", "email token of %d bytes for a %d-byte value", len(tok.(tokencommon.Email)), len(data))
					}
				}
				back, derr := p.Deanonymize(tok, tokenCtx(), tt)
				_ = back
				_ = derr
			}
		})
	}
	return vs
}

// tokMaxLen: token generation draws every output byte from the system random source, so its cost is linear
// in the value length by design; longer inputs are cut (harness cost control, not an oracle).
const tokMaxLen = 1024

func capLen(b []byte, n int) []byte {
	if len(b) > n {
		return b[:n]
	}
	return b
}

func tokenSettings() []config.ColumnEncryptionSetting {
	my, pg := sessionSchemas()
	var out []config.ColumnEncryptionSetting
	for _, s := range []*config.MapTableSchemaStore{my, pg} {
		for _, col := range []string{"tok32", "tok64", "tokstr", "tokbytes", "tokemail"} {
			out = append(out, s.GetTableSchema("t").GetColumnEncryptionSettings(col))
		}
	}
	return out
}

// tok.datatokenizer: the text front end used by the SQL proxies (numbers arrive as decimal text).
func targetTokDataTokenizer(data []byte) (vs hx.Vs) {
	data = capLen(data, tokMaxLen)
	for _, setting := range tokenSettings() {
		setting := setting
		hx.Guard(&vs, "tok.datatokenizer", func() {
			dt, err := pseudonymization.NewDataTokenizer(newTokenizer())
			if err != nil {
				panic("harness: " + err.Error())
			}
			tok, err := dt.Tokenize(clone(data), tokenCtx(), setting)
			if err == nil {
				_, _ = dt.Detokenize(tok, tokenCtx(), setting)
			}
			_, _ = dt.Detokenize(clone(data), tokenCtx(), setting)
		})
	}
	return vs
}

func tokRecordSeeds() [][]byte {
	mk := func(v []byte, tt tokencommon.TokenType) []byte {
		b, err := tokencommon.EncodeTokenValue(&tokencommon.TokenValue{Value: v, Type: tt})
		if err != nil {
			panic(err)
		}
		return b
	}
	md := tokencommon.TokenMetadata{Created: time.Unix(1600000000, 0), Accessed: time.Unix(1600000100, 0)}
	seeds := [][]byte{
		mk([]byte{1, 0, 0, 0}, tokencommon.TokenType_Int32), mk([]byte{1, 0, 0, 0, 0, 0, 0, 0}, tokencommon.TokenType_Int64),
		mk([]byte("string"), tokencommon.TokenType_String), mk([]byte{0, 1, 2}, tokencommon.TokenType_Bytes), mk([]byte("a@b.us"), tokencommon.TokenType_Email),
		{1, 0, 0, 0}, {1, 0, 0, 0, 0, 0, 0, 0}, []byte("12345678"),
	}
	for _, s := range append([][]byte(nil), seeds[:5]...) {
		seeds = append(seeds, tokencommon.EmbedMetadata(s, md))
	}
	w := fix.TheWorld()
	if enc, err := storage.NewSCellEncryptor(w.KS); err == nil {
		for _, s := range append([][]byte(nil), seeds[:6]...) {
			if e, err := enc.Encrypt(s, tokenCtx()); err == nil {
				seeds = append(seeds, e)
			}
		}
	}
	return seeds
}

// tokRecordHostile: protobuf records with a declared type and a value of a hostile length.
func tokRecordHostile(t *rapid.T, seeds [][]byte) []byte {
	tt := rapid.SampledFrom([]uint64{0, 1, 2, 3, 4, 5, 6, 7, 0x7f, 0xffffffff, 0xffffffffffffffff}).Draw(t, "type")
	n := rapid.SampledFrom([]int{0, 1, 2, 3, 4, 5, 7, 8, 9}).Draw(t, "vlen")
	val := bytes.Repeat([]byte{7}, n)
	var out []byte
	varint := func(v uint64) []byte {
		var b []byte
		for v >= 0x80 {
			b = append(b, byte(v)|0x80)
			v >>= 7
		}
		return append(b, byte(v))
	}
	// field 1 (bytes value), field 2 (varint type) - the layout of TokenValue
	out = append(out, 0x0a)
	out = append(out, varint(uint64(rapid.SampledFrom([]int{n, n, n, n + 1, 0x7f, 0x7fffffff}).Draw(t, "declared")))...)
	out = append(out, val...)
	out = append(out, 0x10)
	out = append(out, varint(tt)...)
	if rapid.Bool().Draw(t, "raw") {
		return val // bare value, as AnonymizeConsistently stores it
	}
	return out
}

// budgetStorage counts the calls an API operation makes on the token storage. Past the budget every call
// fails with errBudget, which ends any retry loop: the amount of work per operation is judged by the
// counter, never by the clock.
type budgetStorage struct {
	tokencommon.TokenStorage
	calls  int
	budget int
	// stuck: Get of a key that exists fails (what a record that cannot be read back looks like: corrupted
	// metadata, undecryptable content); Save keeps answering ErrTokenExists for it
	stuck    bool
	stuckErr error
}

var errBudget = errors.New("harness: storage call budget exhausted")

func (b *budgetStorage) over() bool { b.calls++; return b.budget > 0 && b.calls > b.budget }
func (b *budgetStorage) Save(id []byte, ctx tokencommon.TokenContext, data []byte) error {
	if b.over() {
		return errBudget
	}
	return b.TokenStorage.Save(id, ctx, data)
}
func (b *budgetStorage) Get(id []byte, ctx tokencommon.TokenContext) ([]byte, error) {
	if b.over() {
		return nil, errBudget
	}
	d, err := b.TokenStorage.Get(id, ctx)
	if err == nil && b.stuck {
		return nil, b.stuckErr
	}
	return d, err
}

const tokCallBudget = 64

// tok.stuck: a value is tokenized consistently, then its records become unreadable (every token disabled
// through the storage's own visitor, as `acra-tokens disable` does, or reads of existing records fail),
// then the same value and its token go through the API again. Oracle: no panic, and every operation
// ends after a bounded number of storage calls.
func targetTokStuck(data []byte) (vs hx.Vs) {
	if len(data) < 2 {
		return nil
	}
	tt := tokenTypes[int(data[0])%len(tokenTypes)]
	mode := data[1] % 4
	val := valueOfType(capLen(data[2:], 64), tt)
	hx.Guard(&vs, "tok.stuck", func() {
		ts, err := storage.NewMemoryTokenStorage()
		if err != nil {
			panic("harness: " + err.Error())
		}
		bs := &budgetStorage{TokenStorage: ts}
		p, err := pseudonymization.NewPseudoanonymizer(bs)
		if err != nil {
			panic("harness: " + err.Error())
		}
		tok, err := p.AnonymizeConsistently(val, tokenCtx(), tt)
		if err != nil {
			return
		}
		switch mode {
		case 0:
			_ = ts.VisitMetadata(func(int, tokencommon.TokenMetadata) (tokencommon.TokenAction, error) {
				return tokencommon.TokenDisable, nil
			})
		case 1:
			bs.stuck, bs.stuckErr = true, errors.New("proto: cannot parse invalid wire-format data")
		case 2:
			bs.stuck, bs.stuckErr = true, tokencommon.ErrTokenDisabled
		default:
			bs.stuck, bs.stuckErr = true, errors.New("failed to decrypt token record")
		}
		bs.budget = tokCallBudget
		for _, op := range []struct {
			name string
			f    func()
		}{
			{"AnonymizeConsistently", func() { _, _ = p.AnonymizeConsistently(val, tokenCtx(), tt) }},
			{"Deanonymize", func() { _, _ = p.Deanonymize(tok, tokenCtx(), tt) }},
			{"Anonymize", func() { _, _ = p.Anonymize(val, tokenCtx(), tt) }},
		} {
			bs.calls = 0
			op.f()
			if bs.calls > tokCallBudget {
				vs.Add("unbounded-work:tok."+op.name, "%s of a value whose stored record cannot be read back (mode %d, type %v) made more than %d storage calls and was only stopped by the harness", op.name, mode, tt, tokCallBudget)
				return
			}
		}
	})
	return vs
}

func init() {
	nonEmpty := func(d []byte) bool { return len(d) > 0 }
	register(&target{name: "tok.metadata", group: "FuzzTokens", fn: targetTokMetadata, seeds: tokRecordSeeds, hostile: tokRecordHostile, magic: []byte{0x0a, 0x10, 0x18, 0x20, 0x08},
		nontrivial: func(d []byte) bool {
			return len(d) > 0 && (d[0] == 0x0a || d[0] == 0x10 || d[0] == 0x08 || d[0] == 0x18 || d[0] == 0x20)
		}})
	register(&target{name: "tok.storage", group: "FuzzTokens", fn: targetTokStorage, seeds: tokRecordSeeds, hostile: tokRecordHostile, magic: []byte{0x0a, 0x10, '%'}, nontrivial: nonEmpty})
	textSeeds := func() [][]byte {
		return [][]byte{[]byte(""), []byte("a"), []byte("ab"), []byte("abc"), []byte("a@b"), []byte("user@example.com"), []byte("0"), []byte("-1"), []byte("2147483647"), []byte("2147483648"),
			[]byte("-2147483649"), []byte("9223372036854775807"), []byte("9223372036854775808"), []byte("123456789012345678901234567890"), []byte("+5"), []byte(" 5"), []byte("5 "), []byte("0x10"), []byte("1e3"), bytes.Repeat([]byte("x"), 4096)}
	}
	register(&target{name: "tok.generate", group: "FuzzTokens", fn: targetTokGenerate, seeds: textSeeds, text: true, nontrivial: func(d []byte) bool { return true }})
	register(&target{name: "tok.datatokenizer", group: "FuzzTokens", fn: targetTokDataTokenizer, seeds: textSeeds, text: true, weight: 0.6,
		nontrivial: func(d []byte) bool {
			return len(d) > 0 && (d[0] == '-' || d[0] == '+' || (d[0] >= '0' && d[0] <= '9') || bytes.IndexByte(d, '@') >= 0)
		}})
	register(&target{name: "tok.stuck", group: "FuzzTokens", fn: targetTokStuck, seeds: func() [][]byte {
		return [][]byte{{0, 0, '1', '2', '3'}, {2, 1, 'a', 'b', 'c'}, {4, 2, 'a', '@', 'b', '.', 'c'}, {1, 3, '9'}, {3, 0, 0xff, 0}}
	}, nontrivial: func(d []byte) bool { return len(d) >= 3 }})
}

func FuzzTokens(f *testing.F) { fuzzGroup(f, "FuzzTokens") }
