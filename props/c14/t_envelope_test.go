package c14

import (
	"bytes"
	"context"
	"errors"
	"testing"

	"github.com/cossacklabs/themis/gothemis/keys"
	"pgregory.net/rapid"

	"github.com/cossacklabs/acra/acrablock"
	"github.com/cossacklabs/acra/acrastruct"
	"github.com/cossacklabs/acra/crypto"
	"github.com/cossacklabs/acra/decryptor/base"
	"github.com/cossacklabs/acra/hmac"

	"verif/internal/fix"
	"verif/internal/hx"
)

// plaintexts of the valid examples; a column value may only change when one of them is revealed.
var envPlains = [][]byte{[]byte("C14-PLAIN-one"), []byte("C14-PLAIN-a-longer-plaintext-0123456789-0123456789-0123456789-0123456789"), []byte("C14-P")}

func envSeeds() [][]byte {
	w := fix.TheWorld()
	var out [][]byte
	for _, kind := range fix.Kinds {
		for _, form := range fix.Forms {
			for i, p := range envPlains {
				if i > 0 && form != fix.FormRaw && form != fix.FormContainer {
					continue
				}
				v, err := w.Protect(w.Alice, kind, form, p, -1)
				if err != nil {
					panic(err)
				}
				out = append(out, v)
			}
		}
	}
	// a value for another client, and a value inside other bytes
	v, err := w.Protect(w.Bobby, fix.KindBlock, fix.FormContainer, envPlains[0], -1)
	if err != nil {
		panic(err)
	}
	out = append(out, v, cat([]byte("prefix-"), out[0], []byte("-suffix")), cat(out[1], out[3]))
	return out
}

func revealsKnownPlain(out []byte) bool {
	for _, p := range envPlains {
		if bytes.Contains(out, p) {
			return true
		}
	}
	return false
}

func envNontrivial(d []byte) bool {
	return bytes.Contains(d, acrastruct.TagBegin) || bytes.Contains(d, []byte("%%%")) || (len(d) > 0 && d[0] == 0x7f && len(d) >= 33)
}

func alicePrivs() []*keys.PrivateKey {
	w := fix.TheWorld()
	p, err := w.KS.GetServerDecryptionPrivateKeys(w.Alice)
	if err != nil {
		panic(err)
	}
	return p
}

func aliceSyms() [][]byte {
	w := fix.TheWorld()
	k, err := w.KS.GetClientIDSymmetricKeys(w.Alice)
	if err != nil {
		panic(err)
	}
	return k
}

func targetEnvAcraBlock(data []byte) (vs hx.Vs) {
	hx.Guard(&vs, "env.acrablock", func() {
		n, block, err := acrablock.ExtractAcraBlockFromData(data)
		if err == nil {
			if n < acrablock.AcraBlockMinSize || n > len(data) || len(block) != n {
				vs.Add("bounds:env.acrablock", "ExtractAcraBlockFromData accepted a block of %d bytes (len %d) in %d bytes of data", n, len(block), len(data))
			}
			_ = block.EncryptedDataEncryptionKeyLength()
			_ = block.KeyEncryptionBackend()
			_ = block.DataEncryptionBackend()
			_, _ = block.Decrypt(aliceSyms(), nil)
			_, _ = block.Decrypt(aliceSyms(), []byte("ctx"))
		}
		if b2, err := acrablock.NewAcraBlockFromData(data); err == nil {
			_, _ = b2.Decrypt(aliceSyms(), nil)
		}
	})
	return vs
}

func targetEnvAcraStruct(data []byte) (vs hx.Vs) {
	hx.Guard(&vs, "env.acrastruct", func() {
		verr := acrastruct.ValidateAcraStructLength(data)
		n, as, err := acrastruct.ExtractAcraStruct(data)
		if err == nil && (n < acrastruct.GetMinAcraStructLength() || n > len(data) || len(as) != n) {
			vs.Add("bounds:env.acrastruct", "ExtractAcraStruct accepted %d bytes (len %d) in %d bytes of data", n, len(as), len(data))
		}
		if verr == nil && (err != nil || n != len(data)) {
			vs.Add("inconsistent:env.acrastruct", "ValidateAcraStructLength accepts %d bytes but ExtractAcraStruct says %d, %v", len(data), n, err)
		}
		for _, k := range alicePrivs() {
			_, _ = acrastruct.DecryptAcrastruct(data, k, nil)
		}
		_, _ = acrastruct.DecryptRotatedAcrastruct(data, alicePrivs(), nil)
		_, _ = acrastruct.DecryptRotatedAcrastruct(data, nil, nil)
	})
	return vs
}

type envProcessor struct{ fail bool }

func (p envProcessor) OnAcraStruct(ctx context.Context, as []byte) ([]byte, error) {
	if p.fail {
		return nil, errors.New("refused")
	}
	out, err := acrastruct.DecryptRotatedAcrastruct(as, alicePrivs(), nil)
	if err != nil {
		return as, nil
	}
	return out, nil
}

func (p envProcessor) OnAcraBlock(ctx context.Context, b acrablock.AcraBlock) ([]byte, error) {
	if p.fail {
		return nil, errors.New("refused")
	}
	out, err := b.Decrypt(aliceSyms(), nil)
	if err != nil {
		return b, nil
	}
	return out, nil
}

// env.process: the inline scanners; a value without a revealed plaintext comes back unchanged, and an
// error returns the input as it was.
func targetEnvProcess(data []byte) (vs hx.Vs) {
	orig := clone(data)
	check := func(what string, out []byte, err error, failing bool) {
		if err != nil {
			if !bytes.Equal(out, orig) {
				vs.Add("error-changed:env.process", "%s returned an error and %d bytes different from the %d-byte input", what, len(out), len(orig))
			}
			return
		}
		if !bytes.Equal(out, orig) && (failing || !revealsKnownPlain(out)) {
			vs.Add("changed:env.process", "%s changed a value without revealing a protected plaintext: in %x out %x", what, trunc(orig, 48), trunc(out, 48))
		}
	}
	hx.Guard(&vs, "env.process", func() {
		for _, fail := range []bool{false, true} {
			in := clone(orig)
			out, err := acrastruct.ProcessAcraStructs(context.Background(), in, make([]byte, len(in)), envProcessor{fail})
			check("ProcessAcraStructs", out, err, fail)
			in = clone(orig)
			out, err = acrablock.ProcessAcraBlocks(context.Background(), in, make([]byte, len(in)), envProcessor{fail})
			check("ProcessAcraBlocks", out, err, fail)
			// same buffer for input and output, as OldContainerDetectorWrapper does
			in = clone(orig)
			out, err = acrablock.ProcessAcraBlocks(context.Background(), in, in, envProcessor{fail})
			if err == nil && !bytes.Equal(out, orig) && (fail || !revealsKnownPlain(out)) {
				vs.Add("changed:env.process", "ProcessAcraBlocks (in-place) changed a value without revealing a protected plaintext")
			}
		}
	})
	return vs
}

func targetEnvContainer(data []byte) (vs hx.Vs) {
	orig := clone(data)
	w := fix.TheWorld()
	dctx := func() *base.DataProcessorContext {
		return &base.DataProcessorContext{Keystore: w.KS, Context: fix.Ctx(w.Alice)}
	}
	hx.Guard(&vs, "env.container", func() {
		internal, id, err := crypto.DeserializeEncryptedData(data)
		if err == nil {
			if len(internal) > len(data) {
				vs.Add("bounds:env.container", "DeserializeEncryptedData returned %d bytes from %d bytes of data", len(internal), len(data))
			}
			if _, herr := crypto.GetHandlerByEnvelopeID(id); herr != nil {
				vs.Add("unknown-envelope:env.container", "DeserializeEncryptedData accepted envelope id %#x which has no handler", id)
			}
		}
		_, c, err := crypto.ExtractSerializedContainer(data)
		if err == nil && len(c) == 0 {
			vs.Add("bounds:env.container", "ExtractSerializedContainer accepted an empty container")
		}
		_ = w.Reg.MatchDataSignature(data)
		if out, err := w.Reg.Process(data, dctx()); err == nil && !revealsKnownPlain(out) && !bytes.Equal(out, orig) {
			vs.Add("changed:env.container", "RegistryHandler.Process returned %d bytes without error from a value that holds no protected plaintext", len(out))
		}
		for _, id := range []byte{crypto.AcraStructEnvelopeID, crypto.AcraBlockEnvelopeID} {
			h, herr := crypto.GetHandlerByEnvelopeID(id)
			if herr != nil {
				continue
			}
			_ = h.MatchDataSignature(data)
			_, _ = h.Decrypt(data, dctx())
			_, _ = w.Reg.DecryptWithHandler(h, data, dctx())
		}
		_, _ = crypto.NewDecryptHandler(w.KS, w.Reg).OnCryptoEnvelope(fix.Ctx(w.Alice), data)
	})
	if !bytes.Equal(data, orig) {
		vs.Add("input-mutated:env.container", "a container decoder modified its input")
	}
	return vs
}

// env.column: the transparent column chains; malformed values are delivered unchanged.
func targetEnvColumn(data []byte) (vs hx.Vs) {
	orig := clone(data)
	w := fix.TheWorld()
	judge := func(what string, out []byte, err error) {
		if err != nil {
			return
		}
		if bytes.Equal(out, orig) {
			return
		}
		if len(out) > len(orig) || !revealsKnownPlain(out) {
			vs.Add("changed:env.column", "%s delivered %d bytes %x for the %d-byte stored value %x which holds no intact protected value", what, len(out), trunc(out, 48), len(orig), trunc(orig, 48))
		}
	}
	hx.Guard(&vs, "env.column", func() {
		out, err := fix.NewChain(w.KS, nil).OnColumn(w.Alice, clone(orig))
		judge("column chain", out, err)
		cbs, _ := fix.Callbacks()
		out, err = fix.NewChain(w.KS, cbs).OnColumn(w.Alice, clone(orig))
		judge("column chain with poison detection", out, err)
		out, err = fix.NewSearchChain(w.KS, nil).OnColumn(w.Alice, clone(orig))
		judge("searchable column chain", out, err)
		// a client without keys
		out, err = fix.NewChain(w.KS, nil).OnColumn(w.Carol, clone(orig))
		if err == nil && !bytes.Equal(out, orig) {
			vs.Add("changed:env.column", "column chain changed a value for a client that has no keys")
		}
	})
	return vs
}

func targetEnvHmac(data []byte) (vs hx.Vs) {
	w := fix.TheWorld()
	hx.Guard(&vs, "env.hmac", func() {
		h := hmac.ExtractHash(data)
		if h != nil {
			if h.Length() != hmac.GetDefaultHashSize() || h.Length() > len(data) || !bytes.Equal(h.Marshal(), data[:h.Length()]) {
				vs.Add("bounds:env.hmac", "ExtractHash returned a %d-byte hash from %d bytes", h.Length(), len(data))
			}
			_ = h.IsEqual(data[h.Length():], w.Alice, w.KS)
			_ = h.IsEqual(nil, w.Carol, w.KS)
		}
		h2, rest := hmac.ExtractHashAndData(data)
		if (h2 == nil) != (h == nil) {
			vs.Add("inconsistent:env.hmac", "ExtractHash and ExtractHashAndData disagree on a %d-byte value", len(data))
		}
		if h2 != nil && !bytes.Equal(rest, data[h2.Length():]) {
			vs.Add("bounds:env.hmac", "ExtractHashAndData returned a wrong remainder")
		}
		dctx := &base.DataProcessorContext{Keystore: w.KS, Context: fix.Ctx(w.Alice)}
		_, _ = hmac.NewHashProcessor(w.Reg, w.KS).Process(data, dctx)
		_, _ = hmac.DecryptRotatedSearchableAcraStruct(data, w.HmacKey(w.Alice), alicePrivs(), nil)
		_, _ = hmac.DecryptRotatedSearchableAcraBlock(data, w.HmacKey(w.Alice), aliceSyms(), nil)
	})
	return vs
}

// envHostile sets the structural length/type fields of a valid value to hostile integers.
func envHostile(t *rapid.T, seeds [][]byte) []byte {
	s := append([]byte(nil), rapid.SampledFrom(seeds).Draw(t, "seed")...)
	type fld struct{ off, size int }
	var fields []fld
	for _, base := range []int{0, 12, 33, 45} { // raw, container, search-raw, search-container
		fields = append(fields, fld{base + 4, 8}, fld{base + 12, 1}, fld{base + 13, 2}, fld{base + 15, 1}, fld{base + 16, 2}, // AcraBlock
			fld{base + 137, 8}, fld{base + 12, 4}, fld{base + 57, 4}, fld{base + 8, 4}) // AcraStruct
	}
	fields = append(fields, fld{3, 8}, fld{11, 1}, fld{36, 8}, fld{44, 1}, fld{0, 1}, fld{33, 1}) // container length/id, hash function
	f := rapid.SampledFrom(fields).Draw(t, "field")
	if f.off+f.size > len(s) {
		return append(s, drawHostileInt(t, "app")...)
	}
	v := rapid.SampledFrom(hostileInts).Draw(t, "val")
	if rapid.IntRange(0, 3).Draw(t, "rel") == 0 {
		var cur [8]byte
		copy(cur[:], s[f.off:f.off+f.size])
		d := uint64(rapid.IntRange(1, 64).Draw(t, "delta"))
		c := uint64(cur[0]) | uint64(cur[1])<<8 | uint64(cur[2])<<16 | uint64(cur[3])<<24 | uint64(cur[4])<<32 | uint64(cur[5])<<40 | uint64(cur[6])<<48 | uint64(cur[7])<<56
		if rapid.Bool().Draw(t, "plus") {
			v = c + d
		} else {
			v = c - d
		}
	}
	copy(s[f.off:f.off+f.size], putInt(f.size, false, v))
	if rapid.IntRange(0, 3).Draw(t, "cut") == 0 {
		s = s[:rapid.IntRange(0, len(s)).Draw(t, "at")]
	}
	return s
}

func init() {
	envMagic := []byte{'%', '"', 0x7f}
	for _, tg := range []*target{
		{name: "env.acrablock", fn: targetEnvAcraBlock},
		{name: "env.acrastruct", fn: targetEnvAcraStruct},
		{name: "env.process", fn: targetEnvProcess},
		{name: "env.container", fn: targetEnvContainer},
		{name: "env.column", fn: targetEnvColumn},
		{name: "env.hmac", fn: targetEnvHmac},
	} {
		tg.group, tg.nontrivial, tg.seeds, tg.hostile, tg.magic = "FuzzEnvelope", envNontrivial, envSeeds, envHostile, envMagic
		register(tg)
	}
}

func FuzzEnvelope(f *testing.F) { fuzzGroup(f, "FuzzEnvelope") }
