package c14

import (
	"bytes"
	"encoding/binary"
	"strings"

	"pgregory.net/rapid"

	"verif/internal/gen"
)

// hostile integers: boundaries of every width, values that become negative when converted,
// values that overflow after a small constant is added.
var hostileInts = func() []uint64 {
	v := []uint64{0, 1, 2, 3, 4, 5, 6, 7, 8, 9, 10, 11, 12, 13, 15, 16, 31, 32, 33, 0x7e, 0x7f, 0x80, 0x81,
		0xfa, 0xfb, 0xfc, 0xfd, 0xfe, 0xff, 0x100, 0x101, 0x7fff, 0x8000, 0xfffe, 0xffff, 0x10000,
		0x7fffff, 0x800000, 0xfffffe, 0xffffff, 0x1000000,
		0x4000000, 0x4000001, 0x8000000, // 64 MiB, +1, 128 MiB
		0x7ffffffb, 0x7ffffffe, 0x7fffffff, 0x80000000, 0x80000001, 0xfffffff0, 0xfffffffb, 0xfffffffc, 0xfffffffd, 0xfffffffe, 0xffffffff,
		0x100000000, 0x100000004,
		0x7fffffffffffffff, 0x8000000000000000, 0xffffffffffffffff}
	for k := uint64(1); k <= 24; k++ {
		v = append(v, 0xffffffffffffffff-k, 0x7fffffffffffffff-k)
	}
	for _, k := range []uint64{33, 44, 137, 138, 145, 146} {
		v = append(v, 0xffffffffffffffff-k+1, 0x7fffffffffffffff-k+1)
	}
	return v
}()

func putInt(width int, be bool, v uint64) []byte {
	var b [8]byte
	if be {
		binary.BigEndian.PutUint64(b[:], v)
		return append([]byte(nil), b[8-width:]...)
	}
	binary.LittleEndian.PutUint64(b[:], v)
	return append([]byte(nil), b[:width]...)
}

func drawHostileInt(t *rapid.T, label string) []byte {
	w := rapid.SampledFrom([]int{1, 2, 3, 4, 4, 8, 8}).Draw(t, label+".w")
	be := rapid.Bool().Draw(t, label+".be")
	v := rapid.SampledFrom(hostileInts).Draw(t, label+".v")
	return putInt(w, be, v)
}

// hostile text fragments for the textual formats (SQL, YAML, log lines, bytea escapes).
var hostileText = []string{
	"", "'", "''", "\"", "\"\"", "`", "\\", "\\\\", "\\x", "\\x0", "\\xZZ", "\\1", "\\12", "\\123", "\\400", "\\777", "\\8", "\\\n",
	"/*", "*/", "/*!", "/*!50000 ", "/*!*/", "/*!0*/", "/*!12345*/", "/*!123456*/", "/*! */", "/**/", "/*!40101 select 1 */", "--", "-- ", "#", ";", ";;", "$", "$1", "$$", "$a$", "$0", "$99999999999999999999", ":", ":v1", "::", ":=", "?", "@", "@@", "%", "%%", "%%VALUE%%", "%%WHERE%%",
	"E'", "E'\\", "e'\\'", "X'", "x'0", "x'zz'", "0x", "0xZ", "b'", "B'2'", "N'", "_utf8'", "U&'",
	"(", ")", "((((((((((((((((((((((((((((((((", "))))", "[", "]", "{", "}", ",", ".", "..", "...", "*", "=", "<=>", "->>", "||", "&&", "!", "~",
	"0", "-0", "1e", "1e999", "1e-999", ".e1", "99999999999999999999999999999999", "-9223372036854775808", "9223372036854775808", "0.0000000000000000000000000000000000001", "1.7976931348623157e309",
	"\x00", "\x00\x00", "\x01", "\x1a", "\x7f", "\x80", "\xff", "\xc0\x80", "\xed\xa0\x80", "\xf4\x90\x80\x80", "\xef\xbf\xbd", "\xef\xbb\xbf", " ", "\t", "\r", "\n", "\r\n", " ", "\v", "\f",
	"select", "SELECT", "insert into", "values", "from", "where", "union", "null", "NULL", "true", "default", "interval", "case when", "end", "in (", "like", "escape", "cast(", "as", "limit 18446744073709551616", "offset -1",
	"&a", "*a", "&a [*a,*a,*a,*a]", "<<: *a", "!!binary", "!!int", "!!map", "!", "? ", "- ", ": ", "|", ">", "|+9", "%YAML 1.1", "---", "~", "null", "[[[[[[[[[[", "{{{{{{", "- - - - - - - -", "a: &a [*a]",
	" integrity=", "integrity=", " chain=new", " chain=end", "chain=new", "CEF:0|", "time=\"", "\"integrity\":", "\"chain\":\"new\"", "End of current audit log chain", "deadbeef", "zz", "0", "00",
}

func drawHostileText(t *rapid.T, label string) []byte {
	k := rapid.IntRange(0, 9).Draw(t, label+".k")
	switch {
	case k < 6:
		return []byte(rapid.SampledFrom(hostileText).Draw(t, label+".frag"))
	case k < 8:
		// a fragment repeated
		f := rapid.SampledFrom(hostileText).Draw(t, label+".rfrag")
		n := rapid.SampledFrom([]int{2, 3, 8, 64, 255, 256, 1000, 5000}).Draw(t, label+".rep")
		if len(f)*n > 1<<16 {
			n = (1 << 16) / (len(f) + 1)
		}
		return []byte(strings.Repeat(f, n))
	default:
		// long identifier / long run
		ch := rapid.SampledFrom([]byte{'a', '0', ' ', '(', '\'', '\\', 0xff}).Draw(t, label+".ch")
		n := rapid.SampledFrom([]int{63, 64, 65, 255, 256, 1023, 4096, 65535, 65536}).Draw(t, label+".run")
		return bytes.Repeat([]byte{ch}, n)
	}
}

const (
	clsArbitrary = "arbitrary"
	clsHostile   = "hostile-constant"
	clsPrefix    = "valid-prefix"
	clsEdited    = "edited-valid"
)

// genCase constructs one case of a target; the class label says how it was built.
func genCase(t *rapid.T, tg *target) Case {
	seeds := tg.getSeeds()
	cls := rapid.SampledFrom([]string{clsArbitrary, clsArbitrary, clsHostile, clsHostile, clsHostile, clsPrefix, clsPrefix, clsEdited, clsEdited, clsEdited}).Draw(t, "class")
	if len(seeds) == 0 && (cls == clsPrefix || cls == clsEdited) {
		cls = clsHostile
	}
	var data []byte
	switch cls {
	case clsArbitrary:
		data = gen.Bytes(t, "d", 1<<14)
		if len(tg.magic) > 0 && rapid.IntRange(0, 2).Draw(t, "usemagic") > 0 {
			m := rapid.SampledFrom(tg.magic).Draw(t, "magic")
			if len(data) == 0 {
				data = []byte{m}
			} else if rapid.Bool().Draw(t, "overwrite") {
				data[0] = m
			} else {
				data = append([]byte{m}, data...)
			}
		}
		if tg.text && rapid.Bool().Draw(t, "astext") {
			data = []byte(rapid.StringN(0, 200, -1).Draw(t, "s"))
		}
	case clsHostile:
		data = genHostile(t, tg, seeds)
	case clsPrefix:
		s := rapid.SampledFrom(seeds).Draw(t, "seed")
		k := rapid.IntRange(0, len(s)).Draw(t, "cut")
		if rapid.IntRange(0, 3).Draw(t, "headbias") == 0 && len(s) > 0 {
			k = rapid.IntRange(0, min(len(s), 24)).Draw(t, "cuthead")
		}
		tail := rapid.SliceOfN(rapid.Byte(), 0, 40).Draw(t, "garbage")
		if tg.text && rapid.Bool().Draw(t, "texttail") {
			tail = drawHostileText(t, "tail")
		}
		data = append(append([]byte(nil), s[:k]...), tail...)
	case clsEdited:
		s := rapid.SampledFrom(seeds).Draw(t, "seed")
		data = edit(t, tg, s)
	}
	return Case{Target: tg.name, Class: cls, Data: data}
}

func genHostile(t *rapid.T, tg *target, seeds [][]byte) []byte {
	if tg.hostile != nil && rapid.IntRange(0, 3).Draw(t, "specific") > 0 {
		return tg.hostile(t, seeds)
	}
	if tg.text {
		// 1..4 hostile fragments, optionally around a seed piece
		n := rapid.IntRange(1, 4).Draw(t, "nfrag")
		var out []byte
		for i := 0; i < n; i++ {
			out = append(out, drawHostileText(t, "f")...)
			if len(seeds) > 0 && rapid.Bool().Draw(t, "piece") {
				s := rapid.SampledFrom(seeds).Draw(t, "pseed")
				a := rapid.IntRange(0, len(s)).Draw(t, "a")
				b := rapid.IntRange(a, len(s)).Draw(t, "b")
				out = append(out, s[a:b]...)
			}
		}
		return out
	}
	// binary: [prefix] + hostile integer(s) + tail
	var out []byte
	switch rapid.IntRange(0, 3).Draw(t, "pre") {
	case 0:
	case 1:
		if len(tg.magic) > 0 {
			out = append(out, rapid.SampledFrom(tg.magic).Draw(t, "magic"))
		}
	case 2:
		if len(seeds) > 0 {
			s := rapid.SampledFrom(seeds).Draw(t, "pseed")
			k := rapid.IntRange(0, min(len(s), 32)).Draw(t, "plen")
			out = append(out, s[:k]...)
		}
	default:
		out = append(out, rapid.SliceOfN(rapid.Byte(), 0, 8).Draw(t, "rndpre")...)
	}
	n := rapid.IntRange(1, 3).Draw(t, "nints")
	for i := 0; i < n; i++ {
		out = append(out, drawHostileInt(t, "h")...)
		if rapid.Bool().Draw(t, "gap") {
			out = append(out, rapid.SliceOfN(rapid.Byte(), 0, 4).Draw(t, "gapb")...)
		}
	}
	switch rapid.IntRange(0, 2).Draw(t, "tailk") {
	case 0:
	case 1:
		out = append(out, rapid.SliceOfN(rapid.Byte(), 0, 24).Draw(t, "tail")...)
	default:
		if len(seeds) > 0 {
			s := rapid.SampledFrom(seeds).Draw(t, "tseed")
			k := rapid.IntRange(0, len(s)).Draw(t, "tfrom")
			out = append(out, s[k:]...)
		}
	}
	return out
}

// edit applies one edit to a valid example.
func edit(t *rapid.T, tg *target, s []byte) []byte {
	out := append([]byte(nil), s...)
	if len(out) == 0 {
		return drawHostileInt(t, "e")
	}
	pos := rapid.IntRange(0, len(out)-1).Draw(t, "pos")
	if rapid.IntRange(0, 2).Draw(t, "headbias") == 0 {
		pos = rapid.IntRange(0, min(len(out)-1, 40)).Draw(t, "headpos")
	}
	ops := []string{"set", "flip", "int", "int", "int", "rellen", "rellen", "delete", "insert", "dup", "trunc"}
	if tg.text {
		ops = []string{"set", "text", "text", "text", "delete", "insert", "dup", "trunc", "int"}
	}
	switch rapid.SampledFrom(ops).Draw(t, "op") {
	case "set":
		out[pos] = rapid.SampledFrom([]byte{0, 1, 2, 3, 4, 0x7f, 0x80, 0xfb, 0xfc, 0xfd, 0xfe, 0xff, '\'', '"', '\\', '0', '9', ' ', '\n'}).Draw(t, "b")
	case "flip":
		out[pos] ^= 1 << uint(rapid.IntRange(0, 7).Draw(t, "bit"))
	case "int":
		h := drawHostileInt(t, "h")
		for i := 0; i < len(h) && pos+i < len(out); i++ {
			out[pos+i] = h[i]
		}
	case "rellen":
		// a length field that is just below / at / just above what really follows it (the values that separate
		// a correct bounds check from one that forgets the width of the field itself or is off by one)
		w := rapid.SampledFrom([]int{1, 2, 3, 4, 8}).Draw(t, "rw")
		marker := rapid.SampledFrom([]int{-1, -1, 0xfc, 0xfd, 0xfe}).Draw(t, "rmarker") // MySQL length-encoded prefixes
		switch marker {
		case 0xfc:
			w = 2
		case 0xfd:
			w = 3
		case 0xfe:
			w = 8
		}
		field := w
		if marker >= 0 {
			field++
		}
		rest := len(out) - pos - field
		if rest < 0 {
			rest = 0
		}
		v := rest + rapid.IntRange(-field-2, field+2).Draw(t, "rdelta")
		if v < 0 {
			v = 0
		}
		h := putInt(w, rapid.Bool().Draw(t, "rbe"), uint64(v))
		if marker >= 0 {
			h = append([]byte{byte(marker)}, putInt(w, false, uint64(v))...)
		}
		if rapid.Bool().Draw(t, "rinsert") {
			out = append(append(append([]byte(nil), out[:pos]...), h...), out[pos:]...)
		} else {
			for i := 0; i < len(h) && pos+i < len(out); i++ {
				out[pos+i] = h[i]
			}
		}
	case "text":
		f := drawHostileText(t, "x")
		if rapid.Bool().Draw(t, "replace") {
			end := min(len(out), pos+rapid.IntRange(0, 8).Draw(t, "rlen"))
			out = append(append(append([]byte(nil), out[:pos]...), f...), out[end:]...)
		} else {
			out = append(append(append([]byte(nil), out[:pos]...), f...), out[pos:]...)
		}
	case "delete":
		end := min(len(out), pos+rapid.IntRange(1, 8).Draw(t, "dlen"))
		out = append(out[:pos], out[end:]...)
	case "insert":
		ins := rapid.SliceOfN(rapid.Byte(), 1, 9).Draw(t, "ins")
		out = append(append(append([]byte(nil), out[:pos]...), ins...), out[pos:]...)
	case "dup":
		end := min(len(out), pos+rapid.IntRange(1, 16).Draw(t, "duplen"))
		out = append(append(append([]byte(nil), out[:end]...), out[pos:end]...), out[end:]...)
	case "trunc":
		out = out[:pos]
	}
	return out
}

// hostileSeeds is a deterministic list of hostile inputs of a target for the fuzz corpus.
func hostileSeeds(tg *target) [][]byte {
	var out [][]byte
	if tg.text {
		for _, f := range hostileText {
			out = append(out, []byte(f))
		}
		return out
	}
	pres := [][]byte{nil}
	for i, m := range tg.magic {
		if i < 4 {
			pres = append(pres, []byte{m})
		}
	}
	for _, pre := range pres {
		for _, v := range []uint64{0, 1, 3, 0xff, 0x7fffffff, 0xffffffff, 0x7fffffffffffffff, 0xffffffffffffffff} {
			out = append(out, append(append([]byte(nil), pre...), putInt(1, false, v)...))
			for _, w := range []int{4, 8} {
				for _, be := range []bool{false, true} {
					out = append(out, append(append([]byte(nil), pre...), putInt(w, be, v)...))
				}
			}
		}
	}
	return out
}
