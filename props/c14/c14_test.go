// Package c14: no input can crash a handler or make it consume unbounded resources.
//
// One target per input-facing decoder. A target is a plain function of the input bytes that resets
// the global state it depends on, decodes the bytes into the decoder's arguments, calls the decoder
// under hx.Guard (a panic is the violation) and checks the decoder's contract where it has one
// ("malformed => error or input unchanged"). The framework around it (run) measures the bytes
// allocated during the call and the wall time (watchdog: inconclusive, never a violation).
// Every target is driven by a rapid generator (TestTargets) and by a native fuzz target of its group.
package c14

import (
	"bytes"
	"encoding/json"
	"flag"
	"fmt"
	"os"
	"os/exec"
	"path/filepath"
	"regexp"
	"runtime"
	"runtime/debug"
	"runtime/metrics"
	"sort"
	"strings"
	"sync"
	"testing"
	"time"

	"pgregory.net/rapid"

	"verif/internal/fix"
	"verif/internal/gen"
	"verif/internal/hx"
)

var R = hx.New("C14")

func TestMain(m *testing.M) {
	fix.Quiet()
	// every scratch directory of this process (fixture keystores, key files under test) lives under one
	// directory that is removed at exit
	scratch, err := os.MkdirTemp("", "verif-c14-")
	if err == nil {
		os.Setenv("TMPDIR", scratch)
	}
	sort.Slice(targets, func(i, j int) bool { return targets[i].name < targets[j].name })
	debug.SetGCPercent(300) // many short-lived MiB-sized buffers: collect less often (harness speed only)
	code := R.Main(m)
	if err == nil {
		os.RemoveAll(scratch)
	}
	os.Exit(code)
}

// Case is one input of one target.
type Case struct {
	Target string  `json:"target"`
	Class  string  `json:"class,omitempty"`
	Data   gen.Hex `json:"data"`
	// Isolate: the case kills the process (recorded by a parent); it is replayed in a child process.
	Isolate bool `json:"isolate,omitempty"`
}

// target describes one decoder under test.
type target struct {
	name  string
	group string // native fuzz group (FuzzXxx)
	// fn evaluates the decoder on data (a private copy) and returns the violations other than the
	// allocation bound, which run() adds.
	fn func(data []byte) hx.Vs
	// nontrivial is the cheap predicate "the input passes the decoder's first structural check".
	nontrivial func(data []byte) bool
	// seeds returns valid examples (built once).
	seeds func() [][]byte
	// hostile, if set, draws a target-specific hostile input (length fields at structural positions).
	hostile func(t *rapid.T, seeds [][]byte) []byte
	// text marks a textual format: hostile constants are text fragments spliced into seeds.
	text bool
	// magic are first bytes that pass the first check of a binary format.
	magic []byte
	// noAlloc: the target involves other goroutines, so the allocation delta is not attributable.
	noAlloc bool
	// weight scales the number of cases (1 = default).
	weight float64

	once  sync.Once
	cache [][]byte
}

func (tg *target) getSeeds() [][]byte {
	tg.once.Do(func() {
		if tg.seeds != nil {
			tg.cache = tg.seeds()
		}
	})
	return tg.cache
}

var (
	targets   []*target
	targetIdx = map[string]*target{}
)

func register(tg *target) {
	if _, dup := targetIdx[tg.name]; dup {
		panic("duplicate target " + tg.name)
	}
	if tg.weight == 0 {
		tg.weight = 1
	}
	targets = append(targets, tg)
	targetIdx[tg.name] = tg
}

func groupTargets(group string) []*target {
	var out []*target
	for _, tg := range targets {
		if tg.group == group {
			out = append(out, tg)
		}
	}
	sort.Slice(out, func(i, j int) bool { return out[i].name < out[j].name })
	return out
}

// ---- resource bound ---------------------------------------------------------------------------

const (
	allocBase    = 64 << 20
	allocPerByte = 64
	watchdog     = 10 * time.Second
)

var allocSample = []metrics.Sample{{Name: "/gc/heap/allocs:bytes"}}

// allocNow is the cumulative number of bytes allocated by the process: the same counter as
// runtime.MemStats.TotalAlloc, read through runtime/metrics (no stop-the-world, so it can be read
// around every case). Allocations of large objects are accounted immediately; small-object
// allocations may lag by one span (a few KiB), far below the resolution the bound needs.
func allocNow() uint64 {
	metrics.Read(allocSample)
	return allocSample[0].Value.Uint64()
}

// totalAlloc is the exact counter (stop-the-world); used to confirm a bound violation.
func totalAlloc() uint64 {
	var ms runtime.MemStats
	runtime.ReadMemStats(&ms)
	return ms.TotalAlloc
}

var slowMu sync.Mutex

// run evaluates one target on one input: the target's own oracles, the allocation bound and the watchdog.
func run(tg *target, data []byte) (vs hx.Vs, inconclusive bool) {
	in := clone(data)
	c := Case{Target: tg.name, Data: data}
	timer := time.AfterFunc(watchdog, func() {
		// still running after 10 s: leave a trace of the case (the process may be killed by -test.timeout)
		slowMu.Lock()
		defer slowMu.Unlock()
		b, _ := json.Marshal(c)
		d := os.Getenv("VERIF_OUT")
		if d != "" {
			os.WriteFile(filepath.Join(d, fmt.Sprintf("slow-%s-%d.json", tg.name, hx.Shard())), b, 0o644)
		}
	})
	start := time.Now()
	before := allocNow()
	vs = tg.fn(in)
	after := allocNow()
	elapsed := time.Since(start)
	timer.Stop()
	if elapsed > watchdog {
		R.Note("inconclusive: target %s took %.1fs on a %d-byte input (watchdog %s); wall time is not an oracle, the case is judged on panic and allocation only", tg.name, elapsed.Seconds(), len(data), watchdog)
		inconclusive = true
	}
	if !tg.noAlloc {
		bound := uint64(allocBase + allocPerByte*len(data))
		if delta := after - before; delta > bound {
			vs.Add("alloc:"+tg.name, "%d bytes allocated while decoding a %d-byte input (bound %d = 64 MiB + 64 x len)", delta, len(data), bound)
		}
	}
	// genuine defects recorded as open findings (no small repair): their class is excluded here, counted, and the
	// search continues behind them (DESIGN 2.5). R.IsKnown makes the driver print the KNOWN-FINDING line.
	kept := vs[:0]
	for _, v := range vs {
		if _, ok := excludedFindings[v.Sig]; ok {
			R.IsKnown(v.Sig)
			R.Class("TestTargets/"+tg.name, "excluded-known:"+v.Sig)
			continue
		}
		kept = append(kept, v)
	}
	return kept, inconclusive
}

// excludedFindings: signature -> what fails (the known_findings.json entries of this property).
var excludedFindings = map[string]string{
	sigUnboundParams: "MySQL COM_STMT_EXECUTE with new-params-bound flag 0 (parameters not re-sent, legal on re-execution): Packet.GetBindParameters returns nil BoundValues and the bind observers (HashQuery / TokenizeQuery / QueryDataEncryptor .OnBind) dereference them - nil pointer panic in the client-side handler",
}

// Check is the property function of a saved case.
func Check(c Case) hx.Vs {
	tg, ok := targetIdx[c.Target]
	if !ok {
		return hx.Vs{{Sig: "harness:target", Msg: "unknown target " + c.Target}}
	}
	vs, _ := run(tg, c.Data)
	return vs
}

// ---- tests ------------------------------------------------------------------------------------

const (
	quickCases    = 500  // per target per shard (4 shards => 2 000)
	thoroughCases = 3000 // per target per shard (16 shards)
)

// TestTargets runs every target over generated inputs. The targets run in child processes of the test
// binary (one per fuzz group): a Go fatal error - an allocation request that cannot be satisfied, a stack
// that exceeds its limit, a concurrent map write - cannot be recovered in-process, and "crash the process"
// is exactly what the property forbids. The child keeps a trace of the case it is evaluating; when a child
// dies the parent re-runs that single case in a fresh process and, if it dies again, records the violation
// fatal:<target> and continues with the remaining targets.
func TestTargets(t *testing.T) {
	if os.Getenv(envChild) != "" {
		t.Skip("parent-only test")
	}
	only := onlyFilter()
	groups := map[string][]string{}
	var order []string
	for _, tg := range targets {
		if only != nil && !only.MatchString(tg.name) {
			continue
		}
		if _, ok := groups[tg.group]; !ok {
			order = append(order, tg.group)
		}
		groups[tg.group] = append(groups[tg.group], tg.name)
	}
	sort.Strings(order)
	for _, g := range order {
		remaining := groups[g]
		for len(remaining) > 0 {
			trace := filepath.Join(os.TempDir(), fmt.Sprintf("trace-%s-%d.json", g, os.Getpid()))
			os.Remove(trace)
			died, failed, out := spawn("^TestTargetsChild$", map[string]string{envChild: "1", envTargets: strings.Join(remaining, ","), envTrace: trace})
			if !died {
				if failed {
					t.Errorf("group %s: violations recorded by the child (see its output below)\n%s", g, tail(out, 4000))
				}
				break
			}
			// the child died: which case was it evaluating?
			var c Case
			b, err := os.ReadFile(trace)
			if err != nil || json.Unmarshal(b, &c) != nil || c.Target == "" {
				R.Note("inconclusive: child process of group %s died without a case trace: %s", g, tail(out, 600))
				t.Errorf("group %s: child died without a trace\n%s", g, tail(out, 2000))
				break
			}
			test := "TestTargets/" + c.Target
			c.Isolate = true
			vs := checkIsolated(c)
			if len(vs) == 0 {
				R.Note("inconclusive: child process died while evaluating a %d-byte case of %s but the case alone does not reproduce it: %s", len(c.Data), c.Target, tail(out, 600))
			}
			R.Seen(test, c, true, "fatal-confirmation")
			// a subtest, so that the Fatalf of Report ends only it and the remaining targets still run
			t.Run("fatal/"+c.Target, func(t *testing.T) { R.Report(t, test, c, vs) })
			// continue behind the target that died
			idx := -1
			for i, n := range remaining {
				if n == c.Target {
					idx = i
				}
			}
			remaining = remaining[idx+1:]
		}
	}
}

// TestTargetsChild is the body of TestTargets inside a child process.
func TestTargetsChild(t *testing.T) {
	if os.Getenv(envChild) == "" {
		t.Skip("runs only as a child of TestTargets")
	}
	if p := os.Getenv(envTrace); p != "" {
		f, err := os.OpenFile(p, os.O_CREATE|os.O_RDWR|os.O_TRUNC, 0o600)
		if err == nil {
			traceFile = f
			defer f.Close()
		}
	}
	for _, name := range strings.Split(os.Getenv(envTargets), ",") {
		tg, ok := targetIdx[name]
		if !ok {
			t.Fatalf("unknown target %q", name)
		}
		t.Run(tg.name, func(t *testing.T) {
			test := "TestTargets/" + tg.name
			R.Rule(test, "classes arbitrary | hostile-constant | valid-prefix | edited-valid over the target's valid examples; non-trivial = input passes the decoder's first structural check")
			hx.Checks(int(float64(quickCases)*tg.weight), int(float64(thoroughCases)*tg.weight))
			flag.Set("rapid.shrinktime", "3s") // byte strings shrink quickly; the default 30 s per failing target is wasted on the unrepaired tree
			rapid.Check(t, func(rt *rapid.T) {
				c := genCase(rt, tg)
				traceCase(c)
				vs := Check(c)
				R.Seen(test, c, tg.nontrivial(c.Data), c.Class)
				R.Report(rt, test, c, vs)
			})
		})
	}
}

// TestIsolatedCase evaluates one saved case in this (child) process and writes the verdict to a file.
func TestIsolatedCase(t *testing.T) {
	in, out := os.Getenv(envCaseFile), os.Getenv(envResultFile)
	if in == "" || out == "" {
		t.Skip("runs only as a child process")
	}
	b, err := os.ReadFile(in)
	if err != nil {
		t.Fatal(err)
	}
	var c Case
	if err := json.Unmarshal(b, &c); err != nil {
		t.Fatal(err)
	}
	c.Isolate = false
	vs := Check(c)
	if vs == nil {
		vs = hx.Vs{}
	}
	res, _ := json.Marshal(vs)
	if err := os.WriteFile(out, res, 0o600); err != nil {
		t.Fatal(err)
	}
}

const (
	envChild      = "C14_CHILD"
	envTargets    = "C14_TARGETS"
	envTrace      = "C14_TRACE"
	envCaseFile   = "C14_CASE_FILE"
	envResultFile = "C14_RESULT_FILE"
	envOnly       = "C14_ONLY" // development: regular expression selecting targets
)

func onlyFilter() *regexp.Regexp {
	if e := os.Getenv(envOnly); e != "" {
		return regexp.MustCompile(e)
	}
	return nil
}

var traceFile *os.File

// traceCase leaves the case about to be evaluated where the parent finds it if this process dies.
func traceCase(c Case) {
	if traceFile == nil {
		return
	}
	b, _ := json.Marshal(c)
	traceFile.Truncate(0)
	traceFile.WriteAt(b, 0)
}

// spawn runs a test of this binary in a child process. died = the process ended in any way other than a
// normal test exit (0 = pass, 1 = failed tests).
func spawn(run string, env map[string]string) (died, failed bool, output string) {
	args := []string{"-test.run", run}
	skip := false
	for _, a := range os.Args[1:] {
		switch {
		case skip:
			skip = false
		case a == "-test.run" || a == "-test.cpuprofile" || a == "-test.memprofile":
			skip = true
		case strings.HasPrefix(a, "-test.run=") || strings.HasPrefix(a, "-test.cpuprofile=") || strings.HasPrefix(a, "-test.fuzz") || strings.HasPrefix(a, "-test.v"):
		default:
			args = append(args, a)
		}
	}
	cmd := exec.Command(os.Args[0], args...)
	cmd.Env = os.Environ()
	for k, v := range env {
		cmd.Env = append(cmd.Env, k+"="+v)
	}
	var buf bytes.Buffer
	cmd.Stdout, cmd.Stderr = &buf, &buf
	err := cmd.Run()
	output = buf.String()
	if err == nil {
		return false, false, output
	}
	if ee, ok := err.(*exec.ExitError); ok && ee.ExitCode() == 1 && !strings.Contains(output, "fatal error:") && !strings.Contains(output, "\ngoroutine ") {
		return false, true, output
	}
	return true, true, output
}

// checkIsolated evaluates a case in a fresh child process; a process that dies is the violation fatal:<target>.
func checkIsolated(c Case) hx.Vs {
	dir, err := os.MkdirTemp("", "isolated-")
	if err != nil {
		return hx.Vs{{Sig: "harness:isolate", Msg: err.Error()}}
	}
	defer os.RemoveAll(dir)
	in, out := filepath.Join(dir, "case.json"), filepath.Join(dir, "result.json")
	b, _ := json.Marshal(c)
	os.WriteFile(in, b, 0o600)
	died, _, output := spawn("^TestIsolatedCase$", map[string]string{envChild: "1", envCaseFile: in, envResultFile: out})
	if died {
		return hx.Vs{{Sig: "fatal:" + c.Target, Msg: fmt.Sprintf("the process dies on this %d-byte input (unrecoverable): %s", len(c.Data), fatalLine(output))}}
	}
	var vs hx.Vs
	if rb, err := os.ReadFile(out); err == nil {
		json.Unmarshal(rb, &vs)
	}
	return vs
}

func fatalLine(out string) string {
	for _, l := range strings.Split(out, "\n") {
		if strings.HasPrefix(l, "fatal error:") || strings.HasPrefix(l, "runtime: goroutine stack exceeds") || strings.HasPrefix(l, "panic:") {
			return l
		}
	}
	return tail(out, 300)
}

func tail(s string, n int) string {
	if len(s) > n {
		return "..." + s[len(s)-n:]
	}
	return s
}

func TestReplay(t *testing.T) {
	if os.Getenv(envChild) != "" {
		t.Skip("parent-only test")
	}
	h := map[string]hx.ReplayHandler{"TestTargets": replayCase}
	for _, tg := range targets {
		h["TestTargets/"+tg.name] = replayCase
	}
	R.Replay(t, h)
}

func replayCase(raw json.RawMessage) hx.Vs {
	var c Case
	if err := json.Unmarshal(raw, &c); err != nil {
		return hx.Vs{{Sig: "harness:decode", Msg: err.Error()}}
	}
	if c.Isolate {
		return checkIsolated(c)
	}
	return Check(c)
}

// fuzzGroup wires one native fuzz target: the first input byte selects the decoder of the group.
func fuzzGroup(f *testing.F, group string) {
	tgs := groupTargets(group)
	if len(tgs) == 0 {
		f.Fatalf("no targets in group %s", group)
	}
	for i, tg := range tgs {
		for _, s := range tg.getSeeds() {
			if len(s) <= 1<<16 {
				f.Add(append([]byte{byte(i)}, s...))
			}
		}
		for _, s := range hostileSeeds(tg) {
			f.Add(append([]byte{byte(i)}, s...))
		}
	}
	f.Fuzz(func(t *testing.T, data []byte) {
		if len(data) == 0 {
			return
		}
		tg := tgs[int(data[0])%len(tgs)]
		vs, _ := run(tg, data[1:])
		for _, v := range vs {
			if R.IsKnown(v.Sig) {
				continue
			}
			t.Fatalf("violation %s: %s (target %s, input %x)", v.Sig, v.Msg, tg.name, trunc(data[1:], 256))
		}
	})
}

// clone copies b into a slice whose capacity equals its length: a decoder that reads past the end of its
// input then fails a bounds check instead of silently reading spare capacity.
func clone(b []byte) []byte {
	out := make([]byte, len(b))
	copy(out, b)
	return out
}

func trunc(b []byte, n int) []byte {
	if len(b) > n {
		return b[:n]
	}
	return b
}
