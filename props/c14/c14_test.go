// Package c14: no input can crash a handler or make it consume unbounded resources.
//
// One target per input-facing decoder. A target is a plain function of the input bytes that resets
// the global state it depends on, decodes the bytes into the decoder's arguments, calls the decoder
// under hx.Guard (a panic is the violation) and checks the decoder's contract where it has one
// ("malformed => error or input unchanged"). The framework around it (run) measures the bytes
// allocated during the call and the wall time (watchdog: inconclusive, never a violation).
// Every target is driven by a rapid generator (TestTargets) and by a native fuzz target of its group.
package c14

import (
	"encoding/json"
	"fmt"
	"os"
	"path/filepath"
	"runtime"
	"runtime/metrics"
	"sort"
	"sync"
	"testing"
	"time"

	"pgregory.net/rapid"

	"verif/internal/fix"
	"verif/internal/gen"
	"verif/internal/hx"
)

var R = hx.New("C14")

func TestMain(m *testing.M) {
	fix.Quiet()
	os.Exit(R.Main(m))
}

// Case is one input of one target.
type Case struct {
	Target string  `json:"target"`
	Class  string  `json:"class,omitempty"`
	Data   gen.Hex `json:"data"`
}

// target describes one decoder under test.
type target struct {
	name  string
	group string // native fuzz group (FuzzXxx)
	// fn evaluates the decoder on data (a private copy) and returns the violations other than the
	// allocation bound, which run() adds.
	fn func(data []byte) hx.Vs
	// nontrivial is the cheap predicate "the input passes the decoder's first structural check".
	nontrivial func(data []byte) bool
	// seeds returns valid examples (built once).
	seeds func() [][]byte
	// hostile, if set, draws a target-specific hostile input (length fields at structural positions).
	hostile func(t *rapid.T, seeds [][]byte) []byte
	// text marks a textual format: hostile constants are text fragments spliced into seeds.
	text bool
	// magic are first bytes that pass the first check of a binary format.
	magic []byte
	// noAlloc: the target involves other goroutines, so the allocation delta is not attributable.
	noAlloc bool
	// weight scales the number of cases (1 = default).
	weight float64

	once  sync.Once
	cache [][]byte
}

func (tg *target) getSeeds() [][]byte {
	tg.once.Do(func() {
		if tg.seeds != nil {
			tg.cache = tg.seeds()
		}
	})
	return tg.cache
}

var (
	targets   []*target
	targetIdx = map[string]*target{}
)

func register(tg *target) {
	if _, dup := targetIdx[tg.name]; dup {
		panic("duplicate target " + tg.name)
	}
	if tg.weight == 0 {
		tg.weight = 1
	}
	targets = append(targets, tg)
	targetIdx[tg.name] = tg
}

func groupTargets(group string) []*target {
	var out []*target
	for _, tg := range targets {
		if tg.group == group {
			out = append(out, tg)
		}
	}
	sort.Slice(out, func(i, j int) bool { return out[i].name < out[j].name })
	return out
}

// ---- resource bound ---------------------------------------------------------------------------

const (
	allocBase    = 64 << 20
	allocPerByte = 64
	watchdog     = 10 * time.Second
)

var allocSample = []metrics.Sample{{Name: "/gc/heap/allocs:bytes"}}

// allocNow is the cumulative number of bytes allocated by the process: the same counter as
// runtime.MemStats.TotalAlloc, read through runtime/metrics (no stop-the-world, so it can be read
// around every case). Allocations of large objects are accounted immediately; small-object
// allocations may lag by one span (a few KiB), far below the resolution the bound needs.
func allocNow() uint64 {
	metrics.Read(allocSample)
	return allocSample[0].Value.Uint64()
}

// totalAlloc is the exact counter (stop-the-world); used to confirm a bound violation.
func totalAlloc() uint64 {
	var ms runtime.MemStats
	runtime.ReadMemStats(&ms)
	return ms.TotalAlloc
}

var slowMu sync.Mutex

// run evaluates one target on one input: the target's own oracles, the allocation bound and the watchdog.
func run(tg *target, data []byte) (vs hx.Vs, inconclusive bool) {
	in := append([]byte(nil), data...)
	c := Case{Target: tg.name, Data: data}
	timer := time.AfterFunc(watchdog, func() {
		// still running after 10 s: leave a trace of the case (the process may be killed by -test.timeout)
		slowMu.Lock()
		defer slowMu.Unlock()
		b, _ := json.Marshal(c)
		d := os.Getenv("VERIF_OUT")
		if d != "" {
			os.WriteFile(filepath.Join(d, fmt.Sprintf("slow-%s-%d.json", tg.name, hx.Shard())), b, 0o644)
		}
	})
	start := time.Now()
	before := allocNow()
	vs = tg.fn(in)
	after := allocNow()
	elapsed := time.Since(start)
	timer.Stop()
	if elapsed > watchdog {
		R.Note("inconclusive: target %s took %.1fs on a %d-byte input (watchdog %s); case not judged on resources", tg.name, elapsed.Seconds(), len(data), watchdog)
		inconclusive = true
	}
	if !tg.noAlloc {
		bound := uint64(allocBase + allocPerByte*len(data))
		if delta := after - before; delta > bound {
			vs.Add("alloc:"+tg.name, "%d bytes allocated while decoding a %d-byte input (bound %d = 64 MiB + 64 x len)", delta, len(data), bound)
		}
	}
	return vs, inconclusive
}

// Check is the property function of a saved case.
func Check(c Case) hx.Vs {
	tg, ok := targetIdx[c.Target]
	if !ok {
		return hx.Vs{{Sig: "harness:target", Msg: "unknown target " + c.Target}}
	}
	vs, _ := run(tg, c.Data)
	return vs
}

// ---- tests ------------------------------------------------------------------------------------

const (
	quickCases    = 500  // per target per shard (4 shards => 2 000)
	thoroughCases = 4000 // per target per shard (16 shards)
)

func TestTargets(t *testing.T) {
	for _, tg := range targets {
		tg := tg
		t.Run(tg.name, func(t *testing.T) {
			test := "TestTargets/" + tg.name
			R.Rule(test, "classes arbitrary | hostile-constant | valid-prefix | edited-valid over the target's valid examples; non-trivial = input passes the decoder's first structural check")
			hx.Checks(int(float64(quickCases)*tg.weight), int(float64(thoroughCases)*tg.weight))
			rapid.Check(t, func(rt *rapid.T) {
				c := genCase(rt, tg)
				vs := Check(c)
				R.Seen(test, c, tg.nontrivial(c.Data), c.Class)
				R.Report(rt, test, c, vs)
			})
		})
	}
}

func TestReplay(t *testing.T) {
	h := map[string]hx.ReplayHandler{"TestTargets": replayCase}
	for _, tg := range targets {
		h["TestTargets/"+tg.name] = replayCase
	}
	R.Replay(t, h)
}

func replayCase(raw json.RawMessage) hx.Vs {
	var c Case
	if err := json.Unmarshal(raw, &c); err != nil {
		return hx.Vs{{Sig: "harness:decode", Msg: err.Error()}}
	}
	return Check(c)
}

// fuzzGroup wires one native fuzz target: the first input byte selects the decoder of the group.
func fuzzGroup(f *testing.F, group string) {
	tgs := groupTargets(group)
	if len(tgs) == 0 {
		f.Fatalf("no targets in group %s", group)
	}
	for i, tg := range tgs {
		for _, s := range tg.getSeeds() {
			if len(s) <= 1<<16 {
				f.Add(append([]byte{byte(i)}, s...))
			}
		}
		for _, s := range hostileSeeds(tg) {
			f.Add(append([]byte{byte(i)}, s...))
		}
	}
	f.Fuzz(func(t *testing.T, data []byte) {
		if len(data) == 0 {
			return
		}
		tg := tgs[int(data[0])%len(tgs)]
		vs, _ := run(tg, data[1:])
		for _, v := range vs {
			if R.IsKnown(v.Sig) {
				continue
			}
			t.Fatalf("violation %s: %s (target %s, input %x)", v.Sig, v.Msg, tg.name, trunc(data[1:], 256))
		}
	})
}

func trunc(b []byte, n int) []byte {
	if len(b) > n {
		return b[:n]
	}
	return b
}
