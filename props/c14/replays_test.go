package c14

import (
	"encoding/json"
	"os"
	"path/filepath"
	"testing"

	"github.com/jackc/pgx/v5/pgproto3"

	"verif/internal/gen"
)

// TestMakeReplays writes the hand-minimised regression inputs of the defects this check found into the
// directory named by C14_MAKE_REPLAYS (development aid; the files live in /verif/replays/C14).
func TestMakeReplays(t *testing.T) {
	dir := os.Getenv("C14_MAKE_REPLAYS")
	if dir == "" {
		t.Skip("set C14_MAKE_REPLAYS=<dir>")
	}
	c, d := pgClientMessages(), pgDbMessages()
	startup, query := c[0], c[4]
	auth, rfq, rd, cc := d[0], d[3], d[4], d[8]
	hs := myPacket(0, myHandshake(0xf7ff&^0x0800, 0x81ff, 0))
	resp := myPacket(1, myHandshakeResponse(capProtocol41|0x85, 0))
	ok := myPacket(2, myOK)
	exec9 := myPacket(0, []byte{0x17, 9, 0, 0, 0, 0, 1, 0, 0, 0})
	prepare := myPacket(0, append([]byte{0x16}, "select id, enc from t where srch = ? and tok32 = ?"...))
	prepOK := myPacket(1, []byte{0, 1, 0, 0, 0, 2, 0, 2, 0, 0, 0, 0})
	prepDefs := cat(myPacket(2, myColumnDef("", "?", 0xfd, 0)), myPacket(3, myColumnDef("", "?", 8, 0)), myPacket(4, myEOF),
		myPacket(5, myColumnDef("t", "id", 3, 0)), myPacket(6, myColumnDef("t", "enc", 0xfc, 0)), myPacket(7, myEOF))
	type rp struct {
		name, target, what string
		data              []byte
	}
	list := []rp{
		{"pg-client-length-below-4", "pg.read.client", "general message with length field 0: bytes.Buffer.Grow: negative count", []byte{1, 'Q', 0, 0, 0, 0}},
		{"pg-client-startup-length-below-8", "pg.read.client", "startup message with length field 4: bytes.Buffer.Grow: negative count", []byte{0, 0, 0, 0, 4, 0, 3, 0, 0}},
		{"pg-db-length-below-4", "pg.read.db", "message from the database with length field 3: bytes.Buffer.Grow: negative count", []byte{'Z', 0, 0, 0, 3}},
		{"pg-client-length-2gib", "pg.read.client", "8-byte startup message that declares 0x7fffffff bytes: allocation by declared length", []byte{0, 0x7f, 0xff, 0xff, 0xff, 0, 3, 0, 0}},
		{"pg-db-length-2gib", "pg.read.db", "5-byte message from the database that declares 0x7fffffff bytes: allocation by declared length", []byte{'D', 0x7f, 0xff, 0xff, 0xff}},
		{"pg-session-datarow-column-length", "pg.session", "DataRow whose only column declares 0x7fffffff bytes: make([]byte, length) before reading",
			joinSession(cat(startup, query), cat(auth, rfq, rd, []byte{'D', 0, 0, 0, 10, 0, 1, 0x7f, 0xff, 0xff, 0xff}, cc, rfq))},
		{"pg-session-datarow-short", "pg.session", "DataRow with a 1-byte payload: column count read out of bounds",
			joinSession(cat(startup, query), cat(auth, rfq, rd, []byte{'D', 0, 0, 0, 5, 0}, cc, rfq))},
		{"pg-parse-no-param-count", "pg.parse", "Parse payload that ends after the query string", []byte{0, 0}},
		{"pg-parse-param-count-beyond-payload", "pg.parse", "Parse payload declaring 2 parameter OIDs and carrying 1 byte of them", []byte{0, 0, 0, 2, 0}},
		{"pg-query-without-terminator", "pg.read.client", "Query message with length 4: GetSimpleQuery slices [:-1]", []byte{1, 'Q', 0, 0, 0, 4}},
		{"mysql-lenenc-string-2p64", "mysql.lenenc", "LengthEncodedString with 0xfe + 2^64-1", []byte{0xfe, 0xff, 0xff, 0xff, 0xff, 0xff, 0xff, 0xff, 0xff, 'x'}},
		{"mysql-lenenc-skip-2p63", "mysql.field", "column definition whose catalog string declares 2^63 bytes: negative offset", append([]byte{0, 0xfe, 0, 0, 0, 0, 0, 0, 0, 0x80}, "def"...)},
		{"mysql-column-definition-truncated", "mysql.field", "column definition that ends after the catalog string", []byte{0, 3, 'd', 'e', 'f'}},
		{"mysql-stmt-execute-short", "mysql.bind", "COM_STMT_EXECUTE of 10 bytes for a statement with one parameter", []byte{1, 0x17, 1, 0, 0, 0, 0, 1, 0, 0, 0}},
		{"mysql-handshake-truncated", "mysql.session", "1-byte initial handshake from the database", encodeSteps([]step{{true, myPacket(0, []byte{10})}})},
		{"mysql-handshake-response-short", "mysql.session", "3-byte handshake response from the client", encodeSteps([]step{{true, hs}, {false, myPacket(1, []byte{0x85, 0x02, 0})}})},
		{"mysql-binary-row-short", "mysql.session", "binary resultset row shorter than its LONGLONG column",
			encodeSteps([]step{{true, hs}, {false, resp}, {true, ok}, {false, exec9}, {true, cat(myPacket(1, []byte{1}), myPacket(2, myColumnDef("t", "enc", 8, 0)), myPacket(3, myEOF), myPacket(4, []byte{0, 0, 1, 2}), myPacket(5, myEOF))}})},
		{"mysql-binary-row-no-bitmap", "mysql.session", "binary resultset row of one byte: NULL bitmap sliced out of bounds",
			encodeSteps([]step{{true, hs}, {false, resp}, {true, ok}, {false, exec9}, {true, cat(myPacket(1, []byte{1}), myPacket(2, myColumnDef("t", "enc", 8, 0)), myPacket(3, myEOF), myPacket(4, []byte{0}), myPacket(5, myEOF))}})},
		{"mysql-execute-params-not-rebound", "mysql.session", "COM_STMT_EXECUTE with new-params-bound flag 0 for a statement with a searchable parameter (open finding)",
			encodeSteps([]step{{true, hs}, {false, resp}, {true, ok}, {false, prepare}, {true, prepOK}, {true, prepDefs},
				{false, myPacket(0, cat([]byte{0x17, 1, 0, 0, 0, 0, 1, 0, 0, 0, 0x00, 0}, myLenencStr([]byte("find")), []byte{5, 0, 0, 0}))}})},
		{"token-stored-int32-short", "tok.storage", "token store returns an empty record for an int32 token", []byte{}},
		{"token-email-shorter-than-3", "tok.generate", "e-mail token for a 2-byte value", []byte("ab")},
		{"keystore-v2-signed-non-ring", "ks.v2.ring", "correctly signed container whose payload is not a KeyRing", []byte{1}},
		{"encryptor-config-null-document", "yaml.encryptor", "configuration that is a YAML null", []byte("~")},
		{"encryptor-config-null-schema", "yaml.encryptor", "null item in schemas", []byte("schemas:\n  - null\n")},
		{"encryptor-config-null-column", "yaml.encryptor", "null item in encrypted", []byte("schemas:\n  - table: t\n    columns: [a]\n    encrypted:\n      - ~\n")},
	}
	_ = pgproto3.Query{}
	for _, r := range list {
		c := Case{Target: r.target, Data: gen.Hex(r.data)}
		raw, _ := json.Marshal(c)
		file := map[string]interface{}{"property": "C14", "test": "TestTargets/" + r.target, "msg": r.what, "case": json.RawMessage(raw)}
		b, _ := json.MarshalIndent(file, "", " ")
		if err := os.WriteFile(filepath.Join(dir, r.name+".json"), append(b, '\n'), 0o644); err != nil {
			t.Fatal(err)
		}
	}
}
