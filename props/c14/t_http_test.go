package c14

import (
	"bytes"
	"context"
	"encoding/base64"
	"encoding/json"
	"fmt"
	"io"
	"net"
	"net/http"
	"os"
	"sync"
	"testing"
	"time"

	"github.com/cossacklabs/acra/cmd/acra-translator/http_api"

	"verif/internal/fix"
	"verif/internal/hx"
)

// translator.http: request bodies for every endpoint of AcraTranslator's HTTP API, served by the real
// HTTPService (gin engine, bindings, handlers) over a unix socket. The server recovers a panicking
// handler and answers 500: malformed input is answered with 4xx by contract, so a 500 is the crash of the
// handler made visible.
var (
	httpOnce   sync.Once
	httpClient *http.Client
	httpErr    error
)

var httpEndpoints = []struct{ method, path string }{
	{"POST", "/v2/decrypt"}, {"POST", "/v2/encrypt"}, {"POST", "/v2/encryptSearchable"}, {"POST", "/v2/decryptSearchable"},
	{"POST", "/v2/decryptSym"}, {"POST", "/v2/encryptSym"}, {"POST", "/v2/encryptSymSearchable"}, {"POST", "/v2/decryptSymSearchable"},
	{"POST", "/v2/generateQueryHash"}, {"POST", "/v2/tokenize"}, {"POST", "/v2/detokenize"},
	{"GET", "/v2/decryptSearchable"}, {"GET", "/v2/decryptSymSearchable"}, {"GET", "/v2/detokenize"},
	{"POST", "/v1/decrypt"}, {"POST", "/v1/encrypt"},
}

func startHTTP() {
	w := fix.TheWorld()
	svc := fix.Translator(w.KS, nil, nil)
	data := fix.TranslatorData(w.KS, nil, nil)
	hs, err := http_api.NewHTTPService(svc, data, http_api.WithContext(context.Background()))
	if err != nil {
		httpErr = err
		return
	}
	// an abstract socket: no path (the scratch directories of the driver are too long for sun_path), nothing to clean up
	sock := fmt.Sprintf("@verif-c14-http-%d-%d", os.Getpid(), time.Now().UnixNano())
	l, err := net.Listen("unix", sock)
	if err != nil {
		httpErr = err
		return
	}
	go hs.Start(l)
	httpClient = &http.Client{Timeout: 10 * time.Second, Transport: &http.Transport{
		DialContext: func(ctx context.Context, _, _ string) (net.Conn, error) {
			return (&net.Dialer{}).DialContext(ctx, "unix", sock)
		},
	}}
}

func targetTranslatorHTTP(data []byte) (vs hx.Vs) {
	if len(data) < 3 {
		return nil
	}
	httpOnce.Do(startHTTP)
	if httpErr != nil {
		vs.Add("harness:http", "%v", httpErr)
		return vs
	}
	ep := httpEndpoints[int(data[0])%len(httpEndpoints)]
	ctype := []string{"application/json", "application/json", "application/xml", "text/plain", ""}[int(data[1])%5]
	rest := data[3:]
	var body []byte
	switch data[2] % 6 {
	case 0: // the documented shape: {"data": base64}
		body, _ = json.Marshal(map[string]any{"data": base64.StdEncoding.EncodeToString(rest)})
	case 1: // with the fields of the tokenization requests
		body, _ = json.Marshal(map[string]any{"data": base64.StdEncoding.EncodeToString(rest), "type": int(data[2] / 6), "zone_id": "", "client_id": "alice"})
	case 2: // data of another JSON type
		var v any = string(rest)
		switch len(rest) % 4 {
		case 0:
			v = len(rest)
		case 1:
			v = nil
		case 2:
			v = []any{string(rest)}
		}
		body, _ = json.Marshal(map[string]any{"data": v, "type": int(data[2] / 6)})
	case 3: // XML
		body = []byte("<request><data>" + base64.StdEncoding.EncodeToString(rest) + "</data></request>")
	default: // the bytes as they are
		body = rest
	}
	hx.Guard(&vs, "translator.http", func() {
		req, err := http.NewRequest(ep.method, "http://translator"+ep.path, bytes.NewReader(body))
		if err != nil {
			return
		}
		if ctype != "" {
			req.Header.Set("Content-Type", ctype)
		}
		resp, err := httpClient.Do(req)
		if err != nil {
			vs.Add("no-response:translator.http", "%s %s: %v", ep.method, ep.path, err)
			return
		}
		io.Copy(io.Discard, io.LimitReader(resp.Body, 1<<20))
		resp.Body.Close()
		if resp.StatusCode >= 500 {
			vs.Add(fmt.Sprintf("handler-crashed:translator.http:%s", ep.path), "%s %s (Content-Type %q, %d body bytes) was answered with status %d: the handler panicked and was recovered by the server", ep.method, ep.path, ctype, len(body), resp.StatusCode)
		}
	})
	return vs
}

func init() {
	register(&target{name: "translator.http", group: "FuzzTranslatorHTTP", fn: targetTranslatorHTTP, noAlloc: true, weight: 0.5,
		nontrivial: func(d []byte) bool { return len(d) >= 3 && d[1]%5 <= 2 && d[2]%6 <= 3 },
		seeds: func() [][]byte {
			w := fix.TheWorld()
			var out [][]byte
			blk, _ := w.Protect(w.Alice, fix.KindBlock, fix.FormContainer, []byte("http seed"), -1)
			for ep := range httpEndpoints {
				out = append(out, append([]byte{byte(ep), 0, 0}, []byte("plain value")...))
				if blk != nil {
					out = append(out, append([]byte{byte(ep), 0, 0}, blk...))
				}
				out = append(out, []byte{byte(ep), 0, 0, 0x7f, 1, 2, 3})
				out = append(out, []byte{byte(ep), 0, 0})
			}
			return out
		}})
}

func FuzzTranslatorHTTP(f *testing.F) { fuzzGroup(f, "FuzzTranslatorHTTP") }
