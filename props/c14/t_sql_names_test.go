package c14

import (
	"regexp"
	"sync"

	"pgregory.net/rapid"

	"verif/internal/sqlgen"
)

// Names and literals that are hostile to the code that PRINTS a statement (redaction, firewall log entries, the
// re-serialised statement of the MySQL proxy): printf verbs and stray percent signs, quote characters, back slashes,
// bytes outside UTF-8. They are put where a statement of the upstream corpus (sqlparser/parse_test.go: every statement
// kind incl. SHOW, SET, USE, DDL) has a quoted identifier, a string literal, or a bare word behind a keyword that
// introduces a name.
var hostileNames = []string{"%", "%%", "%s", "%v", "%d", "%x", "%!", "100%", "cpu%idle", "archive%s", "a%vb", "%%VALUE%%", "%%s", "%[1]s", "%*d", "%+v",
	"a`b", "a\"b", "a'b", "a\\", "\\", "a b", "a.b", "a/*b", "a--b", "\xff", "a\x00b", "", " "}

var (
	sqlCorpusOnce sync.Once
	sqlCorpus     []string
	quotedToken   = regexp.MustCompile("`[^`]*`|\"[^\"]*\"|'[^']*'")
	nameAfterKW   = regexp.MustCompile(`(?i)\b(from|in|into|table|tables|update|join|database|schema|use|like|index|on|as|collate|charset|names)\s+([A-Za-z_][A-Za-z0-9_]*)`)
)

func fullCorpus() []string {
	sqlCorpusOnce.Do(func() {
		sqlCorpus = sqlgen.Corpus()
		dml := regexp.MustCompile(`(?i)^\s*(\(|/\*|select|insert|update|delete|replace)`)
		for _, st := range sqlCorpus {
			if !dml.MatchString(st) {
				sqlCorpusOther = append(sqlCorpusOther, st)
			}
		}
	})
	return sqlCorpus
}

// sqlCorpusOther: the statements of the corpus that are not DML (SHOW, SET, USE, DDL, ...): few, and printed by code
// of their own
var sqlCorpusOther []string

// adminTemplates: the statement kinds that are printed by code of their own (SHOW, USE, SET, DDL heads); N = a name,
// L = a string literal
var adminTemplates = []string{
	"show tables from N", "show full tables from N", "show extended tables in N", "show extended full tables from N like L",
	"show tables from N where N = L", "show tables like L", "show full tables in N like L", "show databases like L", "show create table N",
	"show create database N", "show columns from N", "show full columns from N in N", "show index from N", "show table status from N like L",
	"show variables like L", "show charset like L", "show collation where N = L", "use N", "set names N", "set charset N", "set N = L",
	"set @@session.N = L", "create table N (N int)", "drop table N", "alter table N rename N", "truncate table N", "rename table N to N",
	"create database N", "drop database N", "analyze table N", "describe N", "explain N", "begin", "prepare N from L", "execute N using @N",
	"deallocate prepare N",
}

func adminStatement(t *rapid.T) []byte {
	tpl := rapid.SampledFrom(adminTemplates).Draw(t, "tpl")
	var out []byte
	k := 0
	for i := 0; i < len(tpl); i++ {
		c := tpl[i]
		bare := (i == 0 || tpl[i-1] == ' ' || tpl[i-1] == '(' || tpl[i-1] == '@' || tpl[i-1] == '.') && (i+1 == len(tpl) || tpl[i+1] == ' ' || tpl[i+1] == ')')
		if bare && (c == 'N' || c == 'L') {
			name := rapid.SampledFrom(hostileNames).Draw(t, "n"+string(rune('0'+k)))
			q := "'"
			if c == 'N' {
				q = rapid.SampledFrom([]string{"`", "`", "`", "\"", ""}).Draw(t, "q"+string(rune('0'+k)))
			}
			out = append(out, q+name+q...)
			k++
			continue
		}
		out = append(out, c)
	}
	return out
}

// sqlHostile: a corpus statement with one name / literal replaced by a print-hostile one, in each quoting style.
func sqlHostile(t *rapid.T, seeds [][]byte) []byte {
	if rapid.IntRange(0, 2).Draw(t, "admin") == 0 {
		return adminStatement(t)
	}
	corpus := fullCorpus()
	var s string
	if len(sqlCorpusOther) > 0 && rapid.Bool().Draw(t, "other") {
		s = sqlCorpusOther[rapid.IntRange(0, len(sqlCorpusOther)-1).Draw(t, "ostmt")]
	} else if len(corpus) > 0 && rapid.IntRange(0, 4).Draw(t, "corpus") > 0 {
		s = corpus[rapid.IntRange(0, len(corpus)-1).Draw(t, "stmt")]
	} else {
		s = string(rapid.SampledFrom(seeds).Draw(t, "seed"))
	}
	name := rapid.SampledFrom(hostileNames).Draw(t, "name")
	q := rapid.SampledFrom([]string{"`", "`", "\"", "'"}).Draw(t, "quote")
	repl := q + name + q
	type span struct{ a, b int }
	var spans []span
	for _, m := range quotedToken.FindAllStringIndex(s, -1) {
		spans = append(spans, span{m[0], m[1]})
	}
	for _, m := range nameAfterKW.FindAllStringSubmatchIndex(s, -1) {
		spans = append(spans, span{m[4], m[5]})
	}
	if len(spans) == 0 {
		return []byte(s + " " + repl)
	}
	sp := spans[rapid.IntRange(0, len(spans)-1).Draw(t, "where")]
	if rapid.IntRange(0, 3).Draw(t, "keepquote") == 0 && sp.b-sp.a >= 2 && (s[sp.a] == '`' || s[sp.a] == '"' || s[sp.a] == '\'') {
		repl = s[sp.a:sp.a+1] + name + s[sp.b-1:sp.b] // keep the statement's own quoting style
	}
	return []byte(s[:sp.a] + repl + s[sp.b:])
}
