package c14

import (
	"io"
	"strings"
	"sync"
	"testing"

	acracensor "github.com/cossacklabs/acra/acra-censor"
	"github.com/cossacklabs/acra/sqlparser"
	"github.com/cossacklabs/acra/sqlparser/dependency/querypb"
	"github.com/cossacklabs/acra/sqlparser/dialect"
	mysqldialect "github.com/cossacklabs/acra/sqlparser/dialect/mysql"
	pgdialect "github.com/cossacklabs/acra/sqlparser/dialect/postgresql"

	"verif/internal/hx"
)

var sqlSeeds = []string{
	"select 1",
	"select * from t",
	"SELECT a, b AS c, t.* FROM db.t AS t WHERE a = 1 AND b <> 'x' OR NOT c IS NULL",
	"select a from t1 join t2 on t1.id = t2.id left join t3 using (id) where t1.x in (1, 2, 3)",
	"select a from t where b in (select c from u where d = 'q') order by a desc limit 10 offset 5",
	"select count(*), max(a) from t group by b having count(*) > 1",
	"select a from t union all select b from u union select 'lit'",
	"select case when a > 1 then 'x' else 'y' end from t",
	"select cast(a as char(10)), convert(b, signed) from t",
	"select * from t where a between 1 and 10 and b like 'a%' escape '\\\\'",
	"select 0x4142, x'4142', b'0101', 1.5e10, -3, +4, ~5, !a from t",
	"select `a`, \"b\", 'c' from `t`",
	"select a from t where b = ? and c = :v1",
	"select a from t where b = $1 and c = $2",
	"select /* comment */ a -- trailing\n from t # hash\n",
	"select /*!50000 a */ from t",
	"insert into t (a, b) values (1, 'x'), (2, default)",
	"insert into t values (1, x'00ff', null) on duplicate key update a = values(a)",
	"insert into t (a) select b from u",
	"insert into t (a, b) values ($1, E'\\\\x00') returning a, b",
	"replace into t set a = 1, b = 'c'",
	"update t set a = 1, b = b + 1 where c = 'd' order by a limit 3",
	"update t as x set a = (select max(b) from u) where x.id = 7",
	"delete from t where a = 'b' limit 1",
	"delete t1 from t1 join t2 on t1.id = t2.id where t2.a > 0",
	"create table t (id int primary key, data blob)",
	"alter table t add column x int",
	"drop table if exists t",
	"truncate table t",
	"set names utf8mb4",
	"set @@session.autocommit = off",
	"show variables like 'sql_mode'",
	"show collation where `Charset` = 'utf8' and `Collation` = 'utf8_bin'",
	"begin", "commit", "rollback", "use db",
	"prepare s from 'select * from t where a = ?'",
	"prepare s (int, text) as select * from t where a = $1 and b = $2",
	"execute s using @a, @b",
	"execute s(1, 'two')",
	"deallocate prepare s",
	"select a::text, b::bytea from t where c = 'x'::text",
	"select interval '1' day + now(), date '2020-01-01'",
	"select a from t where match(a) against ('x' in boolean mode)",
	"select a from t for update",
	"select distinct sql_no_cache a from t force index (i) where a is true",
	"select 'it''s', \"say \"\"hi\"\"\", 'back\\\\slash', 'new\\nline'",
	"select * from test where data = '\\\\x6162' and raw = E'\\\\000abc'",
	"select data from test %%WHERE%%",
	"select * from acra_rollback_output where someValue = %%VALUE%%",
	"(select 1) union (select 2) order by 1",
	"select ((((((((((1))))))))))",
	"select -(-(-(-1)))",
	"select a from (select b as a from u) as sub where exists (select 1 from v)",
	"",
	";",
}

func sqlSeedBytes() [][]byte {
	out := make([][]byte, len(sqlSeeds))
	for i, s := range sqlSeeds {
		out[i] = []byte(s)
	}
	return out
}

var sqlKeywords = []string{"select", "insert", "update", "delete", "replace", "set", "show", "use", "begin", "commit", "rollback", "create", "alter", "drop",
	"truncate", "prepare", "execute", "deallocate", "start", "analyze", "describe", "explain", "rename", "repair", "optimize", "(", "with"}

// sqlNontrivial: the first word of the text is a statement keyword (the parser's first structural check).
func sqlNontrivial(data []byte) bool {
	s := strings.ToLower(strings.TrimLeft(string(data), " \t\r\n"))
	for _, k := range sqlKeywords {
		if strings.HasPrefix(s, k) {
			return true
		}
	}
	return false
}

func dialects() map[string]func() dialect.Dialect {
	return map[string]func() dialect.Dialect{
		"mysql":      func() dialect.Dialect { return mysqldialect.NewMySQLDialect() },
		"mysql-ansi": func() dialect.Dialect { return mysqldialect.NewMySQLDialect(mysqldialect.SetANSIMode(true)) },
		"pg":         func() dialect.Dialect { return pgdialect.NewPostgreSQLDialect() },
	}
}

func targetSQLParse(dname string, mk func() dialect.Dialect) func([]byte) hx.Vs {
	name := "sql.parse." + dname
	return func(data []byte) (vs hx.Vs) {
		sqlparser.SetDefaultDialect(mk())
		sql := string(data)
		hx.Guard(&vs, name, func() {
			for _, mode := range []sqlparser.Mode{sqlparser.ModeStrict, sqlparser.ModeDefault} {
				stmt, err := sqlparser.New(mode).Parse(sql)
				if err == nil && stmt != nil {
					out := sqlparser.String(stmt)
					_ = out
					sqlparser.Normalize(stmt, map[string]*querypb.BindVariable{}, sqlparser.ValueMask)
					_ = sqlparser.String(stmt)
				}
			}
			if stmt, err := sqlparser.ParseStrictDDL(sql); err == nil && stmt != nil {
				_ = sqlparser.String(stmt)
			}
			_ = sqlparser.Preview(sql)
			_ = sqlparser.StripLeadingComments(sql)
		})
		return vs
	}
}

func targetSQLRedact(dname string, mk func() dialect.Dialect) func([]byte) hx.Vs {
	name := "sql.redact." + dname
	return func(data []byte) (vs hx.Vs) {
		sqlparser.SetDefaultDialect(mk())
		sql := string(data)
		hx.Guard(&vs, name, func() {
			_, _ = sqlparser.RedactSQLQuery(sql)
			for _, mode := range []sqlparser.Mode{sqlparser.ModeStrict, sqlparser.ModeDefault} {
				_, _, _, _ = sqlparser.New(mode).HandleRawSQLQuery(sql)
			}
		})
		return vs
	}
}

func targetSQLTokenizer(dname string, mk func() dialect.Dialect) func([]byte) hx.Vs {
	name := "sql.tokenizer." + dname
	return func(data []byte) (vs hx.Vs) {
		d := mk()
		sqlparser.SetDefaultDialect(d)
		sql := string(data)
		limit := 4*len(data) + 64
		hx.Guard(&vs, name, func() {
			tkn := sqlparser.NewStringTokenizerWithDialect(d, sql)
			n := 0
			for {
				tok, _ := tkn.Scan()
				if tok == 0 {
					break
				}
				if n++; n > limit {
					vs.Add("loop:"+name, "Tokenizer.Scan produced more than %d tokens from a %d-byte input", limit, len(data))
					break
				}
			}
			for _, allow := range []bool{false, true} {
				tkn = sqlparser.NewStringTokenizerWithDialect(d, sql)
				tkn.AllowComments = allow
				// ParseNext builds a fresh parser (about 50 KB) per call and has no caller in acra outside tests:
				// the harness asks for at most 32 statements so that its own loop does not add up to the bound
				for n = 0; n < 32; n++ {
					if _, err := sqlparser.ParseNext(tkn); err == io.EOF {
						break
					}
				}
			}
			_, _ = sqlparser.SplitStatementToPieces(sql)
			_, _, _ = sqlparser.SplitStatement(sql)
		})
		return vs
	}
}

const censorConfigDeny = `ignore_parse_error: false
version: 0.85.0
handlers:
  - handler: query_ignore
    queries:
      - ROLLBACK
      - select 1;
  - handler: deny
    queries:
      - select * from test
      - insert into t (a, b) values (1, 'x'), (2, default)
    tables:
      - acrarollback_output
      - t3
    patterns:
      - select data from test %%WHERE%%
      - "%%INSERT%%"
      - select * from u where someValue = %%VALUE%%
      - SELECT %%COLUMN%%, b FROM v
      - "%%UNION%%"
      - select a from x where b = (%%SUBQUERY%%)
      - select a from w where exists(%%SUBQUERY%%) and a = 2
      - select a from y where b in (%%LIST_OF_VALUES%%)
      - select a from z where b in (%%VALUE%%, 1, %%LIST_OF_VALUES%%)
  - handler: allowall
`

const censorConfigAllow = `ignore_parse_error: true
version: 0.85.0
handlers:
  - handler: allow
    queries:
      - select 1
      - update t set a = 1, b = b + 1 where c = 'd' order by a limit 3
    tables:
      - t
      - t1
      - t2
    patterns:
      - select * from acra_rollback_output where someValue = %%VALUE%%
      - "%%UPDATE%%"
      - "%%DELETE%%"
      - "%%BEGIN%%"
      - select a from t %%WHERE%%
      - SELECT * FROM t2 ORDER BY %%COLUMN%%
      - SELECT a1 FROM t1 GROUP BY a2 HAVING COUNT(%%COLUMN%%) > %%VALUE%%
  - handler: denyall
`

var (
	censorMu    sync.Mutex
	censorCache = map[string]*acracensor.AcraCensor{}
)

func censorFor(dname, conf string) *acracensor.AcraCensor {
	censorMu.Lock()
	defer censorMu.Unlock()
	key := dname + "\x00" + conf
	if c, ok := censorCache[key]; ok {
		return c
	}
	c := acracensor.NewAcraCensor()
	if err := c.LoadConfiguration([]byte(conf)); err != nil {
		panic("censor fixture: " + err.Error())
	}
	censorCache[key] = c
	return c
}

func targetCensor(dname string, mk func() dialect.Dialect) func([]byte) hx.Vs {
	name := "censor.query." + dname
	return func(data []byte) (vs hx.Vs) {
		sqlparser.SetDefaultDialect(mk())
		deny, allow := censorFor(dname, censorConfigDeny), censorFor(dname, censorConfigAllow)
		sql := string(data)
		hx.Guard(&vs, name, func() {
			_ = deny.HandleQuery(sql)
			_ = allow.HandleQuery(sql)
		})
		return vs
	}
}

func init() {
	for dname, mk := range dialects() {
		mk := mk
		register(&target{name: "sql.parse." + dname, group: "FuzzSQL", fn: targetSQLParse(dname, mk), nontrivial: sqlNontrivial, seeds: sqlSeedBytes, text: true, hostile: sqlHostile})
		register(&target{name: "sql.redact." + dname, group: "FuzzSQL", fn: targetSQLRedact(dname, mk), nontrivial: sqlNontrivial, seeds: sqlSeedBytes, text: true, hostile: sqlHostile})
		register(&target{name: "sql.tokenizer." + dname, group: "FuzzSQL", fn: targetSQLTokenizer(dname, mk), nontrivial: sqlNontrivial, seeds: sqlSeedBytes, text: true, hostile: sqlHostile})
		if dname != "mysql-ansi" {
			register(&target{name: "censor.query." + dname, group: "FuzzSQL", fn: targetCensor(dname, mk), nontrivial: sqlNontrivial, seeds: sqlSeedBytes, text: true, hostile: sqlHostile})
		}
	}
}

func FuzzSQL(f *testing.F) { fuzzGroup(f, "FuzzSQL") }
