package c14

import (
	"bytes"
	"context"
	"io"
	"net"
	"runtime"
	"runtime/debug"
	"strings"
	"sync"
	"time"

	acracensor "github.com/cossacklabs/acra/acra-censor"
	"github.com/cossacklabs/acra/decryptor/base"
	"github.com/cossacklabs/acra/encryptor/base/config"
	"github.com/cossacklabs/acra/poison"
	"github.com/cossacklabs/acra/pseudonymization"
	tokencommon "github.com/cossacklabs/acra/pseudonymization/common"
	"github.com/cossacklabs/acra/pseudonymization/storage"
	"github.com/cossacklabs/acra/sqlparser"

	"verif/internal/fix"
	"verif/internal/hx"
)

// fakeConn is a net.Conn that serves a fixed byte string and discards what is written to it,
// so that a proxy loop runs to completion on the calling goroutine.
type fakeConn struct {
	r       *bytes.Reader
	written int
	closed  bool
}

func newFakeConn(b []byte) *fakeConn { return &fakeConn{r: bytes.NewReader(b)} }

func (c *fakeConn) Read(p []byte) (int, error) {
	if c.closed {
		return 0, io.EOF
	}
	return c.r.Read(p)
}
func (c *fakeConn) Write(p []byte) (int, error)        { c.written += len(p); return len(p), nil }
func (c *fakeConn) Close() error                       { c.closed = true; return nil }
func (c *fakeConn) LocalAddr() net.Addr                { return fakeAddr{} }
func (c *fakeConn) RemoteAddr() net.Addr               { return fakeAddr{} }
func (c *fakeConn) SetDeadline(t time.Time) error      { return nil }
func (c *fakeConn) SetReadDeadline(t time.Time) error  { return nil }
func (c *fakeConn) SetWriteDeadline(t time.Time) error { return nil }

type fakeAddr struct{}

func (fakeAddr) Network() string { return "fake" }
func (fakeAddr) String() string  { return "fake" }

// session is a minimal base.ClientSession.
type session struct {
	ctx        context.Context
	client, db net.Conn
	state      interface{}
	data       map[string]interface{}
}

func newSession(client, db net.Conn) *session {
	s := &session{client: client, db: db, data: map[string]interface{}{}}
	s.ctx = base.SetClientSessionToContext(context.Background(), s)
	return s
}

func (s *session) Context() context.Context         { return s.ctx }
func (s *session) ClientConnection() net.Conn       { return s.client }
func (s *session) DatabaseConnection() net.Conn     { return s.db }
func (s *session) ProtocolState() interface{}       { return s.state }
func (s *session) SetProtocolState(st interface{})  { s.state = st }
func (s *session) SetData(k string, v interface{})  { s.data[k] = v }
func (s *session) DeleteData(k string)              { delete(s.data, k) }
func (s *session) HasData(k string) bool            { _, ok := s.data[k]; return ok }
func (s *session) GetData(k string) (interface{}, bool) {
	v, ok := s.data[k]
	return v, ok
}

// sessionSchema covers every column pipeline: plain, searchable, tokenized (all types), masked, typed.
const sessionSchema = `
schemas:
  - table: t
    columns: [id, enc, blk, srch, tok32, tok64, tokstr, tokbytes, tokemail, mask, tstr, tbytes, ti32, ti64]
    encrypted:
      - column: enc
      - column: blk
        crypto_envelope: acrablock
      - column: srch
        searchable: true
      - column: tok32
        token_type: int32
        tokenized: true
      - column: tok64
        token_type: int64
        tokenized: true
        consistent_tokenization: true
      - column: tokstr
        token_type: str
        tokenized: true
      - column: tokbytes
        token_type: bytes
        tokenized: true
      - column: tokemail
        token_type: email
        tokenized: true
        consistent_tokenization: true
      - column: mask
        masking: "xxxx"
        plaintext_length: 4
        plaintext_side: "right"
      - column: tstr
        data_type: "str"
        response_on_fail: default_value
        default_data_value: "dflt"
      - column: tbytes
        data_type: "bytes"
      - column: ti32
        data_type: "int32"
        response_on_fail: error
      - column: ti64
        data_type: "int64"
        response_on_fail: default_value
        default_data_value: "64"
`

var (
	schemaOnce  sync.Once
	schemaMySQL *config.MapTableSchemaStore
	schemaPg    *config.MapTableSchemaStore
)

func sessionSchemas() (my, pg *config.MapTableSchemaStore) {
	schemaOnce.Do(func() {
		var err error
		if schemaMySQL, err = config.MapTableSchemaStoreFromConfig([]byte(sessionSchema), true); err != nil {
			panic("session schema (mysql): " + err.Error())
		}
		if schemaPg, err = config.MapTableSchemaStoreFromConfig([]byte(sessionSchema), false); err != nil {
			panic("session schema (pg): " + err.Error())
		}
	})
	return schemaMySQL, schemaPg
}

func newTokenizer() tokencommon.Pseudoanonymizer {
	ts, err := storage.NewMemoryTokenStorage()
	if err != nil {
		panic(err)
	}
	tok, err := pseudonymization.NewPseudoanonymizer(ts)
	if err != nil {
		panic(err)
	}
	return tok
}

func proxySetting(schema config.TableSchemaStore) base.ProxySetting {
	w := fix.TheWorld()
	return base.NewProxySetting(sqlparser.New(sqlparser.ModeDefault), schema, w.KS, nil, acracensor.NewAcraCensor(), poison.NewCallbackStorage())
}

// runProxy drives both halves of a proxy sequentially on the calling goroutine: first everything the
// client sent, then everything the database sent.
func runProxy(p base.Proxy, s *session, clientID []byte) {
	ac := base.NewAccessContext(base.WithClientID(clientID))
	p.AddClientIDObserver(ac)
	s.ctx = base.SetAccessContextToContext(s.ctx, ac)
	errCh := make(chan base.ProxyError, 8)
	p.ProxyClientConnection(s.ctx, errCh)
	p.ProxyDatabaseConnection(s.ctx, errCh)
}

// splitSession splits a session input: BE16 length of the client stream, client stream, database stream.
func splitSession(data []byte) (client, db []byte) {
	if len(data) < 2 {
		return nil, nil
	}
	n := int(data[0])<<8 | int(data[1])
	rest := data[2:]
	if n > len(rest) {
		n = len(rest)
	}
	return rest[:n:n], rest[n:]
}

func joinSession(client, db []byte) []byte {
	if len(client) > 0xffff {
		panic("client stream too long")
	}
	out := []byte{byte(len(client) >> 8), byte(len(client))}
	return append(append(out, client...), db...)
}

// guardClassified is hx.Guard with a hook that can give a recovered panic a class signature of its own
// (used where one root cause surfaces in several functions).
func guardClassified(vs *hx.Vs, what string, classify func(stack string, p interface{}) string, f func()) (panicked bool) {
	defer func() {
		if p := recover(); p != nil {
			panicked = true
			stack := string(debug.Stack())
			if sig := classify(stack, p); sig != "" {
				vs.Add(sig, "panic in %s: %v", what, p)
				return
			}
			vs.Add("panic:"+what+"@"+acraPanicSite(), "panic in %s: %v", what, p)
		}
	}()
	f()
	return false
}

// acraPanicSite names the innermost acra function on the stack of a recovered panic (same rule as hx.Guard).
func acraPanicSite() string {
	pc := make([]uintptr, 64)
	n := runtime.Callers(3, pc)
	frames := runtime.CallersFrames(pc[:n])
	first := ""
	for {
		f, more := frames.Next()
		if strings.Contains(f.Function, "cossacklabs/acra") {
			return f.Function[strings.LastIndex(f.Function, "/")+1:]
		}
		if first == "" && !strings.HasPrefix(f.Function, "runtime.") {
			first = f.Function
		}
		if !more {
			break
		}
	}
	return first
}
