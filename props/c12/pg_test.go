package c12

import (
	"bytes"
	"encoding/binary"
	"encoding/hex"
	"errors"
	"fmt"
	"io"
	"net"
	"os"
	"strings"
	"testing"
	"time"

	"github.com/jackc/pgx/v5/pgproto3"
	"pgregory.net/rapid"

	"github.com/cossacklabs/acra/sqlparser"
	pgdialect "github.com/cossacklabs/acra/sqlparser/dialect/postgresql"

	"verif/internal/fix"
	"verif/internal/hx"
	"verif/internal/pgprog"
	"verif/internal/pgsess"
)

// ---------------------------------------------------------------------------------------------
// case model

// PGCase is one PostgreSQL session: start-up exchange, optional configuration of table t (rewrite layer),
// and a list of request/response cycles played by a scripted client and a scripted backend.
type PGCase struct {
	Startup PGStartup  `json:"startup"`
	Schema  []MyCfgCol `json:"schema,omitempty"`
	Ops     []PGOp     `json:"ops"`
}

// PGStartup is the start-up phase.
type PGStartup struct {
	SSLDenied bool     `json:"ssl_denied,omitempty"` // the client asks for TLS first, the server answers 'N'
	Auth      string   `json:"auth"`                 // ok | cleartext | md5 | sasl | err
	Params    []string `json:"params"`               // names of the ParameterStatus messages sent
	Notice    bool     `json:"notice,omitempty"`     // a NoticeResponse before ReadyForQuery
	Options   Blob     `json:"options"`              // value of an extra start-up parameter (length classes)
}

// PGOp is one request/response cycle.
type PGOp struct {
	Kind string `json:"kind"` // simple copyin copyout extended close function async terminate
	SQL  string `json:"sql,omitempty"`
	Pad  Blob   `json:"pad,omitempty"`
	// simple: result sets / tags; copy: data rows
	Results []PGResult `json:"results,omitempty"`
	Err     bool       `json:"err,omitempty"`   // ends with an ErrorResponse instead
	Async   []string   `json:"async,omitempty"` // asynchronous messages interleaved: notice, notification, param
	TxState byte       `json:"tx,omitempty"`
	// copy
	Chunks   []Blob `json:"chunks,omitempty"`
	CopyFail bool   `json:"copy_fail,omitempty"`
	// extended
	StmtName   string   `json:"stmt,omitempty"`
	Portal     string   `json:"portal,omitempty"`
	OIDs       []uint32 `json:"oids,omitempty"`
	PFormats   []int16  `json:"pformats,omitempty"`
	Params     []PGVal  `json:"params,omitempty"`
	RFormats   []int16  `json:"rformats,omitempty"`
	DescStmt   bool     `json:"desc_stmt,omitempty"`
	DescPortal bool     `json:"desc_portal,omitempty"`
	FlushAfter bool     `json:"flush,omitempty"` // Parse [Describe] Flush, then Bind Execute Sync as a second batch
	MaxRows    uint32   `json:"max_rows,omitempty"`
	SkipParse  bool     `json:"skip_parse,omitempty"`
	// rewrite layer: INSERT INTO t with these values (SQL / parameters rendered from them)
	Insert []MyCell `json:"insert,omitempty"`
}

// PGResult is one result set (or a bare tag).
type PGResult struct {
	Cols  []PGCol    `json:"cols,omitempty"`
	Rows  [][]MyCell `json:"rows,omitempty"`
	Tag   string     `json:"tag"`
	Empty bool       `json:"empty,omitempty"` // EmptyQueryResponse instead of CommandComplete
}

// PGCol is a field description.
type PGCol struct {
	Name string `json:"name"`
	OID  uint32 `json:"oid"`
	Cfg  int    `json:"cfg"`
}

// ---------------------------------------------------------------------------------------------
// generator

var pgSQLPool = []string{"select 1", "SELECT id, name FROM users WHERE id = 7", "select * from accounts where name = 'o''reilly'", "insert into logs (id, msg) values (1, 'a'), (2, NULL)",
	"update users set name = E'\\\\x41' where id = 3", "begin", "commit", "set client_encoding to 'UTF8'", "select 'ü€'::text, '\\x00ff'::bytea", "select 1; select 2", "listen chan", "show server_version"}

var pgPreparedPool = []string{"select id, name from users where id = $1 and name <> $2", "insert into logs (id, msg) values ($1, $2)", "select 1", "select name from users", "update users set name = $1 where id = 1"}

func genPGCols(t *rapid.T, label string) []PGCol {
	n := rapid.IntRange(1, 5).Draw(t, label+".ncols")
	var cols []PGCol
	for i := 0; i < n; i++ {
		cols = append(cols, PGCol{Name: rapid.SampledFrom(identPool).Draw(t, fmt.Sprintf("%s.c%d", label, i)), OID: rapid.SampledFrom([]uint32{25, 17, 23, 20, 1043, 16, 701, 1114, 2950, 114}).Draw(t, fmt.Sprintf("%s.oid%d", label, i)), Cfg: -1})
	}
	return cols
}

func genPGRelayResult(t *rapid.T, label string, cols []PGCol) PGResult {
	r := PGResult{Cols: cols, Tag: "SELECT 0"}
	if r.Cols == nil {
		switch rapid.IntRange(0, 5).Draw(t, label+".kind") {
		case 0:
			return PGResult{Tag: rapid.SampledFrom([]string{"INSERT 0 1", "UPDATE 3", "BEGIN", "SET", "LISTEN"}).Draw(t, label+".tag")}
		case 1:
			return PGResult{Empty: true}
		}
		r.Cols = genPGCols(t, label)
	}
	nrows := rapid.IntRange(0, 4).Draw(t, label+".nrows")
	for i := 0; i < nrows; i++ {
		var row []MyCell
		for j := range r.Cols {
			l := fmt.Sprintf("%s.r%dc%d", label, i, j)
			if rapid.IntRange(0, 4).Draw(t, l+".null") == 0 {
				row = append(row, MyCell{Null: true})
			} else {
				row = append(row, MyCell{B: genBlob(t, l, false)})
			}
		}
		r.Rows = append(r.Rows, row)
	}
	r.Tag = fmt.Sprintf("SELECT %d", nrows)
	return r
}

func genAsync(t *rapid.T, label string) []string {
	return rapid.SliceOfN(rapid.SampledFrom([]string{"notice", "notification", "param"}), 0, 2).Draw(t, label+".async")
}

func genPGRelayCase(t *rapid.T) PGCase {
	c := PGCase{Startup: PGStartup{Auth: rapid.SampledFrom([]string{"ok", "ok", "cleartext", "md5", "sasl", "err"}).Draw(t, "auth"), SSLDenied: rapid.IntRange(0, 5).Draw(t, "ssl") == 0,
		Params: rapid.SliceOfN(rapid.SampledFrom([]string{"server_version", "client_encoding", "DateStyle", "TimeZone", "standard_conforming_strings", "application_name"}), 0, 5).Draw(t, "params"),
		Notice: rapid.IntRange(0, 4).Draw(t, "notice") == 0, Options: genBlob(t, "options", false)}}
	if c.Startup.Auth == "err" {
		return c
	}
	n := rapid.IntRange(1, 6).Draw(t, "nops")
	type prep struct {
		name    string
		sql     string
		nparams int
		cols    []PGCol
	}
	var preps []prep
	for i := 0; i < n; i++ {
		l := fmt.Sprintf("op%d", i)
		kinds := []string{"simple", "simple", "simple", "extended", "extended", "extended", "copyin", "copyout", "function", "async"}
		if len(preps) > 0 {
			kinds = append(kinds, "extended-reuse", "extended-reuse", "close")
		}
		if i == n-1 {
			kinds = append(kinds, "terminate")
		}
		op := PGOp{Kind: rapid.SampledFrom(kinds).Draw(t, l+".kind"), TxState: rapid.SampledFrom([]byte{'I', 'I', 'T', 'E'}).Draw(t, l+".tx")}
		switch op.Kind {
		case "simple":
			op.SQL = rapid.SampledFrom(pgSQLPool).Draw(t, l+".sql")
			if rapid.IntRange(0, 3).Draw(t, l+".pad") == 0 {
				op.Pad = genBlob(t, l+".pad", false)
			}
			nres := 1
			if strings.Contains(op.SQL, ";") || rapid.IntRange(0, 4).Draw(t, l+".multi") == 0 {
				nres = rapid.IntRange(2, 3).Draw(t, l+".nres")
				op.SQL = "select 1; select 2"
			}
			for r := 0; r < nres; r++ {
				op.Results = append(op.Results, genPGRelayResult(t, fmt.Sprintf("%s.res%d", l, r), nil))
			}
			op.Err = rapid.IntRange(0, 5).Draw(t, l+".err") == 0
			op.Async = genAsync(t, l)
		case "copyin":
			op.SQL = "COPY logs FROM STDIN"
			nc := rapid.IntRange(0, 3).Draw(t, l+".nchunks")
			for k := 0; k < nc; k++ {
				op.Chunks = append(op.Chunks, genBlob(t, fmt.Sprintf("%s.chunk%d", l, k), false))
			}
			op.CopyFail = rapid.IntRange(0, 3).Draw(t, l+".fail") == 0
		case "copyout":
			op.SQL = "COPY logs TO STDOUT"
			nc := rapid.IntRange(0, 3).Draw(t, l+".nchunks")
			for k := 0; k < nc; k++ {
				op.Chunks = append(op.Chunks, genBlob(t, fmt.Sprintf("%s.chunk%d", l, k), false))
			}
			op.Async = genAsync(t, l)
		case "extended", "extended-reuse":
			var p prep
			if op.Kind == "extended-reuse" {
				p = preps[rapid.IntRange(0, len(preps)-1).Draw(t, l+".which")]
				op.SkipParse = true
				op.Kind = "extended"
			} else {
				p = prep{name: rapid.SampledFrom([]string{"", "", fmt.Sprintf("s%d", i)}).Draw(t, l+".name"), sql: rapid.SampledFrom(pgPreparedPool).Draw(t, l+".sql")}
				p.nparams = strings.Count(p.sql, "$")
				if strings.HasPrefix(p.sql, "select") {
					p.cols = genPGCols(t, l)
				}
				// a named statement is prepared once
				for k := range preps {
					if preps[k].name == p.name {
						preps = append(preps[:k], preps[k+1:]...)
						break
					}
				}
				preps = append(preps, p)
			}
			op.SQL, op.StmtName = p.sql, p.name
			op.Portal = rapid.SampledFrom([]string{"", "", "p1"}).Draw(t, l+".portal")
			if !op.SkipParse {
				op.OIDs = rapid.SliceOfN(rapid.SampledFrom([]uint32{0, 17, 23, 25}), 0, p.nparams).Draw(t, l+".oids")
			}
			for k := 0; k < p.nparams; k++ {
				op.Params = append(op.Params, genPGVal(t, fmt.Sprintf("%s.p%d", l, k)))
			}
			switch rapid.SampledFrom([]string{"none", "one", "each"}).Draw(t, l+".pf") {
			case "one":
				op.PFormats = []int16{int16(rapid.IntRange(0, 1).Draw(t, l+".pf0"))}
			case "each":
				for k := 0; k < p.nparams; k++ {
					op.PFormats = append(op.PFormats, int16(rapid.IntRange(0, 1).Draw(t, fmt.Sprintf("%s.pf%d", l, k))))
				}
			}
			switch rapid.SampledFrom([]string{"none", "one", "each"}).Draw(t, l+".rf") {
			case "one":
				op.RFormats = []int16{int16(rapid.IntRange(0, 1).Draw(t, l+".rf0"))}
			case "each":
				for k := range p.cols {
					op.RFormats = append(op.RFormats, int16(rapid.IntRange(0, 1).Draw(t, fmt.Sprintf("%s.rf%d", l, k))))
				}
			}
			op.DescStmt = rapid.Bool().Draw(t, l+".descstmt")
			op.DescPortal = rapid.Bool().Draw(t, l+".descportal")
			op.FlushAfter = !op.SkipParse && rapid.IntRange(0, 3).Draw(t, l+".flush") == 0
			if rapid.IntRange(0, 3).Draw(t, l+".limit") == 0 {
				op.MaxRows = 1
			}
			if p.cols != nil {
				op.Results = []PGResult{genPGRelayResult(t, l+".res", p.cols)}
			} else {
				op.Results = []PGResult{{Tag: "INSERT 0 1"}}
			}
			op.Err = rapid.IntRange(0, 6).Draw(t, l+".err") == 0
			op.Async = genAsync(t, l)
		case "close":
			p := preps[rapid.IntRange(0, len(preps)-1).Draw(t, l+".which")]
			op.StmtName = p.name
		case "function":
			op.Params = []PGVal{genPGVal(t, l+".arg0"), genPGVal(t, l+".arg1")}
			op.Results = []PGResult{{Rows: [][]MyCell{{{B: genBlob(t, l+".ret", false)}}}}}
			op.Err = rapid.IntRange(0, 4).Draw(t, l+".err") == 0
		case "async":
			op.Async = []string{rapid.SampledFrom([]string{"notice", "notification", "param"}).Draw(t, l+".what")}
		}
		c.Ops = append(c.Ops, op)
	}
	return c
}

// ---------------------------------------------------------------------------------------------
// script

type pgmsg struct {
	raw   bool // a single unframed byte (answer to SSLRequest) or an untyped start-up packet
	data  []byte
	label string
	// rewrite layer
	expRow  []expCell
	roles   []string
	rowFmts []int16
	retype  bool // RowDescription / ParameterDescription of a configured statement
	insert  *pgInsertInfo
}

type pgInsertInfo struct {
	cells []MyCell
	roles []string
	kind  string // query | parse | bind
}

type pgturn struct {
	client []pgmsg
	server []pgmsg
	label  string
	close  bool
}

func enc(m interface {
	Encode([]byte) ([]byte, error)
}) []byte {
	b, err := m.Encode(nil)
	if err != nil {
		panic(err)
	}
	return b
}

func asyncMsg(kind string) pgmsg {
	switch kind {
	case "notice":
		return pgmsg{data: enc(&pgproto3.NoticeResponse{Severity: "WARNING", Code: "01000", Message: "there is no transaction in progress"}), label: "NoticeResponse"}
	case "notification":
		return pgmsg{data: enc(&pgproto3.NotificationResponse{PID: 77, Channel: "chan", Payload: "payload-ü"}), label: "NotificationResponse"}
	}
	return pgmsg{data: enc(&pgproto3.ParameterStatus{Name: "application_name", Value: "psql"}), label: "ParameterStatus"}
}

func (c PGCase) cfgOf(col PGCol) (MyCfgCol, bool) {
	if col.Cfg >= 0 && col.Cfg < len(c.Schema) {
		return c.Schema[col.Cfg], true
	}
	return MyCfgCol{Role: "plain"}, false
}

// pgWire renders what the database sends for a cell of a column with the given oid in the given format.
func pgWire(w *world, cell MyCell, oid uint32, format int16) []byte {
	if cell.Null {
		return nil
	}
	b := cell.B.Bytes()
	if cell.Prot != "" {
		b = w.prot(cell.Prot, b)
	}
	if oid == 17 && format == 0 {
		return []byte(`\x` + hex.EncodeToString(b))
	}
	if b == nil {
		b = []byte{}
	}
	return b
}

func fmtAt(formats []int16, i int) int16 {
	switch {
	case len(formats) == 1:
		return formats[0]
	case i < len(formats):
		return formats[i]
	}
	return 0
}

func (c PGCase) resultMsgs(w *world, r PGResult, formats []int16, withDesc bool, limit uint32, out *[]pgmsg) (suspended bool) {
	if len(r.Cols) > 0 {
		configured := false
		var roles []string
		for _, col := range r.Cols {
			cfg, ok := c.cfgOf(col)
			roles = append(roles, cfg.Role)
			configured = configured || ok
		}
		if withDesc {
			rd := &pgproto3.RowDescription{}
			for i, col := range r.Cols {
				rd.Fields = append(rd.Fields, pgproto3.FieldDescription{Name: []byte(col.Name), TableOID: 16384, TableAttributeNumber: uint16(i + 1), DataTypeOID: col.OID, DataTypeSize: -1, TypeModifier: -1, Format: fmtAt(formats, i)})
			}
			*out = append(*out, pgmsg{data: enc(rd), label: "RowDescription", retype: configured})
		}
		for ri, row := range r.Rows {
			if limit > 0 && uint32(ri) >= limit {
				*out = append(*out, pgmsg{data: enc(&pgproto3.PortalSuspended{}), label: "PortalSuspended"})
				return true
			}
			dr := &pgproto3.DataRow{}
			var exp []expCell
			for i, cell := range row {
				v := pgWire(w, cell, r.Cols[i].OID, fmtAt(formats, i))
				dr.Values = append(dr.Values, v)
				if configured {
					cfg, _ := c.cfgOf(r.Cols[i])
					logical := v
					if r.Cols[i].OID == 17 && fmtAt(formats, i) == 0 && v != nil {
						logical, _ = hex.DecodeString(string(v[2:]))
					}
					e := expectCell(cfg, cell, logical, false)
					e.dbLen = len(v)
					exp = append(exp, e)
				}
			}
			m := pgmsg{data: enc(dr), label: "DataRow"}
			if configured {
				m.expRow, m.roles, m.rowFmts = exp, roles, formats
			}
			*out = append(*out, m)
		}
	}
	if r.Empty {
		*out = append(*out, pgmsg{data: enc(&pgproto3.EmptyQueryResponse{}), label: "EmptyQueryResponse"})
	} else {
		*out = append(*out, pgmsg{data: enc(&pgproto3.CommandComplete{CommandTag: []byte(r.Tag)}), label: "CommandComplete"})
	}
	return false
}

func errMsg() pgmsg {
	return pgmsg{data: enc(&pgproto3.ErrorResponse{Severity: "ERROR", Code: "42P01", Message: "relation \"nope\" does not exist", Position: 15, File: "parse_relation.c", Line: 1392, Routine: "parserOpenTable"}), label: "ErrorResponse"}
}

func rfq(tx byte) pgmsg {
	if tx == 0 {
		tx = 'I'
	}
	return pgmsg{data: enc(&pgproto3.ReadyForQuery{TxStatus: tx}), label: "ReadyForQuery"}
}

func (op PGOp) sqlText() string {
	if op.Pad.N == 0 {
		return op.SQL
	}
	pad := op.Pad.Bytes()
	for i := range pad {
		pad[i] = 'a' + pad[i]%26
	}
	return op.SQL + " /* " + string(pad) + " */"
}

func (c PGCase) script(w *world) []pgturn {
	var turns []pgturn
	st := c.Startup
	if st.SSLDenied {
		turns = append(turns, pgturn{label: "ssl-request", client: []pgmsg{{raw: true, data: []byte{0, 0, 0, 8, 4, 210, 22, 47}, label: "SSLRequest"}}, server: []pgmsg{{raw: true, data: []byte{'N'}, label: "ssl-denied"}}})
	}
	sm := &pgproto3.StartupMessage{ProtocolVersion: pgproto3.ProtocolVersionNumber, Parameters: map[string]string{"user": "app"}}
	smb := enc(sm)
	// further parameters are appended by hand to keep their order fixed
	smb = smb[:len(smb)-1]
	for _, kv := range [][2]string{{"database", "db1"}, {"options", string(bytes.ReplaceAll(st.Options.Bytes(), []byte{0}, []byte{1}))}} {
		smb = append(append(append(append(smb, kv[0]...), 0), kv[1]...), 0)
	}
	smb = append(smb, 0)
	binary.BigEndian.PutUint32(smb, uint32(len(smb)))
	first := pgturn{label: "startup", client: []pgmsg{{raw: true, data: smb, label: "StartupMessage"}}}
	final := func() []pgmsg {
		out := []pgmsg{{data: enc(&pgproto3.AuthenticationOk{}), label: "AuthenticationOk"}}
		for _, p := range st.Params {
			out = append(out, pgmsg{data: enc(&pgproto3.ParameterStatus{Name: p, Value: "value of " + p}), label: "ParameterStatus"})
		}
		out = append(out, pgmsg{data: enc(&pgproto3.BackendKeyData{ProcessID: 4242, SecretKey: 0xdeadbeef}), label: "BackendKeyData"})
		if st.Notice {
			out = append(out, asyncMsg("notice"))
		}
		return append(out, rfq('I'))
	}
	pw := func(s string, label string) pgmsg {
		return pgmsg{data: enc(&pgproto3.PasswordMessage{Password: s}), label: label}
	}
	switch st.Auth {
	case "ok":
		first.server = final()
		turns = append(turns, first)
	case "err":
		first.server = []pgmsg{{data: enc(&pgproto3.ErrorResponse{Severity: "FATAL", Code: "28P01", Message: "password authentication failed for user \"app\""}), label: "ErrorResponse"}}
		first.close = true
		turns = append(turns, first)
	case "cleartext":
		first.server = []pgmsg{{data: enc(&pgproto3.AuthenticationCleartextPassword{}), label: "AuthenticationCleartextPassword"}}
		turns = append(turns, first, pgturn{label: "password", client: []pgmsg{pw("secret", "PasswordMessage")}, server: final()})
	case "md5":
		first.server = []pgmsg{{data: enc(&pgproto3.AuthenticationMD5Password{Salt: [4]byte{1, 2, 3, 4}}), label: "AuthenticationMD5Password"}}
		turns = append(turns, first, pgturn{label: "password", client: []pgmsg{pw("md5aabbccddeeff00112233445566778899", "PasswordMessage")}, server: final()})
	case "sasl":
		first.server = []pgmsg{{data: enc(&pgproto3.AuthenticationSASL{AuthMechanisms: []string{"SCRAM-SHA-256"}}), label: "AuthenticationSASL"}}
		turns = append(turns, first,
			pgturn{label: "sasl-initial", client: []pgmsg{{data: enc(&pgproto3.SASLInitialResponse{AuthMechanism: "SCRAM-SHA-256", Data: []byte("n,,n=,r=nonce")}), label: "SASLInitialResponse"}},
				server: []pgmsg{{data: enc(&pgproto3.AuthenticationSASLContinue{Data: []byte("r=noncenonce,s=c2FsdA==,i=4096")}), label: "AuthenticationSASLContinue"}}},
			pgturn{label: "sasl-response", client: []pgmsg{{data: enc(&pgproto3.SASLResponse{Data: []byte("c=biws,r=noncenonce,p=cHJvb2Y=")}), label: "SASLResponse"}},
				server: append([]pgmsg{{data: enc(&pgproto3.AuthenticationSASLFinal{Data: []byte("v=c2ln")}), label: "AuthenticationSASLFinal"}}, final()...)})
	}
	for _, op := range c.Ops {
		var async []pgmsg
		for _, a := range op.Async {
			async = append(async, asyncMsg(a))
		}
		// interleave: first asynchronous message before the results, the rest before ReadyForQuery
		pre, post := async, []pgmsg(nil)
		if len(async) > 1 {
			pre, post = async[:1], async[1:]
		}
		switch op.Kind {
		case "simple":
			tn := pgturn{label: "simple"}
			q := pgmsg{data: enc(&pgproto3.Query{String: op.sqlText()}), label: "Query"}
			if op.Insert != nil {
				sql, info := c.renderPGInsert(op, false)
				q.data = enc(&pgproto3.Query{String: sql})
				q.insert = info
				q.insert.kind = "query"
			}
			tn.client = []pgmsg{q}
			tn.server = append(tn.server, pre...)
			for i, r := range op.Results {
				if op.Err && i == len(op.Results)-1 {
					tn.server = append(tn.server, errMsg())
					break
				}
				c.resultMsgs(w, r, nil, true, 0, &tn.server)
			}
			tn.server = append(append(tn.server, post...), rfq(op.TxState))
			turns = append(turns, tn)
		case "copyin":
			turns = append(turns, pgturn{label: "copy-in", client: []pgmsg{{data: enc(&pgproto3.Query{String: op.SQL}), label: "Query"}},
				server: []pgmsg{{data: enc(&pgproto3.CopyInResponse{OverallFormat: 0, ColumnFormatCodes: []uint16{0, 0}}), label: "CopyInResponse"}}})
			tn := pgturn{label: "copy-data"}
			for _, ch := range op.Chunks {
				tn.client = append(tn.client, pgmsg{data: enc(&pgproto3.CopyData{Data: ch.Bytes()}), label: "CopyData(F)"})
			}
			if op.CopyFail {
				tn.client = append(tn.client, pgmsg{data: enc(&pgproto3.CopyFail{Message: "client gave up"}), label: "CopyFail"})
				tn.server = []pgmsg{errMsg(), rfq(op.TxState)}
			} else {
				tn.client = append(tn.client, pgmsg{data: enc(&pgproto3.CopyDone{}), label: "CopyDone(F)"})
				tn.server = []pgmsg{{data: enc(&pgproto3.CommandComplete{CommandTag: []byte(fmt.Sprintf("COPY %d", len(op.Chunks)))}), label: "CommandComplete"}, rfq(op.TxState)}
			}
			turns = append(turns, tn)
		case "copyout":
			tn := pgturn{label: "copy-out", client: []pgmsg{{data: enc(&pgproto3.Query{String: op.SQL}), label: "Query"}}}
			tn.server = append(tn.server, pgmsg{data: enc(&pgproto3.CopyOutResponse{OverallFormat: 0, ColumnFormatCodes: []uint16{0}}), label: "CopyOutResponse"})
			for i, ch := range op.Chunks {
				if i == 1 {
					tn.server = append(tn.server, pre...)
				}
				tn.server = append(tn.server, pgmsg{data: enc(&pgproto3.CopyData{Data: ch.Bytes()}), label: "CopyData(B)"})
			}
			tn.server = append(tn.server, pgmsg{data: enc(&pgproto3.CopyDone{}), label: "CopyDone(B)"}, pgmsg{data: enc(&pgproto3.CommandComplete{CommandTag: []byte(fmt.Sprintf("COPY %d", len(op.Chunks)))}), label: "CommandComplete"})
			tn.server = append(append(tn.server, post...), rfq(op.TxState))
			turns = append(turns, tn)
		case "extended":
			var params [][]byte
			for _, p := range op.Params {
				params = append(params, p.bytes())
			}
			bind := pgmsg{data: enc(&pgproto3.Bind{DestinationPortal: op.Portal, PreparedStatement: op.StmtName, ParameterFormatCodes: op.PFormats, Parameters: params, ResultFormatCodes: op.RFormats}), label: "Bind"}
			parse := pgmsg{data: enc(&pgproto3.Parse{Name: op.StmtName, Query: op.SQL, ParameterOIDs: op.OIDs}), label: "Parse"}
			if op.Insert != nil {
				sql, info := c.renderPGInsert(op, true)
				parse.data = enc(&pgproto3.Parse{Name: op.StmtName, Query: sql, ParameterOIDs: op.OIDs})
				pi := *info
				pi.kind = "parse"
				parse.insert = &pi
				bi := *info
				bi.kind = "bind"
				bind.insert = &bi
			}
			var cols []PGCol
			if len(op.Results) > 0 {
				cols = op.Results[0].Cols
			}
			configured := false
			for _, col := range cols {
				if _, ok := c.cfgOf(col); ok {
					configured = true
				}
			}
			describe := func(formats []int16, withParams bool) []pgmsg {
				var out []pgmsg
				if withParams {
					oids := make([]uint32, len(op.Params))
					for i := range oids {
						oids[i] = 25
						if i < len(op.OIDs) && op.OIDs[i] != 0 {
							oids[i] = op.OIDs[i]
						}
						if op.Insert != nil && i > 0 && c.Schema[i-1].Role != "plain" {
							oids[i] = 17
						}
					}
					out = append(out, pgmsg{data: enc(&pgproto3.ParameterDescription{ParameterOIDs: oids}), label: "ParameterDescription", retype: op.Insert != nil})
				}
				if len(cols) == 0 {
					return append(out, pgmsg{data: enc(&pgproto3.NoData{}), label: "NoData"})
				}
				rd := &pgproto3.RowDescription{}
				for i, col := range cols {
					rd.Fields = append(rd.Fields, pgproto3.FieldDescription{Name: []byte(col.Name), TableOID: 16384, TableAttributeNumber: uint16(i + 1), DataTypeOID: col.OID, DataTypeSize: -1, TypeModifier: -1, Format: fmtAt(formats, i)})
				}
				return append(out, pgmsg{data: enc(rd), label: "RowDescription", retype: configured})
			}
			var cl, sv []pgmsg
			if !op.SkipParse {
				cl = append(cl, parse)
				sv = append(sv, pgmsg{data: enc(&pgproto3.ParseComplete{}), label: "ParseComplete"})
			}
			if op.DescStmt {
				cl = append(cl, pgmsg{data: enc(&pgproto3.Describe{ObjectType: 'S', Name: op.StmtName}), label: "Describe(S)"})
				sv = append(sv, describe(nil, true)...)
			}
			if op.FlushAfter {
				cl = append(cl, pgmsg{data: enc(&pgproto3.Flush{}), label: "Flush"})
				turns = append(turns, pgturn{label: "extended-parse-flush", client: cl, server: sv})
				cl, sv = nil, nil
			}
			cl = append(cl, bind)
			sv = append(sv, pgmsg{data: enc(&pgproto3.BindComplete{}), label: "BindComplete"})
			if op.DescPortal {
				cl = append(cl, pgmsg{data: enc(&pgproto3.Describe{ObjectType: 'P', Name: op.Portal}), label: "Describe(P)"})
				sv = append(sv, describe(op.RFormats, false)...)
			}
			sv = append(sv, pre...)
			cl = append(cl, pgmsg{data: enc(&pgproto3.Execute{Portal: op.Portal, MaxRows: op.MaxRows}), label: "Execute"})
			if op.Err {
				sv = append(sv, errMsg())
			} else if len(op.Results) > 0 {
				r := op.Results[0]
				if c.resultMsgs(w, r, op.RFormats, false, op.MaxRows, &sv) {
					// the portal was suspended after MaxRows rows: fetch the rest
					cl = append(cl, pgmsg{data: enc(&pgproto3.Execute{Portal: op.Portal}), label: "Execute"})
					rest := r
					rest.Rows = r.Rows[op.MaxRows:]
					c.resultMsgs(w, rest, op.RFormats, false, 0, &sv)
				}
			}
			cl = append(cl, pgmsg{data: enc(&pgproto3.Sync{}), label: "Sync"})
			sv = append(append(sv, post...), rfq(op.TxState))
			turns = append(turns, pgturn{label: "extended", client: cl, server: sv})
		case "close":
			turns = append(turns, pgturn{label: "close", client: []pgmsg{{data: enc(&pgproto3.Close{ObjectType: 'S', Name: op.StmtName}), label: "Close"}, {data: enc(&pgproto3.Sync{}), label: "Sync"}},
				server: []pgmsg{{data: enc(&pgproto3.CloseComplete{}), label: "CloseComplete"}, rfq(op.TxState)}})
		case "function":
			fc := &pgproto3.FunctionCall{Function: 1598, ArgFormatCodes: []uint16{1}, ResultFormatCode: 1}
			for _, p := range op.Params {
				fc.Arguments = append(fc.Arguments, p.bytes())
			}
			tn := pgturn{label: "function-call", client: []pgmsg{{data: enc(fc), label: "FunctionCall"}}}
			if op.Err {
				tn.server = []pgmsg{errMsg(), rfq(op.TxState)}
			} else {
				tn.server = []pgmsg{{data: enc(&pgproto3.FunctionCallResponse{Result: op.Results[0].Rows[0][0].B.Bytes()}), label: "FunctionCallResponse"}, rfq(op.TxState)}
			}
			turns = append(turns, tn)
		case "async":
			turns = append(turns, pgturn{label: "async", server: async})
		case "terminate":
			turns = append(turns, pgturn{label: "terminate", client: []pgmsg{{data: enc(&pgproto3.Terminate{}), label: "Terminate"}}, close: true})
		}
	}
	return turns
}

// ---------------------------------------------------------------------------------------------
// engine

func readPGMsg(r io.Reader, raw bool, rawLen int) ([]byte, error) {
	if raw {
		if rawLen == 1 {
			b := make([]byte, 1)
			_, err := io.ReadFull(r, b)
			return b, err
		}
		// untyped start-up packet: int32 length first
		h := make([]byte, 4)
		if _, err := io.ReadFull(r, h); err != nil {
			return nil, err
		}
		n := int(binary.BigEndian.Uint32(h))
		if n < 4 || n > 1<<26 {
			return h, fmt.Errorf("start-up packet length %d", n)
		}
		b := make([]byte, n)
		copy(b, h)
		_, err := io.ReadFull(r, b[4:])
		return b, err
	}
	h := make([]byte, 5)
	if _, err := io.ReadFull(r, h); err != nil {
		return nil, err
	}
	n := int(binary.BigEndian.Uint32(h[1:]))
	if n < 4 || n > 1<<26 {
		return h, fmt.Errorf("message %q length %d", h[0], n)
	}
	b := make([]byte, 1+n)
	copy(b, h)
	_, err := io.ReadFull(r, b[5:])
	return b, err
}

type pgRun struct {
	clientSent, clientRecv, dbRecv, dbSent []byte
	gotClient, gotDB                       [][]byte // messages as framed by the readers
	stage                                  string
	err                                    error
	dbErr                                  error
	panics                                 []string
}

func pgBytes(ms []pgmsg) []byte {
	var out []byte
	for _, m := range ms {
		out = append(out, m.data...)
	}
	return out
}

func isTimeout(err error) bool {
	var ne net.Error
	return errors.As(err, &ne) && ne.Timeout()
}

func runPG(c PGCase, turns []pgturn, timeout time.Duration) (*pgRun, error) {
	w := fix.TheWorld()
	r := &pgRun{}
	done := make(chan error, 1)
	var gotDB [][]byte
	handler := func(conn net.Conn) {
		var err error
		defer func() { done <- err }()
		for _, tn := range turns {
			for _, m := range tn.client {
				conn.SetReadDeadline(time.Now().Add(timeout))
				var b []byte
				if b, err = readPGMsg(conn, m.raw, len(m.data)); err != nil {
					return
				}
				gotDB = append(gotDB, b)
			}
			if len(tn.server) > 0 {
				conn.SetWriteDeadline(time.Now().Add(timeout))
				if _, err = conn.Write(pgBytes(tn.server)); err != nil {
					return
				}
			}
			if tn.close {
				conn.Close()
				return
			}
		}
	}
	yaml := strings.Replace(schemaYAML(c.Schema), "schemas: []\n", "schemas: []\n", 1)
	s, err := pgsess.StartRaw(pgsess.Config{SchemaYAML: yaml, KeyStore: w.KS, ClientID: w.Alice, DBHandler: handler, Timeout: timeout})
	if err != nil {
		return nil, err
	}
	defer s.Abort()
	conn := s.RawConn()
play:
	for _, tn := range turns {
		if len(tn.client) > 0 {
			conn.SetWriteDeadline(time.Now().Add(timeout))
			if _, err := conn.Write(pgBytes(tn.client)); err != nil {
				r.stage, r.err = tn.client[0].label, err
				break
			}
		}
		for _, m := range tn.server {
			conn.SetReadDeadline(time.Now().Add(timeout))
			b, err := readPGMsg(conn, m.raw, len(m.data))
			if err != nil {
				r.stage, r.err = m.label, err
				break play
			}
			r.gotClient = append(r.gotClient, b)
		}
	}
	select {
	case r.dbErr = <-done:
	case <-time.After(timeout):
		r.dbErr = pgsess.ErrTimeout
	}
	r.gotDB = gotDB
	r.clientSent, r.clientRecv = s.ClientStreams()
	r.dbRecv, r.dbSent = s.DBStreams()
	r.panics = s.Panics()
	return r, nil
}

func pgLabelAt(ms []pgmsg, off int) string {
	pos := 0
	for _, m := range ms {
		if off < pos+len(m.data) {
			return m.label
		}
		pos += len(m.data)
	}
	return "past-the-end"
}

func comparePGRelay(vs *hx.Vs, dir string, sent, recv []byte, script []pgmsg, broken bool) {
	d := firstDiff(sent, recv)
	if d < 0 {
		return
	}
	n := min(len(sent), len(recv))
	switch {
	case d < n:
		vs.Add("relay-differs:"+dir+":"+pgLabelAt(script, d), "%s: byte %d of the stream differs (message %s): sent %s, arrived %s (sent %d bytes, arrived %d)", dir, d, pgLabelAt(script, d), around(sent, d), around(recv, d), len(sent), len(recv))
	case len(recv) > len(sent):
		vs.Add("relay-extra-bytes:"+dir, "%s: %d bytes arrived that were never sent: %s", dir, len(recv)-len(sent), around(recv, d))
	case !broken:
		vs.Add("not-relayed:"+dir+":"+pgLabelAt(script, d), "%s: %d of %d bytes sent never arrived, starting in message %s", dir, len(sent)-len(recv), len(sent), pgLabelAt(script, d))
	}
}

// CheckPG plays the case and applies the oracles.
func CheckPG(c PGCase) (hx.Vs, []string, bool) {
	var vs hx.Vs
	sqlparser.SetDefaultDialect(pgdialect.NewPostgreSQLDialect()) // process-global: reset for every case
	cl := classSet{}
	w := fix.TheWorld()
	wd := &world{prot: func(kind string, plain []byte) []byte {
		b, err := w.Protect(w.Alice, kind, fix.FormContainer, plain, -1)
		if err != nil {
			panic(err)
		}
		return b
	}}
	turns := c.script(wd)
	timeout := 2500 * time.Millisecond
	r, err := runPG(c, turns, timeout)
	if err != nil {
		vs.Add("harness:start", "%v\n%s", err, schemaYAML(c.Schema))
		return vs, nil, false
	}
	if isTimeout(r.err) {
		if r2, err := runPG(c, turns, 3*timeout); err == nil {
			if r2.err == nil {
				R.Note("inconclusive first run (deadline at %s), second run completed", r.stage)
			}
			r = r2
		}
	}
	var toDB, toClient []pgmsg
	for _, tn := range turns {
		toDB = append(toDB, tn.client...)
		toClient = append(toClient, tn.server...)
		cl.add("cycle:%s", tn.label)
	}
	for _, m := range toDB {
		cl.add("msg:F:%s", m.label)
		cl.add("msg-len:%s", lenClass(len(m.data)))
	}
	for _, m := range toClient {
		cl.add("msg:B:%s", m.label)
		cl.add("msg-len:%s", lenClass(len(m.data)))
	}
	c.classes(cl)
	if len(r.panics) > 0 {
		vs.Add("handler-panic:"+hx.PanicFunc(r.panics[0]), "the proxy's connection handler panicked at %s: %.1500s", r.stage, r.panics[0])
		return vs, cl.list(), true
	}
	broken := r.err != nil
	nontrivial := false
	if c.Schema == nil {
		comparePGRelay(&vs, "client->db", r.clientSent, r.dbRecv, toDB, broken)
		comparePGRelay(&vs, "db->client", r.dbSent, r.clientRecv, toClient, broken)
		nontrivial = len(c.Ops) > 0
	} else {
		nontrivial = c.comparePGRewrite(&vs, cl, r, toDB, toClient, broken)
	}
	if broken && len(vs) == 0 {
		if isTimeout(r.err) {
			vs.Add("stalled:"+r.stage, "the client never received message %s (two runs, deadline %v)", r.stage, 3*timeout)
		} else {
			vs.Add("session-closed:"+r.stage, "the proxy closed the session at %s: %v", r.stage, r.err)
		}
	}
	if os.Getenv("VERIF_DEBUG") != "" {
		fmt.Printf("pg run: stage=%q err=%v dbErr=%v sent=%d/%d recv=%d/%d\n", r.stage, r.err, r.dbErr, len(r.clientSent), len(r.dbRecv), len(r.dbSent), len(r.clientRecv))
	}
	return vs, cl.list(), nontrivial
}

func (c PGCase) classes(cl classSet) {
	cl.add("auth:%s", c.Startup.Auth)
	if c.Startup.SSLDenied {
		cl.add("startup:ssl-denied")
	}
	for _, op := range c.Ops {
		cl.add("op:%s", op.Kind)
		if len(op.Results) > 1 {
			cl.add("simple:multiple-result-sets")
		}
		if op.MaxRows > 0 {
			cl.add("extended:row-limit")
		}
		if op.FlushAfter {
			cl.add("extended:flush")
		}
		if op.SkipParse {
			cl.add("extended:reuse-statement")
		}
		for _, f := range op.RFormats {
			cl.add("extended:result-format-%d", f)
		}
		for ri, res := range op.Results {
			for _, row := range res.Rows {
				nulls, vals := 0, 0
				for _, cell := range row {
					if cell.Null {
						nulls++
					} else {
						vals++
						cl.add("row:%s", lenClass(cell.B.N))
					}
				}
				if nulls > 0 && vals > 0 {
					cl.add("row:null-mix")
				}
				if ri > 0 {
					cl.add("row:in-second-or-later-result-set")
				}
			}
		}
	}
}

func TestPGRelay(t *testing.T) {
	R.Rule("TestPGRelay", "a PostgreSQL session through acra's real proxy (nothing configured) between a scripted client and a scripted backend, messages encoded by pgproto3: start-up (optionally SSLRequest refused first; AuthenticationOk / cleartext / MD5 / SASL exchanges / FATAL error; ParameterStatus*, BackendKeyData, optional Notice, ReadyForQuery), then 1-6 cycles: simple query (1-3 result sets with RowDescription/DataRow*/CommandComplete, bare tags, EmptyQueryResponse, ErrorResponse; NoticeResponse / NotificationResponse / ParameterStatus interleaved), COPY IN (CopyData*, CopyDone or CopyFail) and COPY OUT, extended protocol (Parse/Describe/Bind/Execute/Sync, optional Flush after Parse, row limit with PortalSuspended and a second Execute, re-use of named statements, Close), FunctionCall, asynchronous messages between cycles, Terminate; values NULL / empty / lengths at 250,251 / 65535,65536. Oracle: both byte streams identical at both ends, no panic, session not closed or wedged. Non-trivial: at least one cycle after start-up")
	hx.Checks(300, 1200)
	rapid.Check(t, func(rt *rapid.T) {
		c := genPGRelayCase(rt)
		vs, classes, nt := CheckPG(c)
		R.Seen("TestPGRelay", c, nt, classes...)
		report(rt, "TestPGRelay", c, vs)
	})
}

var _ = pgprog.Decode
