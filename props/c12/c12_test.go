// Package c12: relayed protocol messages stay byte-identical; rewritten ones stay well-formed.
package c12

import (
	"bytes"
	"encoding/json"
	"fmt"
	"os"
	"sort"
	"strings"
	"testing"

	"pgregory.net/rapid"

	"verif/internal/gen"
	"verif/internal/hx"
)

var R = hx.New("C12")

func TestMain(m *testing.M) { os.Exit(R.Main(m)) }

// Blob describes a byte string by construction so that case files stay small: N bytes made from a short
// pattern (never a valid protected value: the pattern bytes are arbitrary).
type Blob struct {
	N   int     `json:"n"`
	Pat gen.Hex `json:"pat,omitempty"`
}

// Bytes renders the blob.
func (b Blob) Bytes() []byte {
	out := make([]byte, b.N)
	if len(b.Pat) == 0 {
		for i := range out {
			out[i] = 'a' + byte(i%23)
		}
		return out
	}
	for i := range out {
		out[i] = b.Pat[i%len(b.Pat)] + byte(i/len(b.Pat))
	}
	return out
}

// lengths at and around the length-encoding boundaries
var (
	smallBoundaries = []int{0, 1, 2, 249, 250, 251, 252, 255, 256, 65534, 65535, 65536, 65537}
	hugeBoundaries  = []int{1<<24 - 2, 1<<24 - 1, 1 << 24, 1<<24 + 1}
)

// thorough tells whether the 16 MiB classes may be drawn.
func thorough() bool { return hx.Tier() == "thorough" }

// genLen draws a value length from weighted classes: mostly short, sometimes at a 251 / 65536 boundary,
// rarely (thorough only, when huge is allowed) at the 2^24 boundary.
func genLen(t *rapid.T, label string, allowHuge bool) int {
	cls := rapid.SampledFrom([]string{"short", "short", "short", "short", "b251", "b251", "b65536", "mid", "huge"}).Draw(t, label+".lencls")
	switch cls {
	case "short":
		return rapid.IntRange(0, 40).Draw(t, label+".n")
	case "b251":
		return rapid.SampledFrom([]int{249, 250, 251, 252, 255, 256}).Draw(t, label+".n")
	case "b65536":
		return rapid.SampledFrom([]int{65534, 65535, 65536, 65537}).Draw(t, label+".n")
	case "mid":
		return rapid.IntRange(41, 3000).Draw(t, label+".n")
	default:
		// 16 MiB values: thorough only, a few dozen per shard (class-weighted, every one costs ~0.5 s and 100 MiB)
		if allowHuge && thorough() && rapid.IntRange(0, 24).Draw(t, label+".hugegate") == 0 {
			return rapid.SampledFrom(hugeBoundaries).Draw(t, label+".n")
		}
		return rapid.IntRange(0, 40).Draw(t, label+".n")
	}
}

func genBlob(t *rapid.T, label string, allowHuge bool) Blob {
	n := genLen(t, label, allowHuge)
	return Blob{N: n, Pat: rapid.SliceOfN(rapid.Byte(), 1, 6).Draw(t, label+".pat")}
}

// lenClass names the boundary class of a length (for the class histogram).
func lenClass(n int) string {
	switch {
	case n == 0:
		return "len:0"
	case n < 250:
		return "len:<250"
	case n == 250:
		return "len:250"
	case n == 251:
		return "len:251"
	case n < 65535:
		return "len:252..65534"
	case n == 65535:
		return "len:65535"
	case n == 65536:
		return "len:65536"
	case n < 1<<24-1:
		return "len:65537..2^24-2"
	case n == 1<<24-1:
		return "len:2^24-1"
	case n == 1<<24:
		return "len:2^24"
	}
	return "len:>2^24"
}

type classSet map[string]bool

func (c classSet) add(f string, a ...any) { c[fmt.Sprintf(f, a...)] = true }
func (c classSet) list() []string {
	out := make([]string, 0, len(c))
	for k := range c {
		out = append(out, k)
	}
	sort.Strings(out)
	return out
}

func firstDiff(a, b []byte) int {
	n := len(a)
	if len(b) < n {
		n = len(b)
	}
	for i := 0; i < n; i++ {
		if a[i] != b[i] {
			return i
		}
	}
	if len(a) != len(b) {
		return n
	}
	return -1
}

func around(b []byte, i int) string {
	lo, hi := i-8, i+16
	if lo < 0 {
		lo = 0
	}
	if hi > len(b) {
		hi = len(b)
	}
	if lo > hi {
		lo = hi
	}
	return fmt.Sprintf("% x", b[lo:hi])
}

func decodeCase[T any](raw json.RawMessage, check func(T) hx.Vs) hx.Vs {
	var c T
	if err := json.Unmarshal(raw, &c); err != nil {
		return hx.Vs{{Sig: "harness:decode", Msg: err.Error()}}
	}
	return check(c)
}

// replaying is set while saved cases are replayed: they are played exactly as saved (the exclusion of open findings
// applies to generated cases only), so a replay of an open finding still shows whether it reproduces.
var replaying bool

func TestReplay(t *testing.T) {
	replaying = true
	defer func() { replaying = false }()
	R.Replay(t, map[string]hx.ReplayHandler{
		"TestLenEnc":      func(raw json.RawMessage) hx.Vs { return decodeCase(raw, CheckLenEnc) },
		"TestMySQLPacket": func(raw json.RawMessage) hx.Vs { return decodeCase(raw, CheckMyPacket) },
		"TestByteaCodecs": func(raw json.RawMessage) hx.Vs { return decodeCase(raw, CheckBytea) },
		"TestPGHandler":   func(raw json.RawMessage) hx.Vs { return decodeCase(raw, CheckPGHandler) },
		"TestPGRelay": func(raw json.RawMessage) hx.Vs {
			return decodeCase(raw, func(c PGCase) hx.Vs { vs, _, _ := CheckPG(c); return vs })
		},
		"TestPGRewrite": func(raw json.RawMessage) hx.Vs {
			return decodeCase(raw, func(c PGCase) hx.Vs { vs, _, _ := CheckPG(c); return vs })
		},
		"TestMySQLRelay": func(raw json.RawMessage) hx.Vs {
			return decodeCase(raw, func(c MyCase) hx.Vs { vs, _, _ := CheckMy(c); return vs })
		},
		"TestMySQLRewrite": func(raw json.RawMessage) hx.Vs {
			return decodeCase(raw, func(c MyCase) hx.Vs { vs, _, _ := CheckMy(c); return vs })
		},
		"TestMySQLBackToBack": func(raw json.RawMessage) hx.Vs { return decodeCase(raw, CheckBackToBack) },
	})
}

// report hands the violations to the recorder. VERIF_SKIP (comma-separated signature prefixes) is a development aid
// to look behind a violation that is already understood; the driver never sets it.
func report(t hx.TB, test string, c any, vs hx.Vs) {
	if skip := os.Getenv("VERIF_SKIP"); skip != "" {
		var keep hx.Vs
	next:
		for _, v := range vs {
			for _, p := range strings.Split(skip, ",") {
				if p != "" && strings.HasPrefix(v.Sig, p) {
					continue next
				}
			}
			keep = append(keep, v)
		}
		vs = keep
	}
	R.Report(t, test, c, vs)
}

func mustJSON(c any) string {
	b, err := json.Marshal(c)
	if err != nil {
		return err.Error()
	}
	if len(b) > 4000 {
		b = b[:4000]
	}
	return string(b)
}

var _ = bytes.Equal
