package c12

import (
	"bytes"
	"encoding/base64"
	"errors"
	"fmt"
	"net"
	"os"
	"strconv"
	"strings"
	"testing"
	"time"

	"pgregory.net/rapid"

	"verif/internal/fix"
	"verif/internal/hx"
	"verif/internal/mysess"
)

// ---------------------------------------------------------------------------------------------
// case model

// MyCase is one MySQL session: negotiated capabilities, authentication exchange, optional encryptor
// configuration for table t (rewrite layer) and a list of command/response cycles played by a scripted
// client and a scripted server around acra's proxy.
type MyCase struct {
	ServerCaps uint32     `json:"server_caps"`
	ClientCaps uint32     `json:"client_caps"`
	Auth       MyAuth     `json:"auth"`
	Schema     []MyCfgCol `json:"schema,omitempty"` // configuration of columns c0.. of table t (nil = nothing configured)
	Ops        []MyOp     `json:"ops"`
}

// MyAuth is the authentication exchange after the handshake response.
type MyAuth struct {
	Kind   string `json:"kind"` // ok | switch | fast | full | err
	Resp   Blob   `json:"resp"` // the client's answer to an auth switch request / its last packet of full authentication
	Server Blob   `json:"server"`
	User   string `json:"user"`
	DB     string `json:"db"`
}

// MyCfgCol is the role of column c<i> of table t.
type MyCfgCol struct {
	Role     string `json:"role"` // plain | enc | str | bytes | int32 | int64
	Envelope string `json:"envelope,omitempty"`
	Default  string `json:"default,omitempty"` // default_data_value (response_on_fail: default_value) for typed roles
	// OnFail is the response_on_fail policy of a typed role: "" = default_value with Default, "ciphertext" = ciphertext
	// written out, "unset" = neither response_on_fail nor default_data_value (the loader's default policy: ciphertext)
	OnFail string `json:"on_fail,omitempty"`
}

// keepsCiphertext tells whether a value of the column that cannot be revealed is handed over as it is stored.
func (c MyCfgCol) keepsCiphertext() bool { return c.OnFail == "ciphertext" || c.OnFail == "unset" }

func (c MyCfgCol) intRole() bool { return c.Role == "int32" || c.Role == "int64" }

// MyOp is one command and its scripted response.
type MyOp struct {
	Kind      string    `json:"kind"` // query prepare execute close reset longdata ping initdb stat resetconn setoption quit
	SQL       string    `json:"sql,omitempty"`
	Pad       Blob      `json:"pad,omitempty"` // appended to the SQL text as a string literal (to reach length classes)
	Stmt      int       `json:"stmt,omitempty"`
	NewParams bool      `json:"new_params,omitempty"`
	Params    []MyParam `json:"params,omitempty"`
	Resp      MyResp    `json:"resp"`
	// rewrite layer: INSERT into t with these values (SQL is rendered from them)
	Insert []MyCell `json:"insert,omitempty"`
}

// MyParam is a COM_STMT_EXECUTE parameter.
type MyParam struct {
	Type     byte `json:"type"`
	Unsigned bool `json:"unsigned,omitempty"`
	Null     bool `json:"null,omitempty"`
	B        Blob `json:"b"`
}

// MyResp is a scripted server response.
type MyResp struct {
	Kind    string  `json:"kind"` // ok err sets prepok stat eof localinfile none
	OK      MyOK    `json:"ok"`
	Err     MyErr   `json:"err"`
	Sets    []MySet `json:"sets,omitempty"`
	NParams int     `json:"nparams,omitempty"`
	Cols    []MyCol `json:"cols,omitempty"` // prepare: result columns
	File    Blob    `json:"file,omitempty"` // localinfile: what the client uploads
}

// MyOK are the fields of an OK packet.
type MyOK struct {
	Affected uint64 `json:"affected"`
	InsertID uint64 `json:"insert_id"`
	Status   uint16 `json:"status"`
	Warnings uint16 `json:"warnings"`
	Info     Blob   `json:"info"`
	State    Blob   `json:"state"`
}

// MyErr are the fields of an ERR packet.
type MyErr struct {
	Code  uint16 `json:"code"`
	State string `json:"state"`
	Msg   Blob   `json:"msg"`
}

// MySet is one result set.
type MySet struct {
	Cols   []MyCol    `json:"cols"`
	Rows   [][]MyCell `json:"rows"`
	End    MyOK       `json:"end"` // status/warnings (and info with DEPRECATE_EOF) of the terminating packet
	ErrEnd bool       `json:"err_end,omitempty"`
	EndErr MyErr      `json:"end_err"`
}

// MyCol is a column definition.
type MyCol struct {
	Name    string `json:"name"`
	Alias   string `json:"alias,omitempty"`
	Table   string `json:"table"`
	Type    byte   `json:"type"`
	Charset uint16 `json:"charset"`
	Flags   uint16 `json:"flags"`
	Length  uint32 `json:"length"`
	Cfg     int    `json:"cfg"` // index into Schema, -1 = not a column of the configured table
}

// MyCell is one value of a row.
type MyCell struct {
	Null bool   `json:"null,omitempty"`
	B    Blob   `json:"b"`
	Prot string `json:"prot,omitempty"` // acrastruct | acrablock: the database holds B protected for alice
}

// ---------------------------------------------------------------------------------------------
// generator

const (
	neverNegotiated = mysess.CapCompress | mysess.CapSSL | mysess.CapZstdCompression | mysess.CapOptionalResultsetMetadata | mysess.CapQueryAttributes | mysess.CapMultiFactorAuth
	optionalCaps    = mysess.CapLongPassword | mysess.CapFoundRows | mysess.CapLongFlag | mysess.CapConnectWithDB | mysess.CapNoSchema | mysess.CapODBC | mysess.CapLocalFiles |
		mysess.CapIgnoreSpace | mysess.CapInteractive | mysess.CapIgnoreSigpipe | mysess.CapTransactions | mysess.CapReserved | mysess.CapSecureConnection |
		mysess.CapMultiStatements | mysess.CapMultiResults | mysess.CapPSMultiResults | mysess.CapPluginAuth | mysess.CapConnectAttrs | mysess.CapPluginAuthLenencClientData |
		mysess.CapCanHandleExpiredPasswords | mysess.CapSessionTrack | mysess.CapDeprecateEOF | mysess.CapSSLVerifyServerCert | mysess.CapRememberOptions
)

func genSubset(t *rapid.T, label string, of uint32) uint32 {
	return rapid.Uint32().Draw(t, label) & of
}

func genCaps(t *rapid.T) (server, client uint32) {
	server = mysess.CapProtocol41 | mysess.CapLongPassword | mysess.CapSecureConnection | mysess.CapPluginAuth | mysess.CapTransactions
	if rapid.IntRange(0, 3).Draw(t, "srv.modern") > 0 {
		server |= optionalCaps
	} else {
		server |= genSubset(t, "srv.caps", optionalCaps)
	}
	// a server may well advertise what acra cannot relay (compression, TLS without configuration, ...): the client does not ask for it
	server |= genSubset(t, "srv.extra", neverNegotiated)
	switch rapid.SampledFrom([]string{"libmysql", "connector", "minimal", "subset", "subset", "all"}).Draw(t, "client.kind") {
	case "libmysql":
		client = mysess.CapLongPassword | mysess.CapLongFlag | mysess.CapLocalFiles | mysess.CapProtocol41 | mysess.CapTransactions | mysess.CapSecureConnection |
			mysess.CapMultiResults | mysess.CapPSMultiResults | mysess.CapPluginAuth | mysess.CapConnectAttrs | mysess.CapPluginAuthLenencClientData |
			mysess.CapCanHandleExpiredPasswords | mysess.CapSessionTrack | mysess.CapDeprecateEOF | genSubset(t, "client.opt", mysess.CapFoundRows|mysess.CapConnectWithDB|mysess.CapMultiStatements|mysess.CapInteractive)
	case "connector":
		client = mysess.CapLongPassword | mysess.CapLongFlag | mysess.CapProtocol41 | mysess.CapTransactions | mysess.CapSecureConnection | mysess.CapMultiResults |
			mysess.CapPluginAuth | mysess.CapConnectAttrs | genSubset(t, "client.opt", mysess.CapFoundRows|mysess.CapConnectWithDB|mysess.CapLocalFiles|mysess.CapMultiStatements|mysess.CapDeprecateEOF)
	case "minimal":
		// hand-written clients: just what the 4.1 protocol with native password authentication needs
		client = mysess.CapLongPassword | mysess.CapProtocol41 | mysess.CapSecureConnection | genSubset(t, "client.opt", mysess.CapPluginAuth|mysess.CapTransactions|mysess.CapConnectWithDB)
	case "all":
		client = optionalCaps | mysess.CapProtocol41
	default:
		client = mysess.CapProtocol41 | genSubset(t, "client.caps", optionalCaps)
	}
	client &= server
	client &^= neverNegotiated
	return
}

var identPool = []string{"id", "data", "name", "c1", "Value", "col_ü", "x"}

var mySQLPool = []string{
	"SELECT 1", "select * from users where id = 7", "SELECT id, name FROM accounts WHERE name = 'o''reilly' AND x <> 0x4142",
	"INSERT INTO logs (id, msg) VALUES (1, 'a\\'b\\\\c'), (2, NULL)", "UPDATE users SET name = 'ü€', data = X'00ff' WHERE id = 3",
	"SET NAMES utf8mb4", "BEGIN", "COMMIT", "SHOW WARNINGS", "select /* comment */ `weird``name` from `t 1`", "garbage that is not sql ((",
	"SELECT 1; SELECT 2", "CALL proc(1, 'x')", "select _binary'abc', 0x01, b'01', 1.5e3, -7, NULL, @@version, ?", "",
}

func genMyOK(t *rapid.T, label string, caps uint32) MyOK {
	o := MyOK{Status: mysess.StatusAutocommit}
	switch rapid.SampledFrom([]string{"zero", "zero", "small", "boundary", "big"}).Draw(t, label+".cls") {
	case "small":
		o.Affected = uint64(rapid.IntRange(0, 300).Draw(t, label+".aff"))
		o.InsertID = uint64(rapid.IntRange(0, 300).Draw(t, label+".iid"))
	case "boundary":
		o.Affected = rapid.SampledFrom(intBoundaries).Draw(t, label+".aff")
		o.InsertID = rapid.SampledFrom(intBoundaries).Draw(t, label+".iid")
	case "big":
		o.Affected = rapid.Uint64().Draw(t, label+".aff")
		o.InsertID = rapid.Uint64().Draw(t, label+".iid")
	}
	o.Warnings = uint16(rapid.SampledFrom([]int{0, 0, 1, 65535}).Draw(t, label+".warn"))
	o.Status |= uint16(rapid.SampledFrom([]int{0, 0, int(mysess.StatusInTrans), int(mysess.StatusNoIndexUsed), int(mysess.StatusQueryWasSlow | mysess.StatusNoGoodIndexUsed)}).Draw(t, label+".st"))
	if rapid.IntRange(0, 2).Draw(t, label+".hasinfo") == 0 {
		o.Info = Blob{N: rapid.SampledFrom([]int{1, 30, 250, 251, 300}).Draw(t, label+".infolen")}
	}
	if caps&mysess.CapSessionTrack != 0 && rapid.IntRange(0, 3).Draw(t, label+".track") == 0 {
		o.Status |= mysess.StatusSessionStateChanged
		o.State = Blob{N: rapid.SampledFrom([]int{0, 5, 40, 251}).Draw(t, label+".statelen"), Pat: []byte{1, 7, 3}}
	}
	return o
}

func genMyErr(t *rapid.T, label string) MyErr {
	return MyErr{Code: uint16(rapid.SampledFrom([]int{1064, 1146, 1045, 1317, 65535, 0}).Draw(t, label+".code")),
		State: rapid.SampledFrom([]string{"42000", "42S02", "HY000", "70100"}).Draw(t, label+".state"),
		Msg:   Blob{N: rapid.SampledFrom([]int{0, 1, 20, 250, 251, 512}).Draw(t, label+".msglen")}}
}

// column types a server sends, with what the binary protocol needs to know about them
var relayTypes = []byte{mysess.TypeDecimal, mysess.TypeTiny, mysess.TypeShort, mysess.TypeLong, mysess.TypeFloat, mysess.TypeDouble, mysess.TypeNull, mysess.TypeTimestamp,
	mysess.TypeLongLong, mysess.TypeInt24, mysess.TypeDate, mysess.TypeTime, mysess.TypeDatetime, mysess.TypeYear, mysess.TypeBit, mysess.TypeJSON, mysess.TypeNewDecimal,
	mysess.TypeTinyBlob, mysess.TypeMediumBlob, mysess.TypeLongBlob, mysess.TypeBlob, mysess.TypeVarString, mysess.TypeString, mysess.TypeGeometry,
	mysess.TypeBlob, mysess.TypeVarString, mysess.TypeVarString, mysess.TypeLong}

func genRelayCol(t *rapid.T, label string) MyCol {
	c := MyCol{Cfg: -1, Name: rapid.SampledFrom(identPool).Draw(t, label+".name"), Table: rapid.SampledFrom([]string{"users", "", "t 1", "u"}).Draw(t, label+".table"),
		Type: rapid.SampledFrom(relayTypes).Draw(t, label+".type"), Charset: uint16(rapid.SampledFrom([]int{63, 33, 45, 255, 8}).Draw(t, label+".cs")),
		Length: uint32(rapid.SampledFrom([]int{0, 11, 255, 65535, 1<<32 - 1}).Draw(t, label+".len"))}
	c.Flags = uint16(rapid.SampledFrom([]int{0, int(mysess.FlagNotNull), int(mysess.FlagBlob | mysess.FlagBinary), int(mysess.FlagUnsigned), 0x8000}).Draw(t, label+".flags"))
	if rapid.IntRange(0, 4).Draw(t, label+".alias") == 0 {
		c.Alias = "al_" + c.Name
	}
	return c
}

func temporalLens(typ byte) []int {
	switch typ {
	case mysess.TypeDate:
		return []int{0, 4}
	case mysess.TypeTime:
		return []int{0, 8, 12}
	}
	return []int{0, 4, 7, 11}
}

func genRelayCell(t *rapid.T, label string, typ byte, binary bool, allowHuge bool) MyCell {
	if rapid.IntRange(0, 4).Draw(t, label+".null") == 0 || typ == mysess.TypeNull {
		return MyCell{Null: true}
	}
	if binary {
		switch w := mysess.BinaryWidth(typ); {
		case w >= 0:
			return MyCell{B: Blob{N: w, Pat: rapid.SliceOfN(rapid.Byte(), 1, 8).Draw(t, label+".fixed")}}
		case w == -2:
			return MyCell{B: Blob{N: rapid.SampledFrom(temporalLens(typ)).Draw(t, label+".tlen"), Pat: []byte{0xe4, 7, 1, 2, 3, 4, 5, 6, 7, 8, 9}}}
		}
	}
	return MyCell{B: genBlob(t, label, allowHuge)}
}

func genRelaySet(t *rapid.T, label string, caps uint32, binary bool, cols []MyCol, huge *bool) MySet {
	s := MySet{Cols: cols}
	if s.Cols == nil {
		n := rapid.IntRange(1, 5).Draw(t, label+".ncols")
		if rapid.IntRange(0, 40).Draw(t, label+".wide") == 0 {
			n = rapid.SampledFrom([]int{250, 251, 252, 300}).Draw(t, label+".nwide")
		}
		for i := 0; i < n; i++ {
			s.Cols = append(s.Cols, genRelayCol(t, fmt.Sprintf("%s.c%d", label, i)))
		}
	}
	nrows := rapid.IntRange(0, 4).Draw(t, label+".nrows")
	for r := 0; r < nrows; r++ {
		var row []MyCell
		for i, c := range s.Cols {
			cell := genRelayCell(t, fmt.Sprintf("%s.r%dc%d", label, r, i), c.Type, binary, !*huge)
			if cell.B.N >= 1<<24-2 {
				*huge = true
			}
			row = append(row, cell)
		}
		s.Rows = append(s.Rows, row)
	}
	s.End = genMyOK(t, label+".end", caps)
	s.End.Affected, s.End.InsertID = 0, 0
	if caps&mysess.CapDeprecateEOF == 0 {
		s.End.Info, s.End.State = Blob{}, Blob{}
		s.End.Status &^= mysess.StatusSessionStateChanged
	}
	if rapid.IntRange(0, 12).Draw(t, label+".errend") == 0 {
		s.ErrEnd = true
		s.EndErr = genMyErr(t, label+".enderr")
	}
	return s
}

func genMyAuth(t *rapid.T) MyAuth {
	a := MyAuth{Kind: rapid.SampledFrom([]string{"ok", "ok", "ok", "switch", "switch", "fast", "full", "err"}).Draw(t, "auth.kind"),
		User: rapid.SampledFrom([]string{"root", "app", "ü"}).Draw(t, "auth.user"), DB: rapid.SampledFrom([]string{"test", "db1"}).Draw(t, "auth.db")}
	switch a.Kind {
	case "switch":
		// mysql_native_password: 20 bytes of SHA1 scramble, or nothing at all for an empty password
		a.Resp = Blob{N: rapid.SampledFrom([]int{20, 20, 20, 0, 32}).Draw(t, "auth.resplen"), Pat: rapid.SliceOfN(rapid.Byte(), 1, 4).Draw(t, "auth.resp")}
		a.Server = Blob{N: 20, Pat: rapid.SliceOfN(rapid.Byte(), 1, 4).Draw(t, "auth.srv")}
	case "full":
		a.Resp = Blob{N: 256, Pat: rapid.SliceOfN(rapid.Byte(), 1, 4).Draw(t, "auth.resp")}
		a.Server = Blob{N: 451, Pat: []byte("-----BEGIN PUBLIC KEY-----\n")}
	}
	return a
}

func genMyRelayCase(t *rapid.T) MyCase {
	c := MyCase{Auth: genMyAuth(t)}
	c.ServerCaps, c.ClientCaps = genCaps(t)
	if c.Auth.Kind == "err" {
		return c
	}
	caps := c.ClientCaps
	n := rapid.IntRange(1, 7).Draw(t, "nops")
	huge := false
	type prep struct {
		op, nparams int
		cols        []MyCol
	}
	var preps []prep
	executed := map[int]bool{}
	lastTypes := map[int][]MyParam{}
	for i := 0; i < n; i++ {
		l := fmt.Sprintf("op%d", i)
		kinds := []string{"query", "query", "query", "query", "prepare", "prepare", "prepare", "ping", "initdb", "stat", "resetconn", "setoption"}
		if len(preps) > 0 {
			kinds = []string{"query", "query", "prepare", "ping", "initdb", "stat", "resetconn", "setoption", "execute", "execute", "execute", "execute", "execute", "execute", "close", "reset", "longdata"}
		}
		if i == n-1 {
			kinds = append(kinds, "quit", "quit")
		}
		op := MyOp{Kind: rapid.SampledFrom(kinds).Draw(t, l+".kind")}
		switch op.Kind {
		case "query":
			op.SQL = rapid.SampledFrom(mySQLPool).Draw(t, l+".sql")
			if rapid.IntRange(0, 3).Draw(t, l+".pad") == 0 {
				op.Pad = genBlob(t, l+".pad", !huge)
				if op.Pad.N >= 1<<24-2 {
					huge = true
				}
			}
			kinds := []string{"ok", "ok", "err", "sets", "sets", "sets"}
			if caps&mysess.CapLocalFiles != 0 {
				kinds = append(kinds, "localinfile")
			}
			op.Resp.Kind = rapid.SampledFrom(kinds).Draw(t, l+".resp")
			switch op.Resp.Kind {
			case "ok":
				op.Resp.OK = genMyOK(t, l+".ok", caps)
			case "err":
				op.Resp.Err = genMyErr(t, l+".err")
			case "sets":
				ns := 1
				if caps&mysess.CapMultiResults != 0 && rapid.IntRange(0, 3).Draw(t, l+".multi") == 0 {
					ns = rapid.IntRange(2, 3).Draw(t, l+".nsets")
				}
				for s := 0; s < ns; s++ {
					set := genRelaySet(t, fmt.Sprintf("%s.s%d", l, s), caps, false, nil, &huge)
					op.Resp.Sets = append(op.Resp.Sets, set)
					if set.ErrEnd {
						break
					}
				}
				// a multi-statement / CALL reply may end with a plain OK
				if len(op.Resp.Sets) > 1 && !op.Resp.Sets[len(op.Resp.Sets)-1].ErrEnd && rapid.Bool().Draw(t, l+".trailok") {
					op.Resp.OK = genMyOK(t, l+".trail", caps)
					op.Resp.Kind = "sets+ok"
				}
			case "localinfile":
				op.SQL = "LOAD DATA LOCAL INFILE 'f.csv' INTO TABLE u"
				op.Resp.File = Blob{N: rapid.SampledFrom([]int{0, 10, 300}).Draw(t, l+".filelen")}
				op.Resp.OK = genMyOK(t, l+".ok", caps)
			}
		case "prepare":
			op.SQL = rapid.SampledFrom([]string{"SELECT id, name FROM users WHERE id = ? AND name <> ?", "SELECT * FROM users WHERE id = ?", "INSERT INTO logs (id, msg) VALUES (?, ?)", "SELECT 1", "SELECT name FROM users", "UPDATE users SET name = ? WHERE id = 1", "DO ?"}).Draw(t, l+".sql")
			if rapid.IntRange(0, 6).Draw(t, l+".fail") == 0 {
				op.Resp.Kind = "err"
				op.Resp.Err = genMyErr(t, l+".err")
				break
			}
			op.Resp.Kind = "prepok"
			op.Resp.NParams = strings.Count(op.SQL, "?")
			if strings.HasPrefix(op.SQL, "SELECT") {
				nc := rapid.IntRange(1, 4).Draw(t, l+".ncols")
				for j := 0; j < nc; j++ {
					op.Resp.Cols = append(op.Resp.Cols, genRelayCol(t, fmt.Sprintf("%s.c%d", l, j)))
				}
			}
			op.Resp.OK.Warnings = uint16(rapid.SampledFrom([]int{0, 0, 2}).Draw(t, l+".warn"))
			preps = append(preps, prep{op: i, nparams: op.Resp.NParams, cols: op.Resp.Cols})
		case "execute":
			p := preps[rapid.IntRange(0, len(preps)-1).Draw(t, l+".stmt")]
			op.Stmt = p.op
			// the types are sent with the first execution at least (a server has nothing to interpret the values with otherwise)
			op.NewParams = rapid.IntRange(0, 3).Draw(t, l+".newparams") > 0 || !executed[p.op]
			executed[p.op] = true
			for j := 0; j < p.nparams; j++ {
				pl := fmt.Sprintf("%s.p%d", l, j)
				typ := rapid.SampledFrom([]byte{mysess.TypeVarString, mysess.TypeBlob, mysess.TypeLong, mysess.TypeLongLong, mysess.TypeTiny, mysess.TypeDouble, mysess.TypeNull, mysess.TypeString, mysess.TypeDatetime}).Draw(t, pl+".type")
				uns := rapid.Bool().Draw(t, pl+".uns")
				if !op.NewParams {
					// types that are not sent are those of the previous execution
					typ, uns = lastTypes[p.op][j].Type, lastTypes[p.op][j].Unsigned
				}
				cell := genRelayCell(t, pl, typ, true, !huge)
				if cell.B.N >= 1<<24-2 {
					huge = true
				}
				op.Params = append(op.Params, MyParam{Type: typ, Unsigned: uns, Null: cell.Null, B: cell.B})
			}
			lastTypes[p.op] = op.Params
			op.Resp.Kind = rapid.SampledFrom([]string{"ok", "err", "sets", "sets", "sets", "sets"}).Draw(t, l+".resp")
			if len(p.cols) == 0 && op.Resp.Kind == "sets" {
				op.Resp.Kind = "ok"
			}
			switch op.Resp.Kind {
			case "ok":
				op.Resp.OK = genMyOK(t, l+".ok", caps)
			case "err":
				op.Resp.Err = genMyErr(t, l+".err")
			case "sets":
				op.Resp.Sets = []MySet{genRelaySet(t, l+".s0", caps, true, p.cols, &huge)}
			}
		case "close", "longdata":
			op.Stmt = preps[rapid.IntRange(0, len(preps)-1).Draw(t, l+".stmt")].op
			op.Resp.Kind = "none"
			if op.Kind == "longdata" {
				op.Pad = genBlob(t, l+".data", false)
			}
		case "reset":
			op.Stmt = preps[rapid.IntRange(0, len(preps)-1).Draw(t, l+".stmt")].op
			op.Resp.Kind = rapid.SampledFrom([]string{"ok", "ok", "err"}).Draw(t, l+".resp")
			op.Resp.OK = MyOK{Status: mysess.StatusAutocommit}
			op.Resp.Err = genMyErr(t, l+".err")
		case "ping", "resetconn":
			op.Resp.Kind = "ok"
			op.Resp.OK = MyOK{Status: mysess.StatusAutocommit}
		case "initdb":
			op.SQL = rapid.SampledFrom([]string{"test", "db_ü", ""}).Draw(t, l+".db")
			op.Resp.Kind = rapid.SampledFrom([]string{"ok", "ok", "err"}).Draw(t, l+".resp")
			op.Resp.OK = genMyOK(t, l+".ok", caps)
			op.Resp.Err = genMyErr(t, l+".err")
		case "stat":
			op.Resp.Kind = "stat"
			op.Resp.OK.Info = Blob{N: rapid.SampledFrom([]int{1, 90, 251}).Draw(t, l+".statlen"), Pat: []byte("Uptime: ")}
		case "setoption":
			op.Resp.Kind = "eof"
		case "quit":
			op.Resp.Kind = "none"
		}
		c.Ops = append(c.Ops, op)
	}
	return c
}

// ---------------------------------------------------------------------------------------------
// script: the case rendered into turns of packets by the reference codec

type spkt struct {
	seq     byte
	payload []byte
	label   string
	// rewrite layer: how the client must see this packet
	expRow  []expCell // row of a configured result set
	rowBin  bool
	rowSet  *setInfo
	expCol  *mysess.ColumnDef // column definition the proxy may re-type
	colRole string
	// the result set holds a value of this column that cannot be revealed under the ciphertext policy: the definition
	// may keep (be rolled back to) the database's type
	mayKeepType bool
	// client side: how the database must see this packet
	insert *insertInfo
}

type expCell struct {
	dbLen   int // length of what the database sent
	null    bool
	exact   bool // false: any well-formed value
	b       []byte
	changed bool
	cls     string
}

type setInfo struct {
	dbTypes []byte
	roles   []string
	// mixedInt: a binary result set with an integer column under the ciphertext policy that holds both rows delivered as
	// integers and rows kept as stored (see mixedIntColumn)
	mixedInt bool
}

type insertInfo struct {
	cells []MyCell
	roles []string
	exec  bool
	types []mysess.Param
}

type turn struct {
	client []spkt
	server []spkt
	label  string
	close  bool // server closes after reading the client's packets (COM_QUIT)
	op     int  // index of the command in the case, -1 = connection phase
}

func (c MyCase) effCaps() uint32 { return c.ClientCaps & c.ServerCaps }

func (o MyOK) encode(header byte, caps uint32) []byte {
	return mysess.OK{Header: header, AffectedRows: o.Affected, LastInsertID: o.InsertID, Status: o.Status, Warnings: o.Warnings, Info: o.Info.Bytes(), SessionState: o.State.Bytes()}.Encode(caps)
}

func (e MyErr) encode(caps uint32) []byte {
	return mysess.Err{Code: e.Code, State: e.State, Message: string(e.Msg.Bytes())}.Encode(caps)
}

func (c MyCol) def() mysess.ColumnDef {
	name := c.Name
	if c.Alias != "" {
		name = c.Alias
	}
	schema := "db1"
	if c.Table == "" {
		schema = ""
	}
	return mysess.ColumnDef{Schema: schema, Table: c.Table, OrgTable: c.Table, Name: name, OrgName: c.Name, Charset: c.Charset, Length: c.Length, Type: c.Type, Flags: c.Flags}
}

func fit(b []byte, w int) []byte {
	out := make([]byte, w)
	copy(out, b)
	return out
}

type world struct {
	prot func(kind string, plain []byte) []byte
}

// dbValue renders what the database sends for a cell.
func (w *world) dbValue(cell MyCell, typ byte, binary bool) mysess.Value {
	if cell.Null {
		return mysess.Value{Null: true}
	}
	b := cell.B.Bytes()
	if cell.Prot != "" {
		b = w.prot(cell.Prot, b)
	}
	if binary {
		if wd := mysess.BinaryWidth(typ); wd >= 0 {
			b = fit(b, wd)
			if typ == mysess.TypeFloat || typ == mysess.TypeDouble {
				b[wd-1] &^= 0x40 // a finite number: MySQL stores neither NaN nor infinities
			}
		}
	}
	if b == nil {
		b = []byte{}
	}
	return mysess.Value{B: b}
}

func roleType(role string) (byte, bool) {
	switch role {
	case "int32":
		return mysess.TypeLong, true
	case "int64":
		return mysess.TypeLongLong, true
	case "str":
		return mysess.TypeString, true
	case "bytes":
		return mysess.TypeBlob, true
	}
	return 0, false
}

func defaultBytes(cfg MyCfgCol) []byte {
	if cfg.Role == "bytes" {
		b, _ := base64.StdEncoding.DecodeString(cfg.Default)
		return b
	}
	return []byte(cfg.Default)
}

// expected value of a cell of a configured column as the owner must receive it
func expectCell(cfg MyCfgCol, cell MyCell, dbVal []byte, binary bool) expCell {
	if cell.Null {
		return expCell{null: true, exact: true, cls: "null"}
	}
	typed := cfg.Role == "int32" || cfg.Role == "int64" || cfg.Role == "str" || cfg.Role == "bytes"
	intRole := cfg.Role == "int32" || cfg.Role == "int64"
	enc := func(text []byte) []byte {
		if !intRole || !binary {
			return text
		}
		bits := 32
		typ := mysess.TypeLong
		if cfg.Role == "int64" {
			bits, typ = 64, mysess.TypeLongLong
		}
		n, err := strconv.ParseInt(string(text), 10, bits)
		if err != nil {
			return nil
		}
		return mysess.IntBytes(typ, n)
	}
	switch {
	case cfg.Role == "plain":
		return expCell{exact: true, b: dbVal, cls: "unchanged"}
	case cell.Prot != "":
		plain := cell.B.Bytes()
		e := expCell{exact: true, b: enc(plain), changed: true, cls: "shrink"}
		if e.b == nil {
			e.exact = false
		}
		return e
	case len(dbVal) == 0 && intRole:
		// an empty string stored in a column declared as integer has no integer form: only well-formedness is required
		return expCell{exact: false, cls: "empty-in-integer-column"}
	case len(dbVal) == 0:
		return expCell{exact: true, b: []byte{}, cls: "empty"}
	case typed && cfg.keepsCiphertext() && !intParses(cfg, dbVal):
		// a stored value that cannot be revealed under the ciphertext policy: handed over as it is stored. (In the binary
		// protocol an integer column can do that only under the database's own column type: the row must re-parse against
		// the definitions the client received, whichever type they announce.)
		if intRole {
			return expCell{exact: true, b: dbVal, cls: clsKeptInt}
		}
		return expCell{exact: true, b: dbVal, cls: "ciphertext-kept"}
	case typed:
		// a stored value that does not decrypt: the configured default value replaces it
		if intRole {
			bits := 32
			if cfg.Role == "int64" {
				bits = 64
			}
			if _, err := strconv.ParseInt(string(dbVal), 10, bits); err == nil {
				return expCell{exact: true, b: enc(dbVal), cls: "unchanged"}
			}
		}
		d := defaultBytes(cfg)
		cls := "same-length"
		if len(d) > len(dbVal) {
			cls = "grow"
		} else if len(d) < len(dbVal) {
			cls = "shrink"
		}
		return expCell{exact: true, b: enc(d), changed: true, cls: cls}
	}
	return expCell{exact: true, b: dbVal, cls: "unchanged"}
}

const clsKeptInt = "ciphertext-kept-in-integer-column"

// intParses tells whether a stored value is the decimal text of an integer of the column's width (such a value is
// converted like a revealed one whether it was decrypted or not).
func intParses(cfg MyCfgCol, dbVal []byte) bool {
	bits := 32
	switch cfg.Role {
	case "int32":
	case "int64":
		bits = 64
	default:
		return false
	}
	_, err := strconv.ParseInt(string(dbVal), 10, bits)
	return err == nil
}

// cellFate tells what becomes of a cell of an integer column under the ciphertext policy: "int" = delivered as an
// integer (revealed, or stored as decimal text), "kept" = cannot be revealed and is handed over as stored, "" = NULL /
// empty / another kind of column.
func cellFate(cfg MyCfgCol, cell MyCell) string {
	if !cfg.intRole() || !cfg.keepsCiphertext() || cell.Null || cell.B.N == 0 {
		return ""
	}
	if cell.Prot != "" || intParses(cfg, cell.B.Bytes()) {
		return "int"
	}
	return "kept"
}

// mixedIntColumn tells whether column i of a binary result set is an integer column under the ciphertext policy whose
// rows are partly delivered as integers and partly kept as stored: one column definition cannot describe both encodings
// (open finding of C19, malformed-row:binary:integer-column-with-revealed-and-ciphertext-rows). The generator never
// builds this shape; a hand-written case that has it is named by its own signature.
func mixedIntColumn(cfg MyCfgCol, rows [][]MyCell, i int) bool {
	fates := map[string]bool{}
	for _, row := range rows {
		if i < len(row) {
			fates[cellFate(cfg, row[i])] = true
		}
	}
	return fates["int"] && fates["kept"]
}

func (c MyCase) cfgOf(col MyCol) (MyCfgCol, bool) {
	if col.Cfg >= 0 && col.Cfg < len(c.Schema) {
		return c.Schema[col.Cfg], true
	}
	return MyCfgCol{Role: "plain"}, false
}

func (c MyCase) renderSet(w *world, s MySet, binary bool, last bool, trailing bool, seq *byte, out *[]spkt, tag string) {
	caps := c.effCaps()
	add := func(p spkt) {
		p.seq = *seq
		*seq += byte(1 + len(p.payload)/mysess.MaxFrame)
		*out = append(*out, p)
	}
	add(spkt{payload: mysess.AppendLenEncInt(nil, uint64(len(s.Cols))), label: tag + "column-count"})
	info := &setInfo{}
	configured := false
	for ci, col := range s.Cols {
		d := col.def()
		p := spkt{payload: d.Encode(), label: tag + "column-def"}
		cfg, ok := c.cfgOf(col)
		info.dbTypes = append(info.dbTypes, col.Type)
		info.roles = append(info.roles, cfg.Role)
		if ok {
			configured = true
			if _, typed := roleType(cfg.Role); typed {
				dd := d
				p.expCol, p.colRole = &dd, cfg.Role
				if cfg.keepsCiphertext() {
					for _, row := range s.Rows {
						if ci < len(row) && !row[ci].Null && row[ci].Prot == "" && row[ci].B.N > 0 && !intParses(cfg, row[ci].B.Bytes()) {
							p.mayKeepType = true
						}
					}
				}
			}
			if binary && mixedIntColumn(cfg, s.Rows, ci) {
				info.mixedInt = true
			}
		}
		add(p)
	}
	if caps&mysess.CapDeprecateEOF == 0 {
		add(spkt{payload: mysess.EOF{Status: mysess.StatusAutocommit}.Encode(caps), label: tag + "eof-after-columns"})
	}
	for _, row := range s.Rows {
		vals := make([]mysess.Value, len(row))
		var exp []expCell
		for i, cell := range row {
			vals[i] = w.dbValue(cell, s.Cols[i].Type, binary)
			if configured {
				cfg, _ := c.cfgOf(s.Cols[i])
				e := expectCell(cfg, cell, vals[i].B, binary)
				e.dbLen = len(vals[i].B)
				exp = append(exp, e)
			}
		}
		p := spkt{label: tag + "row-text"}
		if binary {
			types := make([]byte, len(s.Cols))
			for i, col := range s.Cols {
				types[i] = col.Type
			}
			p.payload = mysess.EncodeBinaryRow(types, vals)
			p.label = tag + "row-binary"
		} else {
			p.payload = mysess.EncodeTextRow(vals)
		}
		if configured {
			p.expRow, p.rowBin, p.rowSet = exp, binary, info
		}
		add(p)
	}
	end := s.End
	if !last || trailing {
		end.Status |= mysess.StatusMoreResultsExists
	}
	switch {
	case s.ErrEnd:
		add(spkt{payload: s.EndErr.encode(caps), label: tag + "err-ends-rows"})
	case caps&mysess.CapDeprecateEOF != 0:
		add(spkt{payload: end.encode(0xfe, caps), label: tag + "ok-ends-rows"})
	default:
		add(spkt{payload: mysess.EOF{Warnings: end.Warnings, Status: end.Status}.Encode(caps), label: tag + "eof-ends-rows"})
	}
}

func sqlQuote(b []byte) string {
	var sb strings.Builder
	sb.WriteByte('\'')
	for _, ch := range b {
		switch ch {
		case '\'':
			sb.WriteString("''")
		case '\\':
			sb.WriteString("\\\\")
		case 0:
			sb.WriteString("\\0")
		case '\n':
			sb.WriteString("\\n")
		case '\r':
			sb.WriteString("\\r")
		case 26:
			sb.WriteString("\\Z")
		default:
			sb.WriteByte(ch)
		}
	}
	sb.WriteByte('\'')
	return sb.String()
}

func (op MyOp) sqlText() []byte {
	out := []byte(op.SQL)
	if op.Pad.N > 0 || len(op.Pad.Pat) > 0 {
		pad := op.Pad.Bytes()
		for i := range pad {
			pad[i] = 'a' + pad[i]%26
		}
		out = append(out, " /* "...)
		out = append(out, pad...)
		out = append(out, " */"...)
	}
	return out
}

// script renders the case. Statement ids are assigned by the (scripted) server in order of successful prepares.
func (c MyCase) script(w *world) []turn {
	caps := c.effCaps()
	var turns []turn
	hs := mysess.Handshake{ServerVersion: "8.0.33-verif", ConnID: 77, AuthData: []byte("0123456789abcdefghij"), Caps: c.ServerCaps, Charset: 45, Status: mysess.StatusAutocommit, AuthPlugin: "caching_sha2_password"}
	turns = append(turns, turn{label: "handshake", server: []spkt{{seq: 0, payload: hs.Encode(), label: "handshake"}}})
	resp := mysess.HandshakeResponse{Caps: c.ClientCaps, MaxPacket: 1 << 24, Charset: 45, User: c.Auth.User, Auth: bytes.Repeat([]byte{0xa5}, 20), Database: c.Auth.DB,
		AuthPlugin: "caching_sha2_password", Attrs: [][2]string{{"_client_name", "libmysql"}, {"_pid", "4242"}, {"program_name", strings.Repeat("p", 260)}}}
	first := turn{label: "handshake-response", client: []spkt{{seq: 1, payload: resp.Encode(), label: "handshake-response"}}}
	okp := MyOK{Status: mysess.StatusAutocommit}.encode(0, caps)
	switch c.Auth.Kind {
	case "ok":
		first.server = []spkt{{seq: 2, payload: okp, label: "auth-ok"}}
		turns = append(turns, first)
	case "err":
		first.server = []spkt{{seq: 2, payload: MyErr{Code: 1045, State: "28000", Msg: Blob{N: 40}}.encode(caps), label: "auth-err"}}
		first.close = true
		turns = append(turns, first)
	case "fast":
		first.server = []spkt{{seq: 2, payload: []byte{1, 3}, label: "auth-more-data"}, {seq: 3, payload: okp, label: "auth-ok"}}
		turns = append(turns, first)
	case "switch":
		sw := append([]byte{0xfe}, "mysql_native_password\x00"...)
		sw = append(append(sw, c.Auth.Server.Bytes()...), 0)
		first.server = []spkt{{seq: 2, payload: sw, label: "auth-switch-request"}}
		l := "auth-switch-response"
		if c.Auth.Resp.N == 0 {
			l += ":empty"
		}
		turns = append(turns, first, turn{label: l, client: []spkt{{seq: 3, payload: c.Auth.Resp.Bytes(), label: l}}, server: []spkt{{seq: 4, payload: okp, label: "auth-ok"}}})
	case "full":
		first.server = []spkt{{seq: 2, payload: []byte{1, 4}, label: "auth-more-data"}}
		turns = append(turns, first,
			turn{label: "auth-pubkey-request", client: []spkt{{seq: 3, payload: []byte{2}, label: "auth-pubkey-request"}}, server: []spkt{{seq: 4, payload: append([]byte{1}, c.Auth.Server.Bytes()...), label: "auth-more-data"}}},
			turn{label: "auth-encrypted-password", client: []spkt{{seq: 5, payload: c.Auth.Resp.Bytes(), label: "auth-encrypted-password"}}, server: []spkt{{seq: 6, payload: okp, label: "auth-ok"}}})
	}
	for i := range turns {
		turns[i].op = -1
	}
	stmtIDs := map[int]uint32{}
	stmtCols := map[int][]MyCol{}
	nextID := uint32(1)
	for i, op := range c.Ops {
		tag := op.Kind + ":"
		tn := turn{label: op.Kind, op: i}
		var cmd []byte
		cl := spkt{label: "com-" + op.Kind}
		switch op.Kind {
		case "query":
			if op.Insert != nil {
				sql, info := c.renderInsert(op)
				cmd = append([]byte{mysess.ComQuery}, sql...)
				cl.insert = info
			} else {
				cmd = append([]byte{mysess.ComQuery}, op.sqlText()...)
			}
		case "prepare":
			cmd = append([]byte{mysess.ComStmtPrepare}, op.sqlText()...)
		case "execute":
			e := mysess.Execute{StmtID: stmtIDs[op.Stmt], NewParams: op.NewParams}
			for _, p := range op.Params {
				b := p.B.Bytes()
				if wd := mysess.BinaryWidth(p.Type); wd >= 0 {
					b = fit(b, wd)
					if p.Type == mysess.TypeFloat || p.Type == mysess.TypeDouble {
						b[wd-1] &^= 0x40
					}
				}
				e.Params = append(e.Params, mysess.Param{Type: p.Type, Unsigned: p.Unsigned, Null: p.Null, B: b})
			}
			cmd = e.Encode()
			if op.Insert != nil {
				roles := []string{"plain"}
				for _, cfg := range c.Schema {
					roles = append(roles, cfg.Role)
				}
				cl.insert = &insertInfo{cells: op.Insert, roles: roles, exec: true, types: e.Params}
			}
		case "close":
			cmd = mysess.StmtIDCommand(mysess.ComStmtClose, stmtIDs[op.Stmt])
		case "reset":
			cmd = mysess.StmtIDCommand(mysess.ComStmtReset, stmtIDs[op.Stmt])
		case "longdata":
			cmd = append(mysess.StmtIDCommand(mysess.ComStmtSendLong, stmtIDs[op.Stmt]), 0, 0)
			cmd = append(cmd, op.Pad.Bytes()...)
		case "ping":
			cmd = []byte{mysess.ComPing}
		case "initdb":
			cmd = append([]byte{mysess.ComInitDB}, op.SQL...)
		case "stat":
			cmd = []byte{mysess.ComStatistics}
		case "resetconn":
			cmd = []byte{mysess.ComResetConn}
		case "setoption":
			cmd = []byte{mysess.ComSetOption, 0, 0}
		case "quit":
			cmd = []byte{mysess.ComQuit}
			tn.close = true
		}
		cl.payload = cmd
		tn.client = []spkt{cl}
		seq := byte(1 + len(cmd)/mysess.MaxFrame)
		add := func(payload []byte, label string) {
			tn.server = append(tn.server, spkt{seq: seq, payload: payload, label: tag + label})
			seq += byte(1 + len(payload)/mysess.MaxFrame)
		}
		switch op.Resp.Kind {
		case "ok":
			add(op.Resp.OK.encode(0, caps), "ok")
		case "err":
			add(op.Resp.Err.encode(caps), "err")
		case "eof":
			add(mysess.EOF{Status: mysess.StatusAutocommit}.Encode(caps), "eof")
		case "stat":
			add(op.Resp.OK.Info.Bytes(), "statistics-string")
		case "sets", "sets+ok":
			binary := op.Kind == "execute"
			for si, s := range op.Resp.Sets {
				if binary && s.Cols == nil {
					s.Cols = stmtCols[op.Stmt]
				}
				stag := tag
				if si > 0 {
					stag = fmt.Sprintf("%sset%d:", tag, si+1)
				}
				c.renderSet(w, s, binary, si == len(op.Resp.Sets)-1, op.Resp.Kind == "sets+ok", &seq, &tn.server, stag)
			}
			if op.Resp.Kind == "sets+ok" {
				add(op.Resp.OK.encode(0, caps), "trailing-ok")
			}
		case "prepok":
			id := nextID
			nextID++
			stmtIDs[i] = id
			stmtCols[i] = op.Resp.Cols
			add(mysess.PrepareOK{StmtID: id, Columns: uint16(len(op.Resp.Cols)), Params: uint16(op.Resp.NParams), Warnings: op.Resp.OK.Warnings}.Encode(), "prepare-ok")
			for j := 0; j < op.Resp.NParams; j++ {
				add(mysess.ColumnDef{Name: "?", Charset: 63, Type: mysess.TypeVarString, Flags: mysess.FlagBinary}.Encode(), "param-def")
			}
			if op.Resp.NParams > 0 && caps&mysess.CapDeprecateEOF == 0 {
				add(mysess.EOF{Status: mysess.StatusAutocommit}.Encode(caps), "eof-after-params")
			}
			for _, col := range op.Resp.Cols {
				d := col.def()
				p := spkt{seq: seq, payload: d.Encode(), label: tag + "column-def"}
				if cfg, ok := c.cfgOf(col); ok {
					if _, typed := roleType(cfg.Role); typed {
						dd := d
						p.expCol, p.colRole = &dd, cfg.Role
					}
				}
				tn.server = append(tn.server, p)
				seq++
			}
			if len(op.Resp.Cols) > 0 && caps&mysess.CapDeprecateEOF == 0 {
				add(mysess.EOF{Status: mysess.StatusAutocommit}.Encode(caps), "eof-after-columns")
			}
		case "localinfile":
			add(append([]byte{0xfb}, "f.csv"...), "local-infile-request")
			turns = append(turns, tn)
			// the client uploads the file (one data packet unless it is empty) and an empty packet; the server answers OK
			up := turn{label: "local-infile-upload", op: i}
			s := seq
			if op.Resp.File.N > 0 {
				up.client = append(up.client, spkt{seq: s, payload: op.Resp.File.Bytes(), label: "local-infile-data"})
				s++
			}
			up.client = append(up.client, spkt{seq: s, payload: []byte{}, label: "local-infile-end:empty"})
			up.server = []spkt{{seq: s + 1, payload: op.Resp.OK.encode(0, caps), label: tag + "ok"}}
			tn = up
		}
		turns = append(turns, tn)
	}
	return turns
}

// ---------------------------------------------------------------------------------------------
// engine

type myRun struct {
	clientSent, clientRecv, dbRecv, dbSent []byte
	stage                                  string // label of the turn/packet where the client stopped, "" = played to the end
	stageOp                                int
	err                                    error
	dbErr                                  error
	panics                                 []string
	proxyErrs                              []string
}

func frames(ps []spkt) []byte {
	var out []byte
	for _, p := range ps {
		out, _ = mysess.AppendPacket(out, p.seq, p.payload)
	}
	return out
}

func schemaYAML(schema []MyCfgCol) string {
	if schema == nil {
		return "schemas: []\n"
	}
	var b strings.Builder
	b.WriteString("schemas:\n  - table: t\n    columns:\n      - id\n")
	for i := range schema {
		fmt.Fprintf(&b, "      - c%d\n", i)
	}
	b.WriteString("    encrypted:\n")
	n := 0
	for i, c := range schema {
		if c.Role == "plain" {
			continue
		}
		n++
		fmt.Fprintf(&b, "      - column: c%d\n", i)
		if c.Envelope != "" {
			fmt.Fprintf(&b, "        crypto_envelope: %s\n", c.Envelope)
		}
		switch {
		case c.Role == "enc":
		case c.OnFail == "ciphertext":
			fmt.Fprintf(&b, "        data_type: %s\n        response_on_fail: ciphertext\n", c.Role)
		case c.OnFail == "unset":
			fmt.Fprintf(&b, "        data_type: %s\n", c.Role)
		default:
			fmt.Fprintf(&b, "        data_type: %s\n        response_on_fail: default_value\n        default_data_value: %s\n", c.Role, strconv.Quote(c.Default))
		}
	}
	if n == 0 {
		b.WriteString("      []\n")
	}
	return b.String()
}

func runMy(c MyCase, turns []turn, timeout time.Duration) (*myRun, error) {
	w := fix.TheWorld()
	done := make(chan error, 1)
	handler := func(conn net.Conn) {
		var err error
		defer func() { done <- err }()
		for _, tn := range turns {
			for range tn.client {
				conn.SetReadDeadline(time.Now().Add(timeout))
				if _, err = mysess.ReadPacket(conn); err != nil {
					return
				}
			}
			if len(tn.server) > 0 {
				conn.SetWriteDeadline(time.Now().Add(timeout))
				if _, err = conn.Write(frames(tn.server)); err != nil {
					return
				}
			}
			if tn.close {
				conn.Close()
				return
			}
		}
	}
	s, err := mysess.Start(mysess.Config{SchemaYAML: schemaYAML(c.Schema), KeyStore: w.KS, ClientID: w.Alice, DBHandler: handler, NoHandshake: true, Timeout: timeout})
	if err != nil {
		return nil, err
	}
	defer s.Close()
	r := &myRun{}
play:
	for _, tn := range turns {
		if len(tn.client) > 0 {
			if err := s.SendRaw(frames(tn.client)); err != nil {
				r.stage, r.stageOp, r.err = tn.client[0].label, tn.op, err
				break
			}
		}
		for _, p := range tn.server {
			if _, err := s.ReadPacket(); err != nil {
				r.stage, r.stageOp, r.err = p.label, tn.op, err
				break play
			}
		}
	}
	// let the database side finish (it reads the last command, e.g. COM_QUIT / COM_STMT_CLOSE without reply)
	select {
	case r.dbErr = <-done:
	case <-time.After(timeout):
		r.dbErr = mysess.ErrTimeout
	}
	r.clientSent, r.clientRecv = s.ClientStreams()
	r.dbRecv, r.dbSent = s.DBStreams()
	r.panics = s.Panics()
	r.proxyErrs = s.ProxyErrors()
	return r, nil
}

// labelAt finds the scripted packet that covers offset off of a stream made of the given packets.
func labelAt(ps []spkt, off int) string {
	pos := 0
	for _, p := range ps {
		n := len(p.payload) + 4*(1+len(p.payload)/mysess.MaxFrame)
		if off < pos+n {
			return p.label
		}
		pos += n
	}
	return "past-the-end"
}

func baseLabel(l string) string {
	// "query:set2:row-text" -> keep; strip nothing: labels are classes already
	return l
}

// compareRelay: both directions byte for byte.
func compareRelay(vs *hx.Vs, dir string, sent, recv []byte, script []spkt, broken bool) {
	if d := firstDiff(sent, recv); d >= 0 {
		n := len(sent)
		if len(recv) < n {
			n = len(recv)
		}
		if d < n {
			vs.Add("relay-differs:"+dir+":"+baseLabel(labelAt(script, d)), "%s: byte %d of the stream differs (packet %s): sent %s, arrived %s (sent %d bytes, arrived %d)", dir, d, labelAt(script, d), around(sent, d), around(recv, d), len(sent), len(recv))
			return
		}
		if len(recv) > len(sent) {
			vs.Add("relay-extra-bytes:"+dir, "%s: %d bytes arrived that were never sent: %s", dir, len(recv)-len(sent), around(recv, d))
			return
		}
		if !broken {
			vs.Add("not-relayed:"+dir+":"+baseLabel(labelAt(script, d)), "%s: %d of %d bytes sent never arrived, starting in packet %s", dir, len(sent)-len(recv), len(sent), labelAt(script, d))
		}
	}
}

func isHugeCase(turns []turn) bool {
	for _, tn := range turns {
		for _, p := range append(append([]spkt{}, tn.client...), tn.server...) {
			if len(p.payload) >= 1<<20 {
				return true
			}
		}
	}
	return false
}

func (c MyCase) hasEmptyIntCell() bool {
	for _, op := range c.Ops {
		if op.Kind != "execute" {
			continue
		}
		for _, set := range op.Resp.Sets {
			for _, row := range set.Rows {
				for ci, cell := range row {
					cfg, ok := c.cfgOf(set.Cols[ci])
					if ok && (cfg.Role == "int32" || cfg.Role == "int64") && !cell.Null && cell.B.N == 0 {
						return true
					}
				}
			}
		}
	}
	return false
}

const sigEmptyInt = "malformed-row:binary:empty-in-integer-column"

const sigExecNoTypes = "handler-panic:mysql.(*QueryDataEncryptor).encryptValuesWithPlaceholders"

// CheckMy plays the case and applies the oracles. It returns the violations, the classes seen and whether the
// case was non-trivial. A violation of the rewrite layer is confirmed by playing the case once more: the proxy's two
// goroutines share the response handler without synchronisation (see TestMySQLBackToBack), which makes a result set
// pass unprocessed now and then; such an unstable verdict is noted and counted, not reported here.
func CheckMy(c MyCase) (hx.Vs, []string, bool) {
	vs, cl, nt := checkMyOnce(c)
	if len(vs) > 0 && c.Schema != nil && !strings.HasPrefix(vs[0].Sig, "harness:") {
		vs2, cl2, nt2 := checkMyOnce(c)
		if len(vs2) == 0 || vs2[0].Sig != vs[0].Sig {
			R.Note("unstable verdict: first run %s (%s), second run %d violation(s)", vs[0].Sig, vs[0].Msg, len(vs2))
			R.Class("TestMySQLRewrite", "unstable-verdict")
			return vs2, cl2, nt2
		}
	}
	return vs, cl, nt
}

func checkMyOnce(c MyCase) (hx.Vs, []string, bool) {
	var vs hx.Vs
	cl := classSet{}
	w := fix.TheWorld()
	wd := &world{prot: func(kind string, plain []byte) []byte {
		b, err := w.Protect(w.Alice, kind, fix.FormContainer, plain, -1)
		if err != nil {
			panic(err)
		}
		return b
	}}
	if c.Schema != nil && !replaying {
		// open finding: COM_STMT_EXECUTE that does not re-send the parameter types (new-params-bound flag 0, what
		// libmysqlclient does on every re-execution) makes the handler panic when the statement has configured
		// columns. Excluded exactly: such executions are played with the types re-sent.
		ops := append([]MyOp(nil), c.Ops...)
		for i := range ops {
			if ops[i].Kind == "execute" && !ops[i].NewParams && len(ops[i].Params) > 0 && R.IsKnown(sigExecNoTypes) {
				ops[i].NewParams = true
				cl.add("excluded:execute-without-types")
			}
		}
		c.Ops = ops
	}
	if c.Schema != nil && !replaying && c.hasEmptyIntCell() && R.IsKnown(sigEmptyInt) {
		// open finding: an empty (not NULL) value in a column configured as int32/int64 is sent as an empty
		// length-encoded string under a column definition re-typed to LONG/LONGLONG (binary protocol). Excluded
		// exactly: such cells are played as NULL.
		ops := append([]MyOp(nil), c.Ops...)
		for i := range ops {
			if ops[i].Kind != "execute" {
				continue
			}
			sets := append([]MySet(nil), ops[i].Resp.Sets...)
			for si := range sets {
				rows := make([][]MyCell, len(sets[si].Rows))
				for ri, row := range sets[si].Rows {
					rows[ri] = append([]MyCell(nil), row...)
					for ci := range row {
						cfg, ok := c.cfgOf(sets[si].Cols[ci])
						if ok && (cfg.Role == "int32" || cfg.Role == "int64") && !row[ci].Null && row[ci].B.N == 0 {
							rows[ri][ci] = MyCell{Null: true}
							cl.add("excluded:empty-in-integer-column")
						}
					}
				}
				sets[si].Rows = rows
			}
			ops[i].Resp.Sets = sets
		}
		c.Ops = ops
	}
	turns := c.script(wd)
	timeout := 2500 * time.Millisecond
	if isHugeCase(turns) {
		timeout = 60 * time.Second
		cl.add("multi-mib-payload")
	}
	r, err := runMy(c, turns, timeout)
	if err != nil {
		vs.Add("harness:start", "%v\n%s", err, schemaYAML(c.Schema))
		return vs, nil, false
	}
	if errors.Is(r.err, mysess.ErrTimeout) {
		// a deadline: slowness or a wedged proxy? play it once more with a longer deadline
		r2, err := runMy(c, turns, 3*timeout)
		if err == nil {
			if r2.err == nil {
				R.Note("inconclusive first run (deadline at %s), second run completed", r.stage)
			}
			r = r2
		}
	}
	var toDB, toClient []spkt
	for _, tn := range turns {
		toDB = append(toDB, tn.client...)
		toClient = append(toClient, tn.server...)
	}
	nontrivial := false
	for _, p := range append(append([]spkt{}, toDB...), toClient...) {
		cl.add("msg:%s", p.label)
		if len(p.payload) >= mysess.MaxFrame {
			cl.add("multi-packet")
		}
	}
	c.classes(cl)
	if len(r.panics) > 0 {
		vs.Add("handler-panic:"+hx.PanicFunc(r.panics[0]), "the proxy's connection handler panicked at %s: %.1500s", r.stage, r.panics[0])
		return vs, cl.list(), true
	}
	broken := r.err != nil
	if c.Schema == nil {
		compareRelay(&vs, "client->db", r.clientSent, r.dbRecv, toDB, broken)
		compareRelay(&vs, "db->client", r.dbSent, r.clientRecv, toClient, broken)
		nontrivial = len(toDB) > 1
	} else {
		nontrivial = c.compareRewrite(&vs, cl, r, toDB, toClient, broken)
	}
	if broken && len(vs) == 0 {
		where := r.stage
		if shape := c.breakShape(r.stageOp); shape != "" {
			where = shape
		}
		switch {
		case errors.Is(r.err, mysess.ErrTimeout):
			vs.Add("stalled:"+where, "the client never received packet %s (two runs, deadline %v); proxy errors: %v", r.stage, 3*timeout, r.proxyErrs)
		default:
			vs.Add("session-closed:"+where, "the proxy closed the session at %s: %v; proxy errors: %v", r.stage, r.err, r.proxyErrs)
		}
	}
	if os.Getenv("VERIF_DEBUG") != "" {
		fmt.Printf("run: stage=%q err=%v dbErr=%v proxyErrs=%v sent=%d/%d recv=%d/%d\n", r.stage, r.err, r.dbErr, r.proxyErrs, len(r.clientSent), len(r.dbRecv), len(r.dbSent), len(r.clientRecv))
	}
	return vs, cl.list(), nontrivial
}

// breakShape names the rare input shape present where a session broke (the signature names the class of input,
// not the packet at which the loss became visible); "" = nothing special, the stage label is used.
func (c MyCase) breakShape(opIdx int) string {
	if opIdx < 0 {
		return c.connectionPhaseShape()
	}
	if opIdx >= len(c.Ops) {
		return ""
	}
	return c.opShape(opIdx)
}

func (c MyCase) connectionPhaseShape() string {
	switch low := byte(c.ClientCaps); low {
	case mysess.ComQuit, mysess.ComQuery, mysess.ComStmtPrepare, mysess.ComStmtExecute, mysess.ComStmtReset:
		return fmt.Sprintf("handshake-response-starts-with-command-byte-0x%02x", low)
	}
	if c.Auth.Kind == "switch" {
		if c.Auth.Resp.N == 0 {
			return "auth-switch-response:empty"
		}
		switch first := c.Auth.Resp.Bytes()[0]; first {
		case mysess.ComQuit, mysess.ComQuery, mysess.ComStmtPrepare, mysess.ComStmtExecute, mysess.ComStmtReset:
			return fmt.Sprintf("auth-switch-response-starts-with-command-byte-0x%02x", first)
		}
	}
	if c.Auth.Kind == "full" {
		switch first := c.Auth.Resp.Bytes()[0]; first {
		case mysess.ComQuit, mysess.ComQuery, mysess.ComStmtPrepare, mysess.ComStmtExecute, mysess.ComStmtReset:
			return fmt.Sprintf("auth-data-starts-with-command-byte-0x%02x", first)
		}
	}
	return ""
}

func (c MyCase) opShape(opIdx int) string {
	op := c.Ops[opIdx]
	caps := c.effCaps()
	proto := "text"
	if op.Kind == "execute" {
		proto = "binary"
	}
	switch op.Resp.Kind {
	case "localinfile":
		return "query:local-infile-request"
	case "stat", "eof":
		for _, prev := range c.Ops[:opIdx] {
			if prev.Kind == "prepare" && prev.Resp.Kind == "prepok" {
				return op.Kind + ":after-unexecuted-prepare"
			}
		}
	}
	if (op.Kind == "ping" || op.Kind == "initdb" || op.Kind == "resetconn") && opIdx > 0 && c.Ops[opIdx-1].Kind == "prepare" && c.Ops[opIdx-1].Resp.Kind == "prepok" && caps&mysess.CapDeprecateEOF != 0 {
		return op.Kind + ":after-unexecuted-prepare:deprecate-eof"
	}
	for _, s := range op.Resp.Sets {
		cols := s.Cols
		if cols == nil && op.Kind == "execute" && op.Stmt < len(c.Ops) {
			cols = c.Ops[op.Stmt].Resp.Cols
		}
		switch {
		case len(cols) > 250:
			return proto + "-resultset:more-than-250-columns"
		case s.ErrEnd:
			return proto + "-resultset:err-ends-rows"
		case caps&mysess.CapDeprecateEOF != 0 && len(s.End.encode(0xfe, caps)) >= 9:
			return proto + "-resultset:ok-with-info-ends-rows"
		}
		if proto == "binary" {
			for _, col := range cols {
				if mysess.BinaryWidth(col.Type) == -1 && col.Type == mysess.TypeJSON {
					return "binary-resultset:json-column"
				}
			}
		}
	}
	return ""
}

func (c MyCase) classes(cl classSet) {
	caps := c.effCaps()
	cl.add("auth:%s", c.Auth.Kind)
	for _, f := range []struct {
		bit  uint32
		name string
	}{{mysess.CapDeprecateEOF, "deprecate-eof"}, {mysess.CapSessionTrack, "session-track"}, {mysess.CapMultiResults, "multi-results"}, {mysess.CapPluginAuthLenencClientData, "lenenc-auth"},
		{mysess.CapConnectAttrs, "connect-attrs"}, {mysess.CapSecureConnection, "secure-connection"}, {mysess.CapLongPassword, "long-password"}} {
		if caps&f.bit != 0 {
			cl.add("caps:%s", f.name)
		} else {
			cl.add("caps:no-%s", f.name)
		}
	}
	switch low := byte(c.ClientCaps); low {
	case 0x01, 0x02, 0x03, 0x0e, 0x16, 0x17, 0x18, 0x19, 0x1a:
		cl.add("caps-low-byte:is-a-command-byte(0x%02x)", low)
	default:
		cl.add("caps-low-byte:other")
	}
	for _, cfg := range c.Schema {
		if _, typed := roleType(cfg.Role); typed {
			policy := cfg.OnFail
			if policy == "" {
				policy = "default_value"
			}
			cl.add("cfg:%s/on-fail=%s", cfg.Role, policy)
		}
	}
	for _, op := range c.Ops {
		cl.add("op:%s/%s", op.Kind, op.Resp.Kind)
		if op.Kind == "execute" {
			if op.NewParams {
				cl.add("execute:types-sent")
			} else {
				cl.add("execute:types-not-sent")
			}
			for _, p := range op.Params {
				if p.Null {
					cl.add("execute:null-param")
				}
			}
		}
		for si, s := range op.Resp.Sets {
			proto := "text"
			if op.Kind == "execute" {
				proto = "binary"
			}
			cl.add("resultset:%s", proto)
			if si > 0 {
				cl.add("resultset:second-or-later")
			}
			cl.add("resultset:rows=%d", min(len(s.Rows), 3))
			if len(s.Cols) > 250 {
				cl.add("resultset:more-than-250-columns")
			}
			for _, row := range s.Rows {
				nulls, vals := 0, 0
				for i, cell := range row {
					if cell.Null {
						nulls++
						continue
					}
					vals++
					cl.add("%s-row:%s", proto, lenClass(cell.B.N))
					if i == 0 && cell.B.N == 0 {
						cl.add("%s-row:first-column-empty", proto)
					}
				}
				if nulls > 0 && vals > 0 {
					cl.add("%s-row:null-mix", proto)
				}
			}
		}
	}
}

func TestMySQLRelay(t *testing.T) {
	R.Rule("TestMySQLRelay", "a MySQL session through acra's real proxy (no column configured, no firewall rule) between a scripted client and a scripted server, both driven by the reference codec: handshake v10 with generated capability sets (client archetypes libmysql / connector / minimal / arbitrary subset of what the server offers; compression, TLS and layout-changing flags never negotiated), authentication (OK, auth switch incl. empty answer, caching_sha2 fast / full, ERR), then 1-7 commands: COM_QUERY with OK / ERR / 1-3 text result sets (0-4 rows, NULLs, empty strings, column types of every kind, value lengths at 250/251, 65535/65536, thorough: 2^24-1/2^24) / LOCAL INFILE, COM_STMT_PREPARE / EXECUTE (types sent or not, NULL parameters) with binary result sets / CLOSE / RESET / SEND_LONG_DATA, COM_PING / INIT_DB / STATISTICS / RESET_CONNECTION / SET_OPTION / QUIT; with and without CLIENT_DEPRECATE_EOF and CLIENT_SESSION_TRACK. Oracle: bytes sent by the client == bytes received by the server and bytes sent by the server == bytes received by the client, in order; no panic; the session is not closed or wedged. Non-trivial: at least one command after the connection phase")
	hx.Checks(500, 2000)
	rapid.Check(t, func(rt *rapid.T) {
		c := genMyRelayCase(rt)
		vs, classes, nt := CheckMy(c)
		R.Seen("TestMySQLRelay", c, nt, classes...)
		report(rt, "TestMySQLRelay", c, vs)
	})
}
