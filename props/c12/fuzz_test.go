package c12

import (
	"fmt"
	"testing"

	"github.com/sirupsen/logrus"

	"github.com/cossacklabs/acra/sqlparser"
	mysqldialect "github.com/cossacklabs/acra/sqlparser/dialect/mysql"
	pgdialect "github.com/cossacklabs/acra/sqlparser/dialect/postgresql"

	"verif/internal/hx"
	"verif/internal/mysess"
)

// The fuzz targets decode the fuzz bytes into a structured (fields, rows) description - column roles of table t,
// then cells (NULL / empty / protected plaintext of a length class / bytes that do not decrypt) - and play it as a
// one-statement session with the oracle of the rewrite layer. Thorough tier only.

type byteSrc struct {
	b []byte
	i int
}

func (s *byteSrc) next() byte {
	if s.i >= len(s.b) {
		return 0
	}
	v := s.b[s.i]
	s.i++
	return v
}

var fuzzRoles = []string{"plain", "enc", "str", "bytes", "int32", "int64", "plain", "enc"}
var fuzzLens = []int{1, 2, 5, 40, 100, 200, 249, 250, 251, 252, 300, 1000, 65535, 65536, 3, 17}

func fuzzSchema(s *byteSrc) []MyCfgCol {
	n := 2 + int(s.next()%4)
	var out []MyCfgCol
	for i := 0; i < n; i++ {
		c := MyCfgCol{Role: fuzzRoles[s.next()%8]}
		d := s.next()
		switch c.Role {
		case "enc":
			c.Envelope = []string{"", "acrastruct", "acrablock"}[d%3]
		case "str":
			c.Default = string(Blob{N: fuzzLens[d%12]}.Bytes())
		case "bytes":
			c.Default = "+wD//AEA/QIB/gMC"
		case "int32":
			c.Default = []string{"-7", "0", "2147483647"}[d%3]
		case "int64":
			c.Default = []string{"-7", "9223372036854775807"}[d%2]
		}
		out = append(out, c)
	}
	// at least one configured and one unconfigured column
	out[0].Role, out[0].Envelope, out[0].Default = "plain", "", ""
	if out[1].Role == "plain" {
		out[1].Role = "enc"
	}
	return out
}

func fuzzCell(s *byteSrc, cfg MyCfgCol) MyCell {
	k := s.next()
	l := fuzzLens[s.next()%16]
	p := s.next()
	switch k % 6 {
	case 0:
		return MyCell{Null: true}
	case 1:
		return MyCell{}
	}
	if cfg.Role == "plain" {
		return MyCell{B: Blob{N: l, Pat: []byte{p}}}
	}
	env := []string{"acrastruct", "acrablock"}[k>>4&1]
	if cfg.Role == "int32" || cfg.Role == "int64" {
		if k%6 < 4 {
			return MyCell{B: textBlob(fmt.Sprint(int64(int8(p)) * 1000003)), Prot: env}
		}
		return MyCell{B: Blob{N: []int{1, 3, 250, 251}[p%4], Pat: []byte{0xfe, 0x01, 0x7f}}}
	}
	if k%6 < 4 {
		b := Blob{N: l}
		if cfg.Role != "str" {
			b.Pat = []byte{p, p ^ 0x5a}
		}
		return MyCell{B: b, Prot: env}
	}
	return MyCell{B: Blob{N: l, Pat: []byte{0x9c, p}}}
}

func fuzzMyCase(data []byte, binary bool) MyCase {
	s := &byteSrc{b: data}
	c := MyCase{Auth: MyAuth{Kind: "ok", User: "app", DB: "db1"}, ServerCaps: optionalCaps | mysess.CapProtocol41, ClientCaps: mysess.DefaultCaps}
	if s.next()&1 == 1 {
		c.ClientCaps |= mysess.CapDeprecateEOF | mysess.CapSessionTrack
	}
	c.Schema = fuzzSchema(s)
	cols := tableCols(c.Schema)
	set := MySet{Cols: cols, End: MyOK{Status: mysess.StatusAutocommit}}
	nrows := 1 + int(s.next()%3)
	for r := 0; r < nrows; r++ {
		row := []MyCell{{B: textBlob(fmt.Sprint(r + 1))}}
		if binary {
			row[0] = MyCell{B: Blob{N: 4, Pat: []byte{byte(r + 1), 0, 0, 0}}}
		}
		for _, cfg := range c.Schema {
			row = append(row, fuzzCell(s, cfg))
		}
		set.Rows = append(set.Rows, row)
	}
	if binary {
		prep := MyOp{Kind: "prepare", SQL: "SELECT * FROM t WHERE id <> ?", Resp: MyResp{Kind: "prepok", NParams: 1, Cols: cols}}
		ex := MyOp{Kind: "execute", Stmt: 0, NewParams: true, Params: []MyParam{{Type: mysess.TypeLong, B: Blob{N: 4, Pat: []byte{9, 0, 0, 0}}}}, Resp: MyResp{Kind: "sets", Sets: []MySet{set}}}
		c.Ops = []MyOp{prep, ex}
	} else {
		c.Ops = []MyOp{{Kind: "query", SQL: "SELECT * FROM t", Resp: MyResp{Kind: "sets", Sets: []MySet{set}}}}
	}
	return c
}

func fuzzPGCase(data []byte) PGCase {
	s := &byteSrc{b: data}
	c := PGCase{Startup: PGStartup{Auth: "ok", Params: []string{"server_version"}}}
	mode := s.next()
	c.Schema = fuzzSchema(s)
	cols := pgTableCols(c.Schema)
	res := PGResult{Cols: cols}
	nrows := 1 + int(s.next()%3)
	for r := 0; r < nrows; r++ {
		row := []MyCell{{B: textBlob(fmt.Sprint(r + 1))}}
		for _, cfg := range c.Schema {
			cell := fuzzCell(s, cfg)
			if cfg.Role == "plain" {
				cell.B.Pat = nil
			}
			row = append(row, cell)
		}
		res.Rows = append(res.Rows, row)
	}
	res.Tag = fmt.Sprintf("SELECT %d", nrows)
	switch mode % 3 {
	case 0:
		c.Ops = []PGOp{{Kind: "simple", SQL: "SELECT * FROM t", Results: []PGResult{res}}}
	default:
		op := PGOp{Kind: "extended", SQL: "SELECT * FROM t WHERE id <> $1", Params: []PGVal{{B: textBlob("9")}}, Results: []PGResult{res}, DescPortal: mode&4 != 0, DescStmt: mode&8 != 0}
		if mode%3 == 2 {
			op.RFormats = []int16{1}
		}
		c.Ops = []PGOp{op}
	}
	return c
}

func fuzzReport(t *testing.T, test string, c any, vs hx.Vs) {
	for _, v := range vs {
		if R.IsKnown(v.Sig) {
			continue
		}
		t.Fatalf("violation %s: %s\ncase: %s", v.Sig, v.Msg, mustJSON(c))
	}
}

var fuzzSeeds = [][]byte{
	{0, 2, 1, 0, 2, 3, 4, 1, 2, 8, 7, 3, 9, 1, 2, 14, 0, 0, 1, 2, 3},
	{1, 3, 0, 0, 2, 9, 3, 1, 4, 0, 5, 2, 2, 0, 0, 1, 0, 0, 2, 13, 9, 3, 12, 7, 4, 8, 1},
	{2, 1, 4, 1, 5, 0, 1, 2, 6, 1, 18, 6, 200, 2, 8, 9},
	{5, 0, 1, 1, 1, 1, 2, 2, 3, 3, 0, 17, 7, 77, 3, 8, 1, 4, 9, 250, 5, 10, 3},
}

func FuzzMysqlTextRow(f *testing.F) {
	for _, s := range fuzzSeeds {
		f.Add(s)
	}
	f.Fuzz(func(t *testing.T, data []byte) {
		logrus.SetLevel(logrus.PanicLevel)
		sqlparser.SetDefaultDialect(mysqldialect.NewMySQLDialect())
		c := fuzzMyCase(data, false)
		vs, _, _ := CheckMy(c)
		fuzzReport(t, "FuzzMysqlTextRow", c, vs)
	})
}

func FuzzMysqlBinaryRow(f *testing.F) {
	for _, s := range fuzzSeeds {
		f.Add(s)
	}
	f.Fuzz(func(t *testing.T, data []byte) {
		logrus.SetLevel(logrus.PanicLevel)
		sqlparser.SetDefaultDialect(mysqldialect.NewMySQLDialect())
		c := fuzzMyCase(data, true)
		vs, _, _ := CheckMy(c)
		fuzzReport(t, "FuzzMysqlBinaryRow", c, vs)
	})
}

func FuzzPgDataRow(f *testing.F) {
	for _, s := range fuzzSeeds {
		f.Add(s)
	}
	f.Fuzz(func(t *testing.T, data []byte) {
		logrus.SetLevel(logrus.PanicLevel)
		sqlparser.SetDefaultDialect(pgdialect.NewPostgreSQLDialect())
		c := fuzzPGCase(data)
		vs, _, _ := CheckPG(c)
		fuzzReport(t, "FuzzPgDataRow", c, vs)
	})
}
