package c12

import (
	"bufio"
	"bytes"
	"encoding/binary"
	"encoding/hex"
	"fmt"
	"io"
	"net"
	"strings"
	"testing"

	"github.com/jackc/pgx/v5/pgproto3"
	"github.com/sirupsen/logrus"
	"pgregory.net/rapid"

	"github.com/cossacklabs/acra/decryptor/base"
	"github.com/cossacklabs/acra/decryptor/mysql"
	mybase "github.com/cossacklabs/acra/decryptor/mysql/base"
	"github.com/cossacklabs/acra/decryptor/postgresql"
	"github.com/cossacklabs/acra/utils"

	"verif/internal/gen"
	"verif/internal/hx"
	"verif/internal/mysess"
)

// ---------------------------------------------------------------------------------------------
// (a1) length-encoded integers / strings against the reference codec

// LenEncCase is one integer (and a string of that length when it is small enough) plus trailing bytes.
type LenEncCase struct {
	V      uint64  `json:"v"`
	Tail   gen.Hex `json:"tail"`
	StrPat gen.Hex `json:"str_pat"`
	// Short: number of bytes cut off the encoded string (declared length larger than what is there)
	Short int `json:"short"`
}

var intBoundaries = []uint64{0, 1, 249, 250, 251, 252, 253, 254, 255, 256, 65534, 65535, 65536, 65537, 1<<24 - 2, 1<<24 - 1, 1 << 24, 1<<24 + 1,
	1<<32 - 1, 1 << 32, 1<<32 + 1, 1<<63 - 1, 1 << 63, 1<<63 + 1, 1<<64 - 2, 1<<64 - 1}

func genLenEnc(t *rapid.T) LenEncCase {
	var v uint64
	switch rapid.SampledFrom([]string{"boundary", "boundary", "boundary", "small", "u16", "u24", "u64"}).Draw(t, "cls") {
	case "boundary":
		v = rapid.SampledFrom(intBoundaries).Draw(t, "v")
	case "small":
		v = uint64(rapid.IntRange(0, 300).Draw(t, "v"))
	case "u16":
		v = uint64(rapid.IntRange(0, 1<<16+10).Draw(t, "v"))
	case "u24":
		v = uint64(rapid.IntRange(1<<16, 1<<24+10).Draw(t, "v"))
	default:
		v = rapid.Uint64().Draw(t, "v")
	}
	c := LenEncCase{V: v, Tail: rapid.SliceOfN(rapid.Byte(), 0, 12).Draw(t, "tail"), StrPat: rapid.SliceOfN(rapid.Byte(), 1, 5).Draw(t, "pat")}
	if rapid.IntRange(0, 5).Draw(t, "cut") == 0 {
		c.Short = rapid.IntRange(1, 4).Draw(t, "short")
	}
	return c
}

func strLimit() uint64 {
	if thorough() {
		return 1<<24 + 2
	}
	return 70000
}

func lenEncClasses(c LenEncCase) []string {
	cl := []string{}
	switch {
	case c.V < 251:
		cl = append(cl, "form:1-byte")
	case c.V < 1<<16:
		cl = append(cl, "form:0xfc")
	case c.V < 1<<24:
		cl = append(cl, "form:0xfd")
	default:
		cl = append(cl, "form:0xfe")
	}
	for _, b := range intBoundaries {
		if c.V == b {
			cl = append(cl, fmt.Sprintf("boundary:%d", b))
		}
	}
	if c.V <= strLimit() {
		cl = append(cl, "string:"+lenClass(int(c.V)))
		if c.Short > 0 {
			cl = append(cl, "string:truncated")
		}
	}
	return cl
}

// CheckLenEnc compares acra's length-encoded integer/string codec with the reference codec.
func CheckLenEnc(c LenEncCase) hx.Vs {
	var vs hx.Vs
	ref := mysess.AppendLenEncInt(nil, c.V)
	hx.Guard(&vs, "PutLengthEncodedInt", func() {
		got := mybase.PutLengthEncodedInt(c.V)
		if !bytes.Equal(got, ref) {
			vs.Add("encoding-differs:PutLengthEncodedInt", "PutLengthEncodedInt(%d) = % x, protocol says % x", c.V, got, ref)
		}
	})
	hx.Guard(&vs, "LengthEncodedInt", func() {
		in := append(append([]byte{}, ref...), c.Tail...)
		v, null, n, err := mybase.LengthEncodedInt(in)
		if err != nil || null || v != c.V || n != len(ref) {
			vs.Add("decoding-differs:LengthEncodedInt", "LengthEncodedInt(% x) = (%d, null=%v, n=%d, %v), want (%d, false, %d, nil)", in, v, null, n, err, c.V, len(ref))
		}
		// every proper prefix of the encoding is incomplete: must be an error, not a value
		for cut := 1; cut < len(ref); cut++ {
			if _, _, _, err := mybase.LengthEncodedInt(ref[:cut]); err == nil {
				vs.Add("truncated-accepted:LengthEncodedInt", "LengthEncodedInt(% x) (a %d-byte form cut to %d bytes) returned no error", ref[:cut], len(ref), cut)
				break
			}
		}
	})
	hx.Guard(&vs, "LengthEncodedInt/null", func() {
		in := append([]byte{0xfb}, c.Tail...)
		_, null, n, err := mybase.LengthEncodedInt(in)
		if err != nil || !null || n != 1 {
			vs.Add("null-marker:LengthEncodedInt", "LengthEncodedInt(0xfb…) = (null=%v, n=%d, %v), want (true, 1, nil)", null, n, err)
		}
		s, n2, err := mybase.LengthEncodedString(in)
		if err != nil || s != nil || n2 != 1 {
			vs.Add("null-marker:LengthEncodedString", "LengthEncodedString(0xfb…) = (%v, n=%d, %v), want (nil, 1, nil)", s, n2, err)
		}
		if got := mybase.PutLengthEncodedString(nil); !bytes.Equal(got, []byte{0xfb}) {
			vs.Add("null-marker:PutLengthEncodedString", "PutLengthEncodedString(nil) = % x, want fb", got)
		}
	})
	if c.V > strLimit() {
		return vs
	}
	data := Blob{N: int(c.V), Pat: c.StrPat}.Bytes()
	refStr := mysess.AppendLenEncStr(nil, data)
	hx.Guard(&vs, "PutLengthEncodedString", func() {
		got := mybase.PutLengthEncodedString(data)
		if !bytes.Equal(got, refStr) {
			d := firstDiff(got, refStr)
			vs.Add("encoding-differs:PutLengthEncodedString", "PutLengthEncodedString(%d bytes) differs from the reference at offset %d: got %s want %s", len(data), d, around(got, d), around(refStr, d))
		}
	})
	if c.Short == 0 || c.Short > len(data) {
		hx.Guard(&vs, "LengthEncodedString", func() {
			in := append(append([]byte{}, refStr...), c.Tail...)
			s, n, err := mybase.LengthEncodedString(in)
			if err != nil || n != len(refStr) || !bytes.Equal(s, data) || (s == nil) {
				vs.Add("decoding-differs:LengthEncodedString", "LengthEncodedString(%d-byte string + %d tail bytes) = (%d bytes, nil=%v, n=%d, %v), want (%d bytes, n=%d, nil)", len(data), len(c.Tail), len(s), s == nil, n, err, len(data), len(refStr))
			}
			k, err := mybase.SkipLengthEncodedString(in)
			if err != nil || k != len(refStr) {
				vs.Add("decoding-differs:SkipLengthEncodedString", "SkipLengthEncodedString(%d-byte string + tail) = (%d, %v), want (%d, nil)", len(data), k, err, len(refStr))
			}
		})
	} else {
		hx.Guard(&vs, "LengthEncodedString/truncated", func() {
			in := refStr[:len(refStr)-c.Short]
			if s, _, err := mybase.LengthEncodedString(in); err == nil {
				vs.Add("truncated-accepted:LengthEncodedString", "LengthEncodedString of a string declared %d bytes with only %d present returned %d bytes and no error", len(data), len(data)-c.Short, len(s))
			}
		})
	}
	return vs
}

func TestLenEnc(t *testing.T) {
	R.Rule("TestLenEnc", "an integer from boundary classes (0, 250/251, 2^16-1/2^16, 2^24-1/2^24, 2^32, 2^63, 2^64-1 and neighbours, uniform fillers), trailing bytes, and - for values up to 70 000 (thorough: 2^24+2) - a string of that length; PutLengthEncodedInt/PutLengthEncodedString must equal the reference encoder, LengthEncodedInt/LengthEncodedString/SkipLengthEncodedString must return value and consumed length of the reference decoder, truncated encodings must be errors, 0xFB is NULL. Non-trivial: every case (an integer with a length prefix form)")
	hx.Checks(1500, 12000)
	rapid.Check(t, func(rt *rapid.T) {
		c := genLenEnc(rt)
		vs := CheckLenEnc(c)
		R.Seen("TestLenEnc", c, true, lenEncClasses(c)...)
		report(rt, "TestLenEnc", c, vs)
	})
}

// ---------------------------------------------------------------------------------------------
// (a2) MySQL packet framing: ReadPacket + Dump

// MyPacketCase is a stream of logical packets read one after the other.
type MyPacketCase struct {
	Seq      byte   `json:"seq"`
	Payloads []Blob `json:"payloads"`
}

type readerConn struct {
	net.Conn
	r io.Reader
}

func (c readerConn) Read(b []byte) (int, error) { return c.r.Read(b) }

func genMyPacket(t *rapid.T) MyPacketCase {
	c := MyPacketCase{Seq: rapid.Byte().Draw(t, "seq")}
	n := rapid.IntRange(1, 4).Draw(t, "n")
	huge := false
	for i := 0; i < n; i++ {
		b := genBlob(t, fmt.Sprintf("p%d", i), false)
		// payloads at the 16 MiB frame boundary: one case in eight (thorough), one in about sixty (quick)
		odds := 59
		if thorough() {
			odds = 7
		}
		if !huge && rapid.IntRange(0, odds).Draw(t, fmt.Sprintf("p%d.huge", i)) == 0 {
			b.N = rapid.SampledFrom([]int{1<<24 - 2, 1<<24 - 1, 1 << 24, 1<<24 + 1, 2*(1<<24-1) - 1, 2 * (1<<24 - 1), 2*(1<<24-1) + 1}).Draw(t, fmt.Sprintf("p%d.hugelen", i))
		}
		if b.N == 0 {
			b.N = 1 // an empty payload is a separate, rare class below
		}
		if b.N >= 1<<24-2 {
			huge = true // never more than one 16 MiB payload per case
		}
		c.Payloads = append(c.Payloads, b)
	}
	return c
}

// CheckMyPacket reads every packet with mysql.ReadPacket and compares Dump() with the bytes read.
func CheckMyPacket(c MyPacketCase) hx.Vs {
	var vs hx.Vs
	var wire []byte
	var each [][]byte
	seq := c.Seq
	for _, p := range c.Payloads {
		start := len(wire)
		wire, seq = mysess.AppendPacket(wire, seq, p.Bytes())
		each = append(each, wire[start:])
	}
	conn := readerConn{r: bytes.NewReader(wire)}
	hx.Guard(&vs, "ReadPacket", func() {
		for i, p := range c.Payloads {

			pkt, err := mysql.ReadPacket(conn)
			if err != nil {
				vs.Add("read-error:ReadPacket:"+frameClass(p.N), "packet %d (payload %d bytes, %d wire bytes): %v", i, p.N, len(each[i]), err)
				return
			}
			want := p.Bytes()
			if !bytes.Equal(pkt.GetData(), want) {
				d := firstDiff(pkt.GetData(), want)
				vs.Add("payload-differs:ReadPacket:"+frameClass(p.N), "packet %d: GetData() has %d bytes, sent %d; first difference at %d", i, len(pkt.GetData()), len(want), d)
				return
			}
			dump := pkt.Dump()
			if !bytes.Equal(dump, each[i]) {
				d := firstDiff(dump, each[i])
				vs.Add("dump-differs:Packet.Dump:"+frameClass(p.N), "packet %d (payload %d bytes): read %d wire bytes, Dump() gives %d bytes; first difference at offset %d: got %s, read %s", i, p.N, len(each[i]), len(dump), d, around(dump, d), around(each[i], d))
				return
			}
		}
		// nothing may be left unread
		var one [1]byte
		if n, _ := conn.Read(one[:]); n != 0 {
			vs.Add("stream-not-consumed:ReadPacket", "bytes left in the stream after reading %d packets", len(c.Payloads))
		}
	})
	return vs
}

func TestMySQLPacket(t *testing.T) {
	R.Rule("TestMySQLPacket", "a stream of 1-4 logical packets (payload lengths short / at 250,251 / at 65535,65536 / at most one at 2^24-2, 2^24-1, 2^24, 2^24+1, 2*(2^24-1)+-1 = multi-packet; rare in quick), framed by the reference codec with a generated first sequence id, read with mysql.ReadPacket; GetData() must be the payload and Dump() the exact bytes read. Non-trivial: every case")
	hx.Checks(500, 400)
	rapid.Check(t, func(rt *rapid.T) {
		c := genMyPacket(rt)
		vs := CheckMyPacket(c)
		cl := classSet{}
		for _, p := range c.Payloads {
			cl.add("payload:%s", lenClass(p.N))
			if p.N >= mysess.MaxFrame {
				cl.add("multi-packet")
			}
		}
		R.Seen("TestMySQLPacket", c, true, cl.list()...)
		report(rt, "TestMySQLPacket", c, vs)
	})
}

// ---------------------------------------------------------------------------------------------
// (a3) bytea text codecs

// ByteaCase is a byte string.
type ByteaCase struct {
	Data gen.Hex `json:"data"`
}

// reference: PostgreSQL's bytea output in escape format (bytea_output = escape)
func refEscape(b []byte) []byte {
	var out []byte
	for _, c := range b {
		switch {
		case c == '\\':
			out = append(out, '\\', '\\')
		case c < 0x20 || c > 0x7e:
			out = append(out, []byte(fmt.Sprintf("\\%03o", c))...)
		default:
			out = append(out, c)
		}
	}
	return out
}

// reference: byteain for the escape format
func refUnescape(s []byte) ([]byte, error) {
	out := []byte{}
	for i := 0; i < len(s); i++ {
		if s[i] != '\\' {
			out = append(out, s[i])
			continue
		}
		if i+1 < len(s) && s[i+1] == '\\' {
			out = append(out, '\\')
			i++
			continue
		}
		if i+3 < len(s) && s[i+1] >= '0' && s[i+1] <= '3' && s[i+2] >= '0' && s[i+2] <= '7' && s[i+3] >= '0' && s[i+3] <= '7' {
			out = append(out, (s[i+1]-'0')<<6|(s[i+2]-'0')<<3|(s[i+3]-'0'))
			i += 3
			continue
		}
		return nil, fmt.Errorf("invalid input syntax for type bytea at %d", i)
	}
	return out, nil
}

func genBytea(t *rapid.T) ByteaCase {
	switch rapid.SampledFrom([]string{"gen", "gen", "backslashes", "all", "ascii", "xprefix"}).Draw(t, "cls") {
	case "backslashes":
		n := rapid.IntRange(1, 6).Draw(t, "n")
		pre := rapid.SliceOfN(rapid.Byte(), 0, 4).Draw(t, "pre")
		return ByteaCase{Data: append(append(pre, bytes.Repeat([]byte{'\\'}, n)...), rapid.SliceOfN(rapid.SampledFrom([]byte{'x', '0', '1', '7', '8', '\\', 'n', 0, 0xff}), 0, 6).Draw(t, "post")...)}
	case "all":
		b := make([]byte, 256)
		off := rapid.Byte().Draw(t, "off")
		for i := range b {
			b[i] = byte(i) + off
		}
		return ByteaCase{Data: b}
	case "ascii":
		return ByteaCase{Data: []byte(rapid.StringMatching("[ -~]{0,40}").Draw(t, "s"))}
	case "xprefix":
		return ByteaCase{Data: append([]byte(`\x`), rapid.SliceOfN(rapid.Byte(), 0, 8).Draw(t, "rest")...)}
	}
	return ByteaCase{Data: gen.Bytes(t, "data", 4096)}
}

// CheckBytea checks the round trips of acra's bytea text codecs against PostgreSQL's formats.
func CheckBytea(c ByteaCase) hx.Vs {
	var vs hx.Vs
	data := []byte(c.Data)
	esc := refEscape(data)
	hexText := append([]byte(`\x`), []byte(hex.EncodeToString(data))...)
	hx.Guard(&vs, "EncodeToOctal", func() {
		got := utils.EncodeToOctal(data)
		back, err := refUnescape(got)
		if err != nil || !bytes.Equal(back, data) {
			vs.Add("roundtrip:EncodeToOctal", "EncodeToOctal(% x) = %q, which PostgreSQL reads as % x (%v)", trunc(data), trunc(got), trunc(back), err)
		}
		for _, ch := range got {
			if ch < 0x20 || ch > 0x7e {
				vs.Add("unprintable-output:EncodeToOctal", "EncodeToOctal(% x) contains the raw byte 0x%02x", trunc(data), ch)
				break
			}
		}
	})
	hx.Guard(&vs, "DecodeOctal", func() {
		got, err := utils.DecodeOctal(esc)
		if err != nil || !bytes.Equal(got, data) {
			vs.Add("roundtrip:DecodeOctal", "DecodeOctal(%q) = (% x, %v), PostgreSQL's escape output of % x", trunc(esc), trunc(got), err, trunc(data))
		}
		got, err = utils.DecodeOctal(utils.EncodeToOctal(data))
		if err != nil || !bytes.Equal(got, data) {
			vs.Add("roundtrip:DecodeOctal(EncodeToOctal)", "DecodeOctal(EncodeToOctal(% x)) = (% x, %v)", trunc(data), trunc(got), err)
		}
	})
	hx.Guard(&vs, "PgEncodeToHex", func() {
		got := utils.PgEncodeToHex(data)
		if !bytes.Equal(got, hexText) {
			vs.Add("encoding-differs:PgEncodeToHex", "PgEncodeToHex(% x) = %q, want %q", trunc(data), trunc(got), trunc(hexText))
		}
	})
	hx.Guard(&vs, "DecodeEscaped", func() {
		for _, in := range [][]byte{hexText, []byte(`\x` + strings.ToUpper(hex.EncodeToString(data))), esc} {
			got, err := utils.DecodeEscaped(in)
			if err != nil || !bytes.Equal(got, data) {
				vs.Add("roundtrip:DecodeEscaped", "DecodeEscaped(%q) = (% x, %v), want % x", trunc(in), trunc(got), err, trunc(data))
				break
			}
		}
	})
	return vs
}

func trunc(b []byte) []byte {
	if len(b) > 48 {
		return b[:48]
	}
	return b
}

func TestByteaCodecs(t *testing.T) {
	R.Rule("TestByteaCodecs", "a byte string (shared byte classes, runs of backslashes followed by digits/x, all 256 byte values, printable ASCII, a leading \\x); EncodeToOctal output must be printable and be read back by a reference byteain, DecodeOctal/DecodeEscaped must invert PostgreSQL's escape and hex output formats (reference encoders), PgEncodeToHex must equal the hex format. Non-trivial: non-empty data")
	hx.Checks(1000, 8000)
	rapid.Check(t, func(rt *rapid.T) {
		c := genBytea(rt)
		vs := CheckBytea(c)
		cl := classSet{}
		cl.add("%s", lenClass(len(c.Data)))
		if bytes.IndexByte(c.Data, '\\') >= 0 {
			cl.add("has-backslash")
		}
		for _, ch := range c.Data {
			if ch < 0x20 || ch > 0x7e {
				cl.add("has-unprintable")
				break
			}
		}
		R.Seen("TestByteaCodecs", c, len(c.Data) > 0, cl.list()...)
		report(rt, "TestByteaCodecs", c, vs)
	})
}

// ---------------------------------------------------------------------------------------------
// (a4) PostgreSQL PacketHandler: ReadPacket / ReadClientPacket / Marshal / ReplaceQuery / ReplaceBind

// PGHMsg is one message given to the packet handler.
type PGHMsg struct {
	Kind string `json:"kind"` // startup, ssl, cancel, gssenc, query, parse, bind, other (client side); any backend type (db side)
	Type byte   `json:"type"`
	Body Blob   `json:"body"`
	// query / parse / bind contents
	SQL      string   `json:"sql,omitempty"`
	Name     string   `json:"name,omitempty"`
	Portal   string   `json:"portal,omitempty"`
	OIDs     []uint32 `json:"oids,omitempty"`
	PFormats []int16  `json:"pformats,omitempty"`
	Params   []PGVal  `json:"params,omitempty"`
	RFormats []int16  `json:"rformats,omitempty"`
	// replacement
	NewSQL    string  `json:"new_sql,omitempty"`
	Replace   bool    `json:"replace,omitempty"`
	NewParams []PGVal `json:"new_params,omitempty"`
}

// PGVal is a parameter / column value.
type PGVal struct {
	Null bool `json:"null,omitempty"`
	B    Blob `json:"b"`
}

func (v PGVal) bytes() []byte {
	if v.Null {
		return nil
	}
	b := v.B.Bytes()
	if b == nil {
		b = []byte{}
	}
	return b
}

// PGHandlerCase is a message list for one side.
type PGHandlerCase struct {
	Side string   `json:"side"` // client | db
	Msgs []PGHMsg `json:"msgs"`
}

var sqlPool = []string{"", "select 1", "SELECT id, data FROM t WHERE id = $1", "insert into t (id, data) values ($1, $2)", "update t set data = 'x''y' where id = 1 -- c", "select 'üñí', E'\\\\x00'", "begin", "select $1::text, $2::bytea, $3::int4"}

func genPGVal(t *rapid.T, label string) PGVal {
	if rapid.IntRange(0, 4).Draw(t, label+".null") == 0 {
		return PGVal{Null: true}
	}
	return PGVal{B: genBlob(t, label, false)}
}

func genPGHandler(t *rapid.T) PGHandlerCase {
	c := PGHandlerCase{Side: rapid.SampledFrom([]string{"client", "client", "db"}).Draw(t, "side")}
	n := rapid.IntRange(1, 5).Draw(t, "n")
	for i := 0; i < n; i++ {
		l := fmt.Sprintf("m%d", i)
		var m PGHMsg
		if c.Side == "db" {
			m.Kind = "other"
			m.Type = rapid.SampledFrom([]byte("RSKZTDCEN123nstIAGHWdcVv")).Draw(t, l+".type")
			m.Body = genBlob(t, l+".body", false)
		} else {
			kinds := []string{"query", "parse", "bind", "other", "other"}
			if i == 0 {
				kinds = []string{"startup", "startup", "ssl", "cancel", "gssenc"}
			}
			m.Kind = rapid.SampledFrom(kinds).Draw(t, l+".kind")
			switch m.Kind {
			case "startup":
				m.Body = genBlob(t, l+".body", false)
			case "other":
				m.Type = rapid.SampledFrom([]byte("CdcfDEHFpSX")).Draw(t, l+".type")
				m.Body = genBlob(t, l+".body", false)
				if m.Type == 'X' {
					m.Body = Blob{}
				}
			case "query", "parse":
				m.SQL = rapid.SampledFrom(sqlPool).Draw(t, l+".sql")
				m.Replace = rapid.Bool().Draw(t, l+".replace")
				m.NewSQL = rapid.SampledFrom(sqlPool).Draw(t, l+".newsql") + strings.Repeat("/**/", rapid.IntRange(0, 70).Draw(t, l+".pad"))
				if m.Kind == "parse" {
					m.Name = rapid.SampledFrom([]string{"", "s1", "stmt_ü"}).Draw(t, l+".name")
					m.OIDs = rapid.SliceOfN(rapid.SampledFrom([]uint32{0, 17, 23, 25, 20}), 0, 4).Draw(t, l+".oids")
				}
			case "bind":
				m.Name = rapid.SampledFrom([]string{"", "s1"}).Draw(t, l+".name")
				m.Portal = rapid.SampledFrom([]string{"", "p1"}).Draw(t, l+".portal")
				np := rapid.IntRange(0, 5).Draw(t, l+".np")
				for j := 0; j < np; j++ {
					m.Params = append(m.Params, genPGVal(t, fmt.Sprintf("%s.p%d", l, j)))
				}
				switch rapid.SampledFrom([]string{"none", "one", "each"}).Draw(t, l+".pf") {
				case "one":
					m.PFormats = []int16{int16(rapid.IntRange(0, 1).Draw(t, l+".pf0"))}
				case "each":
					for j := 0; j < np; j++ {
						m.PFormats = append(m.PFormats, int16(rapid.IntRange(0, 1).Draw(t, fmt.Sprintf("%s.pf%d", l, j))))
					}
				}
				m.RFormats = rapid.SliceOfN(rapid.SampledFrom([]int16{0, 1}), 0, 3).Draw(t, l+".rf")
				m.Replace = rapid.Bool().Draw(t, l+".replace")
				if m.Replace {
					for j := 0; j < np; j++ {
						if rapid.Bool().Draw(t, fmt.Sprintf("%s.keep%d", l, j)) {
							m.NewParams = append(m.NewParams, m.Params[j])
						} else {
							m.NewParams = append(m.NewParams, genPGVal(t, fmt.Sprintf("%s.np%d", l, j)))
						}
					}
				}
			}
		}
		c.Msgs = append(c.Msgs, m)
	}
	return c
}

func pgFrame(typ byte, body []byte) []byte {
	out := []byte{typ}
	out = binary.BigEndian.AppendUint32(out, uint32(len(body)+4))
	return append(out, body...)
}

func (m PGHMsg) wire() []byte {
	switch m.Kind {
	case "startup":
		body := append([]byte{0, 3, 0, 0}, m.Body.Bytes()...)
		return append(binary.BigEndian.AppendUint32(nil, uint32(len(body)+4)), body...)
	case "ssl":
		return []byte{0, 0, 0, 8, 4, 210, 22, 47}
	case "gssenc":
		return []byte{0, 0, 0, 8, 4, 210, 22, 48}
	case "cancel":
		return append([]byte{0, 0, 0, 16, 4, 210, 22, 46}, 0, 0, 0x10, 0x92, 1, 2, 3, 4)
	case "query":
		b, _ := (&pgproto3.Query{String: m.SQL}).Encode(nil)
		return b
	case "parse":
		b, _ := (&pgproto3.Parse{Name: m.Name, Query: m.SQL, ParameterOIDs: m.OIDs}).Encode(nil)
		return b
	case "bind":
		var ps [][]byte
		for _, p := range m.Params {
			ps = append(ps, p.bytes())
		}
		b, _ := (&pgproto3.Bind{DestinationPortal: m.Portal, PreparedStatement: m.Name, ParameterFormatCodes: m.PFormats, Parameters: ps, ResultFormatCodes: m.RFormats}).Encode(nil)
		return b
	}
	return pgFrame(m.Type, m.Body.Bytes())
}

func formatAt(formats []int16, i int) int16 {
	switch {
	case len(formats) == 0:
		return 0
	case len(formats) == 1:
		return formats[0]
	case i < len(formats):
		return formats[i]
	}
	return -1
}

// checkFramed verifies that out is exactly one general message of type typ whose declared length equals its actual length.
func checkFramed(vs *hx.Vs, what string, out []byte, typ byte) ([]byte, bool) {
	if len(out) < 5 || out[0] != typ {
		vs.Add("malformed:"+what, "%s: output % x does not start a %q message", what, trunc(out), typ)
		return nil, false
	}
	if l := int(binary.BigEndian.Uint32(out[1:5])); l != len(out)-1 {
		vs.Add("length-mismatch:"+what, "%s: declared length %d, actual %d", what, l, len(out)-1)
		return nil, false
	}
	return out[5:], true
}

// CheckPGHandler feeds the messages to a PacketHandler and checks Marshal (and the Replace* functions).
func CheckPGHandler(c PGHandlerCase) hx.Vs {
	var vs hx.Vs
	var wire []byte
	for _, m := range c.Msgs {
		wire = append(wire, m.wire()...)
	}
	logger := logrus.NewEntry(logrus.StandardLogger())
	var sink bytes.Buffer
	w := bufio.NewWriter(&sink)
	r := bytes.NewReader(wire)
	hx.Guard(&vs, "PacketHandler", func() {
		var h *postgresql.PacketHandler
		var err error
		if c.Side == "db" {
			h, err = postgresql.NewDbSidePacketHandler(r, w, logger)
		} else {
			h, err = postgresql.NewClientSidePacketHandler(r, w, logger)
		}
		if err != nil {
			vs.Add("harness:handler", "%v", err)
			return
		}
		for i, m := range c.Msgs {
			in := m.wire()
			if c.Side == "db" {
				h.Reset()
				err = h.ReadPacket()
			} else {
				err = h.ReadClientPacket()
			}
			if err != nil {
				vs.Add("read-error:PacketHandler:"+m.Kind, "message %d (%s %q, %d bytes): %v", i, m.Kind, m.Type, len(in), err)
				return
			}
			out, err := h.Marshal()
			if err != nil || !bytes.Equal(out, in) {
				d := firstDiff(out, in)
				vs.Add("marshal-differs:PacketHandler:"+m.Kind, "message %d (%s %q): Marshal() gives %d bytes (%v), read %d; first difference at %d: got %s read %s", i, m.Kind, m.Type, len(out), err, len(in), d, around(out, d), around(in, d))
				return
			}
			if !m.Replace {
				continue
			}
			switch m.Kind {
			case "query":
				h.ReplaceQuery(m.NewSQL)
				out, _ := h.Marshal()
				body, ok := checkFramed(&vs, "ReplaceQuery/Query", out, 'Q')
				if !ok {
					return
				}
				var q pgproto3.Query
				if err := q.Decode(body); err != nil || q.String != m.NewSQL {
					vs.Add("content:ReplaceQuery/Query", "query after ReplaceQuery decodes to %q (%v), want %q", q.String, err, m.NewSQL)
				}
			case "parse":
				h.ReplaceQuery(m.NewSQL)
				out, _ := h.Marshal()
				body, ok := checkFramed(&vs, "ReplaceQuery/Parse", out, 'P')
				if !ok {
					return
				}
				var p pgproto3.Parse
				if err := p.Decode(body); err != nil || p.Query != m.NewSQL || p.Name != m.Name || fmt.Sprint(p.ParameterOIDs) != fmt.Sprint(append([]uint32{}, m.OIDs...)) {
					vs.Add("content:ReplaceQuery/Parse", "Parse after ReplaceQuery decodes to name %q query %q oids %v (%v), want %q %q %v", p.Name, p.Query, p.ParameterOIDs, err, m.Name, m.NewSQL, m.OIDs)
				}
			case "bind":
				bp, err := h.GetBindData()
				if err != nil {
					vs.Add("parse-error:GetBindData", "message %d: %v", i, err)
					return
				}
				vals, err := bp.GetParameters()
				if err != nil {
					vs.Add("parse-error:BindPacket.GetParameters", "message %d: %v", i, err)
					return
				}
				if len(vals) != len(m.Params) {
					vs.Add("content:BindPacket.GetParameters", "message %d: %d parameters, sent %d", i, len(vals), len(m.Params))
					return
				}
				for j, v := range vals {
					d, _ := v.GetData(nil)
					if !bytes.Equal(d, m.Params[j].bytes()) || (d == nil) != m.Params[j].Null {
						vs.Add("content:BindPacket.GetParameters", "message %d parameter %d: got %d bytes (nil=%v), sent %d bytes (null=%v)", i, j, len(d), d == nil, m.Params[j].B.N, m.Params[j].Null)
						return
					}
					if want := formatAt(m.PFormats, j); (v.Format() == base.BinaryFormat) != (want == 1) {
						vs.Add("content:BindPacket.GetParameters", "message %d parameter %d: format %v, sent %d", i, j, v.Format(), want)
					}
				}
				for j := range vals {
					if err := vals[j].SetData(m.NewParams[j].bytes(), nil); err != nil {
						vs.Add("harness:SetData", "%v", err)
						return
					}
				}
				bp.SetParameters(vals)
				if err := h.ReplaceBind(bp); err != nil {
					vs.Add("error:ReplaceBind", "message %d: %v", i, err)
					return
				}
				out, _ := h.Marshal()
				body, ok := checkFramed(&vs, "ReplaceBind", out, 'B')
				if !ok {
					return
				}
				var b pgproto3.Bind
				if err := b.Decode(body); err != nil {
					vs.Add("malformed:ReplaceBind", "Bind after ReplaceBind does not decode: %v", err)
					return
				}
				if b.DestinationPortal != m.Portal || b.PreparedStatement != m.Name {
					vs.Add("content:ReplaceBind", "portal/statement %q/%q, sent %q/%q", b.DestinationPortal, b.PreparedStatement, m.Portal, m.Name)
				}
				if len(b.Parameters) != len(m.NewParams) {
					vs.Add("content:ReplaceBind", "%d parameters after ReplaceBind, want %d", len(b.Parameters), len(m.NewParams))
					return
				}
				for j, p := range b.Parameters {
					want := m.NewParams[j]
					if (p == nil) != want.Null || !bytes.Equal(p, want.bytes()) {
						vs.Add("content:ReplaceBind:param", "parameter %d after ReplaceBind: %d bytes (nil=%v), want %d bytes (null=%v)", j, len(p), p == nil, want.B.N, want.Null)
						return
					}
					// decoded meaning of the format codes is preserved (the shorthand forms are equivalent)
					got := int16(0)
					switch {
					case len(b.ParameterFormatCodes) == 1:
						got = b.ParameterFormatCodes[0]
					case len(b.ParameterFormatCodes) > 1 && j < len(b.ParameterFormatCodes):
						got = b.ParameterFormatCodes[j]
					case len(b.ParameterFormatCodes) > 1:
						got = -1
					}
					if got != formatAt(m.PFormats, j) {
						vs.Add("content:ReplaceBind:format", "parameter %d format code %d after ReplaceBind (codes %v), sent %v", j, got, b.ParameterFormatCodes, m.PFormats)
						return
					}
				}
				if fmt.Sprint(append([]int16{}, b.ResultFormatCodes...)) != fmt.Sprint(append([]int16{}, m.RFormats...)) {
					vs.Add("content:ReplaceBind:result-formats", "result format codes %v, sent %v", b.ResultFormatCodes, m.RFormats)
				}
			}
		}
		if r.Len() != 0 {
			vs.Add("stream-not-consumed:PacketHandler", "%d bytes left unread", r.Len())
		}
	})
	return vs
}

func TestPGHandler(t *testing.T) {
	R.Rule("TestPGHandler", "1-5 messages for one side of a PostgreSQL PacketHandler (client: StartupMessage/SSLRequest/CancelRequest/GSSENCRequest first, then Query/Parse/Bind built with pgproto3 or any other frontend type with a generated body; database: any backend message type with a generated body, lengths at the boundaries); Marshal() must return the bytes read; after ReplaceQuery / SetParameters+ReplaceBind with generated replacements (NULLs, empty, grown, shrunk) the message must re-parse with pgproto3 with declared length = actual length and the untouched parts equal in decoded meaning. Non-trivial: a message with a length-prefixed body")
	hx.Checks(500, 4000)
	rapid.Check(t, func(rt *rapid.T) {
		c := genPGHandler(rt)
		vs := CheckPGHandler(c)
		cl := classSet{}
		nt := false
		for _, m := range c.Msgs {
			k := m.Kind
			if k == "other" {
				k = c.Side + ":" + string(rune(m.Type))
			}
			cl.add("msg:%s", k)
			if m.Replace {
				cl.add("replace:%s", m.Kind)
			}
			if len(m.wire()) > 8 {
				nt = true
			}
		}
		R.Seen("TestPGHandler", c, nt, cl.list()...)
		report(rt, "TestPGHandler", c, vs)
	})
}

func frameClass(n int) string {
	switch {
	case n == 0:
		return "empty-payload"
	case n >= mysess.MaxFrame:
		return "multi-packet"
	}
	return "single-packet"
}
