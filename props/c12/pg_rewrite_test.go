package c12

import (
	"bytes"
	"encoding/binary"
	"encoding/hex"
	"fmt"
	"strings"
	"testing"

	"github.com/jackc/pgx/v5/pgproto3"
	"pgregory.net/rapid"

	"verif/internal/hx"
	"verif/internal/pgprog"
	"verif/internal/pgsess"
)

// table t as the PostgreSQL database describes it: id int4, unconfigured columns text, configured columns bytea
func pgTableCols(schema []MyCfgCol) []PGCol {
	cols := []PGCol{{Name: "id", OID: 23, Cfg: -1}}
	for i, c := range schema {
		oid := uint32(17)
		if c.Role == "plain" {
			oid = 25
		}
		cols = append(cols, PGCol{Name: fmt.Sprintf("c%d", i), OID: oid, Cfg: i})
	}
	return cols
}

func pgTableDefs(schema []MyCfgCol) []pgsess.TableDef {
	td := pgsess.TableDef{Name: "t", Cols: []pgsess.ColumnDef{{Name: "id", Type: pgsess.Int4}}}
	for i, c := range schema {
		typ := pgsess.Bytea
		if c.Role == "plain" {
			typ = pgsess.Text
		}
		td.Cols = append(td.Cols, pgsess.ColumnDef{Name: fmt.Sprintf("c%d", i), Type: typ})
	}
	return []pgsess.TableDef{td}
}

func genPGRewriteCase(t *rapid.T) PGCase {
	c := PGCase{Startup: PGStartup{Auth: "ok", Params: []string{"server_version", "client_encoding"}}, Schema: genCfgCols(t, false)}
	all := pgTableCols(c.Schema)
	pickCols := func(l string) ([]PGCol, bool) {
		if rapid.IntRange(0, 2).Draw(t, l+".star") == 0 {
			return all, true
		}
		perm := rapid.Permutation(all[1:]).Draw(t, l+".perm")
		k := rapid.IntRange(1, len(perm)).Draw(t, l+".k")
		cols := append([]PGCol{}, perm[:k]...)
		if rapid.Bool().Draw(t, l+".withid") {
			cols = append([]PGCol{all[0]}, cols...)
		}
		return cols, false
	}
	genRes := func(l string, cols []PGCol) PGResult {
		r := PGResult{Cols: cols}
		nrows := rapid.IntRange(1, 4).Draw(t, l+".nrows")
		for ri := 0; ri < nrows; ri++ {
			var row []MyCell
			for i, col := range cols {
				if col.Cfg < 0 {
					row = append(row, MyCell{B: textBlob(fmt.Sprint(ri + 1))})
					continue
				}
				cell := genRewriteCell(t, fmt.Sprintf("%s.r%dc%d", l, ri, i), c.Schema[col.Cfg])
				if c.Schema[col.Cfg].Role == "plain" {
					cell.B.Pat = nil // text
				}
				row = append(row, cell)
			}
			r.Rows = append(r.Rows, row)
		}
		r.Tag = fmt.Sprintf("SELECT %d", nrows)
		return r
	}
	selectSQL := func(cols []PGCol, star bool, where string) string {
		if star {
			return "SELECT * FROM t" + where
		}
		var names []string
		for _, col := range cols {
			names = append(names, col.Name)
		}
		return "SELECT " + strings.Join(names, ", ") + " FROM t" + where
	}
	insertCells := func(l string) []MyCell {
		cells := []MyCell{{B: textBlob("1")}}
		for j, cfg := range c.Schema {
			cell := genRewriteCell(t, fmt.Sprintf("%s.v%d", l, j), cfg)
			cell.Prot = ""
			if cfg.Role == "plain" || cfg.Role == "str" {
				cell.B.Pat = nil
			}
			if (cfg.Role == "int32" || cfg.Role == "int64") && !cell.Null && (cell.B.N == 0 || len(cell.B.Pat) == 0 || cell.B.Pat[0] == 0xfe) {
				cell.B = textBlob("42")
			}
			if cell.B.N > 70000 {
				cell.B.N = 300
			}
			cells = append(cells, cell)
		}
		return cells
	}
	n := rapid.IntRange(1, 4).Draw(t, "nops")
	for i := 0; i < n; i++ {
		l := fmt.Sprintf("op%d", i)
		switch rapid.SampledFrom([]string{"select", "select", "select-ext", "select-ext", "insert", "insert-ext", "other"}).Draw(t, l+".kind") {
		case "select":
			cols, star := pickCols(l)
			op := PGOp{Kind: "simple", SQL: selectSQL(cols, star, rapid.SampledFrom([]string{"", " WHERE id = 1"}).Draw(t, l+".where")), Results: []PGResult{genRes(l, cols)}, Async: genAsync(t, l)}
			c.Ops = append(c.Ops, op)
		case "select-ext":
			cols, star := pickCols(l)
			op := PGOp{Kind: "extended", StmtName: rapid.SampledFrom([]string{"", fmt.Sprintf("q%d", i)}).Draw(t, l+".name"), SQL: selectSQL(cols, star, " WHERE id = $1"),
				Params: []PGVal{{B: textBlob("1")}}, Results: []PGResult{genRes(l, cols)}, DescStmt: rapid.Bool().Draw(t, l+".ds"), DescPortal: rapid.Bool().Draw(t, l+".dp"),
				FlushAfter: rapid.IntRange(0, 3).Draw(t, l+".flush") == 0}
			switch rapid.SampledFrom([]string{"none", "text", "binary", "each"}).Draw(t, l+".rf") {
			case "text":
				op.RFormats = []int16{0}
			case "binary":
				op.RFormats = []int16{1}
			case "each":
				for k := range cols {
					op.RFormats = append(op.RFormats, int16(rapid.IntRange(0, 1).Draw(t, fmt.Sprintf("%s.rf%d", l, k))))
				}
			}
			if rapid.IntRange(0, 3).Draw(t, l+".limit") == 0 {
				op.MaxRows = 1
			}
			c.Ops = append(c.Ops, op)
		case "insert":
			c.Ops = append(c.Ops, PGOp{Kind: "simple", Insert: insertCells(l), Results: []PGResult{{Tag: "INSERT 0 1"}}})
		case "insert-ext":
			op := PGOp{Kind: "extended", StmtName: rapid.SampledFrom([]string{"", fmt.Sprintf("i%d", i)}).Draw(t, l+".name"), Insert: insertCells(l), Results: []PGResult{{Tag: "INSERT 0 1"}},
				DescStmt: rapid.Bool().Draw(t, l+".ds")}
			// parameters: binary or text per parameter; declared types: none, or the logical type of the column
			declare := rapid.Bool().Draw(t, l+".declare")
			for j, cell := range op.Insert {
				role := "plain"
				if j > 0 {
					role = c.Schema[j-1].Role
				}
				f := int16(rapid.IntRange(0, 1).Draw(t, fmt.Sprintf("%s.pf%d", l, j)))
				op.PFormats = append(op.PFormats, f)
				oid := uint32(0)
				v := PGVal{Null: cell.Null, B: cell.B}
				switch {
				case j == 0 || role == "int32" || role == "int64":
					oid = 23
					if role == "int64" {
						oid = 20
					}
					if f == 1 && !cell.Null {
						var x int64
						fmt.Sscan(string(cell.B.Bytes()), &x)
						b := make([]byte, 8)
						binary.BigEndian.PutUint64(b, uint64(x))
						if oid == 23 {
							b = b[4:]
						}
						v.B = Blob{N: len(b), Pat: b}
					}
				case role == "plain" || role == "str":
					oid = 25
				default:
					oid = 17
					if f == 0 && !cell.Null {
						v.B = textBlob(`\x` + hex.EncodeToString(cell.B.Bytes()))
					}
				}
				if declare {
					op.OIDs = append(op.OIDs, oid)
				}
				op.Params = append(op.Params, v)
			}
			c.Ops = append(c.Ops, op)
		case "other":
			c.Ops = append(c.Ops, PGOp{Kind: "simple", SQL: "select 1", Results: []PGResult{genPGRelayResult(t, l+".res", nil)}})
		}
	}
	return c
}

// renderPGInsert renders INSERT INTO t (id, c0, ..) VALUES (..) with literals or with $n placeholders.
func (c PGCase) renderPGInsert(op PGOp, placeholders bool) (string, *pgInsertInfo) {
	names := []string{"id"}
	roles := []string{"plain"}
	for i, cfg := range c.Schema {
		names = append(names, fmt.Sprintf("c%d", i))
		roles = append(roles, cfg.Role)
	}
	var vals []string
	for i, cell := range op.Insert {
		switch {
		case placeholders:
			vals = append(vals, fmt.Sprintf("$%d", i+1))
		case cell.Null:
			vals = append(vals, "NULL")
		case i == 0 || ((roles[i] == "int32" || roles[i] == "int64") && cell.B.N > 0):
			vals = append(vals, string(cell.B.Bytes()))
		case roles[i] == "plain" || roles[i] == "str":
			vals = append(vals, "'"+strings.ReplaceAll(string(cell.B.Bytes()), "'", "''")+"'")
		default:
			vals = append(vals, `'\x`+hex.EncodeToString(cell.B.Bytes())+`'`)
		}
	}
	return "INSERT INTO t (" + strings.Join(names, ", ") + ") VALUES (" + strings.Join(vals, ", ") + ")", &pgInsertInfo{cells: op.Insert, roles: roles}
}

// ---------------------------------------------------------------------------------------------
// oracle

// parseDataRow is a strict DataRow parser (declared lengths inside the message, no trailing bytes).
func parseDataRow(body []byte) ([][]byte, error) {
	if len(body) < 2 {
		return nil, fmt.Errorf("DataRow of %d bytes", len(body))
	}
	n := int(binary.BigEndian.Uint16(body))
	pos := 2
	out := make([][]byte, 0, n)
	for i := 0; i < n; i++ {
		if len(body)-pos < 4 {
			return out, fmt.Errorf("column %d: length field needs 4 bytes, %d remain", i, len(body)-pos)
		}
		l := int32(binary.BigEndian.Uint32(body[pos:]))
		pos += 4
		if l == -1 {
			out = append(out, nil)
			continue
		}
		if l < 0 || int(l) > len(body)-pos {
			return out, fmt.Errorf("column %d: declared length %d, %d bytes remain", i, l, len(body)-pos)
		}
		out = append(out, body[pos:pos+int(l):pos+int(l)])
		if out[i] == nil {
			out[i] = []byte{}
		}
		pos += int(l)
	}
	if pos != len(body) {
		return out, fmt.Errorf("%d trailing bytes after %d columns", len(body)-pos, n)
	}
	return out, nil
}

func roleOID(role string, dbOID uint32) uint32 {
	switch role {
	case "str":
		return 25
	case "int32":
		return 23
	case "int64":
		return 20
	}
	return dbOID
}

func (c PGCase) comparePGRewrite(vs *hx.Vs, cl classSet, r *pgRun, toDB, toClient []pgmsg, broken bool) (nontrivial bool) {
	// database -> client
	var clOIDs []uint32
	for i, m := range toClient {
		if i >= len(r.gotClient) {
			if !broken {
				vs.Add("message-missing:db->client:"+m.label, "the client received %d messages, the database sent %d; first missing: %s", len(r.gotClient), len(toClient), m.label)
			}
			break
		}
		g := r.gotClient[i]
		if m.raw {
			if !bytes.Equal(g, m.data) {
				vs.Add("relay-differs:db->client:"+m.label, "got % x, sent % x", trunc(g), trunc(m.data))
				return
			}
			continue
		}
		if g[0] != m.data[0] {
			vs.Add("message-type-changed:db->client:"+m.label, "message %d: the database sent %q (%s), the client received %q", i, m.data[0], m.label, g[0])
			return
		}
		switch {
		case m.label == "RowDescription":
			var got, sent pgproto3.RowDescription
			if err := got.Decode(g[5:]); err != nil {
				vs.Add("malformed:RowDescription", "does not re-parse: %v; received % x", err, trunc(g))
				return
			}
			clOIDs = nil
			for _, f := range got.Fields {
				clOIDs = append(clOIDs, f.DataTypeOID)
			}
			if bytes.Equal(g, m.data) {
				break
			}
			if !m.retype {
				vs.Add("relay-differs:db->client:RowDescription", "RowDescription of a statement without configured columns changed: received % x, sent % x", trunc(g), trunc(m.data))
				return
			}
			cl.add("RowDescription:retyped")
			sent.Decode(m.data[5:])
			if len(got.Fields) != len(sent.Fields) {
				vs.Add("field-count:RowDescription", "%d fields, the database sent %d", len(got.Fields), len(sent.Fields))
				return
			}
			for j := range got.Fields {
				a, b := got.Fields[j], sent.Fields[j]
				a.DataTypeOID, b.DataTypeOID = 0, 0
				if fmt.Sprintf("%v", a) != fmt.Sprintf("%v", b) {
					vs.Add("untransformed-field-changed:RowDescription", "field %d: got %+v, the database sent %+v", j, got.Fields[j], sent.Fields[j])
					return
				}
			}
		case m.label == "ParameterDescription" && !bytes.Equal(g, m.data):
			var got, sent pgproto3.ParameterDescription
			if err := got.Decode(g[5:]); err != nil {
				vs.Add("malformed:ParameterDescription", "does not re-parse: %v; received % x", err, trunc(g))
				return
			}
			sent.Decode(m.data[5:])
			if !m.retype || len(got.ParameterOIDs) != len(sent.ParameterOIDs) {
				vs.Add("relay-differs:db->client:ParameterDescription", "received %v, the database sent %v", got.ParameterOIDs, sent.ParameterOIDs)
				return
			}
			cl.add("ParameterDescription:retyped")
			for j := range got.ParameterOIDs {
				if got.ParameterOIDs[j] != sent.ParameterOIDs[j] && (j == 0 || c.Schema[j-1].Role == "plain" || c.Schema[j-1].Role == "enc") {
					vs.Add("untransformed-field-changed:ParameterDescription", "parameter %d (not a typed configured column): oid %d, the database sent %d", j, got.ParameterOIDs[j], sent.ParameterOIDs[j])
					return
				}
			}
		case m.expRow != nil:
			vals, err := parseDataRow(g[5:])
			kinds := rowKinds(m.expRow)
			if err != nil {
				vs.Add("malformed-row:DataRow:"+kinds, "DataRow (%s) does not re-parse: %v; received %d bytes % x, the database sent %d bytes", kinds, err, len(g), trunc(g), len(m.data))
				return
			}
			if len(vals) != len(m.expRow) {
				vs.Add("field-count:DataRow", "DataRow has %d columns, the database sent %d", len(vals), len(m.expRow))
				return
			}
			changed, unchanged := 0, 0
			for j, e := range m.expRow {
				role := m.roles[j]
				format := fmtAt(m.rowFmts, j)
				cl.add("DataRow:fmt%d:cell:%s/%s", format, role, e.cls)
				if e.changed {
					cl.add("DataRow:%s:%s->%s", e.cls, lenClassShort(e.dbLen), lenClassShort(len(e.b)))
				}
				if (vals[j] == nil) != e.null {
					vs.Add("null-marker-changed:DataRow:"+role, "column %d (%s): NULL=%v, the database sent NULL=%v", j, role, vals[j] == nil, e.null)
					return
				}
				if e.null {
					continue
				}
				if e.changed {
					changed++
				} else {
					unchanged++
				}
				if !e.exact {
					continue
				}
				// decode by the type the client was told (RowDescription), else by the configured type
				oid := uint32(25)
				switch {
				case len(clOIDs) == len(m.expRow):
					oid = clOIDs[j]
				case role == "plain":
					oid = 25
					if j == 0 && len(e.b) > 0 && e.b[0] >= '0' && e.b[0] <= '9' {
						oid = 25
					}
				default:
					oid = roleOID(role, 17)
				}
				if role == "plain" {
					// an unconfigured field keeps its exact bytes
					if !bytes.Equal(vals[j], e.b) {
						vs.Add("untransformed-field-changed:DataRow:plain", "column %d of an unconfigured column: client received %.60q, the database sent %.60q", j, vals[j], e.b)
						return
					}
					continue
				}
				got, _, err := pgprog.Decode(vals[j], oid, format)
				if err != nil {
					vs.Add("undecodable:DataRow:"+role, "column %d (%s, oid %d, format %d): %v: %.60q", j, role, oid, format, err, vals[j])
					return
				}
				if !bytes.Equal(got.B, e.b) {
					sig := "untransformed-field-changed:DataRow:"
					if e.changed {
						sig = "transformed-field-wrong:DataRow:"
					}
					vs.Add(sig+role+":"+e.cls, "column %d (%s, %s, oid %d, format %d): client received %d bytes %.60q, expected %d bytes %.60q", j, role, e.cls, oid, format, len(got.B), got.B, len(e.b), e.b)
					return
				}
			}
			if changed > 0 && unchanged > 0 {
				nontrivial = true
				cl.add("DataRow:changed+unchanged")
			}
		default:
			if m.label == "ReadyForQuery" {
				clOIDs = nil // a description does not outlive its cycle
			}
			if !bytes.Equal(g, m.data) {
				d := firstDiff(g, m.data)
				vs.Add("relay-differs:db->client:"+m.label, "message %d (%s) differs at offset %d: received %s, the database sent %s", i, m.label, d, around(g, d), around(m.data, d))
				return
			}
		}
	}
	// client -> database
	var store *pgsess.Store
	prepared := map[string]*pgsess.Prepared{}
	for i, m := range toDB {
		if i >= len(r.gotDB) {
			if !broken {
				vs.Add("message-missing:client->db:"+m.label, "the database received %d messages, the client sent %d; first missing: %s", len(r.gotDB), len(toDB), m.label)
			}
			break
		}
		g := r.gotDB[i]
		if m.insert == nil || bytes.Equal(g, m.data) {
			if m.insert != nil && m.insert.kind == "parse" {
				// remember the statement for the Bind check
				var p pgproto3.Parse
				if p.Decode(g[5:]) == nil {
					store = pgsess.NewStore(pgTableDefs(c.Schema))
					if pr, err := store.Prepare(p.Query, p.ParameterOIDs); err == nil {
						prepared[p.Name] = pr
					}
				}
			}
			if !bytes.Equal(g, m.data) {
				d := firstDiff(g, m.data)
				vs.Add("relay-differs:client->db:"+m.label, "message %d (%s) differs at offset %d: the database received %s, the client sent %s", i, m.label, d, around(g, d), around(m.data, d))
				return
			}
			if m.insert == nil || m.insert.kind != "bind" {
				continue
			}
		}
		if g[0] != m.data[0] {
			vs.Add("message-type-changed:client->db:"+m.label, "message %d: the client sent %q, the database received %q", i, m.data[0], g[0])
			return
		}
		in := m.insert
		switch in.kind {
		case "query":
			cl.add("Query:rewritten")
			var q pgproto3.Query
			if err := q.Decode(g[5:]); err != nil {
				vs.Add("malformed:Query", "rewritten Query does not re-parse: %v", err)
				return
			}
			st := pgsess.NewStore(pgTableDefs(c.Schema))
			pr, err := st.Prepare(q.String, nil)
			if err == nil {
				_, err = st.Exec(pr, nil)
			}
			if err != nil {
				vs.Add("rewritten-query-unparseable", "the database received %.300q, which an independent interpreter rejects: %v", q.String, err)
				return
			}
			if !c.checkStored(vs, cl, "Query", in, st.Rows("t")) {
				return
			}
		case "parse":
			cl.add("Parse:rewritten")
			var got, sent pgproto3.Parse
			if err := got.Decode(g[5:]); err != nil {
				vs.Add("malformed:Parse", "rewritten Parse does not re-parse: %v; received % x", err, trunc(g))
				return
			}
			sent.Decode(m.data[5:])
			if got.Name != sent.Name || len(got.ParameterOIDs) != len(sent.ParameterOIDs) {
				vs.Add("untransformed-field-changed:Parse", "name %q / %d parameter types, the client sent %q / %d", got.Name, len(got.ParameterOIDs), sent.Name, len(sent.ParameterOIDs))
				return
			}
			for j := range got.ParameterOIDs {
				if got.ParameterOIDs[j] != sent.ParameterOIDs[j] && (in.roles[j] == "plain" || got.ParameterOIDs[j] != 17) {
					vs.Add("untransformed-field-changed:Parse:oid", "declared type of parameter %d (%s): %d, the client sent %d", j, in.roles[j], got.ParameterOIDs[j], sent.ParameterOIDs[j])
					return
				}
			}
			store = pgsess.NewStore(pgTableDefs(c.Schema))
			pr, err := store.Prepare(got.Query, got.ParameterOIDs)
			if err != nil {
				vs.Add("rewritten-query-unparseable", "Parse carries %.300q, which an independent interpreter rejects: %v", got.Query, err)
				return
			}
			prepared[got.Name] = pr
		case "bind":
			var got, sent pgproto3.Bind
			if err := got.Decode(g[5:]); err != nil {
				vs.Add("malformed:Bind", "Bind as received by the database does not re-parse: %v; received %d bytes % x, the client sent %d bytes", err, len(g), trunc(g), len(m.data))
				return
			}
			if !bytes.Equal(g, m.data) {
				cl.add("Bind:rewritten")
			}
			sent.Decode(m.data[5:])
			if got.DestinationPortal != sent.DestinationPortal || got.PreparedStatement != sent.PreparedStatement || len(got.Parameters) != len(sent.Parameters) {
				vs.Add("untransformed-field-changed:Bind", "portal/statement/parameter count %q/%q/%d, the client sent %q/%q/%d", got.DestinationPortal, got.PreparedStatement, len(got.Parameters), sent.DestinationPortal, sent.PreparedStatement, len(sent.Parameters))
				return
			}
			for j := 0; j < 8; j++ {
				if fmtAt(got.ResultFormatCodes, j) != fmtAt(sent.ResultFormatCodes, j) {
					vs.Add("untransformed-field-changed:Bind:result-formats", "result format codes %v, the client sent %v", got.ResultFormatCodes, sent.ResultFormatCodes)
					return
				}
			}
			pr := prepared[got.PreparedStatement]
			if pr == nil || store == nil {
				break
			}
			var params []pgsess.Param
			for j, p := range got.Parameters {
				f := int16(0)
				switch {
				case len(got.ParameterFormatCodes) == 1:
					f = got.ParameterFormatCodes[0]
				case j < len(got.ParameterFormatCodes):
					f = got.ParameterFormatCodes[j]
				case len(got.ParameterFormatCodes) > 1:
					vs.Add("malformed:Bind:formats", "%d format codes for %d parameters", len(got.ParameterFormatCodes), len(got.Parameters))
					return
				}
				params = append(params, pgsess.Param{Null: p == nil, Format: f, Data: p})
			}
			store.SetRows("t", nil)
			if _, err := store.Exec(pr, params); err != nil {
				vs.Add("rewritten-bind-rejected", "an independent interpreter rejects the bound values the database received: %v (formats %v)", err, got.ParameterFormatCodes)
				return
			}
			if !c.checkStored(vs, cl, "Bind", in, store.Rows("t")) {
				return
			}
		}
	}
	return nontrivial
}

// checkStored compares what an independent typed database stores for the statement it received with what the client wrote.
func (c PGCase) checkStored(vs *hx.Vs, cl classSet, what string, in *pgInsertInfo, rows [][]pgsess.Value) bool {
	if len(rows) != 1 || len(rows[0]) != len(in.cells) {
		vs.Add("rewritten-statement-shape:"+what, "the statement the database received stores %d rows", len(rows))
		return false
	}
	for i, cell := range in.cells {
		role := in.roles[i]
		got := rows[0][i]
		if got.Null != cell.Null {
			vs.Add("null-marker-changed:"+what+":"+role, "value %d (%s): stored NULL=%v, the client wrote NULL=%v", i, role, got.Null, cell.Null)
			return false
		}
		if cell.Null {
			continue
		}
		plain := cell.B.Bytes()
		if role == "plain" {
			if !bytes.Equal(got.B, plain) {
				vs.Add("untransformed-field-changed:"+what+":plain", "value %d of an unconfigured column: the database stores %.60q, the client wrote %.60q", i, got.B, plain)
				return false
			}
			continue
		}
		if len(plain) == 0 {
			continue
		}
		cl.add("%s:value-protected:%s", what, role)
		if bytes.Equal(got.B, plain) || containsPlain(got.B, plain) {
			vs.Add("value-not-protected:"+what+":"+role, "value %d of a configured column (%s) reached the database in clear: %.60q", i, role, got.B)
			return false
		}
	}
	return true
}

func TestPGRewrite(t *testing.T) {
	R.Rule("TestPGRewrite", "a PostgreSQL session as in TestPGRelay with an encryptor configuration for table t (roles as in TestMySQLRewrite): simple and extended SELECTs (result formats none / text / binary / per column, Describe of statement and portal, Flush, row limits) answered by the scripted backend with rows whose configured columns hold NULL / empty / really protected values (fix.Protect) / bytes that do not decrypt (replaced by the configured default: grow, shrink, same length); INSERT as simple query and as Parse/Bind with text and binary parameters and declared or undeclared types. Oracle: message order and types preserved; untouched messages byte-identical; a rewritten DataRow re-parses strictly (declared lengths, no trailing bytes), field count and NULL markers preserved, unconfigured fields byte-identical, configured fields decode (independent decoder, by the type of the RowDescription the client received) to the expected plaintext / default / original; RowDescription / ParameterDescription change only type oids of typed configured columns; a rewritten Query / Parse / Bind is executed by an independent typed database (pg_query based): same row shape, NULLs and unconfigured values preserved, configured values not in clear; Bind result formats keep their decoded meaning. Non-trivial: a row with >= 1 changed and >= 1 unchanged non-NULL column")
	hx.Checks(300, 1200)
	rapid.Check(t, func(rt *rapid.T) {
		c := genPGRewriteCase(rt)
		vs, classes, nt := CheckPG(c)
		R.Seen("TestPGRewrite", c, nt, classes...)
		report(rt, "TestPGRewrite", c, vs)
	})
}
