package c12

import (
	"bytes"
	"encoding/base64"
	"fmt"
	"strings"
	"testing"

	"pgregory.net/rapid"

	"verif/internal/hx"
	"verif/internal/mysess"
)

// ---------------------------------------------------------------------------------------------
// generator of the rewrite layer: table t (id, c0..cn) with generated column roles

func textBlob(s string) Blob { return Blob{N: len(s), Pat: []byte(s)} }

// genCfgCols draws the roles of the columns c0.. of the configured table. policies: typed roles also draw their
// response_on_fail policy (MySQL layer; the PostgreSQL layer keeps default_value: a PostgreSQL RowDescription leaves
// the proxy before any row is read, a value kept as ciphertext in a column described with the declared type is the
// documented behaviour there and no matter of message well-formedness - values carry their own length).
func genCfgCols(t *rapid.T, policies bool) []MyCfgCol {
	n := rapid.IntRange(2, 5).Draw(t, "ncfg")
	var out []MyCfgCol
	havePlain, haveCfg := false, false
	for i := 0; i < n; i++ {
		l := fmt.Sprintf("cfg%d", i)
		role := rapid.SampledFrom([]string{"plain", "plain", "enc", "enc", "str", "bytes", "int32", "int64"}).Draw(t, l+".role")
		if i == n-2 && !havePlain {
			role = "plain"
		}
		if i == n-1 && !haveCfg {
			role = rapid.SampledFrom([]string{"enc", "str", "bytes", "int32"}).Draw(t, l+".role2")
		}
		c := MyCfgCol{Role: role}
		switch role {
		case "plain":
			havePlain = true
		case "enc":
			c.Envelope = rapid.SampledFrom([]string{"", "acrastruct", "acrablock"}).Draw(t, l+".env")
		case "str":
			c.Envelope = rapid.SampledFrom([]string{"", "acrablock"}).Draw(t, l+".env")
			c.Default = strings.Repeat("d", rapid.SampledFrom([]int{1, 3, 250, 251, 300, 12}).Draw(t, l+".deflen"))
		case "bytes":
			d := Blob{N: rapid.SampledFrom([]int{1, 3, 250, 251, 300, 12}).Draw(t, l+".deflen"), Pat: []byte{0xfb, 0, 0xff}}
			c.Default = base64.StdEncoding.EncodeToString(d.Bytes())
		case "int32":
			c.Default = rapid.SampledFrom([]string{"-7", "0", "2147483647", "-2147483648"}).Draw(t, l+".def")
		case "int64":
			c.Default = rapid.SampledFrom([]string{"-7", "9223372036854775807", "1099511627776"}).Draw(t, l+".def")
		}
		if role != "plain" {
			haveCfg = true
		}
		if _, typed := roleType(role); typed && policies {
			// what the reader gets for a value that cannot be revealed: the configured default value, or the stored value
			// as it is (policy written out, or left to the loader's default)
			c.OnFail = rapid.SampledFrom([]string{"", "", "ciphertext", "unset"}).Draw(t, l+".onfail")
			if c.keepsCiphertext() {
				c.Default = ""
			}
		}
		out = append(out, c)
	}
	return out
}

// tableCols returns the column definitions of table t as the database describes them (configured columns are BLOBs).
func tableCols(schema []MyCfgCol) []MyCol {
	cols := []MyCol{{Name: "id", Table: "t", Type: mysess.TypeLong, Charset: 63, Flags: 0x8000 | mysess.FlagNotNull, Length: 11, Cfg: -1}}
	for i, c := range schema {
		col := MyCol{Name: fmt.Sprintf("c%d", i), Table: "t", Cfg: i}
		if c.Role == "plain" && i%2 == 0 {
			col.Type, col.Charset, col.Length = mysess.TypeVarString, 45, 1020
		} else {
			col.Type, col.Charset, col.Flags, col.Length = mysess.TypeBlob, 63, mysess.FlagBlob|mysess.FlagBinary, 65535
		}
		cols = append(cols, col)
	}
	return cols
}

// fates of the values of one column within one result set
const (
	fateFree       = ""
	fateReadable   = "readable"
	fateUnreadable = "unreadable"
)

func genRewriteCell(t *rapid.T, label string, cfg MyCfgCol) MyCell {
	return genRewriteCellFate(t, label, cfg, fateFree)
}

// genRewriteCellFate draws a cell; fate fixes whether a value of a configured column is a really protected one
// (readable) or stored bytes that cannot be revealed (unreadable).
func genRewriteCellFate(t *rapid.T, label string, cfg MyCfgCol, fate string) MyCell {
	switch rapid.SampledFrom([]string{"null", "empty", "val", "val", "val", "val"}).Draw(t, label+".kind") {
	case "null":
		return MyCell{Null: true}
	case "empty":
		return MyCell{}
	}
	if cfg.Role == "plain" {
		return MyCell{B: genBlob(t, label, false)}
	}
	protected := rapid.IntRange(0, 3).Draw(t, label+".prot") > 0
	switch fate {
	case fateReadable:
		protected = true
	case fateUnreadable:
		protected = false
	}
	envelope := rapid.SampledFrom([]string{"acrastruct", "acrablock"}).Draw(t, label+".env")
	switch cfg.Role {
	case "int32", "int64":
		var txt string
		if cfg.Role == "int32" {
			txt = fmt.Sprint(rapid.SampledFrom([]int64{0, 1, -1, 250, 251, 65536, 2147483647, -2147483648}).Draw(t, label+".int"))
		} else {
			txt = fmt.Sprint(rapid.SampledFrom([]int64{0, -1, 251, 1 << 40, 9223372036854775807, -9223372036854775808}).Draw(t, label+".int"))
		}
		if protected {
			return MyCell{B: textBlob(txt), Prot: envelope}
		}
		// stored value that is not a protected integer: bytes that neither decrypt nor parse
		return MyCell{B: Blob{N: rapid.SampledFrom([]int{1, 3, 250, 251, 300}).Draw(t, label+".glen"), Pat: []byte{0xfe, 0x01, 0x7f}}}
	}
	n := rapid.SampledFrom([]int{1, 5, 40, 100, 249, 250, 251, 252, 400, 65535, 65536}).Draw(t, label+".n")
	if protected {
		b := Blob{N: n}
		if cfg.Role != "str" {
			b.Pat = rapid.SliceOfN(rapid.Byte(), 1, 4).Draw(t, label+".pat")
		}
		return MyCell{B: b, Prot: envelope}
	}
	if d := len(defaultBytes(cfg)); d > 0 && rapid.IntRange(0, 2).Draw(t, label+".samelen") == 0 {
		n = d // the default that replaces it has the same length
	}
	return MyCell{B: Blob{N: n, Pat: append([]byte{0x9c}, rapid.SliceOfN(rapid.Byte(), 1, 4).Draw(t, label+".pat")...)}}
}

func genMyRewriteCase(t *rapid.T) MyCase {
	c := MyCase{Auth: MyAuth{Kind: "ok", User: "app", DB: "db1"}, Schema: genCfgCols(t, true)}
	for {
		c.ServerCaps, c.ClientCaps = genCaps(t)
		if c.ClientCaps&mysess.CapProtocol41 != 0 {
			break
		}
	}
	caps := c.ClientCaps
	all := tableCols(c.Schema)
	pickCols := func(l string) []MyCol {
		if rapid.IntRange(0, 2).Draw(t, l+".star") == 0 {
			return all
		}
		perm := rapid.Permutation(all[1:]).Draw(t, l+".perm")
		k := rapid.IntRange(1, len(perm)).Draw(t, l+".k")
		cols := append([]MyCol{}, perm[:k]...)
		if rapid.Bool().Draw(t, l+".withid") {
			cols = append([]MyCol{all[0]}, cols...)
		}
		return cols
	}
	genSet := func(l string, cols []MyCol, binary bool) MySet {
		s := MySet{Cols: cols, End: MyOK{Status: mysess.StatusAutocommit}}
		// An integer column under the ciphertext policy in a binary result set: the values of one result set are either all
		// revealed or all unrevealable (with NULLs and empty values among them). One column definition cannot describe a
		// mix of 4/8-byte integers and length-encoded stored values - that shape is the open finding of C19
		// (malformed-row:binary:integer-column-with-revealed-and-ciphertext-rows) and is not built here.
		fates := make([]string, len(cols))
		for i, col := range cols {
			if col.Cfg >= 0 && binary && c.Schema[col.Cfg].intRole() && c.Schema[col.Cfg].keepsCiphertext() {
				fates[i] = rapid.SampledFrom([]string{fateReadable, fateUnreadable, fateUnreadable}).Draw(t, fmt.Sprintf("%s.c%d.fate", l, i))
			}
		}
		nrows := rapid.IntRange(1, 4).Draw(t, l+".nrows")
		for r := 0; r < nrows; r++ {
			var row []MyCell
			for i, col := range cols {
				cl := fmt.Sprintf("%s.r%dc%d", l, r, i)
				if col.Cfg < 0 {
					if binary {
						row = append(row, MyCell{B: Blob{N: 4, Pat: []byte{byte(r + 1), 0, 0, 0}}})
					} else {
						row = append(row, MyCell{B: textBlob(fmt.Sprint(r + 1))})
					}
					continue
				}
				row = append(row, genRewriteCellFate(t, cl, c.Schema[col.Cfg], fates[i]))
			}
			s.Rows = append(s.Rows, row)
		}
		return s
	}
	selectSQL := func(cols []MyCol, where string) string {
		if len(cols) == len(all) && cols[0].Cfg < 0 && cols[len(cols)-1].Cfg == len(all)-2 && &cols[0] == &all[0] {
			return "SELECT * FROM t" + where
		}
		var names []string
		for _, col := range cols {
			names = append(names, col.Name)
		}
		return "SELECT " + strings.Join(names, ", ") + " FROM t" + where
	}
	n := rapid.IntRange(1, 4).Draw(t, "nops")
	for i := 0; i < n; i++ {
		l := fmt.Sprintf("op%d", i)
		switch rapid.SampledFrom([]string{"select", "select", "select-binary", "select-binary", "insert", "insert-binary", "ping"}).Draw(t, l+".kind") {
		case "select":
			cols := pickCols(l)
			op := MyOp{Kind: "query", SQL: selectSQL(cols, rapid.SampledFrom([]string{"", " WHERE id = 1", " WHERE id <> 7"}).Draw(t, l+".where"))}
			op.Resp.Kind = "sets"
			op.Resp.Sets = []MySet{genSet(l, cols, false)}
			c.Ops = append(c.Ops, op)
		case "select-binary":
			cols := pickCols(l)
			prep := MyOp{Kind: "prepare", SQL: selectSQL(cols, rapid.SampledFrom([]string{" WHERE id = ?", " WHERE id <> ?", ""}).Draw(t, l+".where"))}
			prep.Resp.Kind = "prepok"
			prep.Resp.NParams = strings.Count(prep.SQL, "?")
			prep.Resp.Cols = cols
			c.Ops = append(c.Ops, prep)
			idx := len(c.Ops) - 1
			times := rapid.IntRange(1, 2).Draw(t, l+".times")
			for k := 0; k < times; k++ {
				ex := MyOp{Kind: "execute", Stmt: idx, NewParams: k == 0 || rapid.Bool().Draw(t, fmt.Sprintf("%s.np%d", l, k))}
				if prep.Resp.NParams > 0 {
					ex.Params = []MyParam{{Type: mysess.TypeLong, B: Blob{N: 4, Pat: []byte{byte(k + 1), 0, 0, 0}}}}
				}
				ex.Resp.Kind = "sets"
				ex.Resp.Sets = []MySet{genSet(fmt.Sprintf("%s.x%d", l, k), cols, true)}
				c.Ops = append(c.Ops, ex)
			}
		case "insert":
			op := MyOp{Kind: "query"}
			op.Insert = []MyCell{{B: textBlob(fmt.Sprint(i + 1))}}
			for j, cfg := range c.Schema {
				cell := genRewriteCell(t, fmt.Sprintf("%s.v%d", l, j), cfg)
				cell.Prot = ""
				if cfg.Role == "int32" || cfg.Role == "int64" {
					if !cell.Null && len(cell.B.Pat) > 0 && cell.B.Pat[0] == 0xfe {
						cell.B = textBlob("42")
					}
				}
				if cell.B.N > 70000 {
					cell.B.N = 300
				}
				op.Insert = append(op.Insert, cell)
			}
			op.Resp.Kind = "ok"
			op.Resp.OK = genMyOK(t, l+".ok", caps)
			c.Ops = append(c.Ops, op)
		case "insert-binary":
			var names, marks []string
			for _, col := range all {
				names = append(names, col.Name)
				marks = append(marks, "?")
			}
			prep := MyOp{Kind: "prepare", SQL: "INSERT INTO t (" + strings.Join(names, ", ") + ") VALUES (" + strings.Join(marks, ", ") + ")"}
			prep.Resp.Kind = "prepok"
			prep.Resp.NParams = len(all)
			c.Ops = append(c.Ops, prep)
			idx := len(c.Ops) - 1
			times := rapid.IntRange(1, 2).Draw(t, l+".times")
			var prevParams []MyParam
			for k := 0; k < times; k++ {
				el := fmt.Sprintf("%s.x%d", l, k)
				ex := MyOp{Kind: "execute", Stmt: idx, NewParams: k == 0 || rapid.Bool().Draw(t, el+".np")}
				ex.Insert = []MyCell{{B: Blob{N: 4, Pat: []byte{byte(k + 1), 0, 0, 0}}}}
				ex.Params = []MyParam{{Type: mysess.TypeLong, B: ex.Insert[0].B}}
				idKind := rapid.SampledFrom([]string{"int", "int", "negative", "unsigned-bigint"}).Draw(t, el+".idkind")
				if !ex.NewParams {
					idKind = "int"
					if prevParams[0].Type == mysess.TypeLongLong {
						idKind = "unsigned-bigint"
					}
				}
				switch idKind {
				case "negative":
					ex.Insert[0].B = Blob{N: 4, Pat: []byte{0xfe, 0xff, 0xff, 0xff}}
					ex.Params[0].B = ex.Insert[0].B
				case "unsigned-bigint":
					ex.Insert[0].B = Blob{N: 8, Pat: []byte{byte(k + 1), 0, 0, 0, 0, 0, 0, 0xf0}}
					ex.Params[0] = MyParam{Type: mysess.TypeLongLong, Unsigned: true, B: ex.Insert[0].B}
				}
				for j, cfg := range c.Schema {
					cell := genRewriteCell(t, fmt.Sprintf("%s.v%d", el, j), cfg)
					cell.Prot = ""
					if cell.B.N > 70000 {
						cell.B.N = 300
					}
					p := MyParam{Type: rapid.SampledFrom([]byte{mysess.TypeVarString, mysess.TypeBlob, mysess.TypeString}).Draw(t, fmt.Sprintf("%s.t%d", el, j)), Null: cell.Null, B: cell.B}
					if !ex.NewParams {
						p.Type = prevParams[j+1].Type // types that are not sent are those of the previous execution
					}
					if cfg.Role == "int32" || cfg.Role == "int64" {
						if !cell.Null && (len(cell.B.Pat) == 0 || cell.B.Pat[0] == 0xfe) {
							cell.B = textBlob("42")
						}
						// integers are bound as integers
						if !cell.Null && cell.B.N > 0 {
							var v int64
							fmt.Sscan(string(cell.B.Bytes()), &v)
							typ := mysess.TypeLong
							if cfg.Role == "int64" {
								typ = mysess.TypeLongLong
							}
							p = MyParam{Type: typ, B: Blob{N: mysess.BinaryWidth(typ), Pat: mysess.IntBytes(typ, v)}}
							p.B.Pat = append([]byte{}, p.B.Pat...)
						} else {
							p.B = cell.B
						}
					}
					if cell.Null && ex.NewParams {
						// a NULL is bound with the NULL type, with the type of the column's values, or with a string type
						switch rapid.SampledFrom([]string{"null-type", "value-type", "string-type"}).Draw(t, fmt.Sprintf("%s.nulltype%d", el, j)) {
						case "null-type":
							p.Type = mysess.TypeNull
						case "value-type":
							if cfg.Role == "int32" {
								p.Type = mysess.TypeLong
							} else if cfg.Role == "int64" {
								p.Type = mysess.TypeLongLong
							}
						}
					}
					if !ex.NewParams && prevParams[j+1].Type == mysess.TypeNull {
						// a parameter declared as NULL type stays NULL
						p, cell = MyParam{Type: mysess.TypeNull, Null: true}, MyCell{Null: true}
					}
					if !ex.NewParams && (cfg.Role == "int32" || cfg.Role == "int64") && !p.Null && p.Type != prevParams[j+1].Type {
						p.Type = prevParams[j+1].Type
						if mysess.BinaryWidth(p.Type) < 0 {
							p.B = cell.B
						}
					}
					ex.Insert = append(ex.Insert, cell)
					ex.Params = append(ex.Params, p)
				}
				ex.Resp.Kind = "ok"
				ex.Resp.OK = MyOK{Affected: 1, Status: mysess.StatusAutocommit}
				prevParams = ex.Params
				c.Ops = append(c.Ops, ex)
			}
		case "ping":
			c.Ops = append(c.Ops, MyOp{Kind: "ping", Resp: MyResp{Kind: "ok", OK: MyOK{Status: mysess.StatusAutocommit}}})
		}
	}
	return c
}

// renderInsert renders INSERT INTO t (id, c0, ..) VALUES (..) from the cells of the op.
func (c MyCase) renderInsert(op MyOp) ([]byte, *insertInfo) {
	names := []string{"id"}
	roles := []string{"plain"}
	for i, cfg := range c.Schema {
		names = append(names, fmt.Sprintf("c%d", i))
		roles = append(roles, cfg.Role)
	}
	var vals []string
	for i, cell := range op.Insert {
		switch {
		case cell.Null:
			vals = append(vals, "NULL")
		case i == 0 || ((roles[i] == "int32" || roles[i] == "int64") && cell.B.N > 0):
			vals = append(vals, string(cell.B.Bytes()))
		case roles[i] == "str" || (roles[i] == "plain" && i%2 == 1):
			vals = append(vals, sqlQuote(cell.B.Bytes()))
		default:
			vals = append(vals, fmt.Sprintf("X'%x'", cell.B.Bytes()))
		}
	}
	sql := "INSERT INTO t (" + strings.Join(names, ", ") + ") VALUES (" + strings.Join(vals, ", ") + ")"
	return []byte(sql), &insertInfo{cells: op.Insert, roles: roles}
}

// ---------------------------------------------------------------------------------------------
// oracle of the rewrite layer

func (c MyCase) compareRewrite(vs *hx.Vs, cl classSet, r *myRun, toDB, toClient []spkt, broken bool) (nontrivial bool) {
	caps := c.effCaps()
	_ = caps
	// database -> client
	got, rest, err := mysess.SplitStream(r.clientRecv)
	if err != nil {
		vs.Add("malformed-framing:db->client", "the stream the client received is not a sequence of packets: %v", err)
		return
	}
	if len(rest) > 0 && !broken {
		vs.Add("trailing-bytes:db->client", "%d bytes after the last complete packet the client received: %s", len(rest), around(rest, 0))
	}
	var clTypes []byte
	for i, p := range toClient {
		if i >= len(got) {
			if !broken {
				vs.Add("packet-missing:db->client:"+p.label, "the client received %d packets, the database sent %d; first missing: %s", len(got), len(toClient), p.label)
			}
			break
		}
		g := got[i]
		if g.Seq != p.seq {
			vs.Add("sequence-id:db->client:"+p.label, "packet %d (%s) arrived with sequence id %d, the database sent %d", i, p.label, g.Seq, p.seq)
			return
		}
		switch {
		case strings.HasSuffix(p.label, "column-count"):
			clTypes = nil
		}
		switch {
		case strings.HasSuffix(p.label, "column-def") || strings.HasSuffix(p.label, "param-def"):
			kind := "column-def"
			if strings.HasSuffix(p.label, "param-def") {
				kind = "param-def"
			}
			cd, err := mysess.DecodeColumnDef(g.Payload)
			if err != nil {
				vs.Add("malformed-"+kind+":"+p.colRole, "%s (%s, role %q) does not re-parse: %v; received % x, database sent % x", kind, p.label, p.colRole, err, trunc(g.Payload), trunc(p.payload))
				return
			}
			if kind == "column-def" {
				clTypes = append(clTypes, cd.Type)
			}
			if bytes.Equal(g.Payload, p.payload) {
				if p.expCol != nil {
					// relayed as the database described it (the property does not demand the re-typing; C19 does)
					cl.add("column-def:configured-but-relayed:%s", p.colRole)
					if p.mayKeepType {
						cl.add("column-def:database-type-kept-for-unrevealable-value:%s", p.colRole)
					}
				}
				break
			}
			// a description the proxy re-typed: everything but type, charset, length, flags and decimals is kept
			cl.add("%s:retyped", kind)
			e, err := mysess.DecodeColumnDef(p.payload)
			if err != nil {
				vs.Add("harness:column-def", "%v", err)
				return
			}
			if cd.Catalog != e.Catalog || cd.Schema != e.Schema || cd.Table != e.Table || cd.OrgTable != e.OrgTable || cd.Name != e.Name || cd.OrgName != e.OrgName {
				vs.Add(kind+"-names-changed", "re-typed %s changed names: got %+v, database sent %+v", kind, cd, e)
				return
			}
			if p.expCol != nil {
				cl.add("column-def:retyped:%s", p.colRole)
				if p.mayKeepType && cd.Type == e.Type {
					// rolled back to the database's type (the other fixed fields may keep what the re-typing made of them)
					cl.add("column-def:database-type-kept-for-unrevealable-value:%s", p.colRole)
				}
				if want, _ := roleType(p.colRole); cd.Type != want && !(p.mayKeepType && cd.Type == e.Type) {
					vs.Add("column-def-type:"+p.colRole, "column configured as %s is described with type 0x%02x, want 0x%02x", p.colRole, cd.Type, want)
					return
				}
			} else if kind == "column-def" {
				vs.Add("relay-differs:db->client:"+p.label, "column definition of an unconfigured / untyped column changed: received % x, database sent % x", trunc(g.Payload), trunc(p.payload))
				return
			}
		case p.expRow != nil:
			proto := "text"
			var row []mysess.Value
			var err error
			if p.rowBin {
				proto = "binary"
				if len(clTypes) != len(p.expRow) {
					vs.Add("harness:types", "have %d client-side column types for a row of %d", len(clTypes), len(p.expRow))
					return
				}
				row, err = mysess.DecodeBinaryRow(g.Payload, clTypes)
			} else {
				row, err = mysess.DecodeTextRow(g.Payload, len(p.expRow))
			}
			kinds := rowKinds(p.expRow)
			if p.rowBin && p.rowSet.mixedInt {
				kinds = "integer-column-with-revealed-and-ciphertext-rows"
			}
			if err != nil {
				vs.Add("malformed-row:"+proto+":"+kinds, "%s row (%s) does not re-parse as %d columns against the column definitions the client received (types % x; the database's % x): %v; received %d bytes % x, database sent %d bytes", proto, kinds, len(p.expRow), clTypes, p.rowSet.dbTypes, err, len(g.Payload), trunc(g.Payload), len(p.payload))
				return
			}
			changed, unchanged := 0, 0
			for j, e := range p.expRow {
				role := p.rowSet.roles[j]
				cl.add("%s-row:cell:%s/%s", proto, role, e.cls)
				if e.changed {
					cl.add("%s-row:%s:%s->%s", proto, e.cls, lenClassShort(e.dbLen), lenClassShort(len(e.b)))
				}
				if row[j].Null != e.null {
					vs.Add("null-marker-changed:"+proto+":"+role, "%s row column %d (%s): NULL=%v, database sent NULL=%v", proto, j, role, row[j].Null, e.null)
					return
				}
				if e.null {
					continue
				}
				if e.changed {
					changed++
				} else {
					unchanged++
				}
				if e.exact && !bytes.Equal(row[j].B, e.b) {
					sig := "untransformed-field-changed:"
					if e.changed {
						sig = "transformed-field-wrong:"
					}
					vs.Add(sig+proto+":"+role+":"+e.cls, "%s row column %d (%s, %s): client received %d bytes %.60q, expected %d bytes %.60q", proto, j, role, e.cls, len(row[j].B), row[j].B, len(e.b), e.b)
					return
				}
			}
			if changed > 0 && unchanged > 0 {
				nontrivial = true
				cl.add("%s-row:changed+unchanged", proto)
			}
		default:
			if !bytes.Equal(g.Payload, p.payload) {
				d := firstDiff(g.Payload, p.payload)
				vs.Add("relay-differs:db->client:"+p.label, "packet %d (%s) differs at payload offset %d: received %s, database sent %s", i, p.label, d, around(g.Payload, d), around(p.payload, d))
				return
			}
		}
	}
	if len(got) > len(toClient) {
		vs.Add("extra-packets:db->client", "the client received %d packets, the database sent %d", len(got), len(toClient))
	}
	// client -> database
	gotDB, rest, err := mysess.SplitStream(r.dbRecv)
	if err != nil {
		vs.Add("malformed-framing:client->db", "the stream the database received is not a sequence of packets: %v", err)
		return
	}
	if len(rest) > 0 && !broken {
		vs.Add("trailing-bytes:client->db", "%d bytes after the last complete packet the database received: %s", len(rest), around(rest, 0))
	}
	lastTypes := map[uint32][]mysess.Param{}
	for i, p := range toDB {
		if i >= len(gotDB) {
			if !broken {
				vs.Add("packet-missing:client->db:"+p.label, "the database received %d packets, the client sent %d; first missing: %s", len(gotDB), len(toDB), p.label)
			}
			break
		}
		g := gotDB[i]
		if g.Seq != p.seq {
			vs.Add("sequence-id:client->db:"+p.label, "packet %d (%s) arrived with sequence id %d, the client sent %d", i, p.label, g.Seq, p.seq)
			return
		}
		if p.insert == nil {
			if !bytes.Equal(g.Payload, p.payload) && (p.label == "com-prepare" || p.label == "com-query") && len(g.Payload) > 0 && g.Payload[0] == p.payload[0] && sameStatement(string(g.Payload[1:]), string(p.payload[1:])) {
				// a statement on the configured table may be re-serialised by the proxy: same meaning for an independent parser
				cl.add("statement-reserialised:%s", p.label)
				continue
			}
			if !bytes.Equal(g.Payload, p.payload) {
				d := firstDiff(g.Payload, p.payload)
				vs.Add("relay-differs:client->db:"+p.label, "packet %d (%s) differs at payload offset %d: database received %s, client sent %s", i, p.label, d, around(g.Payload, d), around(p.payload, d))
				return
			}
			continue
		}
		if p.insert.exec {
			cl.add("execute-rewritten")
			if !c.checkExecute(vs, cl, p, g.Payload, lastTypes) {
				return
			}
		} else {
			cl.add("query-rewritten")
			if !c.checkInsertSQL(vs, cl, p, g.Payload) {
				return
			}
		}
	}
	return nontrivial
}

// sameStatement tells whether two statement texts mean the same to the fake database's parser.
func sameStatement(a, b string) bool {
	sa, err := mysess.Inspect(a)
	if err != nil {
		return false
	}
	sb, err := mysess.Inspect(b)
	if err != nil || sa.Kind == "other" {
		return false
	}
	head := func(s *mysess.Statement) string {
		return strings.ToLower(fmt.Sprintf("%s|%s|%v|%v|%d", s.Kind, s.Table, s.Cols, s.Star, s.NParams))
	}
	return head(sa) == head(sb) && fmt.Sprint(sa.Rows) == fmt.Sprint(sb.Rows)
}

func lenClassShort(n int) string {
	switch {
	case n < 251:
		return "<251"
	case n < 65536:
		return "<65536"
	}
	return ">=65536"
}

func rowKinds(exp []expCell) string {
	set := map[string]bool{}
	for _, e := range exp {
		set[e.cls] = true
	}
	var out []string
	// the signature names the most specific class present in the row
	for _, k := range []string{"empty-in-integer-column", clsKeptInt, "ciphertext-kept", "grow", "same-length", "shrink", "empty", "null", "unchanged"} {
		if set[k] {
			return k
		}
	}
	_ = out
	return "other"
}

func containsPlain(hay, plain []byte) bool {
	return len(plain) >= 6 && bytes.Contains(hay, plain)
}

func (c MyCase) checkInsertSQL(vs *hx.Vs, cl classSet, p spkt, got []byte) bool {
	if len(got) == 0 || got[0] != mysess.ComQuery {
		vs.Add("malformed-query-packet", "rewritten COM_QUERY starts with % x", trunc(got))
		return false
	}
	st, err := mysess.Inspect(string(got[1:]))
	if err != nil {
		vs.Add("rewritten-query-unparseable", "the database received %.300q, which does not parse: %v (client sent %.300q)", got[1:], err, p.payload[1:])
		return false
	}
	in := p.insert
	if st.Kind != "insert" || !strings.EqualFold(st.Table, "t") || len(st.Rows) != 1 || len(st.Rows[0]) != len(in.cells) || len(st.Cols) != len(in.cells) {
		vs.Add("rewritten-query-shape", "the database received %.300q: kind %s table %s %d columns %d rows; client sent %.300q", got[1:], st.Kind, st.Table, len(st.Cols), len(st.Rows), p.payload[1:])
		return false
	}
	for i, cell := range in.cells {
		lit := st.Rows[0][i]
		role := in.roles[i]
		if cell.Null {
			if lit.Kind != "null" {
				vs.Add("null-marker-changed:query:"+role, "value %d (%s) was NULL, the database received a %s literal", i, role, lit.Kind)
				return false
			}
			continue
		}
		if lit.Kind == "null" || lit.Kind == "param" {
			vs.Add("null-marker-changed:query:"+role, "value %d (%s) was not NULL, the database received %s", i, role, lit.Kind)
			return false
		}
		plain := cell.B.Bytes()
		if role == "plain" {
			if !bytes.Equal(lit.B, plain) {
				vs.Add("untransformed-field-changed:query:"+role, "value %d of an unconfigured column: database received %.60q, client sent %.60q", i, lit.B, plain)
				return false
			}
			continue
		}
		if len(plain) == 0 {
			continue
		}
		cl.add("query:value-protected:%s", role)
		if bytes.Equal(lit.B, plain) || containsPlain(lit.B, plain) {
			vs.Add("value-not-protected:query:"+role, "value %d of a configured column (%s) reached the database in clear: %.60q", i, role, lit.B)
			return false
		}
	}
	return true
}

func (c MyCase) checkExecute(vs *hx.Vs, cl classSet, p spkt, got []byte, last map[uint32][]mysess.Param) bool {
	in := p.insert
	n := len(in.cells)
	sent, err := mysess.DecodeExecute(p.payload, n, in.types)
	if err != nil {
		vs.Add("harness:execute", "own COM_STMT_EXECUTE does not decode: %v", err)
		return false
	}
	e, err := mysess.DecodeExecute(got, n, last[sent.StmtID])
	if err != nil {
		vs.Add("malformed-execute:"+execKinds(in, sent), "COM_STMT_EXECUTE (%s) as received by the database does not re-parse with %d parameters: %v; received %d bytes % x, client sent %d bytes % x", execKinds(in, sent), n, err, len(got), trunc(got), len(p.payload), trunc(p.payload))
		return false
	}
	last[sent.StmtID] = e.Params
	if e.StmtID != sent.StmtID || e.Flags != sent.Flags {
		vs.Add("execute-header-changed", "statement id / flags %d/%d, client sent %d/%d", e.StmtID, e.Flags, sent.StmtID, sent.Flags)
		return false
	}
	for i, cell := range in.cells {
		role := in.roles[i]
		g, s := e.Params[i], sent.Params[i]
		if g.Null != s.Null {
			vs.Add("null-marker-changed:execute:"+role, "parameter %d (%s): NULL=%v, client sent NULL=%v", i, role, g.Null, s.Null)
			return false
		}
		if s.Null {
			continue
		}
		if role == "plain" {
			// a rewritten message may re-encode untouched parts in an equivalent form: the signedness flag of a
			// non-negative integer is such a form; the decoded meaning must be the same
			sameMeaning := g.Type == s.Type && bytes.Equal(g.B, s.B) && (g.Unsigned == s.Unsigned || (isIntType(s.Type) && len(s.B) > 0 && s.B[len(s.B)-1]&0x80 == 0))
			if !sameMeaning && g.Type == s.Type && bytes.Equal(g.B, s.B) && s.Unsigned && !g.Unsigned {
				// open finding when listed: exactly this shape is excluded and counted
				if !replaying && R.IsKnown(sigUnsignedFlag) {
					cl.add("excluded:unsigned-flag-dropped")
					continue
				}
				vs.Add(sigUnsignedFlag, "parameter %d of an unconfigured column: the client bound the unsigned integer % x (above the signed range), the database received the same bytes flagged as signed", i, s.B)
				return false
			}
			if !sameMeaning {
				vs.Add("untransformed-field-changed:execute:"+role, "parameter %d of an unconfigured column: database received type 0x%02x unsigned=%v %.60q, client sent type 0x%02x unsigned=%v %.60q", i, g.Type, g.Unsigned, g.B, s.Type, s.Unsigned, s.B)
				return false
			}
			continue
		}
		plain := cell.B.Bytes()
		if len(plain) == 0 {
			continue
		}
		cl.add("execute:value-protected:%s", role)
		if bytes.Equal(g.B, s.B) || containsPlain(g.B, plain) {
			vs.Add("value-not-protected:execute:"+role, "parameter %d of a configured column (%s) reached the database in clear: %.60q", i, role, g.B)
			return false
		}
	}
	return true
}

const sigUnsignedFlag = "signedness-changed:execute:unsigned-integer-above-signed-range"

func isIntType(t byte) bool {
	switch t {
	case mysess.TypeTiny, mysess.TypeShort, mysess.TypeYear, mysess.TypeLong, mysess.TypeInt24, mysess.TypeLongLong:
		return true
	}
	return false
}

func execKinds(in *insertInfo, e mysess.Execute) string {
	var k []string
	if e.NewParams {
		k = append(k, "types-sent")
	} else {
		k = append(k, "types-not-sent")
	}
	nullTyped := false
	for _, p := range e.Params {
		if p.Null && p.Type != mysess.TypeNull {
			nullTyped = true
		}
	}
	if nullTyped {
		k = append(k, "null-with-non-null-type")
	}
	return strings.Join(k, "+")
}

func TestMySQLRewrite(t *testing.T) {
	R.Rule("TestMySQLRewrite", "a MySQL session as in TestMySQLRelay with an encryptor configuration for table t: columns c0..c4 with generated roles (not configured / encrypted with acrastruct or acrablock / data_type str, bytes, int32, int64 with response_on_fail default_value and defaults of lengths 0, 3, 12, 250, 251, 300, or with response_on_fail ciphertext - written out or left to the loader's default); commands: SELECT (text rows) and prepared SELECT (binary rows, executed once or twice, types re-sent or not) answered by the scripted server with rows whose configured columns hold NULL / empty / really protected values made with fix.Protect (plaintext lengths 1..65536, so decryption shrinks them, also across the 251 and 65536 boundaries) / stored bytes that do not decrypt (replaced by the default: grows, shrinks or keeps the length; under the ciphertext policy handed over as stored, where the proxy has to leave the column definition at the database's type; in a binary result set the values of one int32/int64 column under that policy are all revealable or all unrevealable - the mix is the open finding C19 malformed-row:binary:integer-column-with-revealed-and-ciphertext-rows and is not generated); INSERT as text and as prepared statement with values for configured columns. Oracle: every packet keeps its sequence id; untouched packets byte-identical; a rewritten row re-parses strictly with the reference codec against the column definitions the client received in front of it (binary rows are taken apart by the announced types: a column announced as LONG / LONGLONG must hold 4 / 8 bytes, one announced with the database's type a length-encoded value; no trailing bytes, canonical length prefixes), NULL markers preserved, unconfigured and unchanged fields byte-identical (a value kept under the ciphertext policy is such a field), changed fields equal the expected plaintext / default; re-typed column definitions re-parse with all names preserved and announce the configured type, or the database's type when the result set holds a value that is kept as stored; a rewritten COM_QUERY parses with an independent parser to the same statement with unconfigured values unchanged and configured values not in clear; a rewritten COM_STMT_EXECUTE re-parses with the same NULL bitmap and untouched parameters. Non-trivial: a row with >= 1 changed and >= 1 unchanged non-NULL column")
	hx.Checks(400, 1500)
	rapid.Check(t, func(rt *rapid.T) {
		c := genMyRewriteCase(rt)
		vs, classes, nt := CheckMy(c)
		R.Seen("TestMySQLRewrite", c, nt, classes...)
		report(rt, "TestMySQLRewrite", c, vs)
	})
}

// ---------------------------------------------------------------------------------------------
// back-to-back commands: the response handler must belong to the command it was set for

// BackToBackCase is a number of identical SELECTs sent one right after the other's response.
type BackToBackCase struct {
	N          int  `json:"n"`
	Prepared   bool `json:"prepared"`
	DeprecEOF  bool `json:"deprecate_eof"`
	PlainBytes int  `json:"plain_bytes"`
}

const sigHandlerRace = "response-not-processed:back-to-back-commands"

// CheckBackToBack plays N queries whose single row holds a protected value and counts the rows that arrived undecrypted.
func CheckBackToBack(c BackToBackCase) hx.Vs {
	var vs hx.Vs
	mc := MyCase{Auth: MyAuth{Kind: "ok", User: "app", DB: "db1"}, ServerCaps: optionalCaps | mysess.CapProtocol41, ClientCaps: mysess.DefaultCaps,
		Schema: []MyCfgCol{{Role: "plain"}, {Role: "enc"}}}
	if c.DeprecEOF {
		mc.ClientCaps |= mysess.CapDeprecateEOF
	}
	cols := tableCols(mc.Schema)
	set := MySet{Cols: cols, End: MyOK{Status: mysess.StatusAutocommit}}
	id := MyCell{B: textBlob("1")}
	if c.Prepared {
		id = MyCell{B: Blob{N: 4, Pat: []byte{1, 0, 0, 0}}}
	}
	set.Rows = [][]MyCell{{id, {B: textBlob("x")}, {B: Blob{N: c.PlainBytes}, Prot: "acrablock"}}}
	if c.Prepared {
		mc.Ops = append(mc.Ops, MyOp{Kind: "prepare", SQL: "SELECT * FROM t", Resp: MyResp{Kind: "prepok", Cols: cols}})
	}
	for i := 0; i < c.N; i++ {
		if c.Prepared {
			mc.Ops = append(mc.Ops, MyOp{Kind: "execute", Stmt: 0, NewParams: true, Resp: MyResp{Kind: "sets", Sets: []MySet{set}}})
		} else {
			mc.Ops = append(mc.Ops, MyOp{Kind: "query", SQL: "SELECT * FROM t", Resp: MyResp{Kind: "sets", Sets: []MySet{set}}})
		}
	}
	once, _, _ := checkMyOnce(mc)
	for _, v := range once {
		if strings.HasPrefix(v.Sig, "transformed-field-wrong:") {
			vs.Add(sigHandlerRace, "one of %d identical back-to-back statements came back unprocessed: %s", c.N, v.Msg)
		} else {
			vs = append(vs, v)
		}
	}
	return vs
}

func TestMySQLBackToBack(t *testing.T) {
	R.Rule("TestMySQLBackToBack", "one session, 100-300 identical SELECTs (text, or one prepared statement executed repeatedly) each answered with one row holding a protected value, every command sent as soon as the previous response is complete; every row must arrive decrypted (the response handler chosen for a command must not be overwritten by the tail of the previous response). The failure this looks for is a race: a violation is certain to be genuine, absence of one in a single run is weak evidence. Non-trivial: every case")
	hx.Checks(8, 30)
	rapid.Check(t, func(rt *rapid.T) {
		c := BackToBackCase{N: rapid.IntRange(100, 300).Draw(rt, "n"), Prepared: rapid.Bool().Draw(rt, "prepared"), DeprecEOF: rapid.Bool().Draw(rt, "eof"), PlainBytes: rapid.SampledFrom([]int{1, 20, 300}).Draw(rt, "len")}
		vs := CheckBackToBack(c)
		R.Seen("TestMySQLBackToBack", c, true, fmt.Sprintf("prepared=%v", c.Prepared), fmt.Sprintf("deprecate-eof=%v", c.DeprecEOF))
		report(rt, "TestMySQLBackToBack", c, vs)
	})
}
