package c02

import (
	"bytes"
	"context"
	"fmt"
	"sync"
	"testing"

	"pgregory.net/rapid"

	"verif/internal/fix"
	"verif/internal/hx"
)

// ConcCase: requests of several identities served by ONE AcraTranslator service at the same time (the
// service object is shared by all gRPC / HTTP handlers of the process). Every request asks for the reveal
// of a value under the identity of the caller; the value belongs to the caller or to somebody else.
// Oracle per request, whatever the schedule: own value -> exactly its plaintext; foreign value -> an error
// or bytes that do not contain the plaintext marker. Built with -race; a race report during the case
// is not judged here (C17 owns concurrency of the keystore) - only what a request returns is.
type ConcCase struct {
	Workers int    `json:"workers"`
	Rounds  int    `json:"rounds"`
	Reqs    []CReq `json:"reqs"` // the batch every round releases together (one goroutine per request)
}

// CReq: caller asks for the reveal of Owner's value protected as Kind.
type CReq struct {
	Caller string `json:"caller"` // alice | bobby
	Owner  string `json:"owner"`
	Kind   string `json:"kind"` // struct | block | struct-search | block-search
}

func genConcCase(t *rapid.T) ConcCase {
	c := ConcCase{Rounds: rapid.IntRange(20, 60).Draw(t, "rounds")}
	n := rapid.IntRange(4, 16).Draw(t, "nreqs")
	for i := 0; i < n; i++ {
		c.Reqs = append(c.Reqs, CReq{
			Caller: rapid.SampledFrom([]string{"alice", "bobby"}).Draw(t, "caller"),
			Owner:  rapid.SampledFrom([]string{"alice", "bobby"}).Draw(t, "owner"),
			Kind:   rapid.SampledFrom([]string{"struct", "block", "block", "struct-search", "block-search"}).Draw(t, "kind"),
		})
	}
	c.Workers = n
	return c
}

type concInfo struct{ foreign, own, mixed bool }

// CheckConcurrent runs the batch Rounds times.
func CheckConcurrent(c ConcCase) (vs hx.Vs, info concInfo) {
	w := fix.TheWorld()
	svc := fix.Translator(w.KS, nil, nil)
	ids := map[string][]byte{"alice": w.Alice, "bobby": w.Bobby}
	ctx := context.Background()
	type prot struct {
		plain, data, hash []byte
	}
	// every (owner, kind) has its own plaintext with a unique marker
	values := map[string]prot{}
	n := 0
	for _, owner := range []string{"alice", "bobby"} {
		for _, kind := range []string{"struct", "block", "struct-search", "block-search"} {
			n++
			plain := []byte(fmt.Sprintf("MRKC02%012x value of %s as %s", 0xC0DE00+n, owner, kind))
			p := prot{plain: plain}
			var err error
			switch kind {
			case "struct":
				p.data, err = svc.Encrypt(ctx, plain, ids[owner], nil)
			case "block":
				p.data, err = svc.EncryptSym(ctx, plain, ids[owner], nil)
			case "struct-search":
				r, e := svc.EncryptSearchable(ctx, plain, ids[owner], nil)
				p.data, p.hash, err = r.EncryptedData, r.Hash, e
			default:
				r, e := svc.EncryptSymSearchable(ctx, plain, ids[owner], nil)
				p.data, p.hash, err = r.EncryptedData, r.Hash, e
			}
			if err != nil {
				vs.Add("harness:protect", "%s/%s: %v", owner, kind, err)
				return vs, info
			}
			values[owner+"/"+kind] = p
		}
	}
	callers := map[string]bool{}
	for _, r := range c.Reqs {
		if r.Caller == r.Owner {
			info.own = true
		} else {
			info.foreign = true
		}
		callers[r.Caller] = true
	}
	info.mixed = len(callers) > 1
	var mu sync.Mutex
	seen := map[string]bool{}
	add := func(sig, f string, a ...any) {
		mu.Lock()
		defer mu.Unlock()
		if !seen[sig] {
			seen[sig] = true
			vs.Add(sig, f, a...)
		}
	}
	for round := 0; round < c.Rounds; round++ {
		start := make(chan struct{})
		var wg sync.WaitGroup
		for _, r := range c.Reqs {
			r := r
			wg.Add(1)
			go func() {
				defer wg.Done()
				defer func() {
					if p := recover(); p != nil {
						add("panic:translator-concurrent", "translator request panicked: %v", p)
					}
				}()
				p := values[r.Owner+"/"+r.Kind]
				<-start
				var out []byte
				var err error
				switch r.Kind {
				case "struct":
					out, err = svc.Decrypt(ctx, append([]byte(nil), p.data...), ids[r.Caller], nil)
				case "block":
					out, err = svc.DecryptSym(ctx, append([]byte(nil), p.data...), ids[r.Caller], nil)
				case "struct-search":
					out, err = svc.DecryptSearchable(ctx, append([]byte(nil), p.data...), append([]byte(nil), p.hash...), ids[r.Caller], nil)
				default:
					out, err = svc.DecryptSymSearchable(ctx, append([]byte(nil), p.data...), append([]byte(nil), p.hash...), ids[r.Caller], nil)
				}
				if r.Caller == r.Owner {
					if err != nil || !bytes.Equal(out, p.plain) {
						add("owner-cannot-read-own-value:translator-concurrent:"+r.Kind, "%s asked the translator for its own %s value while other identities' requests were in flight and did not get it back (error: %v)", r.Caller, r.Kind, fix.Describe(err))
					}
					return
				}
				if err == nil && bytes.Contains(out, p.plain[:18]) {
					add("other-identity-received-plaintext:translator-concurrent:"+r.Kind, "%s asked the translator to reveal a %s value of %s while %s's own requests were in flight and received its plaintext", r.Caller, r.Kind, r.Owner, r.Owner)
				}
			}()
		}
		close(start)
		wg.Wait()
		if len(vs) > 0 {
			break
		}
	}
	return vs, info
}

func TestTranslatorConcurrent(t *testing.T) {
	R.Rule("TestTranslatorConcurrent", "4-16 reveal requests (AcraStruct / AcraBlock / searchable variants) of two identities, for their own and for each other's values, released together against one shared TranslatorService, 20-60 rounds per case; per request, whatever the schedule: own value -> exactly the plaintext, foreign value -> error or bytes without the plaintext marker; non-trivial = the batch mixes callers and holds own and foreign requests")
	hx.Checks(60, 600)
	rapid.Check(t, func(rt *rapid.T) {
		c := genConcCase(rt)
		vs, info := CheckConcurrent(c)
		cl := []string{fmt.Sprintf("batch:%d", len(c.Reqs)/4*4)}
		if info.mixed {
			cl = append(cl, "callers:mixed")
		}
		if info.foreign {
			cl = append(cl, "with-foreign-requests")
		}
		R.Seen("TestTranslatorConcurrent", c, info.mixed && info.own && info.foreign, cl...)
		R.Report(rt, "TestTranslatorConcurrent", c, vs)
	})
}
