package c02

import (
	"bufio"
	"bytes"
	"context"
	"crypto/sha512"
	"crypto/tls"
	"crypto/x509"
	"encoding/base64"
	"encoding/hex"
	"encoding/json"
	"errors"
	"fmt"
	"io"
	"net"
	"net/http"
	"os"
	"sync"
	"sync/atomic"
	"testing"
	"time"

	"github.com/gin-gonic/gin"
	"golang.org/x/net/http2"
	"pgregory.net/rapid"

	translatorcommon "github.com/cossacklabs/acra/cmd/acra-translator/common"
	"github.com/cossacklabs/acra/cmd/acra-translator/http_api"
	"github.com/cossacklabs/acra/hmac"
	"github.com/cossacklabs/acra/keystore"
	"github.com/cossacklabs/acra/network"
	"github.com/cossacklabs/acra/pseudonymization"
	tokencommon "github.com/cossacklabs/acra/pseudonymization/common"
	"github.com/cossacklabs/acra/pseudonymization/storage"

	"verif/internal/fix"
	"verif/internal/hx"
	"verif/internal/pgsess"
)

// HTTPCase: a sequence of TLS connections to AcraTranslator's HTTP API (identity taken from the client
// certificate; the handlers see a bare *tls.Conn). Every connection presents one of three certificates and
// arrives from a transport address drawn from a small pool, so that addresses are used again by later
// connections - of the same and of other certificates - as ephemeral ports, NAT and unix sockets make them.
// The transport address says nothing about who is connected: every request is served under the identity of the
// certificate of ITS connection.
type HTTPCase struct {
	Transport string  `json:"transport"` // tcp: an address is held by one open connection at a time | unix: every peer has the same (empty) address
	Conns     []HConn `json:"conns"`
}

// HConn is one connection: opened, Reqs sent; closed then, or kept open while the later connections come and
// go, After sent at the end.
type HConn struct {
	Cert  int    `json:"cert"`
	Addr  int    `json:"addr"` // index into the address pool (tcp)
	H2    bool   `json:"h2,omitempty"`
	Reqs  []HReq `json:"reqs"`
	Keep  bool   `json:"keep,omitempty"`
	After []HReq `json:"after,omitempty"`
}

// HReq: a reveal operation on the value of certificate Owner, or a protect operation on a fresh value.
type HReq struct {
	Op    string `json:"op"`
	Owner int    `json:"owner,omitempty"`
}

const httpCerts = 3

var httpRevealOps = []string{"decrypt", "decryptSym", "decryptSearchable", "decryptSymSearchable", "detokenize", "v1decrypt"}
var httpProtectOps = []string{"encrypt", "encryptSym", "encryptSymSearchable", "tokenize"}

func isReveal(op string) bool {
	for _, o := range httpRevealOps {
		if o == op {
			return true
		}
	}
	return false
}

func genHReq(t *rapid.T, label string) HReq {
	if rapid.IntRange(0, 3).Draw(t, label+".protect") == 0 {
		return HReq{Op: rapid.SampledFrom(httpProtectOps).Draw(t, label+".op")}
	}
	return HReq{Op: rapid.SampledFrom(httpRevealOps).Draw(t, label+".op"), Owner: rapid.IntRange(0, httpCerts-1).Draw(t, label+".owner")}
}

func genHTTPCase(t *rapid.T) HTTPCase {
	c := HTTPCase{Transport: rapid.SampledFrom([]string{"tcp", "tcp", "tcp", "unix"}).Draw(t, "transport")}
	n := rapid.IntRange(2, 5).Draw(t, "nconns")
	held := map[int]bool{} // addresses of connections that stay open
	for i := 0; i < n; i++ {
		l := fmt.Sprintf("c%d", i)
		hc := HConn{Cert: rapid.IntRange(0, httpCerts-1).Draw(t, l+".cert"), H2: rapid.IntRange(0, 3).Draw(t, l+".h2") == 0}
		if c.Transport == "tcp" {
			var free []int
			for a := 0; a < 3; a++ {
				if !held[a] {
					free = append(free, a)
				}
			}
			hc.Addr = rapid.SampledFrom(free).Draw(t, l+".addr")
		}
		nr := rapid.IntRange(1, 3).Draw(t, l+".nreqs")
		for j := 0; j < nr; j++ {
			hc.Reqs = append(hc.Reqs, genHReq(t, fmt.Sprintf("%s.r%d", l, j)))
		}
		// at most two connections stay open, so that an address is always free
		if len(held) < 2 && rapid.IntRange(0, 2).Draw(t, l+".keep") == 0 {
			hc.Keep = true
			if c.Transport == "tcp" {
				held[hc.Addr] = true
			} else {
				held[-1-i] = true
			}
			na := rapid.IntRange(1, 2).Draw(t, l+".nafter")
			for j := 0; j < na; j++ {
				hc.After = append(hc.After, genHReq(t, fmt.Sprintf("%s.a%d", l, j)))
			}
		}
		c.Conns = append(c.Conns, hc)
	}
	return c
}

// ---------------------------------------------------------------------------------------------
// the service under test: one HTTP API per process, wired as cmd/acra-translator does

// peerListener hands the server the accepted end of a socket pair; the connection reports the remote
// address the case gives it.
type peerListener struct {
	ch     chan net.Conn
	closed chan struct{}
	once   sync.Once
}

type peerConn struct {
	net.Conn
	remote net.Addr
}

func (c *peerConn) RemoteAddr() net.Addr { return c.remote }

func (l *peerListener) Accept() (net.Conn, error) {
	select {
	case c := <-l.ch:
		return c, nil
	case <-l.closed:
		return nil, net.ErrClosed
	}
}
func (l *peerListener) Close() error   { l.once.Do(func() { close(l.closed) }); return nil }
func (l *peerListener) Addr() net.Addr { return &net.TCPAddr{IP: net.IPv4(127, 0, 0, 1), Port: 9494} }

// dial returns the client's end of a new connection the server accepts as coming from remote.
func (l *peerListener) dial(remote net.Addr) (net.Conn, error) {
	cli, srv, err := pgsess.SocketPair()
	if err != nil {
		return nil, err
	}
	select {
	case l.ch <- &peerConn{Conn: srv, remote: remote}:
		return cli, nil
	case <-time.After(10 * time.Second):
		cli.Close()
		srv.Close()
		return nil, errors.New("the server does not accept connections")
	}
}

type httpValue struct {
	plain []byte
	body  []byte // request body that asks for the reveal
}

type httpWorldT struct {
	listener  *peerListener
	svc       *translatorcommon.TranslatorService
	ids       [][]byte // identity expected for each certificate (computed independently)
	clientCfg []*tls.Config
	values    []map[string]httpValue // per certificate, per reveal operation
}

var (
	httpRuns  uint32
	httpOnce  sync.Once
	httpWorld *httpWorldT
	httpErr   error
)

func jsonBody(data []byte) []byte {
	b, _ := json.Marshal(map[string]string{"data": base64.StdEncoding.EncodeToString(data)})
	return b
}

func getHTTPWorld() (*httpWorldT, error) {
	httpOnce.Do(func() {
		httpErr = func() error {
			fix.Quiet()
			gin.DefaultWriter, gin.DefaultErrorWriter = io.Discard, io.Discard
			w := &httpWorldT{}
			ca, caKey, _ := makeCert("verif-ca-http", nil, nil, true)
			_, srvKey, srvDER := makeCert("localhost", ca, caKey, false)
			pool := x509.NewCertPool()
			pool.AddCert(ca)
			for i := 0; i < httpCerts; i++ {
				cert, key, der := makeCert(fmt.Sprintf("http-client-%d", i), ca, caKey, false)
				w.clientCfg = append(w.clientCfg, &tls.Config{Certificates: []tls.Certificate{{Certificate: [][]byte{der}, PrivateKey: key}}, RootCAs: pool, ServerName: "localhost", MinVersion: tls.VersionTLS12})
				// documented derivation: lower-case hex of SHA-512 of the certificate's distinguished name
				sum := sha512.Sum512([]byte(cert.Subject.String()))
				w.ids = append(w.ids, []byte(hex.EncodeToString(sum[:])))
			}
			ext, err := network.NewDefaultTLSClientIDExtractor()
			if err != nil {
				return err
			}
			dir := fix.TempDir("c02-http-")
			ks := fix.V1(dir, keystore.WithoutCache)
			for _, id := range w.ids {
				fix.GenClientKeys(ks, id)
			}
			mem, err := storage.NewMemoryTokenStorage()
			if err != nil {
				return err
			}
			enc, err := storage.NewSCellEncryptor(ks)
			if err != nil {
				return err
			}
			tok, err := pseudonymization.NewPseudoanonymizer(storage.WrapStorageWithEncryption(mem, enc))
			if err != nil {
				return err
			}
			world := fix.NewWorldOn(ks, w.ids[0], w.ids[1], []byte("carol-no-keys"))
			_ = world // registry initialised over this keystore
			td := fix.TranslatorData(ks, nil, tok)
			td.UseConnectionClientID, td.TLSClientIDExtractor = true, ext
			w.svc, err = translatorcommon.NewTranslatorService(td)
			if err != nil {
				return err
			}
			serverCfg, err := network.NewTLSConfig("localhost", "", "", "", tls.RequireAndVerifyClientCert, network.NewCertVerifierAll())
			if err != nil {
				return err
			}
			serverCfg.Certificates = []tls.Certificate{{Certificate: [][]byte{srvDER}, PrivateKey: srvKey}}
			serverCfg.ClientCAs = pool
			tlsWrapper, err := network.NewTLSAuthenticationConnectionWrapper(true, nil, serverCfg, ext)
			if err != nil {
				return err
			}
			w.listener = &peerListener{ch: make(chan net.Conn), closed: make(chan struct{})}
			chain, err := network.NewHTTPServerConnectionWrapper()
			if err != nil {
				return err
			}
			chain.SetListener(w.listener)
			chain.AddConnectionContextCallback(network.ConnectionToContextCallback{})
			chain.AddCallback(network.SafeCloseConnectionCallback{})
			chain.AddCallback(tlsWrapper) // last: the HTTP/2 server wants the *tls.Conn itself
			service, err := http_api.NewHTTPService(w.svc, td, http_api.WithContext(context.Background()), http_api.WithConnectionContextHandler(chain.OnConnectionContext))
			if err != nil {
				return err
			}
			go service.Start(chain)
			// every certificate's identity owns one value per reveal operation, each with a unique marker
			bg := context.Background()
			for i, id := range w.ids {
				vals := map[string]httpValue{}
				for _, op := range httpRevealOps {
					plain := []byte(fmt.Sprintf("MRKC02H%d%s value of certificate %d", i, op, i))
					v := httpValue{plain: plain}
					var err error
					switch op {
					case "decrypt", "v1decrypt":
						var d []byte
						d, err = w.svc.Encrypt(bg, plain, id, nil)
						if v.body = jsonBody(d); op == "v1decrypt" {
							v.body = d
						}
					case "decryptSym":
						var d []byte
						d, err = w.svc.EncryptSym(bg, plain, id, nil)
						v.body = jsonBody(d)
					case "decryptSearchable":
						r, e := w.svc.EncryptSearchable(bg, plain, id, nil)
						v.body, err = jsonBody(append(append([]byte{}, r.Hash...), r.EncryptedData...)), e
					case "decryptSymSearchable":
						r, e := w.svc.EncryptSymSearchable(bg, plain, id, nil)
						v.body, err = jsonBody(append(append([]byte{}, r.Hash...), r.EncryptedData...)), e
					case "detokenize":
						continue // tokens are made per execution (CheckHTTP)
					}
					if err != nil {
						return fmt.Errorf("protecting the %s value of certificate %d: %w", op, i, err)
					}
					vals[op] = v
				}
				w.values = append(w.values, vals)
			}
			httpWorld = w
			return nil
		}()
	})
	return httpWorld, httpErr
}

// httpClient is the client's end of one connection.
type httpClient struct {
	conn *tls.Conn
	rd   *bufio.Reader
	h2   *http2.ClientConn
	cert int
}

func (w *httpWorldT) open(cert int, remote net.Addr, h2 bool) (*httpClient, error) {
	raw, err := w.listener.dial(remote)
	if err != nil {
		return nil, err
	}
	raw.SetDeadline(time.Now().Add(10 * time.Second))
	cfg := w.clientCfg[cert].Clone()
	if h2 {
		cfg.NextProtos = []string{"h2"}
	}
	conn := tls.Client(raw, cfg)
	if err := conn.Handshake(); err != nil {
		raw.Close()
		return nil, err
	}
	c := &httpClient{conn: conn, rd: bufio.NewReader(conn), cert: cert}
	if h2 {
		if conn.ConnectionState().NegotiatedProtocol != "h2" {
			conn.Close()
			return nil, errors.New("HTTP/2 was not negotiated")
		}
		c.h2, err = (&http2.Transport{}).NewClientConn(conn)
		if err != nil {
			conn.Close()
			return nil, err
		}
	}
	return c, nil
}

func (c *httpClient) close() {
	if c.h2 != nil {
		c.h2.Close()
	}
	c.conn.Close()
}

// do sends one request; returns status and body.
func (c *httpClient) do(path string, contentType string, body []byte) (int, []byte, error) {
	c.conn.SetDeadline(time.Now().Add(10 * time.Second))
	req, err := http.NewRequest(http.MethodPost, "https://localhost"+path, bytes.NewReader(body))
	if err != nil {
		return 0, nil, err
	}
	req.Header.Set("Content-Type", contentType)
	var resp *http.Response
	if c.h2 != nil {
		resp, err = c.h2.RoundTrip(req)
	} else {
		if err = req.Write(c.conn); err == nil {
			resp, err = http.ReadResponse(c.rd, req)
		}
	}
	if err != nil {
		return 0, nil, err
	}
	defer resp.Body.Close()
	out, err := io.ReadAll(resp.Body)
	return resp.StatusCode, out, err
}

func isDeadline(err error) bool {
	var ne net.Error
	return errors.Is(err, os.ErrDeadlineExceeded) || (errors.As(err, &ne) && ne.Timeout())
}

type httpInfo struct {
	reusedByOther, reusedBySame, kept, h2, revealAfterReuse bool
}

// CheckHTTP plays the connections of the case against the process-wide HTTP API.
func CheckHTTP(c HTTPCase) (vs hx.Vs, info httpInfo) {
	w, err := getHTTPWorld()
	if err != nil {
		vs.Add("harness:http", "%v", err)
		return
	}
	// The service (and whatever it remembers) lives as long as the process. So that the verdict of a case depends
	// on the case alone, every execution has an address block of its own (tcp) and tokens of its own.
	run := atomic.AddUint32(&httpRuns, 1)
	addrOf := func(hc HConn) net.Addr {
		if c.Transport == "unix" {
			return &net.UnixAddr{Name: "@", Net: "unix"}
		}
		a := ((hc.Addr % 3) + 3) % 3
		return &net.TCPAddr{IP: net.IPv4(10, byte(run>>14), byte(run>>6), byte(run<<2)|byte(1+a/2)), Port: 40001 + a%2}
	}
	inconclusive := false
	bg := context.Background()
	values := make([]map[string]httpValue, httpCerts)
	for i, id := range w.ids {
		values[i] = map[string]httpValue{}
		for op, v := range w.values[i] {
			values[i][op] = v
		}
		plain := fmt.Sprintf("MRKC02HT%dx%d token source of certificate %d", run, i, i)
		token, err := w.svc.Tokenize(bg, plain, tokencommon.TokenType_String, id, nil)
		if err != nil {
			vs.Add("harness:http-tokenize", "%v", err)
			return
		}
		body, _ := json.Marshal(map[string]interface{}{"data": token, "type": int(tokencommon.TokenType_String)})
		values[i]["detokenize"] = httpValue{plain: []byte(plain), body: body}
	}
	// request judges one request of connection ci (certificate cert)
	request := func(cl *httpClient, ci, ri int, r HReq, phase string) bool {
		cert := cl.cert
		me := w.ids[cert]
		where := fmt.Sprintf("connection %d (certificate %d, %s), %s request %d", ci, cert, addrOf(c.Conns[ci]), phase, ri)
		if isReveal(r.Op) {
			owner := ((r.Owner % httpCerts) + httpCerts) % httpCerts
			v := values[owner][r.Op]
			path, ctype := "/v2/"+r.Op, "application/json"
			if r.Op == "v1decrypt" {
				path, ctype = "/v1/decrypt", "application/octet-stream"
			}
			status, body, err := cl.do(path, ctype, v.body)
			if err != nil {
				if isDeadline(err) {
					inconclusive = true
					return false
				}
				vs.Add("http-request-failed:"+r.Op, "%s: %v", where, err)
				return false
			}
			got := body
			if r.Op != "v1decrypt" && status == http.StatusOK {
				var parsed struct {
					Data interface{} `json:"data"`
				}
				if json.Unmarshal(body, &parsed) == nil {
					if s, ok := parsed.Data.(string); ok {
						got = []byte(s)
						if r.Op != "detokenize" {
							got, _ = base64.StdEncoding.DecodeString(s)
						}
					}
				}
			}
			if owner == cert {
				if status != http.StatusOK || !bytes.Equal(got, v.plain) {
					vs.Add("owner-cannot-read-own-value:http:"+r.Op, "%s: the identity of the connection's certificate asked for its own value and got HTTP %d %.80q", where, status, body)
					return false
				}
				return true
			}
			if bytes.Contains(body, v.plain) || bytes.Contains(got, v.plain) || bytes.Contains(body, []byte(base64.StdEncoding.EncodeToString(v.plain))) {
				vs.Add("other-identity-received-plaintext:http:"+r.Op, "%s: received the plaintext of a value of certificate %d (HTTP %d)", where, owner, status)
				return false
			}
			return true
		}
		// protect operations: what this connection protects belongs to the identity of its certificate
		plain := []byte(fmt.Sprintf("MRKC02P-%d-%s-%d-%s fresh value", ci, phase, ri, r.Op))
		reqBody := jsonBody(plain)
		if r.Op == "tokenize" {
			reqBody, _ = json.Marshal(map[string]interface{}{"data": string(plain), "type": int(tokencommon.TokenType_String)})
		}
		status, body, err := cl.do("/v2/"+r.Op, "application/json", reqBody)
		if err != nil {
			if isDeadline(err) {
				inconclusive = true
				return false
			}
			vs.Add("http-request-failed:"+r.Op, "%s: %v", where, err)
			return false
		}
		var parsed struct {
			Data string `json:"data"`
		}
		if status != http.StatusOK || json.Unmarshal(body, &parsed) != nil {
			vs.Add("owner-cannot-protect:http:"+r.Op, "%s: HTTP %d %.80q", where, status, body)
			return false
		}
		var back []byte
		var rerr error
		switch r.Op {
		case "tokenize":
			var x interface{}
			x, rerr = w.svc.Detokenize(bg, parsed.Data, tokencommon.TokenType_String, me, nil)
			if s, ok := x.(string); ok {
				back = []byte(s)
			}
		default:
			data, derr := base64.StdEncoding.DecodeString(parsed.Data)
			if derr != nil {
				vs.Add("owner-cannot-protect:http:"+r.Op, "%s: response is not base64: %.80q", where, body)
				return false
			}
			switch r.Op {
			case "encrypt":
				back, rerr = w.svc.Decrypt(bg, data, me, nil)
			case "encryptSym":
				back, rerr = w.svc.DecryptSym(bg, data, me, nil)
			default:
				h := hmac.ExtractHash(data)
				if h == nil {
					vs.Add("owner-cannot-protect:http:"+r.Op, "%s: no search hash in the response", where)
					return false
				}
				hb := h.Marshal()
				back, rerr = w.svc.DecryptSymSearchable(bg, data[len(hb):], hb, me, nil)
			}
		}
		if rerr != nil || !bytes.Equal(back, plain) {
			vs.Add("value-protected-under-other-identity:http:"+r.Op, "%s: what the connection protected cannot be revealed under the identity of its certificate (%v)", where, fix.Describe(rerr))
			return false
		}
		return true
	}

	type openConn struct {
		cl *httpClient
		ci int
	}
	var kept []openConn
	defer func() {
		for _, k := range kept {
			k.cl.close()
		}
	}()
	lastCert := map[string]int{} // address -> certificate of the connection that had it last
	for ci, hc := range c.Conns {
		cert := ((hc.Cert % httpCerts) + httpCerts) % httpCerts
		addr := addrOf(hc)
		if c.Transport != "unix" {
			// an address belongs to one open connection at a time: whoever still holds it has gone
			for i := 0; i < len(kept); i++ {
				if addrOf(c.Conns[kept[i].ci]).String() == addr.String() {
					kept[i].cl.close()
					kept = append(kept[:i], kept[i+1:]...)
					i--
				}
			}
		}
		reusedOther := false
		if prev, ok := lastCert[addr.String()]; ok {
			if prev != cert {
				info.reusedByOther, reusedOther = true, true
			} else {
				info.reusedBySame = true
			}
		}
		lastCert[addr.String()] = cert
		cl, err := w.open(cert, addr, hc.H2)
		if err != nil {
			if isDeadline(err) {
				inconclusive = true
			} else {
				vs.Add("harness:http-connect", "connection %d: %v", ci, err)
			}
			break
		}
		if hc.H2 {
			info.h2 = true
		}
		ok := true
		for ri, r := range hc.Reqs {
			if reusedOther && isReveal(r.Op) {
				info.revealAfterReuse = true
			}
			if ok = request(cl, ci, ri, r, "first"); !ok {
				break
			}
		}
		if !ok || !hc.Keep {
			cl.close()
		} else {
			info.kept = true
			kept = append(kept, openConn{cl, ci})
		}
		if !ok {
			break
		}
	}
	if len(vs) == 0 && !inconclusive {
	after:
		for _, k := range kept {
			for ri, r := range c.Conns[k.ci].After {
				if !request(k.cl, k.ci, ri, r, "later") {
					break after
				}
			}
		}
	}
	if inconclusive {
		R.Note("inconclusive: deadline on a connection to the HTTP API")
		return nil, info
	}
	return vs, info
}

func TestHTTPPeers(t *testing.T) {
	R.Rule("TestHTTPPeers", "AcraTranslator's HTTP API wired as cmd/acra-translator does (listener chain, TLS wrapper last, identity from the client certificate, handlers see a bare *tls.Conn), one service per process; 2-5 TLS connections with 3 client certificates, HTTP/1.1 keep-alive or HTTP/2, each arriving from a transport address of a 3-address pool (tcp: an address is used again once the connection that held it is closed; unix: all peers share one address), closed after 1-3 requests or kept open while later connections come and go and asked again at the end; requests are reveal operations (decrypt / decryptSym / searchable variants / detokenize / v1 decrypt) on the value of any certificate and protect operations on fresh values; oracle per request: the identity is the one derived from the certificate of the request's own connection (hex SHA-512 of the DN, computed independently) - own value -> exactly the plaintext, another certificate's value -> no plaintext marker in the response, protected value -> revealable under that identity; non-trivial = a connection arrives from an address another certificate's connection had before and sends a reveal request")
	hx.Checks(50, 800)
	rapid.Check(t, func(rt *rapid.T) {
		c := genHTTPCase(rt)
		vs, info := CheckHTTP(c)
		cl := []string{"transport:" + c.Transport}
		if info.reusedByOther {
			cl = append(cl, "address-reused-by-other-certificate")
		}
		if info.reusedBySame {
			cl = append(cl, "address-reused-by-same-certificate")
		}
		if info.kept {
			cl = append(cl, "connection-kept-open")
		}
		if info.h2 {
			cl = append(cl, "http2")
		}
		R.Seen("TestHTTPPeers", c, info.revealAfterReuse, cl...)
		R.Report(rt, "TestHTTPPeers", c, vs)
	})
}
