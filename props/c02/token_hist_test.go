package c02

import (
	"context"
	"fmt"
	"os"
	"path/filepath"
	"testing"

	"pgregory.net/rapid"

	"github.com/cossacklabs/acra/pseudonymization"
	tokencommon "github.com/cossacklabs/acra/pseudonymization/common"
	"github.com/cossacklabs/acra/pseudonymization/storage"

	"verif/internal/fix"
	"verif/internal/gen"
	"verif/internal/hx"
)

// TokHist: a HISTORY of detokenisation requests against ONE pseudonymizer (what one AcraServer / AcraTranslator
// process has for all its sessions and requests). Two or three identities own tokens; every request names the
// identity it runs under and the token it presents. Whatever was asked before - by the owner or by anybody
// else - a request is answered by what the requesting identity itself owns: the owner gets its value, everybody
// else gets an error or the token back.
type TokHist struct {
	Store     string   `json:"store"`     // memory | bolt
	Encrypted bool     `json:"encrypted"` // token storage wrapped with encryption, as acra-server / acra-translator wire it
	Format    string   `json:"format"`    // keystore behind the encrypting wrapper / the service
	Entry     string   `json:"entry"`     // tokenizer | service (TranslatorService.Tokenize / Detokenize)
	IDs       []string `json:"ids"`
	Keys      []bool   `json:"keys"` // identity owns a symmetric key (owners of values always do)
	Values    []THVal  `json:"values"`
	Ops       []THOp   `json:"ops"`
}

// THVal is one value tokenised under IDs[Owner].
type THVal struct {
	Owner   int     `json:"owner"`
	Type    string  `json:"type"`
	Str     string  `json:"str,omitempty"`
	Int     int64   `json:"int,omitempty"`
	Bytes   gen.Hex `json:"bytes,omitempty"`
	Consist bool    `json:"consistent,omitempty"`
}

// THOp: identity IDs[Who] asks to detokenise the token of Values[Val].
type THOp struct {
	Who int `json:"who"`
	Val int `json:"val"`
}

func genTHVal(t *rapid.T, label string, owners int) THVal {
	v := THVal{
		Owner:   rapid.IntRange(0, owners-1).Draw(t, label+".owner"),
		Type:    rapid.SampledFrom([]string{"int32", "int64", "str", "email", "bytes"}).Draw(t, label+".type"),
		Consist: rapid.Bool().Draw(t, label+".consistent"),
	}
	switch v.Type {
	case "int32":
		v.Int = int64(rapid.Int32().Draw(t, label+".i32"))
	case "int64":
		v.Int = rapid.Int64().Draw(t, label+".i64")
	case "str", "email":
		v.Str = rapid.StringMatching(`[a-zA-Z0-9]{6,24}`).Draw(t, label+".str")
	default:
		v.Bytes = rapid.SliceOfN(rapid.Byte(), 6, 40).Draw(t, label+".bytes")
	}
	return v
}

func genTokHist(t *rapid.T) TokHist {
	a, b := genPair(t)
	c := TokHist{
		Store:     rapid.SampledFrom([]string{"memory", "memory", "bolt"}).Draw(t, "store"),
		Encrypted: rapid.IntRange(0, 2).Draw(t, "encrypted") != 0,
		Format:    rapid.SampledFrom([]string{"v2mem", "v2mem", "v1"}).Draw(t, "format"),
		Entry:     rapid.SampledFrom([]string{"tokenizer", "service"}).Draw(t, "entry"),
		IDs:       []string{a, b},
	}
	if rapid.IntRange(0, 2).Draw(t, "third") == 0 {
		third := genID(t, "c")
		if third != a && third != b {
			c.IDs = append(c.IDs, third)
		}
	}
	for i := range c.IDs {
		c.Keys = append(c.Keys, rapid.IntRange(0, 3).Draw(t, fmt.Sprintf("keys%d", i)) != 0)
	}
	nv := rapid.IntRange(1, 4).Draw(t, "nvalues")
	for i := 0; i < nv; i++ {
		v := genTHVal(t, fmt.Sprintf("v%d", i), len(c.IDs))
		// the same source value under another identity: the two tokens must stay apart
		if i > 0 && rapid.IntRange(0, 3).Draw(t, fmt.Sprintf("v%d.same", i)) == 0 {
			owner, consist := v.Owner, v.Consist
			v = c.Values[rapid.IntRange(0, i-1).Draw(t, fmt.Sprintf("v%d.of", i))]
			v.Owner, v.Consist = owner, consist
		}
		c.Keys[v.Owner] = true
		c.Values = append(c.Values, v)
	}
	no := rapid.IntRange(2, 10).Draw(t, "nops")
	for i := 0; i < no; i++ {
		c.Ops = append(c.Ops, THOp{
			Who: rapid.IntRange(0, len(c.IDs)-1).Draw(t, fmt.Sprintf("op%d.who", i)),
			Val: rapid.IntRange(0, len(c.Values)-1).Draw(t, fmt.Sprintf("op%d.val", i)),
		})
	}
	return c
}

func (v THVal) value() (interface{}, tokencommon.TokenType) {
	switch v.Type {
	case "int32":
		return int32(v.Int), tokencommon.TokenType_Int32
	case "int64":
		return v.Int, tokencommon.TokenType_Int64
	case "str":
		return v.Str, tokencommon.TokenType_String
	case "email":
		return tokencommon.Email(v.Str + "@example.com"), tokencommon.TokenType_Email
	}
	return []byte(v.Bytes), tokencommon.TokenType_Bytes
}

type thInfo struct {
	foreignAfterOwner, foreignBeforeOwner, ownerRead bool
}

// CheckTokHist plays the history.
func CheckTokHist(c TokHist) (vs hx.Vs, info thInfo) {
	if len(c.IDs) < 2 || len(c.Keys) != len(c.IDs) || len(c.Values) == 0 {
		vs.Add("harness:tokhist", "malformed case")
		return
	}
	format := c.Format
	if format != "v1" && format != "v2mem" {
		format = "v2mem"
	}
	st := openStore(format)
	defer st.cleanup()
	for i, id := range c.IDs {
		if c.Keys[i] {
			if err := st.ks.GenerateClientIDSymmetricKey([]byte(id)); err != nil {
				vs.Add("keygen-failed:"+format, "generating the symmetric key of %q: %v", id, err)
				return
			}
		}
	}
	var ts tokencommon.TokenStorage
	if c.Store == "bolt" {
		dir := fix.TempDir("c02-bolt-")
		defer os.RemoveAll(dir)
		db, err := openBolt(filepath.Join(dir, "tokens.db"))
		if err != nil {
			vs.Add("harness:bolt", "%v", err)
			return
		}
		defer db.Close()
		ts = storage.NewBoltDBTokenStorage(db)
	} else {
		var err error
		if ts, err = storage.NewMemoryTokenStorage(); err != nil {
			vs.Add("harness:memory", "%v", err)
			return
		}
	}
	if c.Encrypted {
		enc, err := storage.NewSCellEncryptor(st.ks)
		if err != nil {
			vs.Add("harness:encryptor", "%v", err)
			return
		}
		ts = storage.WrapStorageWithEncryption(ts, enc)
	}
	tok, err := pseudonymization.NewPseudoanonymizer(ts)
	if err != nil {
		vs.Add("harness:tokenizer", "%v", err)
		return
	}
	fix.Quiet()
	svc := fix.Translator(st.ks, nil, tok)
	bg := context.Background()
	tokenize := func(v interface{}, id []byte, tt tokencommon.TokenType, consistent bool) (interface{}, error) {
		tc := tokencommon.TokenContext{ClientID: id}
		if c.Entry == "service" && consistent {
			return svc.Tokenize(bg, v, tt, id, nil) // the service tokenises consistently
		}
		if consistent {
			return tok.AnonymizeConsistently(v, tc, tt)
		}
		return tok.Anonymize(v, tc, tt)
	}
	detokenize := func(token interface{}, id []byte, tt tokencommon.TokenType) (interface{}, error) {
		if c.Entry == "service" {
			return svc.Detokenize(bg, token, tt, id, nil)
		}
		return tok.Deanonymize(token, tokencommon.TokenContext{ClientID: id}, tt)
	}
	same := func(x, y interface{}) bool { return fmt.Sprintf("%T:%v", x, x) == fmt.Sprintf("%T:%v", y, y) }
	key := func(who int, tt tokencommon.TokenType, token interface{}) string {
		return fmt.Sprintf("%d|%d|%T:%v", who, tt, token, token)
	}
	// model: what every identity owns (identity, type, token) -> source value
	owns := map[string]interface{}{}
	tokens := make([]interface{}, len(c.Values))
	for i, v := range c.Values {
		val, tt := v.value()
		var token interface{}
		var terr error
		if hx.Guard(&vs, "tokenize", func() { token, terr = tokenize(val, []byte(c.IDs[v.Owner%len(c.IDs)]), tt, v.Consist) }) {
			return
		}
		if terr != nil || same(token, val) {
			continue // token space exhausted (C10's business) / a coincidence says nothing: the value is left out
		}
		tokens[i] = token
		owns[key(v.Owner%len(c.IDs), tt, token)] = val
	}
	entry := c.Entry
	ownerRead := map[int]bool{}
	for oi, op := range c.Ops {
		vi := op.Val % len(c.Values)
		who := op.Who % len(c.IDs)
		v := c.Values[vi]
		token := tokens[vi]
		if token == nil {
			continue
		}
		val, tt := v.value()
		var back interface{}
		var derr error
		if hx.Guard(&vs, "detokenize", func() { back, derr = detokenize(token, []byte(c.IDs[who]), tt) }) {
			return
		}
		if mine, ok := owns[key(who, tt, token)]; ok {
			// the requesting identity owns this token (its own value, or - by coincidence - an equal token of its own)
			if derr != nil || !same(back, mine) {
				vs.Add("owner-detokenize:history:"+entry, "request %d: %q got %v (%v) for its own token of %v", oi, c.IDs[who], back, derr, mine)
				return
			}
			if who == v.Owner%len(c.IDs) {
				ownerRead[vi] = true
				info.ownerRead = true
			}
			continue
		}
		if ownerRead[vi] {
			info.foreignAfterOwner = true
		} else {
			info.foreignBeforeOwner = true
		}
		if derr != nil || same(back, token) {
			continue
		}
		owner := c.IDs[v.Owner%len(c.IDs)]
		switch {
		case same(back, val) && ownerRead[vi]:
			vs.Add("foreign-detokenize-after-owner-read:"+entry, "request %d: a token of %q for %v was detokenised under %q after its owner had detokenised it", oi, owner, val, c.IDs[who])
		case same(back, val):
			vs.Add("foreign-detokenize:history:"+entry, "request %d: a token of %q for %v was detokenised under %q", oi, owner, val, c.IDs[who])
		default:
			vs.Add("foreign-detokenize-other:history:"+entry, "request %d: detokenising a token of %q under %q returned %v, neither an error nor the token %v", oi, owner, c.IDs[who], back, token)
		}
		return
	}
	return
}

func TestTokenHistories(t *testing.T) {
	R.Rule("TestTokenHistories", "one pseudonymizer (memory or Bolt store, bare or behind the encrypting wrapper over a v1 / v2 keystore, called directly or through TranslatorService) shared by 2-3 distinct identities (near misses included, some without keys); 1-4 values of every token type tokenised under generated owners (random or consistent mode, the same source value under two owners included); then a generated history of 2-10 detokenisation requests (identity, token) in any order, so that foreign requests come before and after the owner's own reads of the same token; a model of what each identity owns decides every request: the owner gets its value, anybody else an error or the token unchanged, whatever was asked before; non-trivial = the history holds a foreign request for a token after its owner has read it")
	hx.Checks(250, 4000)
	rapid.Check(t, func(rt *rapid.T) {
		c := genTokHist(rt)
		vs, info := CheckTokHist(c)
		cl := []string{"store:" + c.Store, fmt.Sprintf("encrypted:%v", c.Encrypted), "entry:" + c.Entry, fmt.Sprintf("ids:%d", len(c.IDs))}
		if info.foreignAfterOwner {
			cl = append(cl, "foreign-after-owner-read")
		}
		if info.foreignBeforeOwner {
			cl = append(cl, "foreign-before-owner-read")
		}
		R.Seen("TestTokenHistories", c, info.foreignAfterOwner, cl...)
		R.Report(rt, "TestTokenHistories", c, vs)
	})
}
