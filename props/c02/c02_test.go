// Package c02: data protected for one client is never revealed under another identity.
package c02

import (
	"bytes"
	"encoding/json"
	"fmt"
	"os"
	"path/filepath"
	"strings"
	"testing"

	"pgregory.net/rapid"

	"github.com/cossacklabs/acra/hmac"
	"github.com/cossacklabs/acra/keystore"
	backendapi "github.com/cossacklabs/acra/keystore/v2/keystore/filesystem/backend/api"
	"github.com/cossacklabs/acra/pseudonymization"
	tokencommon "github.com/cossacklabs/acra/pseudonymization/common"
	"github.com/cossacklabs/acra/pseudonymization/storage"

	"verif/internal/fix"
	"verif/internal/gen"
	"verif/internal/hx"
)

var R = hx.New("C02")

func TestMain(m *testing.M) { os.Exit(R.Main(m)) }

// ---------------------------------------------------------------------------------------------
// identities

const idAlphabet = "abcdefghijklmnopqrstuvwxyzABCDEFGHIJKLMNOPQRSTUVWXYZ0123456789-_ "

func genID(t *rapid.T, label string) string {
	// the filesystem keystore appends a kind suffix, ".old" and a temporary-file suffix to the id to form file
	// names (255-byte limit of the OS), so ids stay well below that
	n := rapid.SampledFrom([]int{5, 5, 6, 8, 12, 20, 64, 160, 200}).Draw(t, label+".len")
	b := make([]byte, n)
	for i := range b {
		b[i] = idAlphabet[rapid.IntRange(0, len(idAlphabet)-1).Draw(t, fmt.Sprintf("%s.c%d", label, i%8))]
	}
	// path-unfriendly but valid ids are interesting; leading/trailing space kept
	return string(b)
}

// genPair draws two distinct valid identities, often near misses of one another.
func genPair(t *rapid.T) (string, string) {
	a := genID(t, "a")
	switch rapid.SampledFrom([]string{"independent", "prefix", "case", "suffix-kind", "lastchar"}).Draw(t, "pairkind") {
	case "prefix":
		if len(a) < 190 {
			return a, a + rapid.SampledFrom([]string{"_", "x", "_storage", "_hmac", "-1", " "}).Draw(t, "ext")
		}
	case "case":
		b := strings.ToUpper(a)
		if b == a {
			b = strings.ToLower(a)
		}
		if b != a {
			return a, b
		}
	case "suffix-kind":
		if len(a) < 190 {
			return a, a + rapid.SampledFrom([]string{"_storage", "_storage_sym", "_hmac", "_storage.pub"[:8]}).Draw(t, "kindext")
		}
	case "lastchar":
		b := []byte(a)
		c := b[len(b)-1]
		nc := idAlphabet[(strings.IndexByte(idAlphabet, c)+1)%len(idAlphabet)]
		b[len(b)-1] = nc
		return a, string(b)
	}
	b := genID(t, "b")
	if b == a {
		b = a[:len(a)-1] + "0"
		if b == a {
			b = a[:len(a)-1] + "1"
		}
	}
	return a, b
}

// ---------------------------------------------------------------------------------------------
// keystore under test, both formats

type store struct {
	ks      keystore.ServerKeyStore
	dir     string             // v1
	backend backendapi.Backend // v2
	cleanup func()
}

func openStore(format string) *store {
	switch format {
	case "v1":
		dir := fix.TempDir("c02-v1-")
		return &store{ks: fix.V1(dir, keystore.WithoutCache), dir: dir, cleanup: func() { os.RemoveAll(dir) }}
	case "v2mem":
		ks, b := fix.V2Mem()
		return &store{ks: ks, backend: b, cleanup: func() {}}
	case "v2dir":
		root := filepath.Join(fix.TempDir("c02-v2-"), "ks")
		ks, b := fix.V2Dir(root)
		return &store{ks: ks, backend: b, cleanup: func() { os.RemoveAll(filepath.Dir(root)) }}
	}
	panic(format)
}

// files lists stored objects (relative names) with contents.
func (s *store) files() map[string][]byte {
	out := map[string][]byte{}
	if s.backend != nil {
		paths, err := s.backend.ListAll()
		if err != nil {
			panic(err)
		}
		for _, p := range paths {
			d, err := s.backend.Get(p)
			if err == nil {
				out[p] = d
			}
		}
		return out
	}
	filepath.Walk(s.dir, func(p string, info os.FileInfo, err error) error {
		if err == nil && !info.IsDir() {
			rel, _ := filepath.Rel(s.dir, p)
			d, _ := os.ReadFile(p)
			out[rel] = d
		}
		return nil
	})
	return out
}

func (s *store) put(name string, data []byte) error {
	if s.backend != nil {
		return s.backend.Put(name, data)
	}
	p := filepath.Join(s.dir, name)
	if err := os.MkdirAll(filepath.Dir(p), 0o700); err != nil {
		return err
	}
	return os.WriteFile(p, data, 0o600)
}

type secrets struct {
	priv, sym, hm [][]byte
}

// readAll reads every key of an identity through the API (errors tolerated: nil entries skipped).
func readAll(ks keystore.ServerKeyStore, id []byte) (sec secrets, errs []error) {
	if p, err := ks.GetServerDecryptionPrivateKeys(id); err == nil {
		for _, k := range p {
			sec.priv = append(sec.priv, append([]byte(nil), k.Value...))
		}
	} else {
		errs = append(errs, err)
	}
	if p, err := ks.GetServerDecryptionPrivateKey(id); err == nil {
		sec.priv = append(sec.priv, append([]byte(nil), p.Value...))
	}
	if k, err := ks.GetClientIDSymmetricKeys(id); err == nil {
		for _, x := range k {
			sec.sym = append(sec.sym, append([]byte(nil), x...))
		}
	} else {
		errs = append(errs, err)
	}
	if k, err := ks.GetClientIDSymmetricKey(id); err == nil {
		sec.sym = append(sec.sym, append([]byte(nil), k...))
	}
	if k, err := ks.GetHMACSecretKey(id); err == nil {
		sec.hm = append(sec.hm, append([]byte(nil), k...))
	} else {
		errs = append(errs, err)
	}
	return
}

func (a secrets) all() [][]byte {
	return append(append(append([][]byte{}, a.priv...), a.sym...), a.hm...)
}

func shares(a, b secrets) bool {
	for _, x := range a.all() {
		for _, y := range b.all() {
			if len(x) > 0 && bytes.Equal(x, y) {
				return true
			}
		}
	}
	return false
}

// ---------------------------------------------------------------------------------------------
// TestCrossReveal

type Case struct {
	Format string  `json:"format"`
	A      string  `json:"a"`
	B      string  `json:"b"`
	RotA   int     `json:"rot_a"`  // rotations of A's keys in total
	AtGen  int     `json:"at_gen"` // value protected when A had rotated this many times
	RotB   int     `json:"rot_b"`
	BKeys  bool    `json:"b_keys"` // B owns keys of the same kinds
	Kind   string  `json:"kind"`
	Form   string  `json:"form"`
	Plain  gen.Hex `json:"plain"`
	Reloc  bool    `json:"reloc"` // additionally relocate A's stored keys to B's names before revealing
}

func genCase(t *rapid.T) Case {
	a, b := genPair(t)
	c := Case{
		Format: rapid.SampledFrom([]string{"v1", "v1", "v2mem", "v2dir"}).Draw(t, "format"),
		A:      a, B: b,
		RotA:  rapid.IntRange(0, 3).Draw(t, "rotA"),
		RotB:  rapid.IntRange(0, 2).Draw(t, "rotB"),
		BKeys: rapid.IntRange(0, 4).Draw(t, "bkeys") != 0,
		Kind:  rapid.SampledFrom(fix.Kinds).Draw(t, "kind"),
		Form:  rapid.SampledFrom(fix.Forms).Draw(t, "form"),
		Plain: gen.Marker(t, "plain"),
		Reloc: rapid.IntRange(0, 2).Draw(t, "reloc") == 0,
	}
	c.AtGen = rapid.IntRange(0, c.RotA).Draw(t, "atgen")
	return c
}

func Check(c Case) (vs hx.Vs, classes []string) {
	st := openStore(c.Format)
	defer st.cleanup()
	A, B := []byte(c.A), []byte(c.B)
	if !keystore.ValidateID(A) || !keystore.ValidateID(B) || c.A == c.B {
		vs.Add("harness:ids", "generator produced invalid or equal ids %q %q", c.A, c.B)
		return
	}
	w := fix.NewWorldOn(st.ks, A, B, []byte("carol-no-keys"))
	// storage keys rotate; the search HMAC key is generated once (acra offers no list of old HMAC keys:
	// rotating it re-keys the blind index by design)
	hmacDone := map[string]bool{}
	gen3 := func(id []byte) error {
		if err := st.ks.GenerateDataEncryptionKeys(id); err != nil {
			return err
		}
		if err := st.ks.GenerateClientIDSymmetricKey(id); err != nil {
			return err
		}
		if hmacDone[string(id)] {
			return nil
		}
		hmacDone[string(id)] = true
		return st.ks.GenerateHmacKey(id)
	}
	var v []byte
	for g := 0; g <= c.RotA; g++ {
		if err := gen3(A); err != nil {
			vs.Add("keygen-failed:"+c.Format, "generating keys for %q (rotation %d): %v", c.A, g, err)
			return
		}
		if g == c.AtGen {
			var err error
			v, err = w.Protect(A, c.Kind, c.Form, c.Plain, -1)
			if err != nil {
				vs.Add("harness:protect", "%v", err)
				return
			}
		}
	}
	if c.BKeys {
		for g := 0; g <= c.RotB; g++ {
			if err := gen3(B); err != nil {
				vs.Add("keygen-failed:"+c.Format, "generating keys for %q: %v", c.B, err)
				return
			}
		}
	}
	classes = append(classes, "format:"+c.Format, "kind:"+c.Kind, "form:"+c.Form)
	if c.RotA > 0 {
		classes = append(classes, "rotated-A")
	}
	if c.AtGen < c.RotA {
		classes = append(classes, "value-under-old-key")
	}
	if c.BKeys && c.RotB > 0 {
		classes = append(classes, "rotated-B")
	}
	if !c.BKeys {
		classes = append(classes, "B-without-keys")
	}
	secA, errsA := readAll(st.ks, A)
	if len(errsA) > 0 {
		vs.Add("owner-keys-unreadable:"+c.Format, "A's keys unreadable: %v", errsA)
		return
	}
	// different clients get different keys
	if c.BKeys {
		secB, _ := readAll(st.ks, B)
		if shares(secA, secB) {
			vs.Add("shared-key:"+c.Format, "identities %q and %q share a key value", c.A, c.B)
		}
	}
	// positive control: the owner still reveals (old generations included)
	for _, r := range w.Reveals(A, c.Kind) {
		if !r.Accepts(c.Kind, c.Form) {
			continue
		}
		out, err := r.F(append([]byte(nil), v...))
		if err != nil || !bytes.Equal(out, c.Plain) {
			vs.Add("owner-cannot-reveal:"+r.Name, "owner %q cannot reveal its own value via %s (rotations %d, protected at %d): err=%v", c.A, r.Name, c.RotA, c.AtGen, err)
		}
	}
	// search hashes: B's hash of the same plaintext differs; A's hash does not verify under B
	if c.BKeys {
		ha, e1 := w.Svc.GenerateQueryHash(fix.Ctx(A), c.Plain, A, nil)
		hb, e2 := w.Svc.GenerateQueryHash(fix.Ctx(B), c.Plain, B, nil)
		if e1 != nil || e2 != nil {
			vs.Add("hash-error", "GenerateQueryHash: %v %v", e1, e2)
		} else {
			if bytes.Equal(ha, hb) {
				vs.Add("same-hash-two-clients", "identities %q and %q get the same search hash for one plaintext", c.A, c.B)
			}
			if h := hmac.ExtractHash(ha); h == nil || h.IsEqual(c.Plain, B, st.ks) {
				vs.Add("hash-verifies-under-other-client", "search hash of %q verifies under %q", c.A, c.B)
			}
			if h := hmac.ExtractHash(ha); h == nil || !h.IsEqual(c.Plain, A, st.ks) {
				vs.Add("hash-does-not-verify-for-owner", "search hash of %q does not verify for its owner", c.A)
			}
		}
	}
	if c.Reloc {
		classes = append(classes, "relocation")
		// A's stored objects copied to the names B's objects would have
		for name, data := range st.files() {
			if strings.Contains(name, c.A) {
				target := strings.Replace(name, c.A, c.B, 1)
				if target != name {
					st.put(target, data)
				}
			}
		}
		st.ks.Reset()
		secB, _ := readAll(st.ks, B)
		if shares(secA, secB) {
			vs.Add("relocated-key-loads:"+c.Format, "a stored key of %q copied to the location of %q loads as a key of the latter", c.A, c.B)
		}
	}
	// every reveal entry point under B and under an identity without keys
	for _, who := range [][]byte{B, w.Carol} {
		for _, r := range w.Reveals(who, c.Kind) {
			var out []byte
			var err error
			if hx.Guard(&vs, r.Name, func() { out, err = r.F(append([]byte(nil), v...)) }) {
				continue
			}
			if err != nil {
				continue
			}
			if r.Column {
				if !bytes.Equal(out, v) {
					vs.Add("foreign-column-changed:"+r.Name, "%s under identity %q changed a value of %q (%d -> %d bytes)", r.Name, who, c.A, len(v), len(out))
				}
				if bytes.Contains(out, c.Plain) {
					vs.Add("foreign-reveal:"+r.Name, "%s under identity %q delivered the plaintext of %q", r.Name, who, c.A)
				}
				continue
			}
			if bytes.Equal(out, c.Plain) || bytes.Contains(out, c.Plain) {
				vs.Add("foreign-reveal:"+r.Name, "%s under identity %q returned the plaintext of %q", r.Name, who, c.A)
			} else {
				vs.Add("foreign-success:"+r.Name, "%s under identity %q returned %d bytes without error for a value of %q", r.Name, who, len(out), c.A)
			}
		}
	}
	return
}

func TestCrossReveal(t *testing.T) {
	R.Rule("TestCrossReveal", "pair of distinct valid identities (independent or near misses: prefix, case variant, kind-suffix, last char), fresh keystore of either format, A's keys rotated 0..3 times with the value protected at a generated generation, B with 1..3 generations or no keys; every reveal entry point under B and under a keyless identity must fail or leave the stored form unchanged; keys of A and B differ; A's stored keys copied to B's names do not load as B's; hashes are per client; the owner still reveals (positive control). Non-trivial = B owns keys of the same kinds (failure is due to the wrong key)")
	hx.Checks(300, 4000)
	rapid.Check(t, func(rt *rapid.T) {
		c := genCase(rt)
		vs, cl := Check(c)
		R.Seen("TestCrossReveal", c, c.BKeys, cl...)
		R.Report(rt, "TestCrossReveal", c, vs)
	})
}

// ---------------------------------------------------------------------------------------------
// TestTokens: a token issued in A's context is not detokenised in B's

type TokCase struct {
	Store   string  `json:"store"` // memory | bolt
	A       string  `json:"a"`
	B       string  `json:"b"`
	Type    string  `json:"type"`
	Str     string  `json:"str,omitempty"`
	Int     int64   `json:"int,omitempty"`
	Bytes   gen.Hex `json:"bytes,omitempty"`
	Consist bool    `json:"consistent"`
}

func CheckTokens(c TokCase) (vs hx.Vs) {
	var ts tokencommon.TokenStorage
	var err error
	var cleanup = func() {}
	if c.Store == "bolt" {
		dir := fix.TempDir("c02-bolt-")
		cleanup = func() { os.RemoveAll(dir) }
		db, derr := openBolt(filepath.Join(dir, "tokens.db"))
		if derr != nil {
			vs.Add("harness:bolt", "%v", derr)
			return
		}
		defer db.Close()
		ts = storage.NewBoltDBTokenStorage(db)
	} else {
		ts, err = storage.NewMemoryTokenStorage()
		if err != nil {
			vs.Add("harness:memory", "%v", err)
			return
		}
	}
	defer cleanup()
	tok, err := pseudonymization.NewPseudoanonymizer(ts)
	if err != nil {
		vs.Add("harness:tokenizer", "%v", err)
		return
	}
	ctxA := tokencommon.TokenContext{ClientID: []byte(c.A)}
	ctxB := tokencommon.TokenContext{ClientID: []byte(c.B)}
	var val interface{}
	var tt tokencommon.TokenType
	switch c.Type {
	case "int32":
		val, tt = int32(c.Int), tokencommon.TokenType_Int32
	case "int64":
		val, tt = c.Int, tokencommon.TokenType_Int64
	case "str":
		val, tt = c.Str, tokencommon.TokenType_String
	case "email":
		val, tt = tokencommon.Email(c.Str+"@example.com"), tokencommon.TokenType_Email
	default:
		val, tt = []byte(c.Bytes), tokencommon.TokenType_Bytes
	}
	var token interface{}
	var terr error
	if hx.Guard(&vs, "tokenize", func() {
		if c.Consist {
			token, terr = tok.AnonymizeConsistently(val, ctxA, tt)
		} else {
			token, terr = tok.Anonymize(val, ctxA, tt)
		}
	}) || terr != nil {
		return // token space exhausted etc.: C10's business
	}
	same := func(x, y interface{}) bool { return fmt.Sprintf("%T:%v", x, x) == fmt.Sprintf("%T:%v", y, y) }
	if same(token, val) {
		return // a coincidence for tiny values says nothing
	}
	var back interface{}
	var derr error
	if hx.Guard(&vs, "detokenize", func() { back, derr = tok.Deanonymize(token, ctxB, tt) }) {
		return
	}
	if derr == nil && same(back, val) {
		vs.Add("foreign-detokenize:"+c.Store, "token of %q for %v detokenised under %q", c.A, val, c.B)
	} else if derr == nil && !same(back, token) {
		vs.Add("foreign-detokenize-other:"+c.Store, "detokenising a token of %q under %q returned %v, neither an error nor the token %v", c.A, c.B, back, token)
	}
	// positive control
	if hx.Guard(&vs, "detokenize", func() { back, derr = tok.Deanonymize(token, ctxA, tt) }) {
		return
	}
	if derr != nil || !same(back, val) {
		vs.Add("owner-detokenize:"+c.Store, "owner %q got %v (%v) for its own token of %v", c.A, back, derr, val)
	}
	// consistent mode: another client gets another token for the same value (w.h.p. for values with enough entropy)
	if c.Consist && (c.Type == "int64" || (c.Type == "str" && len(c.Str) >= 8) || (c.Type == "bytes" && len(c.Bytes) >= 8)) {
		t2, e2 := tok.AnonymizeConsistently(val, ctxB, tt)
		if e2 == nil && same(t2, token) {
			vs.Add("same-token-two-clients:"+c.Store, "identities %q and %q get the same consistent token for %v", c.A, c.B, val)
		}
	}
	return
}

func TestTokens(t *testing.T) {
	R.Rule("TestTokens", "value of every token type tokenised in A's context (consistent or random mode, memory or Bolt store) then detokenised in B's context: B gets an error or the token itself; A gets the value; non-trivial = always (A != B by construction)")
	hx.Checks(400, 5000)
	rapid.Check(t, func(rt *rapid.T) {
		a, b := genPair(rt)
		c := TokCase{
			Store: rapid.SampledFrom([]string{"memory", "memory", "bolt"}).Draw(rt, "store"), A: a, B: b,
			Type:    rapid.SampledFrom([]string{"int32", "int64", "str", "email", "bytes"}).Draw(rt, "type"),
			Consist: rapid.Bool().Draw(rt, "consistent"),
		}
		switch c.Type {
		case "int32":
			c.Int = int64(rapid.Int32().Draw(rt, "i32"))
		case "int64":
			c.Int = rapid.Int64().Draw(rt, "i64")
		case "str", "email":
			c.Str = rapid.StringMatching(`[a-zA-Z0-9]{4,24}`).Draw(rt, "str")
		default:
			c.Bytes = rapid.SliceOfN(rapid.Byte(), 4, 40).Draw(rt, "bytes")
		}
		vs := CheckTokens(c)
		R.Seen("TestTokens", c, true, "type:"+c.Type, "store:"+c.Store, fmt.Sprintf("consistent:%v", c.Consist))
		R.Report(rt, "TestTokens", c, vs)
	})
}

func TestReplay(t *testing.T) {
	R.Replay(t, map[string]hx.ReplayHandler{
		"TestCrossReveal": func(raw json.RawMessage) hx.Vs {
			var c Case
			if err := json.Unmarshal(raw, &c); err != nil {
				return hx.Vs{{Sig: "harness:decode", Msg: err.Error()}}
			}
			vs, _ := Check(c)
			return vs
		},
		"TestTokens": func(raw json.RawMessage) hx.Vs {
			var c TokCase
			if err := json.Unmarshal(raw, &c); err != nil {
				return hx.Vs{{Sig: "harness:decode", Msg: err.Error()}}
			}
			return CheckTokens(c)
		},
		"TestCrossSessions": replaySess,
		"TestTokenHistories": func(raw json.RawMessage) hx.Vs {
			var c TokHist
			if err := json.Unmarshal(raw, &c); err != nil {
				return hx.Vs{{Sig: "harness:decode", Msg: err.Error()}}
			}
			vs, _ := CheckTokHist(c)
			return vs
		},
		"TestHTTPPeers": func(raw json.RawMessage) hx.Vs {
			var c HTTPCase
			if err := json.Unmarshal(raw, &c); err != nil {
				return hx.Vs{{Sig: "harness:decode", Msg: err.Error()}}
			}
			vs, _ := CheckHTTP(c)
			return vs
		},
		"TestTranslatorConcurrent": func(raw json.RawMessage) hx.Vs {
			var c ConcCase
			if err := json.Unmarshal(raw, &c); err != nil {
				return hx.Vs{{Sig: "harness:decode", Msg: err.Error()}}
			}
			vs, _ := CheckConcurrent(c)
			return vs
		},
		"TestTLSPeers": func(raw json.RawMessage) hx.Vs {
			var c PeersCase
			if err := json.Unmarshal(raw, &c); err != nil {
				return hx.Vs{{Sig: "harness:decode", Msg: err.Error()}}
			}
			return CheckPeers(c)
		},
		"TestTLSIdentity": func(raw json.RawMessage) hx.Vs {
			var c TLSCase
			if err := json.Unmarshal(raw, &c); err != nil {
				return hx.Vs{{Sig: "harness:decode", Msg: err.Error()}}
			}
			return CheckTLS(c)
		},
	})
}
