package c02

import (
	"context"
	"crypto/ecdsa"
	"crypto/elliptic"
	"crypto/rand"
	"crypto/sha512"
	"crypto/tls"
	"crypto/x509"
	"crypto/x509/pkix"
	"encoding/hex"
	"fmt"
	"math/big"
	"net"
	"reflect"
	"sync"
	"testing"
	"time"

	bolt "go.etcd.io/bbolt"
	"google.golang.org/grpc/credentials"
	"google.golang.org/grpc/peer"
	"pgregory.net/rapid"

	"github.com/cossacklabs/acra/cmd/acra-translator/grpc_api"
	"github.com/cossacklabs/acra/keystore"
	"github.com/cossacklabs/acra/network"

	"verif/internal/fix"
	"verif/internal/gen"
	"verif/internal/hx"
)

func openBolt(path string) (*bolt.DB, error) {
	return bolt.Open(path, 0o600, &bolt.Options{Timeout: time.Second})
}

// tlsPeer is the result of one real TLS handshake through acra's TLSConnectionWrapper: the
// credentials.AuthInfo gRPC would attach to every request of that connection, and the client id
// acra derived from the client certificate.
type tlsPeer struct {
	auth     credentials.AuthInfo
	clientID []byte
	ext      network.TLSClientIDExtractor
}

var (
	peerOnce sync.Once
	thePeer  *tlsPeer
	peerErr  error
)

func makeCert(cn string, ca *x509.Certificate, caKey *ecdsa.PrivateKey, isCA bool) (*x509.Certificate, *ecdsa.PrivateKey, []byte) {
	key, err := ecdsa.GenerateKey(elliptic.P256(), rand.Reader)
	if err != nil {
		panic(err)
	}
	tpl := &x509.Certificate{
		SerialNumber: big.NewInt(time.Now().UnixNano()), Subject: pkix.Name{CommonName: cn, Organization: []string{"verif"}},
		NotBefore: time.Now().Add(-time.Hour), NotAfter: time.Now().Add(24 * time.Hour),
		KeyUsage: x509.KeyUsageDigitalSignature, ExtKeyUsage: []x509.ExtKeyUsage{x509.ExtKeyUsageClientAuth, x509.ExtKeyUsageServerAuth},
		BasicConstraintsValid: true, IsCA: isCA, DNSNames: []string{"localhost"},
	}
	if isCA {
		tpl.KeyUsage |= x509.KeyUsageCertSign
	}
	parent, pkey := tpl, key
	if ca != nil {
		parent, pkey = ca, caKey
	}
	der, err := x509.CreateCertificate(rand.Reader, tpl, parent, &key.PublicKey, pkey)
	if err != nil {
		panic(err)
	}
	cert, err := x509.ParseCertificate(der)
	if err != nil {
		panic(err)
	}
	return cert, key, der
}

func getPeer() (*tlsPeer, error) {
	peerOnce.Do(func() {
		ca, caKey, _ := makeCert("verif-ca", nil, nil, true)
		_, srvKey, srvDER := makeCert("localhost", ca, caKey, false)
		_, cliKey, cliDER := makeCert("tls-client-bobby", ca, caKey, false)
		pool := x509.NewCertPool()
		pool.AddCert(ca)
		serverCfg := &tls.Config{Certificates: []tls.Certificate{{Certificate: [][]byte{srvDER}, PrivateKey: srvKey}}, ClientCAs: pool, ClientAuth: tls.RequireAndVerifyClientCert, MinVersion: tls.VersionTLS12}
		clientCfg := &tls.Config{Certificates: []tls.Certificate{{Certificate: [][]byte{cliDER}, PrivateKey: cliKey}}, RootCAs: pool, ServerName: "localhost", MinVersion: tls.VersionTLS12}
		ext, err := network.NewDefaultTLSClientIDExtractor()
		if err != nil {
			peerErr = err
			return
		}
		wrapper, err := network.NewTLSAuthenticationConnectionWrapper(true, clientCfg, serverCfg, ext)
		if err != nil {
			peerErr = err
			return
		}
		cliEnd, srvEnd := net.Pipe()
		done := make(chan error, 1)
		go func() {
			c := tls.Client(cliEnd, clientCfg.Clone())
			c.SetDeadline(time.Now().Add(10 * time.Second))
			// gRPC negotiates h2; the wrapper adds it to the server side
			done <- c.Handshake()
		}()
		srvEnd.SetDeadline(time.Now().Add(10 * time.Second))
		_, auth, err := wrapper.ServerHandshake(srvEnd)
		if err != nil {
			peerErr = fmt.Errorf("server handshake: %w", err)
			return
		}
		if herr := <-done; herr != nil {
			peerErr = fmt.Errorf("client handshake: %w", herr)
			return
		}
		id, err := network.GetClientIDFromAuthInfo(auth, ext)
		if err != nil {
			peerErr = err
			return
		}
		thePeer = &tlsPeer{auth: auth, clientID: id, ext: ext}
	})
	return thePeer, peerErr
}

// recorder implements grpc_api.DecryptService by reflection-free embedding: every RPC records the
// client id it was called with.
type recorder struct {
	grpc_api.UnimplementedReaderServer
	grpc_api.UnimplementedReaderSymServer
	grpc_api.UnimplementedTokenizatorServer
	grpc_api.UnimplementedSearchableEncryptionServer
	grpc_api.UnimplementedWriterServer
	grpc_api.UnimplementedWriterSymServer
}

// TLSCase: one RPC of the wrapped service called with a forged ClientId field.
type TLSCase struct {
	Method string  `json:"method"`
	Forged gen.Hex `json:"forged"`
	Data   gen.Hex `json:"data"`
	// Real: call through to the real translator service with a value of the forged identity
	Real bool `json:"real"`
}

// rpcMethods lists the RPCs of the aggregated service interface by reflection, so that an RPC added
// later is picked up automatically.
func rpcMethods() []string {
	it := reflect.TypeOf((*grpc_api.DecryptService)(nil)).Elem()
	var names []string
	for i := 0; i < it.NumMethod(); i++ {
		m := it.Method(i)
		// gRPC handlers: (ctx, *Request) (*Response, error); skip the mustEmbedUnimplemented* markers
		if m.Type.NumIn() == 2 && m.Type.NumOut() == 2 && m.Type.In(1).Kind() == reflect.Ptr {
			names = append(names, m.Name)
		}
	}
	return names
}

// spy wraps a real DecryptService and records the ClientId of every request it receives.
type spy struct {
	grpc_api.DecryptService
	seen [][]byte
}

func clientIDOf(req reflect.Value) []byte {
	f := req.Elem().FieldByName("ClientId")
	if !f.IsValid() {
		return nil
	}
	return f.Bytes()
}

var (
	tlsWorldOnce sync.Once
	tlsWorld     *fix.World
	tlsAliceVal  map[string][]byte
)

// CheckTLS calls one RPC on the TLS wrapper under the handshaken peer with a forged ClientId.
func CheckTLS(c TLSCase) (vs hx.Vs) {
	p, err := getPeer()
	if err != nil {
		vs.Add("harness:tls", "%v", err)
		return
	}
	// the real service over a keystore where both the TLS identity and the forged identity own keys
	tlsWorldOnce.Do(func() {
		dir := fix.TempDir("c02-tls-")
		ks := fix.V1(dir, keystore.WithoutCache)
		fix.GenClientKeys(ks, p.clientID)
		fix.GenClientKeys(ks, []byte("alice-victim"))
		tlsWorld = fix.NewWorldOn(ks, []byte("alice-victim"), p.clientID, []byte("carol-no-keys"))
	})
	w := tlsWorld
	td := fix.TranslatorData(w.KS, nil, nil)
	td.UseConnectionClientID, td.TLSClientIDExtractor = true, p.ext
	svc, err := grpc_api.NewTranslatorService(w.Svc, td)
	if err != nil {
		vs.Add("harness:service", "%v", err)
		return
	}
	inner := &spyService{DecryptService: svc}
	wrapper, err := grpc_api.NewTLSDecryptServiceWrapper(inner, p.ext)
	if err != nil {
		vs.Add("harness:wrapper", "%v", err)
		return
	}
	m := reflect.ValueOf(wrapper).MethodByName(c.Method)
	if !m.IsValid() {
		vs.Add("harness:method", "no method %s", c.Method)
		return
	}
	reqT := m.Type().In(1).Elem()
	req := reflect.New(reqT)
	forged := []byte(c.Forged)
	data := []byte(c.Data)
	if c.Real {
		forged = w.Alice
	}
	for i := 0; i < reqT.NumField(); i++ {
		f := req.Elem().Field(i)
		if !f.CanSet() || f.Kind() != reflect.Slice || f.Type().Elem().Kind() != reflect.Uint8 {
			continue
		}
		if reqT.Field(i).Name == "ClientId" {
			f.SetBytes(append([]byte(nil), forged...))
		} else {
			f.SetBytes(append([]byte(nil), data...))
		}
	}
	if c.Real {
		// hand the wrapper a value that belongs to the forged identity, in the field the RPC reads
		kind, form := fix.KindStruct, fix.FormContainer
		switch c.Method {
		case "DecryptSym":
			kind = fix.KindBlock
		case "DecryptSearchable":
			form = fix.FormSearchWrapped
		case "DecryptSymSearchable":
			kind, form = fix.KindBlock, fix.FormSearchWrapped
		}
		v, perr := w.Protect(w.Alice, kind, form, data, -1)
		if perr != nil {
			vs.Add("harness:protect", "%v", perr)
			return
		}
		for i := 0; i < reqT.NumField(); i++ {
			f := req.Elem().Field(i)
			n := reqT.Field(i).Name
			if f.CanSet() && f.Kind() == reflect.Slice && f.Type().Elem().Kind() == reflect.Uint8 && n != "ClientId" && n != "Hash" {
				f.SetBytes(v)
			} else if n == "Hash" && f.CanSet() {
				f.SetBytes(nil)
			}
		}
	}
	ctx := peer.NewContext(context.Background(), &peer.Peer{AuthInfo: p.auth, Addr: &net.TCPAddr{IP: net.IPv4(127, 0, 0, 1), Port: 1}})
	var outs []reflect.Value
	if hx.Guard(&vs, "rpc:"+c.Method, func() { outs = m.Call([]reflect.Value{reflect.ValueOf(ctx), req}) }) {
		return
	}
	rpcErr, _ := outs[1].Interface().(error)
	if len(inner.seen) == 0 {
		if rpcErr == nil {
			vs.Add("tls-wrapper-bypass:"+c.Method, "%s answered without reaching the wrapped service", c.Method)
		}
		return // refused before reaching the service: nothing was revealed
	}
	for _, id := range inner.seen {
		if string(id) != string(p.clientID) {
			vs.Add("forged-client-id-used:"+c.Method, "%s reached the service with client id %q; the TLS peer is %q (request named %q)", c.Method, id, p.clientID, forged)
		}
	}
	if c.Real && rpcErr == nil && len(data) >= 8 {
		// a Decrypt* RPC that succeeded on the victim's value
		resp := outs[0]
		if !resp.IsNil() {
			for i := 0; i < resp.Elem().NumField(); i++ {
				f := resp.Elem().Field(i)
				if f.Kind() == reflect.Slice && f.Type().Elem().Kind() == reflect.Uint8 && string(f.Bytes()) == string(data) {
					vs.Add("forged-client-id-reveals:"+c.Method, "%s revealed a value of %q to TLS peer %q", c.Method, forged, p.clientID)
				}
			}
		}
	}
	return
}

// spyService records the ClientId of every request that reaches the real service.
type spyService struct {
	grpc_api.DecryptService
	seen [][]byte
}

func (s *spyService) rec(id []byte) { s.seen = append(s.seen, append([]byte(nil), id...)) }

func (s *spyService) Decrypt(ctx context.Context, r *grpc_api.DecryptRequest) (*grpc_api.DecryptResponse, error) {
	s.rec(r.ClientId)
	return s.DecryptService.Decrypt(ctx, r)
}
func (s *spyService) Encrypt(ctx context.Context, r *grpc_api.EncryptRequest) (*grpc_api.EncryptResponse, error) {
	s.rec(r.ClientId)
	return s.DecryptService.Encrypt(ctx, r)
}
func (s *spyService) Tokenize(ctx context.Context, r *grpc_api.TokenizeRequest) (*grpc_api.TokenizeResponse, error) {
	s.rec(r.ClientId)
	return s.DecryptService.Tokenize(ctx, r)
}
func (s *spyService) Detokenize(ctx context.Context, r *grpc_api.TokenizeRequest) (*grpc_api.TokenizeResponse, error) {
	s.rec(r.ClientId)
	return s.DecryptService.Detokenize(ctx, r)
}
func (s *spyService) DecryptSym(ctx context.Context, r *grpc_api.DecryptSymRequest) (*grpc_api.DecryptSymResponse, error) {
	s.rec(r.ClientId)
	return s.DecryptService.DecryptSym(ctx, r)
}
func (s *spyService) EncryptSym(ctx context.Context, r *grpc_api.EncryptSymRequest) (*grpc_api.EncryptSymResponse, error) {
	s.rec(r.ClientId)
	return s.DecryptService.EncryptSym(ctx, r)
}
func (s *spyService) EncryptSearchable(ctx context.Context, r *grpc_api.SearchableEncryptionRequest) (*grpc_api.SearchableEncryptionResponse, error) {
	s.rec(r.ClientId)
	return s.DecryptService.EncryptSearchable(ctx, r)
}
func (s *spyService) DecryptSearchable(ctx context.Context, r *grpc_api.SearchableDecryptionRequest) (*grpc_api.SearchableDecryptionResponse, error) {
	s.rec(r.ClientId)
	return s.DecryptService.DecryptSearchable(ctx, r)
}
func (s *spyService) EncryptSymSearchable(ctx context.Context, r *grpc_api.SearchableSymEncryptionRequest) (*grpc_api.SearchableSymEncryptionResponse, error) {
	s.rec(r.ClientId)
	return s.DecryptService.EncryptSymSearchable(ctx, r)
}
func (s *spyService) DecryptSymSearchable(ctx context.Context, r *grpc_api.SearchableSymDecryptionRequest) (*grpc_api.SearchableSymDecryptionResponse, error) {
	s.rec(r.ClientId)
	return s.DecryptService.DecryptSymSearchable(ctx, r)
}
func (s *spyService) GenerateQueryHash(ctx context.Context, r *grpc_api.QueryHashRequest) (*grpc_api.QueryHashResponse, error) {
	s.rec(r.ClientId)
	return s.DecryptService.GenerateQueryHash(ctx, r)
}

func TestTLSIdentity(t *testing.T) {
	R.Rule("TestTLSIdentity", "one real TLS handshake through acra's TLSConnectionWrapper yields the AuthInfo gRPC attaches to requests; every RPC of the aggregated service interface (listed by reflection) is called on TLSDecryptServiceWrapper with a forged ClientId (arbitrary bytes, or a real victim identity with one of its protected values); the wrapped real service must only ever see the TLS identity and must not reveal the victim's value; non-trivial = forged id differs from the TLS identity")
	methods := rpcMethods()
	if len(methods) < 11 {
		t.Fatalf("reflection found only %d RPCs: %v", len(methods), methods)
	}
	// every spied method must exist, otherwise a new RPC would go unrecorded
	st := reflect.TypeOf(&spyService{})
	for _, m := range methods {
		if mm, ok := st.MethodByName(m); !ok || mm.Func.Pointer() == 0 {
			t.Fatalf("RPC %s is not covered by the spy", m)
		}
	}
	hx.Checks(300, 3000)
	rapid.Check(t, func(rt *rapid.T) {
		c := TLSCase{
			Method: rapid.SampledFrom(methods).Draw(rt, "method"),
			Forged: gen.Hex(rapid.SampledFrom([]string{"alice-victim", "", "x", "alice-victim\x00"}).Draw(rt, "forgedkind")),
			Data:   gen.Marker(rt, "data"),
			Real:   rapid.Bool().Draw(rt, "real"),
		}
		if rapid.IntRange(0, 3).Draw(rt, "rndforged") == 0 {
			c.Forged = gen.Bytes(rt, "forged", 64)
		}
		vs := CheckTLS(c)
		R.Seen("TestTLSIdentity", c, true, "rpc:"+c.Method, fmt.Sprintf("real:%v", c.Real))
		R.Report(rt, "TestTLSIdentity", c, vs)
	})
}

// ---------------------------------------------------------------------------------------------
// several TLS peers through ONE connection wrapper / extractor (as one acra process has)

type tlsWorldT struct {
	wrapper   *network.TLSConnectionWrapper
	ext       network.TLSClientIDExtractor
	clientCfg []*tls.Config
	expected  [][]byte // identity expected for each certificate (computed independently)
}

var (
	multiOnce sync.Once
	multi     *tlsWorldT
	multiErr  error
)

func getMulti() (*tlsWorldT, error) {
	multiOnce.Do(func() {
		ca, caKey, _ := makeCert("verif-ca-multi", nil, nil, true)
		_, srvKey, srvDER := makeCert("localhost", ca, caKey, false)
		pool := x509.NewCertPool()
		pool.AddCert(ca)
		serverCfg := &tls.Config{Certificates: []tls.Certificate{{Certificate: [][]byte{srvDER}, PrivateKey: srvKey}}, ClientCAs: pool, ClientAuth: tls.RequireAndVerifyClientCert, MinVersion: tls.VersionTLS12}
		w := &tlsWorldT{}
		for i := 0; i < 4; i++ {
			cert, key, der := makeCert(fmt.Sprintf("tls-client-%d", i), ca, caKey, false)
			w.clientCfg = append(w.clientCfg, &tls.Config{Certificates: []tls.Certificate{{Certificate: [][]byte{der}, PrivateKey: key}}, RootCAs: pool, ServerName: "localhost", MinVersion: tls.VersionTLS12})
			// documented derivation: lower-case hex of SHA-512 of the certificate's distinguished name
			sum := sha512.Sum512([]byte(cert.Subject.String()))
			w.expected = append(w.expected, []byte(hex.EncodeToString(sum[:])))
		}
		ext, err := network.NewDefaultTLSClientIDExtractor()
		if err != nil {
			multiErr = err
			return
		}
		w.ext = ext
		w.wrapper, multiErr = network.NewTLSAuthenticationConnectionWrapper(true, w.clientCfg[0], serverCfg, ext)
		multi = w
	})
	return multi, multiErr
}

func (w *tlsWorldT) handshake(cert int) (credentials.AuthInfo, error) {
	cliEnd, srvEnd := net.Pipe()
	done := make(chan error, 1)
	go func() {
		c := tls.Client(cliEnd, w.clientCfg[cert].Clone())
		c.SetDeadline(time.Now().Add(10 * time.Second))
		done <- c.Handshake()
	}()
	srvEnd.SetDeadline(time.Now().Add(10 * time.Second))
	_, auth, err := w.wrapper.ServerHandshake(srvEnd)
	if err != nil {
		return nil, err
	}
	if herr := <-done; herr != nil {
		return nil, herr
	}
	return auth, nil
}

// PeersCase: a sequence of TLS handshakes (certificate index each); all connections stay open.
type PeersCase struct {
	Certs []int `json:"certs"`
}

// CheckPeers: every open connection keeps the identity of ITS certificate, whatever connects later.
func CheckPeers(c PeersCase) (vs hx.Vs) {
	w, err := getMulti()
	if err != nil {
		vs.Add("harness:tls", "%v", err)
		return
	}
	var auths []credentials.AuthInfo
	for _, ci := range c.Certs {
		a, err := w.handshake(ci % len(w.clientCfg))
		if err != nil {
			vs.Add("harness:handshake", "%v", err)
			return
		}
		auths = append(auths, a)
		// after every new connection, all connections opened so far still carry their own identity
		for j, aj := range auths {
			id, err := network.GetClientIDFromAuthInfo(aj, w.ext)
			want := w.expected[c.Certs[j]%len(w.clientCfg)]
			if err != nil {
				vs.Add("tls-identity-lost", "connection %d lost its identity after %d handshakes: %v", j, len(auths), err)
				continue
			}
			if string(id) != string(want) {
				vs.Add("tls-identity-changed-by-later-connection", "connection %d (certificate %d) is identified as %.16s… after a later handshake with certificate %d; its own identity is %.16s…", j, c.Certs[j], id, ci, want)
			}
		}
	}
	return
}

func TestTLSPeers(t *testing.T) {
	R.Rule("TestTLSPeers", "2-6 TLS handshakes with 4 client certificates through one TLSConnectionWrapper/extractor (what one acra process has), all connections kept open; after every handshake each open connection must still be identified by the identity derived from ITS certificate (computed independently: hex SHA-512 of the DN); non-trivial = at least two different certificates")
	hx.Checks(40, 400)
	rapid.Check(t, func(rt *rapid.T) {
		c := PeersCase{Certs: rapid.SliceOfN(rapid.IntRange(0, 3), 2, 6).Draw(rt, "certs")}
		distinct := map[int]bool{}
		for _, x := range c.Certs {
			distinct[x] = true
		}
		vs := CheckPeers(c)
		R.Seen("TestTLSPeers", c, len(distinct) > 1, fmt.Sprintf("certs:%d", len(distinct)))
		R.Report(rt, "TestTLSPeers", c, vs)
	})
}
