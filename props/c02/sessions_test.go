package c02

import (
	"bytes"
	"encoding/json"
	"errors"
	"fmt"
	"strings"
	"testing"

	"pgregory.net/rapid"

	"github.com/cossacklabs/acra/pseudonymization"
	"github.com/cossacklabs/acra/pseudonymization/storage"

	"verif/internal/fix"
	"verif/internal/hx"
	"verif/internal/pgprog"
	"verif/internal/pgsess"
)

// SessCase: alice writes rows into generated tables; then another identity runs statements on the same
// database through its own proxied session: searches on alice's searchable columns, reads, its own inserts.
type SessCase struct {
	Tables  []pgprog.TableSpec `json:"tables"`
	Writes  []pgprog.Step      `json:"writes"`  // alice's INSERTs
	Intrude []Intrusion        `json:"intrude"` // the other identity's statements
	Who     string             `json:"who"`     // bobby (has keys) | carol (no keys)
	// OwnerReads: alice reads her rows back (through the same proxy process state: tokenizer, keystore) before
	// the other identity comes, as an application that shows what it has just stored
	OwnerReads bool `json:"owner_reads,omitempty"`
}

// Intrusion is one statement of the other identity.
type Intrusion struct {
	Kind   string      `json:"kind"` // search | select | insert
	Step   pgprog.Step `json:"step,omitempty"`
	Table  int         `json:"table,omitempty"`
	Col    int         `json:"col,omitempty"`
	Row    int         `json:"row,omitempty"` // search: value of alice's row Row (mod rows)
	Ext    bool        `json:"ext,omitempty"`
	PFmt   int16       `json:"pfmt,omitempty"`
	RFmt   int16       `json:"rfmt,omitempty"`
	Negate bool        `json:"negate,omitempty"`
}

func genSessCase(t *rapid.T) SessCase {
	c := SessCase{Who: rapid.SampledFrom([]string{"bobby", "bobby", "carol"}).Draw(t, "who")}
	kinds := []string{pgprog.KPlainText, pgprog.KEnc, pgprog.KSearch, pgprog.KSearch, pgprog.KToken, pgprog.KTyped, pgprog.KMask}
	c.Tables = pgprog.GenTables(t, kinds, "alice")
	next := make([]int64, len(c.Tables))
	for i := range next {
		next[i] = 1
	}
	nw := rapid.IntRange(1, 4).Draw(t, "nwrites")
	for i := 0; i < nw; i++ {
		st := pgprog.GenStep(t, c.Tables, next, fmt.Sprintf("w%d", i))
		if st.Op != "insert" {
			st = pgprog.Step{Op: "insert", Table: st.Table, Rows: nil}
			tb := c.Tables[st.Table]
			var row []pgprog.Val
			for ci, col := range tb.Cols {
				if ci == 0 {
					row = append(row, pgprog.Val{B: []byte(fmt.Sprint(next[st.Table]))})
					next[st.Table]++
					continue
				}
				row = append(row, pgprog.GenVal(t, col, fmt.Sprintf("w%d.c%d", i, ci)))
			}
			st.Rows = [][]pgprog.Val{row}
		}
		st.Returning = nil
		c.Writes = append(c.Writes, st)
	}
	ni := rapid.IntRange(1, 6).Draw(t, "nintrude")
	for i := 0; i < ni; i++ {
		in := Intrusion{Kind: rapid.SampledFrom([]string{"search", "search", "select", "insert"}).Draw(t, fmt.Sprintf("i%d.kind", i))}
		in.Table = rapid.IntRange(0, len(c.Tables)-2).Draw(t, fmt.Sprintf("i%d.table", i)) // configured tables only
		in.Ext = rapid.Bool().Draw(t, fmt.Sprintf("i%d.ext", i))
		in.PFmt = int16(rapid.IntRange(0, 1).Draw(t, fmt.Sprintf("i%d.pfmt", i)))
		in.RFmt = int16(rapid.IntRange(0, 1).Draw(t, fmt.Sprintf("i%d.rfmt", i)))
		switch in.Kind {
		case "search":
			in.Col = rapid.IntRange(1, len(c.Tables[in.Table].Cols)-1).Draw(t, fmt.Sprintf("i%d.col", i))
			in.Row = rapid.IntRange(0, 7).Draw(t, fmt.Sprintf("i%d.row", i))
			in.Negate = rapid.IntRange(0, 3).Draw(t, fmt.Sprintf("i%d.neg", i)) == 0
		case "insert":
			st := pgprog.GenStep(t, c.Tables, next, fmt.Sprintf("i%d.ins", i))
			for st.Op != "insert" || !c.Tables[st.Table].Configured {
				st = pgprog.Step{Op: "insert", Table: in.Table}
				tb := c.Tables[in.Table]
				var row []pgprog.Val
				for ci, col := range tb.Cols {
					if ci == 0 {
						row = append(row, pgprog.Val{B: []byte(fmt.Sprint(next[in.Table]))})
						next[in.Table]++
						continue
					}
					row = append(row, pgprog.GenVal(t, col, fmt.Sprintf("i%d.c%d", i, ci)))
				}
				st.Rows = [][]pgprog.Val{row}
			}
			st.Returning = nil
			in.Step = st
		}
		c.Intrude = append(c.Intrude, in)
	}
	c.OwnerReads = rapid.Bool().Draw(t, "ownerreads")
	return c
}

func CheckSessions(c SessCase) (vs hx.Vs, classes []string, nontrivial bool) {
	w := fix.TheWorld()
	defs := pgprog.Defs(c.Tables)
	yaml := pgprog.SchemaYAML(c.Tables)
	tstore, _ := storage.NewMemoryTokenStorage()
	tok, _ := pseudonymization.NewPseudoanonymizer(tstore)
	// 1. alice writes
	sa, err := pgsess.Start(pgsess.Config{SchemaYAML: yaml, KeyStore: w.KS, ClientID: w.Alice, Tables: defs, Tokenizer: tok})
	if err != nil {
		vs.Add("harness:start", "%v", err)
		return
	}
	rows := make([][][]pgprog.Val, len(c.Tables))
	var aliceMarkers [][]byte
	clear := map[string]bool{}
	for wi, st := range c.Writes {
		tb := c.Tables[st.Table]
		r := pgprog.Render(c.Tables, st)
		var rep *pgsess.Reply
		if st.Ext {
			rep, err = sa.Extended(pgprog.ExtOf(st, r, fmt.Sprintf("w%d", wi)))
		} else {
			rep, err = sa.Simple(r.SQL)
		}
		if err != nil || len(rep.Errors) > 0 {
			sa.Close()
			if errors.Is(err, pgsess.ErrTimeout) {
				R.Note("inconclusive: deadline while alice writes")
				return nil, nil, false
			}
			vs.Add("harness:alice-write", "alice's write failed: %v %v (%.200s)", err, rep, r.SQL)
			return
		}
		cols := st.Cols
		if cols == nil {
			for i := range tb.Cols {
				cols = append(cols, i)
			}
		}
		for _, row := range st.Rows {
			full := make([]pgprog.Val, len(tb.Cols))
			for i := range full {
				full[i] = pgprog.Val{Null: true}
			}
			for i, ci := range cols {
				full[ci] = row[i]
				mk := pgprog.Marker(row[i])
				if mk == nil {
					continue
				}
				if tb.Configured && tb.Cols[ci].Protected() && tb.Cols[ci].Kind != pgprog.KMask {
					aliceMarkers = append(aliceMarkers, mk)
				} else {
					clear[string(mk)] = true
				}
			}
			rows[st.Table] = append(rows[st.Table], full)
		}
	}
	if c.OwnerReads {
		classes = append(classes, "owner-read-before-other-identity")
		for ti, tb := range c.Tables {
			if len(rows[ti]) == 0 {
				continue
			}
			if _, err := sa.Simple("SELECT * FROM " + tb.Name); err != nil {
				if errors.Is(err, pgsess.ErrTimeout) {
					sa.Close()
					R.Note("inconclusive: deadline while alice reads her rows back")
					return nil, nil, false
				}
				break // the positive control at the end judges what alice can read
			}
		}
	}
	sa.Close()
	store := sa.DB.Store
	// 2. the other identity
	id := w.Bobby
	if c.Who == "carol" {
		id = w.Carol
	}
	classes = append(classes, "who:"+c.Who)
	sb, err := pgsess.Start(pgsess.Config{SchemaYAML: yaml, KeyStore: w.KS, ClientID: id, Tables: defs, Tokenizer: tok, Store: store})
	if err != nil {
		vs.Add("harness:start2", "%v", err)
		return
	}
	defer sb.Close()
	for ii, in := range c.Intrude {
		tb := c.Tables[in.Table]
		var rep *pgsess.Reply
		var sql string
		switch in.Kind {
		case "search":
			if len(rows[in.Table]) == 0 {
				continue
			}
			col := tb.Cols[in.Col%len(tb.Cols)]
			if in.Col%len(tb.Cols) == 0 {
				col = tb.Cols[1]
				in.Col = 1
			}
			v := rows[in.Table][in.Row%len(rows[in.Table])][in.Col%len(tb.Cols)]
			if v.Null {
				continue
			}
			op := "="
			if in.Negate {
				op = "<>"
			}
			classes = append(classes, "search:"+col.Kind)
			if col.ClientID != "" {
				classes = append(classes, "search-on-column-with-explicit-owner")
				if col.Kind == pgprog.KSearch {
					nontrivial = true
				}
			}
			if in.Ext {
				sql = fmt.Sprintf("SELECT * FROM %s WHERE %s %s $1", tb.Name, col.Name, op)
				rep, err = sb.Extended(pgsess.Ext{SQL: sql, StmtName: fmt.Sprintf("i%d", ii), ParamFormats: []int16{in.PFmt}, Params: [][]byte{pgprog.ParamBytes(v, col.Logical(), in.PFmt)}, ResultFormats: []int16{in.RFmt}, DescribePort: true})
			} else {
				sql = fmt.Sprintf("SELECT * FROM %s WHERE %s %s %s", tb.Name, col.Name, op, pgprog.Literal(v, col.Logical(), ii, false))
				rep, err = sb.Simple(sql)
			}
		case "select":
			classes = append(classes, "select")
			sql = "SELECT * FROM " + tb.Name
			if in.Ext {
				rep, err = sb.Extended(pgsess.Ext{SQL: sql, StmtName: fmt.Sprintf("i%d", ii), ResultFormats: []int16{in.RFmt}, DescribePort: true})
			} else {
				rep, err = sb.Simple(sql)
			}
		case "insert":
			classes = append(classes, "insert-by-other")
			// whatever the other identity writes itself it knows anyway
			for _, row := range in.Step.Rows {
				for _, v := range row {
					if mk := pgprog.Marker(v); mk != nil {
						clear[string(mk)] = true
					}
				}
			}
			r := pgprog.Render(c.Tables, in.Step)
			sql = r.SQL
			if in.Step.Ext {
				rep, err = sb.Extended(pgprog.ExtOf(in.Step, r, fmt.Sprintf("i%d", ii)))
			} else {
				rep, err = sb.Simple(r.SQL)
			}
		}
		if errors.Is(err, pgsess.ErrTimeout) {
			R.Note("inconclusive: deadline in the other identity's statement %d: %.200s", ii, sql)
			return vs, classes, false
		}
		if err != nil {
			if ps := sb.Panics(); len(ps) > 0 {
				vs.Add("handler-panic:"+hx.PanicFunc(ps[0]), "statement %d of %s (%.160s) made the connection handler panic: %.1200s", ii, c.Who, sql, ps[0])
			}
			break // an `error` policy column legitimately ends statements with errors; a closed session ends the case
		}
		_ = rep
	}
	// final full read by the other identity (columns with `error` policy are left out: the statement would just fail)
	for ti, tb := range c.Tables {
		if len(rows[ti]) == 0 {
			continue
		}
		var names []string
		for _, col := range tb.Cols {
			if col.OnFail != "error" {
				names = append(names, col.Name)
			}
		}
		if _, err := sb.Simple("SELECT " + strings.Join(names, ", ") + " FROM " + tb.Name); err != nil {
			break
		}
	}
	_, recv := sb.ClientStreams()
	for _, mk := range aliceMarkers {
		if clear[string(mk)] {
			continue
		}
		for _, enc := range [][]byte{mk, []byte(fmt.Sprintf("%x", mk))} {
			if bytes.Contains(recv, enc) {
				vs.Add("other-identity-received-plaintext:session", "identity %s received the plaintext marker %s of a value alice wrote into a protected column", c.Who, mk)
				return vs, classes, nontrivial
			}
		}
	}
	// 3. positive control: alice still reads her values
	sc, err := pgsess.Start(pgsess.Config{SchemaYAML: yaml, KeyStore: w.KS, ClientID: w.Alice, Tables: defs, Tokenizer: tok, Store: store})
	if err != nil {
		vs.Add("harness:start3", "%v", err)
		return
	}
	defer sc.Close()
	for ti, tb := range c.Tables {
		if len(rows[ti]) > 0 {
			if _, err := sc.Simple("SELECT * FROM " + tb.Name); err != nil {
				break
			}
		}
	}
	_, recvA := sc.ClientStreams()
	for _, mk := range aliceMarkers {
		if !bytes.Contains(recvA, mk) && !bytes.Contains(recvA, []byte(fmt.Sprintf("%x", mk))) {
			vs.Add("owner-cannot-read-own-value:session", "alice does not get her own value (marker %s) back after the other identity's statements", mk)
			break
		}
	}
	return vs, classes, nontrivial
}

func TestCrossSessions(t *testing.T) {
	R.Rule("TestCrossSessions", "alice writes rows into generated tables (columns enc/search/token/typed/mask, some with explicit client_id alice) through her proxied PostgreSQL session and, in half of the cases, reads them back first; then bobby (has keys) or carol (none) runs 1-6 statements in a session of their own over the same database: equality/inequality searches on alice's columns with the values alice wrote (literal or bound parameter), full reads, own inserts; oracle: no byte received by the other identity contains a unique plaintext marker of alice's protected values, the handler does not panic, and alice still reads her values afterwards (positive control); non-trivial = a search on a searchable column whose configured owner differs from the connection")
	hx.Checks(60, 1500)
	rapid.Check(t, func(rt *rapid.T) {
		c := genSessCase(rt)
		vs, cl, nt := CheckSessions(c)
		R.Seen("TestCrossSessions", c, nt, cl...)
		R.Report(rt, "TestCrossSessions", c, vs)
	})
}

func replaySess(raw json.RawMessage) hx.Vs {
	var c SessCase
	if err := json.Unmarshal(raw, &c); err != nil {
		return hx.Vs{{Sig: "harness:decode", Msg: err.Error()}}
	}
	vs, _, _ := CheckSessions(c)
	return vs
}
