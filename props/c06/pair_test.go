package c06

import (
	"fmt"

	"github.com/cossacklabs/themis/gothemis/keys"

	"github.com/cossacklabs/acra/keystore"

	"verif/internal/hx"
	"verif/internal/kshist"
)

// A key pair is one key with two halves. kshist.Run reads the pair through its private half (a read
// of the current key starts with the private key, the all-keys read returns private keys only), so a
// destruction that removes the private half and leaves the public half behind looks complete to it.
// pairHalves adds the other half to the comparison, from the property text ("destroying a key ...
// removes that key"; the current key is the newest surviving generation):
//
//   - the public key handed out for encryption (GetClientIDEncryptionPublicKey, the one reader of a
//     public half alone) is a half of a generation of that key, never of a destroyed generation, and,
//     when the model has a current key, of that one;
//   - where the listing shows the halves of a pair as rows of their own (keystore v1), a pair without a
//     current key is listed with both halves or with neither.
//
// Both are exact comparisons: through the cache-less fresh handle after every write, through the handle
// under test after a read-current / list operation when it has no cache or no write happened since the
// last reset / reopen.
func pairHalves(fixture string) func(step int, op kshist.Op, r *kshist.Runner) {
	stale := false
	return func(step int, op kshist.Op, r *kshist.Runner) {
		switch op.Kind {
		case kshist.OpReset, kshist.OpReopen:
			stale = false
		}
		if op.Mutates() {
			stale = true
		}
		if r.Res.Discard != "" || len(newOnes(r.Res.Vs)) > 0 {
			return
		}
		if op.Mutates() {
			for _, k := range r.M.Keys() {
				if k.Kind == kshist.StoragePair && !checkPublic(r, r.Obs, k, "fresh") {
					return
				}
			}
			checkListedHalves(r, r.Obs, "fresh")
			return
		}
		if r.Fx.Cached() && stale {
			return
		}
		switch k := (kshist.K{Kind: op.Key, ID: op.ID}); op.Kind {
		case kshist.OpReadCurrent:
			if k.Kind == kshist.StoragePair && r.M.Has(k) {
				checkPublic(r, r.Fx, k, "handle")
			}
		case kshist.OpList:
			checkListedHalves(r, r.Fx, "handle")
		}
	}
}

// newOnes are the violations other than the deviation the run adapts to.
func newOnes(vs hx.Vs) hx.Vs {
	var out hx.Vs
	for _, v := range vs {
		if len(v.Sig) < len(kshist.SigNoCurrent) || v.Sig[:len(kshist.SigNoCurrent)] != kshist.SigNoCurrent {
			out = append(out, v)
		}
	}
	return out
}

// shapeOf names the state of a key history the way kshist's signatures do.
func shapeOf(h *kshist.History) string {
	if h.HeadDestroyed() {
		return "current-destroyed"
	}
	for _, g := range h.Gens {
		if g.Destroyed {
			if h.NewestSurvivor() == nil {
				return "all-destroyed"
			}
			return "rotated-destroyed"
		}
	}
	return "intact"
}

func anyDestroyed(h *kshist.History) bool {
	for _, g := range h.Gens {
		if g.Destroyed {
			return true
		}
	}
	return false
}

// checkPublic reads the public key of a storage key pair alone and places it in the model.
func checkPublic(r *kshist.Runner, via kshist.Fixture, k kshist.K, who string) bool {
	h := r.M.H(k)
	fmtv := r.Fx.Format()
	var pub *keys.PublicKey
	var err error
	var pvs hx.Vs
	if hx.Guard(&pvs, "read-public/"+fmtv, func() { pub, err = via.KS().GetClientIDEncryptionPublicKey([]byte(k.ID)) }) {
		r.Violate(true, pvs[0].Sig, "%s handle: reading the public key of %s: %s", who, k, pvs[0].Msg)
		return false
	}
	if anyDestroyed(h) {
		r.Res.Classes["public-read-after-destroy"]++
	}
	if err != nil || pub == nil {
		return true // a missing current key is judged by the read of the whole pair
	}
	var g *kshist.Gen
	for _, x := range h.Gens {
		if x.Learnt && string(x.Val.Public) == string(pub.Value) {
			g = x
		}
	}
	exp := h.Current()
	switch {
	case g == nil:
		r.Violate(true, "foreign-key:public@"+fmtv, "%s handle: the public key handed out for %s (%d bytes) is the public half of no generation of that key", who, k, len(pub.Value))
	case g.Destroyed:
		r.Violate(true, "destroyed-public-key-offered:"+shapeOf(h)+"@"+fmtv, "%s handle: %s of %s was destroyed, but its public key is still handed out for encryption (survivors %s): the destruction removed the private half of the pair only", who, g.Label(), k, kshist.Labels(h.Survivors()))
	case exp != nil && g != exp:
		r.Violate(true, "wrong-public-key:"+shapeOf(h)+"@"+fmtv, "%s handle: the public key handed out for %s is the one of %s, expected the current key %s", who, k, g.Label(), exp.Label())
	default:
		return true
	}
	return false
}

// checkListedHalves compares the current-key listing rows of the two halves of every pair that has no
// current key in the model (for pairs with one, kshist.Run demands exactly one row per half).
func checkListedHalves(r *kshist.Runner, via kshist.Fixture, who string) bool {
	fmtv := r.Fx.Format()
	if fmtv != "v1" {
		return true // one row per key ring: the listing has no halves
	}
	var ds []keystore.KeyDescription
	var err error
	var pvs hx.Vs
	if hx.Guard(&pvs, "list-keys/"+fmtv, func() { ds, err = via.ListKeys() }) {
		r.Violate(true, pvs[0].Sig, "%s handle: ListKeys: %s", who, pvs[0].Msg)
		return false
	}
	if err != nil {
		return true // judged by kshist.Run
	}
	type halves struct{ priv, pub []string }
	rows := map[kshist.K]*halves{}
	for _, d := range ds {
		k, part, ok := via.Classify(d)
		if !ok || d.State != keystore.StateCurrent {
			continue
		}
		if rows[k] == nil {
			rows[k] = &halves{}
		}
		if part == "pub" {
			rows[k].pub = append(rows[k].pub, d.KeyID)
		} else {
			rows[k].priv = append(rows[k].priv, d.KeyID)
		}
	}
	for _, k := range r.M.Keys() {
		h := r.M.H(k)
		if !kshist.IsPair(k.Kind) || h.Current() != nil {
			continue
		}
		if anyDestroyed(h) {
			r.Res.Classes["pair-without-current-listed"]++
		}
		x := rows[k]
		if x == nil {
			x = &halves{}
		}
		if len(x.priv) != len(x.pub) {
			r.Violate(true, "list-keys-half-pair:"+shapeOf(h)+"@"+fmtv, "%s handle: the current key pair of %s was destroyed and no new one generated, but ListKeys shows %s as current: one half of the destroyed pair is still there", who, k, fmt.Sprint(append(append([]string{}, x.priv...), x.pub...)))
			return false
		}
	}
	return true
}
