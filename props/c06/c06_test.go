// Package c06: rotation keeps old data readable; destruction removes exactly the chosen key.
package c06

import (
	"bytes"
	"encoding/json"
	"flag"
	"os"
	"sort"
	"strings"
	"testing"

	"github.com/cossacklabs/themis/gothemis/keys"
	"pgregory.net/rapid"

	"github.com/cossacklabs/acra/acrablock"
	"github.com/cossacklabs/acra/acrastruct"
	"github.com/cossacklabs/acra/hmac"

	"verif/internal/gen"
	"verif/internal/hx"
	"verif/internal/kshist"
)

var R = hx.New("C06")

func TestMain(m *testing.M) { os.Exit(R.Main(m)) }

// Case is one keystore history on one fixture.
type Case struct {
	Fixture string      `json:"fixture"` // format + back end / cache size: v1/cache=off|1|inf, v2/mem, v2/dir, v1/cmd .. v2/bin, v1/pubdir/cache=off|inf|cmd|bin
	IDs     []string    `json:"ids"`     // client ids the history works on
	Probe   gen.Hex     `json:"probe"`   // value protected with every newly generated key
	Ops     []kshist.Op `json:"ops"`
}

// idPool holds valid client ids including near misses: prefixes of one another, case variants, ids
// that contain the v1 file-name suffixes, a blank, a dash.
var idPool = []string{"alice", "alice_1", "Alice", "bob 2-x", "x_storage", "k_hmac_z", "storage_sym", "poison_key", "aaaaa"}

const maxOps = 25

// maxOpsBin bounds the histories that run one acra-keys process per write and per listing.
const maxOpsBin = 12

// The keystore configurations a history runs on. historyFixtures work through the keystore API,
// commandFixtures through the acra-keys tool. Both contain, besides the configurations shared with the
// other keystore properties, keystore v1 with a public key directory of its own (kshist.PubDirFixtureNames:
// KeyDirectories(private, public) / --keys_dir_public), where the two halves of every key pair and of
// every rotated version of it live under different roots.
var (
	historyFixtures = append(append([]string(nil), kshist.FixtureNames...), "v1/pubdir/cache=off", "v1/pubdir/cache=inf")
	commandFixtures = append(append([]string(nil), kshist.CLIFixtureNames...), "v1/pubdir/cmd", "v1/pubdir/bin")
	allFixtures     = append(append(append([]string(nil), kshist.FixtureNames...), kshist.CLIFixtureNames...), kshist.PubDirFixtureNames...)
)

func openFixture(name string) (kshist.Fixture, error) {
	if kshist.IsPubDir(name) {
		return kshist.OpenPubDir(name)
	}
	return kshist.Open(name)
}

func genCase(t *rapid.T, fixture string) Case {
	c := Case{Fixture: fixture}
	// every rapid.Check of a process starts from the same seed; consuming a fixture-specific number
	// of values first gives each fixture its own histories
	for i, f := range allFixtures {
		if f == fixture {
			for j := 0; j < i; j++ {
				rapid.Uint64().Draw(t, "salt")
			}
		}
	}
	c.IDs = rapid.SliceOfNDistinct(rapid.SampledFrom(idPool), 1, 3, rapid.ID[string]).Draw(t, "ids")
	c.Probe = rapid.SliceOfN(rapid.Byte(), 1, 48).Draw(t, "probe")
	n := maxOps
	if strings.HasSuffix(fixture, "/bin") {
		n = maxOpsBin
	}
	c.Ops = kshist.GenOps(t, n, c.IDs)
	return c
}

// Check runs the history on a fresh fixture against the reference model. After every generate a
// probe value is protected with the new key; every all-keys read must still decrypt the probes of
// the generations it is required to offer, and every exact read of an HMAC / audit-log key must
// reproduce that generation's probe MAC.
func Check(c Case) (hx.Vs, *kshist.Result) {
	var vs hx.Vs
	fx, err := openFixture(c.Fixture)
	if err != nil {
		vs.Add("harness:open", "cannot open fixture %q: %v", c.Fixture, err)
		return vs, nil
	}
	defer fx.Close()
	plain := []byte(c.Probe)
	probes := map[*kshist.Gen][]byte{}
	fmtv := fx.Format()
	hooks := kshist.Hooks{
		AfterGenerate: func(step int, h *kshist.History, g *kshist.Gen) {
			var p []byte
			var perr error
			switch {
			case kshist.IsPair(h.K.Kind):
				p, perr = acrastruct.CreateAcrastruct(plain, &keys.PublicKey{Value: append([]byte(nil), g.Val.Public...)}, nil)
			case kshist.HasAllKeys(h.K.Kind):
				p, perr = acrablock.CreateAcraBlock(plain, append([]byte(nil), g.Val.Secret...), nil)
			default:
				p = hmac.GenerateHMAC(append([]byte(nil), g.Val.Secret...), plain) // zeroises its key argument
			}
			if perr == nil {
				probes[g] = p
			}
		},
		OnAllKeys: func(step int, h *kshist.History, ks [][]byte, required []*kshist.Gen, via string, out *hx.Vs) {
			for _, g := range required {
				p, ok := probes[g]
				if !ok {
					continue
				}
				var got []byte
				var derr error
				if kshist.IsPair(h.K.Kind) {
					privs := make([]*keys.PrivateKey, len(ks))
					for i := range ks {
						privs[i] = &keys.PrivateKey{Value: append([]byte(nil), ks[i]...)}
					}
					got, derr = acrastruct.DecryptRotatedAcrastruct(append([]byte(nil), p...), privs, nil)
				} else {
					cp := make([][]byte, len(ks))
					for i := range ks {
						cp[i] = append([]byte(nil), ks[i]...)
					}
					var b acrablock.AcraBlock
					if b, derr = acrablock.NewAcraBlockFromData(append([]byte(nil), p...)); derr == nil {
						got, derr = b.Decrypt(cp, nil)
					}
				}
				if derr != nil || !bytes.Equal(got, plain) {
					out.Add("probe-unreadable:"+h.K.Kind+"@"+fmtv, "%s step %d (%s handle): the value protected with %s of %s no longer decrypts with the %d keys offered for %s (err %v)", c.Fixture, step, via, g.Label(), h.K, len(ks), h.K, derr)
					return
				}
			}
		},
		OnCurrent: func(step int, h *kshist.History, val kshist.KeyVal, g *kshist.Gen, via string, out *hx.Vs) {
			if kshist.IsPair(h.K.Kind) || kshist.HasAllKeys(h.K.Kind) {
				return
			}
			if p, ok := probes[g]; ok {
				if mac := hmac.GenerateHMAC(append([]byte(nil), val.Secret...), plain); !bytes.Equal(mac, p) {
					out.Add("probe-unreadable:"+h.K.Kind+"@"+fmtv, "%s step %d (%s handle): the MAC made with %s of %s is not reproduced by the current key", c.Fixture, step, via, g.Label(), h.K)
				}
			}
		},
	}
	hooks.AfterStep = pairHalves(c.Fixture)
	res := kshist.Run(fx, c.Ops, hooks)
	for _, v := range res.Vs {
		if strings.Contains(v.Msg, "harness: ") && res.Discard == "" {
			res.Discard = "harness: " + v.Msg // the tool could not be started: inconclusive, never a violation
		}
	}
	return res.Vs, res
}

func classes(c Case, res *kshist.Result) []string {
	cl := []string{"fixture:" + c.Fixture}
	if res == nil {
		return cl
	}
	format := strings.SplitN(c.Fixture, "/", 2)[0]
	for _, k := range res.Model.Keys() {
		cl = append(cl, "key:"+k.Kind+"@"+format)
	}
	var names []string
	for n := range res.Classes {
		names = append(names, n)
	}
	sort.Strings(names)
	cl = append(cl, names...)
	if res.Discard != "" {
		cl = append(cl, "discarded:"+strings.SplitN(res.Discard, ":", 2)[0])
	}
	return cl
}

func testName(fixture string) string { return "TestHistory/" + fixture }

// counts are the histories per shard (quick, thorough). The directory back end syncs every write
// to disk (about ten times the cost of the other fixtures) and shares all code above the back end
// with the in-memory fixture, so it gets fewer histories and the in-memory one more.
// Quick: 14 shards x 640 = 8960 histories; thorough: 16 x 7700.
func counts(fixture string) (int, int) {
	switch fixture {
	case "v2/mem":
		return 200, 2400
	case "v2/dir":
		return 40, 500
	case "v1/cmd":
		return 60, 800
	case "v2/cmd":
		return 25, 300
	case "v1/bin", "v2/bin":
		return 3, 40
	case "v1/pubdir/cache=off", "v1/pubdir/cache=inf":
		return 50, 600
	case "v1/pubdir/cmd":
		return 30, 400
	case "v1/pubdir/bin":
		return 2, 30
	}
	return 100, 1200
}

// openSigs are the signatures of the open known findings of this property (read-only copy of what
// hx loads, so that the minimiser can ask without counting exclusions).
var openSigs = func() map[string]bool {
	root := os.Getenv("VERIF_ROOT")
	if root == "" {
		root = "/verif"
	}
	out := map[string]bool{}
	b, err := os.ReadFile(root + "/known_findings.json")
	if err != nil {
		return out
	}
	var f struct {
		Findings []hx.Finding `json:"findings"`
	}
	if json.Unmarshal(b, &f) == nil {
		for _, e := range f.Findings {
			if e.Property == "C06" && e.Status == "open" {
				out[e.Sig] = true
			}
		}
	}
	return out
}()

// firstNew returns the first violation that is not an open known finding.
func firstNew(vs hx.Vs) *hx.Violation {
	for i := range vs {
		if !openSigs[vs[i].Sig] {
			return &vs[i]
		}
	}
	return nil
}

// minimize removes operations (and simplifies ids, indices, the probe) while the case keeps failing
// with the same signature. rapid's own shrinking works on the draw sequence, where removing one
// operation re-interprets the following weighted choices; on the operation list it is a plain
// one-at-a-time reduction to a fixpoint.
func minimize(c Case, sig string) Case {
	fails := func(x Case) bool {
		vs, res := Check(x)
		if res != nil && res.Discard != "" {
			return false
		}
		v := firstNew(vs)
		return v != nil && v.Sig == sig
	}
	for changed := true; changed; {
		changed = false
		for i := len(c.Ops) - 1; i >= 0; i-- {
			x := c
			x.Ops = append(append([]kshist.Op(nil), c.Ops[:i]...), c.Ops[i+1:]...)
			if fails(x) {
				c, changed = x, true
			}
		}
	}
	for i := range c.Ops {
		if c.Ops[i].Index != 0 {
			x := c
			x.Ops = append([]kshist.Op(nil), c.Ops...)
			x.Ops[i].Index = 0
			if fails(x) {
				c = x
			}
		}
	}
	used := map[string]bool{}
	for _, o := range c.Ops {
		if o.ID != "" {
			used[o.ID] = true
		}
	}
	var ids []string
	for _, id := range c.IDs {
		if used[id] {
			ids = append(ids, id)
		}
	}
	if x := c; len(ids) < len(c.IDs) {
		x.IDs = ids
		if fails(x) {
			c = x
		}
	}
	if x := c; len(c.Probe) > 1 {
		x.Probe = gen.Hex{'p'}
		if fails(x) {
			c = x
		}
	}
	return c
}

type failing struct {
	c  Case
	vs hx.Vs
}

// best holds, per test, the smallest failing case found so far; it is what gets reported, so the
// replay file that survives rapid's shrinking is the minimised one.
var best = map[string]*failing{}

// TestHistory runs generated histories on every fixture (one rapid property per fixture, so that a
// finding in one format does not hide the others); v1 also with a separate public key directory.
func TestHistory(t *testing.T) { runFixtures(t, historyFixtures) }

// TestCommandHistory runs the same histories with the writes and listings going through the acra-keys tool:
// `generate`, `destroy --index N <key id>` and `list --rotated-keys --json` as the subcommands parse and
// execute them in-process (v1/cmd, v2/cmd) and as processes of the real binary built from the tree under
// test (v1/bin, v2/bin), also with `--keys_dir_public` naming a directory of its own for the public keys
// (v1/pubdir/cmd, v1/pubdir/bin). The index an operator reads in the listing printed by the tool must destroy exactly
// that generation of exactly that key.
func TestCommandHistory(t *testing.T) { runFixtures(t, commandFixtures) }

func runFixtures(t *testing.T, fixtures []string) {
	for _, fixture := range fixtures {
		fixture := fixture
		t.Run(strings.NewReplacer("/", "-", "=", "-").Replace(fixture), func(t *testing.T) {
			name := testName(fixture)
			R.Rule(name, "operation lists (1-25) over {generate/rotate, read current, read all, list, list rotated, destroy current, destroy rotated by listed index, reset, reopen} x 6 key kinds x 1-3 client ids, weighted towards one focus key; model = generations with destroyed flags; exact comparison through a cache-less fresh handle after every write and through the handle under test when it has no cache or no write happened since reset/reopen, cache clause (nothing foreign, never loses a surviving key offered earlier) otherwise; probes protected with every new key must stay readable through the all-keys read; key pairs are judged by both halves (the public key handed out for encryption is never the one of a destroyed generation; a pair without a current key is listed with both halves or neither); fixtures v1/pubdir/* are keystore v1 with a public key directory of its own (KeyDirectories / --keys_dir_public); non-trivial = a rotation followed by a read-all of that key, or a destruction followed by any read operation")
			q, th := counts(fixture)
			hx.Checks(q, th)
			flag.Set("rapid.shrinktime", "1s") // the operation list is minimised by minimize(); rapid only needs to try shorter draws
			rapid.Check(t, func(rt *rapid.T) {
				c := genCase(rt, fixture)
				vs, res := Check(c)
				if res != nil && res.Discard != "" {
					R.Seen(name, c, false, classes(c, res)...)
					R.Note("%s: case discarded: %s", fixture, res.Discard)
					return
				}
				R.Seen(name, c, res != nil && res.NonTrivial, classes(c, res)...)
				if v := firstNew(vs); v != nil {
					if b := best[name]; b == nil || len(c.Ops) < len(b.c.Ops) {
						mc := minimize(c, v.Sig)
						mvs, _ := Check(mc)
						if mv := firstNew(mvs); mv != nil && mv.Sig == v.Sig {
							best[name] = &failing{mc, mvs}
						} else {
							best[name] = &failing{c, vs}
						}
					}
					R.Report(rt, name, best[name].c, best[name].vs)
				}
				R.Report(rt, name, c, vs)
			})
		})
	}
}

func TestReplay(t *testing.T) {
	h := map[string]hx.ReplayHandler{"TestHistory": replayCase}
	for _, f := range allFixtures {
		h[testName(f)] = replayCase
	}
	R.Replay(t, h)
}

func replayCase(raw json.RawMessage) hx.Vs {
	var c Case
	if err := json.Unmarshal(raw, &c); err != nil {
		return hx.Vs{{Sig: "harness:decode", Msg: err.Error()}}
	}
	vs, _ := Check(c)
	return vs
}
