package c17

import (
	"errors"
	"fmt"
	"runtime/debug"
	"strings"
	"sync/atomic"
	"time"

	backendapi "github.com/cossacklabs/acra/keystore/v2/keystore/filesystem/backend/api"

	"verif/internal/hx"
)

// H-sched: the harness owns the schedule. Every back-end call of every script goroutine parks on
// the scheduler; exactly one goroutine runs at any time (the scheduler waits until the thread it
// released parks again or finishes), so a run is a function of the case alone.
//
// The store lock is MODELLED: a parked Lock/RLock is runnable only when the modelled lock is free,
// and then the real call cannot block. A state with unfinished threads none of which is runnable
// is a deadlock of the code under test (proved by the modelled state) and reported as a violation;
// a released thread that does not come back within the watchdog is an inconclusive run.

// Back-end call names.
const (
	cLock     = "Lock"
	cRLock    = "RLock"
	cUnlock   = "Unlock"
	cRUnlock  = "RUnlock"
	cGet      = "Get"
	cPut      = "Put"
	cRename   = "Rename"
	cRenameNX = "RenameNX"
	cListAll  = "ListAll"
	cStart    = "start"
)

// Seg is one run-length encoded piece of a schedule: let thread T make up to N back-end calls.
// A segment whose thread is finished or absent is dropped. While the segment's thread is blocked on
// the store lock the segment stays pending and the run continues without pre-emption (the running
// thread while it can, then the runnable thread with the lowest index); the switch to T happens at
// the first point where T can run - so most segments produce a pre-emption at a lock boundary. The
// same rule completes the run when the schedule is used up.
type Seg struct {
	T int `json:"t"`
	N int `json:"n"`
}

// Step is one executed back-end call.
type Step struct {
	Tid   int    // thread
	Op    int    // index of the script operation the thread was executing
	Call  string // Lock, Get, ...
	Path  string
	Path2 string
	Err   string
	State int // index of the world state after the call
}

func (s Step) String() string {
	p := s.Path
	if s.Path2 != "" {
		p += "->" + s.Path2
	}
	e := ""
	if s.Err != "" {
		e = "!" + s.Err
	}
	return fmt.Sprintf("t%d.%d:%s(%s)%s", s.Tid, s.Op, s.Call, p, e)
}

// Contention is one probe of the real store lock: Waiter waited at Kind while Holders held the
// modelled lock; Acquired = the real lock did not keep the waiter out.
type Contention struct {
	Waiter   int
	Kind     string
	Holders  []int
	Acquired bool
}

// Decision is one scheduling point: which thread ran before, which were runnable, which was chosen.
type Decision struct {
	Cur      int
	Runnable []int
	Chosen   int
}

// Preempts tells whether the decision switched away from a thread that could have continued.
func (d Decision) Preempts() bool {
	return d.Cur >= 0 && d.Chosen != d.Cur && containsInt(d.Runnable, d.Cur)
}

func containsInt(xs []int, x int) bool {
	for _, y := range xs {
		if x == y {
			return true
		}
	}
	return false
}

type call struct {
	kind        string
	path, path2 string
}

type evt struct {
	tid int
	fin bool
	c   call
}

type thr struct {
	grant     chan bool
	abandoned atomic.Bool
	op        int // index of the operation being executed (written by the thread while it runs)
	panicMsg  string
	panicSite string
}

// Sched is the scheduler of one run.
type Sched struct {
	n     int
	thr   []*thr
	ev    chan evt
	holdW []bool // threads holding the modelled exclusive lock (more than one only after a probe showed that the real lock does not exclude them)
	lockR []int  // modelled shared holds per thread
	// Real-lock probes (directory back end): when a thread waits at Lock/RLock because the modelled
	// lock is held through other handles, probe asks the REAL lock of the waiter's handle whether it
	// excludes the waiter as well. acquired = the real lock let the waiter in although the holders
	// listed still hold it: a violation; the pairs become blind (the model stops excluding them, as
	// the real lock does) so that the run shows what the missing exclusion leads to.
	probe       func(tid int, kind string, holders []int) (acquired bool, detail string)
	blind       map[[2]int]bool // (waiter, holder): the real lock of the waiter's handle does not see the holder's
	parkSeq     []int           // number of calls each thread has parked with
	epoch       int             // number of modelled lock acquisitions
	probedAt    map[int][2]int  // thread -> (parkSeq, epoch) of its last probe
	Contentions []Contention
	schedule    []Seg
	segIdx      int
	segUsed     int
	finished    []bool

	Steps     []Step
	Decisions []Decision
	Outcome   string // "" = all threads finished; "deadlock"; "stuck"
	Detail    string
	vs        hx.Vs // lock-discipline violations seen during the run
	watchdog  time.Duration

	// stateIdx returns the current world state index; onMutate is called (on the running thread)
	// after every successful Put/Rename/RenameNX.
	stateIdx func() int
	onMutate func(tid, op int, c call)
}

var errAbandoned = errors.New("c17: run abandoned by the scheduler")
var errNotHeld = errors.New("c17: unlock of a store lock that is not held")

func newSched(n int, schedule []Seg, watchdog time.Duration) *Sched {
	s := &Sched{n: n, ev: make(chan evt, 4*n+4), holdW: make([]bool, n), lockR: make([]int, n), schedule: schedule, watchdog: watchdog, finished: make([]bool, n),
		blind: map[[2]int]bool{}, parkSeq: make([]int, n), probedAt: map[int][2]int{}}
	for i := 0; i < n; i++ {
		s.thr = append(s.thr, &thr{grant: make(chan bool, 1)})
	}
	s.stateIdx = func() int { return 0 }
	return s
}

// park announces the call and waits for the scheduler. false = the run was abandoned.
func (s *Sched) park(tid int, c call) bool {
	t := s.thr[tid]
	if t.abandoned.Load() {
		return false
	}
	s.parkSeq[tid]++
	s.ev <- evt{tid: tid, c: c}
	return <-t.grant
}

// wHolder is a thread holding the modelled exclusive lock, -1 = none.
func (s *Sched) wHolder() int {
	for tid, h := range s.holdW {
		if h {
			return tid
		}
	}
	return -1
}

// conflicts lists the threads whose modelled holds keep tid's parked Lock/RLock from proceeding
// (tid itself included: a second acquisition through the same handle blocks for ever).
func (s *Sched) conflicts(tid int, c call) []int {
	var out []int
	for o := 0; o < s.n; o++ {
		if (c.kind == cLock && (s.holdW[o] || s.lockR[o] > 0)) || (c.kind == cRLock && s.holdW[o]) {
			out = append(out, o)
		}
	}
	return out
}

func (s *Sched) enabled(tid int, c call) bool {
	if c.kind != cLock && c.kind != cRLock {
		return true
	}
	for _, o := range s.conflicts(tid, c) {
		if o == tid || !s.blind[[2]int{tid, o}] {
			return false
		}
	}
	return true
}

// probeWaiters asks the real lock about every thread that waits for the modelled lock, once per
// parked call and state of the modelled lock.
func (s *Sched) probeWaiters(pending map[int]call) {
	if s.probe == nil {
		return
	}
	for tid := 0; tid < s.n; tid++ {
		c, ok := pending[tid]
		if !ok || s.enabled(tid, c) {
			continue
		}
		holders := s.conflicts(tid, c)
		if containsInt(holders, tid) {
			continue
		}
		at := [2]int{s.parkSeq[tid], s.epoch}
		if last, ok := s.probedAt[tid]; ok && last == at {
			continue
		}
		s.probedAt[tid] = at
		acquired, detail := s.probe(tid, c.kind, holders)
		s.Contentions = append(s.Contentions, Contention{Waiter: tid, Kind: c.kind, Holders: holders, Acquired: acquired})
		if acquired {
			for _, o := range holders {
				s.blind[[2]int{tid, o}] = true
			}
			s.vs.Add("store-lock-not-exclusive:"+c.kind, "%s", detail)
		}
	}
}

// forget is called when a thread replaces its handle: what the probes learnt about the old handle's
// lock is void, and a lock the old handle still held is gone with it.
func (s *Sched) forget(tid int) {
	for k := range s.blind {
		if k[0] == tid || k[1] == tid {
			delete(s.blind, k)
		}
	}
	if s.holdW[tid] || s.lockR[tid] > 0 {
		s.vs.Add("handle-closed-with-lock-held", "thread %d (operation %d) closed its key store handle while the modelled store lock was still held through it (exclusive %v, shared holds %d)", tid, s.thr[tid].op, s.holdW[tid], s.lockR[tid])
		s.holdW[tid], s.lockR[tid] = false, 0
	}
}

func (s *Sched) pick(runnable []int, cur int) int {
	for s.segIdx < len(s.schedule) {
		seg := s.schedule[s.segIdx]
		if seg.T < 0 || seg.T >= s.n || s.finished[seg.T] || s.segUsed >= seg.N {
			s.segIdx++
			s.segUsed = 0
			continue
		}
		if containsInt(runnable, seg.T) {
			s.segUsed++
			return seg.T
		}
		// the segment's thread waits for the store lock: the segment stays pending (the switch
		// happens as soon as the thread can run) and somebody else runs meanwhile
		break
	}
	if containsInt(runnable, cur) {
		return cur
	}
	return runnable[0]
}

func (s *Sched) recv(timer *time.Timer) (evt, bool) {
	if !timer.Stop() {
		select {
		case <-timer.C:
		default:
		}
	}
	timer.Reset(s.watchdog)
	select {
	case e := <-s.ev:
		return e, true
	case <-timer.C:
		return evt{}, false
	}
}

// abort abandons the run: parked threads are released with "abandoned", every later call of any
// thread fails at once. Waits (bounded) for the threads to finish.
func (s *Sched) abort(pending map[int]call, fin int, timer *time.Timer) {
	for _, t := range s.thr {
		t.abandoned.Store(true)
	}
	for tid := range pending {
		s.thr[tid].grant <- false
	}
	for fin < s.n {
		e, ok := s.recv(timer)
		if !ok {
			return // a goroutine is stuck inside a real call; it is left behind (its back end gets closed)
		}
		if e.fin {
			fin++
		} else {
			// a thread that was running when the run was abandoned parked once more
			s.thr[e.tid].grant <- false
		}
	}
}

// Run executes the thread bodies under the schedule. Each body receives the thread's back-end view.
func (s *Sched) Run(views []*view, bodies []func(v *view)) {
	timer := time.NewTimer(s.watchdog)
	defer timer.Stop()
	for i := range bodies {
		go func(i int) {
			defer func() { s.ev <- evt{tid: i, fin: true} }()
			defer func() {
				if p := recover(); p != nil {
					s.thr[i].panicMsg = fmt.Sprint(p)
					s.thr[i].panicSite = hx.PanicFunc(string(debug.Stack()))
				}
			}()
			if !s.park(i, call{kind: cStart}) {
				return
			}
			bodies[i](views[i])
		}(i)
	}
	pending := map[int]call{}
	fin := 0
	for len(pending)+fin < s.n {
		e, ok := s.recv(timer)
		if !ok {
			s.Outcome, s.Detail = "stuck", "threads did not reach their start point"
			s.abort(pending, fin, timer)
			return
		}
		if e.fin {
			fin++
			s.finished[e.tid] = true
		} else {
			pending[e.tid] = e.c
		}
	}
	// release every thread from its start point in index order: up to its first back-end call a
	// thread touches nothing shared, so this is not a scheduling decision
	for tid := 0; tid < s.n; tid++ {
		if c, ok := pending[tid]; !ok || c.kind != cStart {
			continue
		}
		delete(pending, tid)
		s.thr[tid].grant <- true
		e, ok := s.recv(timer)
		if !ok || e.tid != tid {
			s.Outcome, s.Detail = "stuck", fmt.Sprintf("thread %d did not reach its first back-end call", tid)
			s.abort(pending, fin, timer)
			return
		}
		if e.fin {
			fin++
			s.finished[tid] = true
		} else {
			pending[tid] = e.c
		}
	}
	cur := -1
	for {
		s.probeWaiters(pending)
		var runnable []int
		for tid := 0; tid < s.n; tid++ {
			if c, ok := pending[tid]; ok && s.enabled(tid, c) {
				runnable = append(runnable, tid)
			}
		}
		if len(runnable) == 0 {
			if fin == s.n {
				return
			}
			var w []string
			for tid := 0; tid < s.n; tid++ {
				if c, ok := pending[tid]; ok {
					w = append(w, fmt.Sprintf("t%d waits for %s", tid, c.kind))
				}
			}
			s.Outcome = "deadlock"
			s.Detail = fmt.Sprintf("%s; modelled lock: exclusive holder t%d, shared holds %v", strings.Join(w, ", "), s.wHolder(), s.lockR)
			s.abort(pending, fin, timer)
			return
		}
		tid := s.pick(runnable, cur)
		s.Decisions = append(s.Decisions, Decision{Cur: cur, Runnable: runnable, Chosen: tid})
		c := pending[tid]
		delete(pending, tid)
		switch c.kind {
		case cLock:
			s.holdW[tid] = true
			s.epoch++
		case cRLock:
			s.lockR[tid]++
			s.epoch++
		}
		s.thr[tid].grant <- true
		e, ok := s.recv(timer)
		if !ok {
			s.Outcome = "stuck"
			s.Detail = fmt.Sprintf("t%d did not return from %s(%s) within %v", tid, c.kind, c.path, s.watchdog)
			s.abort(pending, fin, timer)
			return
		}
		if e.tid != tid {
			panic(fmt.Sprintf("c17 scheduler: event from t%d while t%d was running", e.tid, tid))
		}
		if e.fin {
			fin++
			s.finished[tid] = true
		} else {
			pending[tid] = e.c
		}
		cur = tid
	}
}

// Preemptions counts the decisions that switched away from a thread that could have continued.
func (s *Sched) Preemptions() int {
	n := 0
	for _, d := range s.Decisions {
		if d.Preempts() {
			n++
		}
	}
	return n
}

// LocksFree tells whether the modelled lock is free.
func (s *Sched) LocksFree() bool {
	if s.wHolder() != -1 {
		return false
	}
	for _, r := range s.lockR {
		if r > 0 {
			return false
		}
	}
	return true
}

// view is one thread's handle on the shared back end (SchedBackend). For the in-memory back end
// all views share one instance; for the directory back end every view has its own DirectoryBackend
// (own lock file descriptor) on the same root.
type view struct {
	s    *Sched
	tid  int
	real backendapi.Backend
}

func (v *view) step(c call, err error) {
	e := ""
	if err != nil {
		e = err.Error()
	}
	v.s.Steps = append(v.s.Steps, Step{Tid: v.tid, Op: v.s.thr[v.tid].op, Call: c.kind, Path: c.path, Path2: c.path2, Err: e, State: v.s.stateIdx()})
}

func (v *view) holdsW() bool { return v.s.holdW[v.tid] }
func (v *view) holdsR() bool { return v.s.lockR[v.tid] > 0 }

func (v *view) discipline(sig string, c call) {
	v.s.vs.Add("lock-discipline:"+sig, "thread %d (operation %d) called %s(%s) %s; modelled lock: exclusive holder t%d, shared holds %v", v.tid, v.s.thr[v.tid].op, c.kind, c.path, map[string]string{
		"unlock-without-lock":  "without holding the exclusive store lock",
		"runlock-without-lock": "without holding a shared store lock",
		"write-without-lock":   "without holding the exclusive store lock",
		"read-without-lock":    "without holding any store lock",
	}[sig], v.s.wHolder(), v.s.lockR)
}

func (v *view) Lock() error {
	c := call{kind: cLock}
	if !v.s.park(v.tid, c) {
		return errAbandoned
	}
	err := v.real.Lock()
	if err != nil {
		v.s.holdW[v.tid] = false
	}
	v.step(c, err)
	return err
}

func (v *view) RLock() error {
	c := call{kind: cRLock}
	if !v.s.park(v.tid, c) {
		return errAbandoned
	}
	err := v.real.RLock()
	if err != nil {
		v.s.lockR[v.tid]--
	}
	v.step(c, err)
	return err
}

func (v *view) Unlock() error {
	c := call{kind: cUnlock}
	if !v.s.park(v.tid, c) {
		return errAbandoned
	}
	if !v.holdsW() {
		// never forwarded: unlocking a free sync.RWMutex is a fatal error of the whole process
		v.discipline("unlock-without-lock", c)
		v.step(c, errNotHeld)
		return errNotHeld
	}
	err := v.real.Unlock()
	v.s.holdW[v.tid] = false
	v.step(c, err)
	return err
}

func (v *view) RUnlock() error {
	c := call{kind: cRUnlock}
	if !v.s.park(v.tid, c) {
		return errAbandoned
	}
	if !v.holdsR() {
		v.discipline("runlock-without-lock", c)
		v.step(c, errNotHeld)
		return errNotHeld
	}
	err := v.real.RUnlock()
	v.s.lockR[v.tid]--
	v.step(c, err)
	return err
}

func (v *view) Get(path string) ([]byte, error) {
	c := call{kind: cGet, path: path}
	if !v.s.park(v.tid, c) {
		return nil, errAbandoned
	}
	if !v.holdsW() && !v.holdsR() {
		v.discipline("read-without-lock", c)
	}
	data, err := v.real.Get(path)
	v.step(c, err)
	return data, err
}

func (v *view) ListAll() ([]string, error) {
	c := call{kind: cListAll}
	if !v.s.park(v.tid, c) {
		return nil, errAbandoned
	}
	if !v.holdsW() && !v.holdsR() {
		v.discipline("read-without-lock", c)
	}
	paths, err := v.real.ListAll()
	v.step(c, err)
	return paths, err
}

func (v *view) mutate(c call, f func() error) error {
	if !v.s.park(v.tid, c) {
		return errAbandoned
	}
	if !v.holdsW() {
		v.discipline("write-without-lock", c)
	}
	err := f()
	if err == nil && v.s.onMutate != nil {
		v.s.onMutate(v.tid, v.s.thr[v.tid].op, c)
	}
	v.step(c, err)
	return err
}

func (v *view) Put(path string, data []byte) error {
	return v.mutate(call{kind: cPut, path: path}, func() error { return v.real.Put(path, data) })
}

func (v *view) Rename(oldpath, newpath string) error {
	return v.mutate(call{kind: cRename, path: oldpath, path2: newpath}, func() error { return v.real.Rename(oldpath, newpath) })
}

func (v *view) RenameNX(oldpath, newpath string) error {
	return v.mutate(call{kind: cRenameNX, path: oldpath, path2: newpath}, func() error { return v.real.RenameNX(oldpath, newpath) })
}

// Close is a no-op: the harness owns the real back ends.
func (v *view) Close() error { return nil }

// noLock gives the harness' observer access to a back end without touching its lock (the observer
// reads while a script thread may hold the store lock; nothing else runs at that time).
type noLock struct{ backendapi.Backend }

func (noLock) Lock() error    { return nil }
func (noLock) Unlock() error  { return nil }
func (noLock) RLock() error   { return nil }
func (noLock) RUnlock() error { return nil }
func (noLock) Close() error   { return nil }
