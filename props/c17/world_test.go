package c17

import (
	"encoding/hex"
	"fmt"
	"sort"
	"strings"

	v2api "github.com/cossacklabs/acra/keystore/v2/keystore/api"
	backendapi "github.com/cossacklabs/acra/keystore/v2/keystore/filesystem/backend/api"
)

// KeyState is one key of a ring as the harness' observer reads it through the public key-ring API.
type KeyState struct {
	Seq       int
	Destroyed bool
	Secret    string // hex: symmetric key or private key
	Public    string // hex: public key (pairs)
	Bad       string // the key is listed but cannot be read: error text
}

// RingState is one committed state of a key ring.
type RingState struct {
	Exists  bool
	Bad     string     // the ring file exists but does not open/verify: error text
	Keys    []KeyState // in storage order (oldest first)
	Current int        // sequence number of the current key, noKey = none
}

const noKey = -1

func (r RingState) String() string {
	if !r.Exists {
		return "<absent>"
	}
	if r.Bad != "" {
		return "<unverifiable: " + r.Bad + ">"
	}
	var ks []string
	for _, k := range r.Keys {
		s := fmt.Sprintf("%d", k.Seq)
		switch {
		case k.Destroyed:
			s += "x"
		case k.Bad != "":
			s += "?"
		default:
			s += ":" + short(k.Secret)
		}
		ks = append(ks, s)
	}
	return fmt.Sprintf("[%s cur=%d]", strings.Join(ks, " "), r.Current)
}

func short(h string) string {
	if len(h) > 6 {
		return h[len(h)-6:]
	}
	return h
}

func (r RingState) key(seq int) *KeyState {
	for i := range r.Keys {
		if r.Keys[i].Seq == seq {
			return &r.Keys[i]
		}
	}
	return nil
}

func sameKey(a, b KeyState) bool {
	return a.Seq == b.Seq && a.Destroyed == b.Destroyed && a.Secret == b.Secret && a.Public == b.Public && a.Bad == b.Bad
}

func sameRing(a, b RingState) bool {
	if a.Exists != b.Exists || a.Bad != b.Bad || a.Current != b.Current || len(a.Keys) != len(b.Keys) {
		return false
	}
	for i := range a.Keys {
		if !sameKey(a.Keys[i], b.Keys[i]) {
			return false
		}
	}
	return true
}

// snapRing reads a ring through a key store handle (the observer, or the fresh handle at the end).
func snapRing(ms v2api.KeyStore, path string) RingState {
	ring, err := ms.OpenKeyRing(path)
	if err == backendapi.ErrNotExist {
		return RingState{Current: noKey}
	}
	if err != nil {
		return RingState{Exists: true, Bad: err.Error(), Current: noKey}
	}
	rs := RingState{Exists: true, Current: noKey}
	if cur, err := ring.CurrentKey(); err == nil {
		rs.Current = cur
	} else if err != v2api.ErrNoCurrentKey {
		rs.Bad = "current key: " + err.Error()
	}
	seqs, err := ring.AllKeys() // newest first = reverse storage order
	if err != nil {
		rs.Bad = "all keys: " + err.Error()
		return rs
	}
	for i := len(seqs) - 1; i >= 0; i-- {
		seq := seqs[i]
		k := KeyState{Seq: seq}
		st, err := ring.State(seq)
		if err != nil {
			k.Bad = "state: " + err.Error()
			rs.Keys = append(rs.Keys, k)
			continue
		}
		if st == v2api.KeyDestroyed {
			k.Destroyed = true
			rs.Keys = append(rs.Keys, k)
			continue
		}
		formats, err := ring.Formats(seq)
		if err != nil || len(formats) == 0 {
			k.Bad = fmt.Sprintf("formats: %v %v", formats, err)
			rs.Keys = append(rs.Keys, k)
			continue
		}
		switch formats[0] {
		case v2api.ThemisSymmetricKeyFormat:
			b, err := ring.SymmetricKey(seq, v2api.ThemisSymmetricKeyFormat)
			if err != nil {
				k.Bad = "symmetric key: " + err.Error()
			}
			k.Secret = hex.EncodeToString(b)
		case v2api.ThemisKeyPairFormat:
			b, err := ring.PrivateKey(seq, v2api.ThemisKeyPairFormat)
			if err != nil {
				k.Bad = "private key: " + err.Error()
			}
			k.Secret = hex.EncodeToString(b)
			p, err := ring.PublicKey(seq, v2api.ThemisKeyPairFormat)
			if err != nil {
				k.Bad = "public key: " + err.Error()
			}
			k.Public = hex.EncodeToString(p)
		default:
			k.Bad = fmt.Sprintf("unexpected key format %v", formats[0])
		}
		rs.Keys = append(rs.Keys, k)
	}
	return rs
}

// Commit is one visible change of the stored state, attributed to the thread and operation that made it.
type Commit struct {
	State  int // index of the world state this commit produced
	Tid    int
	Op     int
	Ring   string // ring path, "" for a plain file
	File   string // plain file path (back-end level operations)
	Before RingState
	After  RingState
	Kind   string // create-empty, add, setcur, destroy, none, rewrite
	Seq    int    // add: the new key; setcur: the new current key; destroy: the destroyed key
	Detail string
}

type ringVersion struct {
	state int
	rs    RingState
}

type fileVersion struct {
	state   int
	exists  bool
	content string
}

// World is the sequence of committed states of the shared storage, in the order the commits
// happened (= lock acquisition order when the lock works). State 0 is the state after setup.
type World struct {
	obs     v2api.KeyStore
	raw     backendapi.Backend
	n       int // current state index
	rings   map[string][]ringVersion
	files   map[string][]fileVersion
	commits []Commit
}

const ringSuffix = ".keyring"
const newSuffix = ".keyring.new"

func newWorld(obs v2api.KeyStore, raw backendapi.Backend) (*World, error) {
	w := &World{obs: obs, raw: raw, rings: map[string][]ringVersion{}, files: map[string][]fileVersion{}}
	paths, err := raw.ListAll()
	if err != nil {
		return nil, err
	}
	for _, p := range paths {
		if strings.HasSuffix(p, ringSuffix) {
			ring := strings.TrimSuffix(p, ringSuffix)
			w.rings[ring] = []ringVersion{{0, snapRing(obs, ring)}}
		} else {
			b, _ := raw.Get(p)
			w.files[p] = []fileVersion{{0, true, hex.EncodeToString(b)}}
		}
	}
	return w, nil
}

// ringAt returns the state of a ring in world state i.
func (w *World) ringAt(ring string, i int) RingState {
	rs := RingState{Current: noKey}
	for _, v := range w.rings[ring] {
		if v.state > i {
			break
		}
		rs = v.rs
	}
	return rs
}

func (w *World) fileAt(path string, i int) (bool, string) {
	ex, c := false, ""
	for _, v := range w.files[path] {
		if v.state > i {
			break
		}
		ex, c = v.exists, v.content
	}
	return ex, c
}

// ringsAt lists the key rings that exist in world state i.
func (w *World) ringsAt(i int) []string {
	out := []string{}
	for ring := range w.rings {
		if w.ringAt(ring, i).Exists {
			out = append(out, ring)
		}
	}
	sort.Strings(out)
	return out
}

func (w *World) ringNames() []string {
	var out []string
	for r := range w.rings {
		out = append(out, r)
	}
	sort.Strings(out)
	return out
}

// observe is called after a successful Put/Rename/RenameNX of a script thread.
func (w *World) observe(tid, op int, c call) {
	touched := []string{c.path}
	if c.path2 != "" {
		touched = append(touched, c.path2)
	}
	for _, p := range touched {
		if strings.HasSuffix(p, ringSuffix) {
			ring := strings.TrimSuffix(p, ringSuffix)
			before := w.ringAt(ring, w.n)
			after := snapRing(w.obs, ring)
			w.n++
			w.rings[ring] = append(w.rings[ring], ringVersion{w.n, after})
			cm := Commit{State: w.n, Tid: tid, Op: op, Ring: ring, Before: before, After: after}
			cm.Kind, cm.Seq, cm.Detail = classify(before, after)
			w.commits = append(w.commits, cm)
			continue
		}
		b, err := w.raw.Get(p)
		exists := err == nil
		content := hex.EncodeToString(b)
		if ex, old := w.fileAt(p, w.n); ex == exists && old == content {
			continue
		}
		w.n++
		w.files[p] = append(w.files[p], fileVersion{w.n, exists, content})
		w.commits = append(w.commits, Commit{State: w.n, Tid: tid, Op: op, File: p, Kind: "file"})
	}
}

// classify names the difference between two consecutive states of a ring.
//
//	create-empty  the ring did not exist, now exists without keys and without a current key
//	none          no difference
//	add           exactly one key appended, with a sequence number no other key has (its order is checked separately); nothing else changed
//	addcur        like add, and the new key became the current key in the same commit
//	setcur        only the current-key pointer changed (Seq = new current)
//	destroy       exactly one key lost its data and became destroyed; nothing else changed
//	rewrite       anything else (Detail tells which keys were removed, changed, added)
func classify(before, after RingState) (kind string, seq int, detail string) {
	if after.Bad != "" {
		return "rewrite", noKey, "the new state does not verify: " + after.Bad
	}
	if !before.Exists && after.Exists && len(after.Keys) == 0 && after.Current == noKey {
		return "create-empty", noKey, ""
	}
	if sameRing(before, after) {
		return "none", noKey, ""
	}
	if before.Exists && after.Exists && before.Bad == "" {
		if len(after.Keys) == len(before.Keys)+1 && (after.Current == before.Current || after.Current == after.Keys[len(after.Keys)-1].Seq) {
			ok := true
			for i := range before.Keys {
				if !sameKey(before.Keys[i], after.Keys[i]) {
					ok = false
				}
			}
			nk := after.Keys[len(after.Keys)-1]
			if ok && !nk.Destroyed && nk.Bad == "" && before.key(nk.Seq) == nil {
				if after.Current != before.Current {
					return "addcur", nk.Seq, ""
				}
				return "add", nk.Seq, ""
			}
		}
		if len(after.Keys) == len(before.Keys) {
			diff := -1
			n := 0
			for i := range before.Keys {
				if !sameKey(before.Keys[i], after.Keys[i]) {
					diff = i
					n++
				}
			}
			if n == 0 && after.Current != before.Current {
				return "setcur", after.Current, ""
			}
			if n == 1 && after.Current == before.Current {
				b, a := before.Keys[diff], after.Keys[diff]
				if b.Seq == a.Seq && !b.Destroyed && a.Destroyed && a.Secret == "" && a.Public == "" {
					return "destroy", a.Seq, ""
				}
			}
		}
	}
	var removed, changed, added []string
	for _, b := range before.Keys {
		a := after.key(b.Seq)
		switch {
		case a == nil:
			removed = append(removed, fmt.Sprint(b.Seq))
		case !sameKey(*a, b):
			changed = append(changed, fmt.Sprint(b.Seq))
		}
	}
	for _, a := range after.Keys {
		if before.key(a.Seq) == nil {
			added = append(added, fmt.Sprint(a.Seq))
		}
	}
	return "rewrite", noKey, fmt.Sprintf("keys removed %v, changed %v, added %v, current %d -> %d", removed, changed, added, before.Current, after.Current)
}

// lostKeys lists the keys of before that after no longer holds unchanged.
func lostKeys(before, after RingState) []int {
	var out []int
	for _, b := range before.Keys {
		a := after.key(b.Seq)
		if a == nil || !sameKey(*a, b) {
			out = append(out, b.Seq)
		}
	}
	return out
}

// increasing tells whether the sequence numbers of a ring are unique and strictly increasing in storage order.
func increasing(r RingState) bool {
	for i := 1; i < len(r.Keys); i++ {
		if r.Keys[i].Seq <= r.Keys[i-1].Seq {
			return false
		}
	}
	return true
}
