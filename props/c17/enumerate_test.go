package c17

import (
	"fmt"
	"os"
	"strconv"
	"testing"

	"verif/internal/hx"
	"verif/internal/kshist"
)

// Systematic part: for two writers with one operation each, ALL schedules with at most
// `budget` pre-emptions (a pre-emption = switching away from a thread that could have continued;
// switches forced by the store lock or by a thread finishing are free). Stateless depth-first
// search: a schedule is a list of explicit thread choices; the run reports the runnable set of every
// scheduling point, and every alternative within the budget is explored by running again from the
// start (iterative context bounding).

const enumBudget = 2

func rle(choices []int) []Seg {
	var out []Seg
	for _, t := range choices {
		if n := len(out); n > 0 && out[n-1].T == t {
			out[n-1].N++
		} else {
			out = append(out, Seg{T: t, N: 1})
		}
	}
	return out
}

// enumerate explores base (whose Schedule is ignored) and calls visit for every schedule.
// It returns false when visit asked to stop.
func enumerate(base Case, budget int, visit func(c Case, vs hx.Vs, run *Run) bool) bool {
	var rec func(prefix []int) bool
	rec = func(prefix []int) bool {
		c := base
		c.Schedule = rle(prefix)
		vs, run := Check(c)
		if !visit(c, vs, run) {
			return false
		}
		if run.Discard != "" || run.Sched == nil {
			return true
		}
		ds := run.Sched.Decisions
		for k := 0; k < len(prefix) && k < len(ds); k++ {
			if ds[k].Chosen != prefix[k] {
				panic(fmt.Sprintf("c17 enumeration: the run did not follow the prefix %v at step %d (chose t%d)", prefix, k, ds[k].Chosen))
			}
		}
		used := 0
		for k, d := range ds {
			if k >= len(prefix) {
				for _, t := range d.Runnable {
					if t == d.Chosen {
						continue
					}
					cost := 0
					if (Decision{Cur: d.Cur, Runnable: d.Runnable, Chosen: t}).Preempts() {
						cost = 1
					}
					if used+cost > budget {
						continue
					}
					next := make([]int, 0, k+1)
					for _, x := range ds[:k] {
						next = append(next, x.Chosen)
					}
					if !rec(append(next, t)) {
						return false
					}
				}
			}
			if d.Preempts() {
				used++
			}
		}
		return true
	}
	return rec(nil)
}

type scenario struct {
	name  string
	setup []kshist.Op
	a, b  kshist.Op
}

func enumScenarios() []scenario {
	K := func(kind, id string) kshist.K { return kshist.K{Kind: kind, ID: id} }
	op := func(kind string, k kshist.K, index int) kshist.Op {
		return kshist.Op{Kind: kind, Key: k.Kind, ID: k.ID, Index: index}
	}
	gens := func(k kshist.K, n int) []kshist.Op {
		var out []kshist.Op
		for i := 0; i < n; i++ {
			out = append(out, op(kshist.OpGen, k, 0))
		}
		return out
	}
	sym, sym2 := K(kshist.StorageSym, "alice"), K(kshist.StorageSym, "bob")
	pair := K(kshist.StoragePair, "alice")
	psym := K(kshist.PoisonSym, "")
	var out []scenario
	add := func(name string, setup []kshist.Op, a, b kshist.Op) {
		out = append(out, scenario{name, setup, a, b})
	}
	// the two scenarios of the quick tier come first
	add("new-ring:gen/gen", nil, op(kshist.OpGen, sym, 0), op(kshist.OpGen, sym, 0))
	add("new-ring:import/gen", nil, op(opImport, sym, 0), op(kshist.OpGen, sym, 0))
	ops := func(k kshist.K) []kshist.Op {
		return []kshist.Op{op(kshist.OpGen, k, 0), op(kshist.OpDestroyCurrent, k, 0), op(kshist.OpDestroyRotated, k, 2), op(opImport, k, 0),
			op(opImportOverwrite, k, 0), op(kshist.OpReadCurrent, k, 0), op(kshist.OpReadAll, k, 0)}
	}
	for _, init := range []int{0, 3} {
		for _, k := range []kshist.K{sym, pair, psym} {
			if k != sym && init == 3 {
				continue
			}
			os := ops(k)
			for i := range os {
				for j := i; j < len(os); j++ {
					if !mutating(os[i].Kind) && !mutating(os[j].Kind) && !isPoison(k.Kind) {
						continue
					}
					if init == 0 && k == sym && ((i == 0 && j == 0) || (os[i].Kind == kshist.OpGen && os[j].Kind == opImport)) {
						continue // already listed
					}
					add(fmt.Sprintf("%s/init%d:%s/%s", k.Kind, init, os[i].Kind, os[j].Kind), gens(k, init), os[i], os[j])
				}
			}
		}
	}
	for _, init := range []int{0, 2} {
		add(fmt.Sprintf("storageSym/init%d:genRetry/gen", init), gens(sym, init), op(opGenRetry, sym, 0), op(kshist.OpGen, sym, 0))
		add(fmt.Sprintf("storageSym/init%d:genRetry/genRetry", init), gens(sym, init), op(opGenRetry, sym, 0), op(opGenRetry, sym, 0))
		add(fmt.Sprintf("storageSym/init%d:genRetry/importOverwrite", init), gens(sym, init), op(opGenRetry, sym, 0), op(opImportOverwrite, sym, 0))
	}
	// back-end level: two claims of one path
	add("claim/claim", nil, kshist.Op{Kind: opClaim, ID: "s1"}, kshist.Op{Kind: opClaim, ID: "s1"})
	add("claim/gen", nil, kshist.Op{Kind: opClaim, ID: "s1"}, op(kshist.OpGen, sym, 0))
	// different rings: only the store lock is shared
	add("different-rings:gen/gen", gens(sym, 1), op(kshist.OpGen, sym, 0), op(kshist.OpGen, sym2, 0))
	add("different-rings:gen/destroyCurrent", append(gens(sym, 1), gens(sym2, 2)...), op(kshist.OpGen, sym, 0), op(kshist.OpDestroyCurrent, sym2, 0))
	add("different-rings:import/gen", nil, op(opImport, sym, 0), op(kshist.OpGen, sym2, 0))
	return out
}

func TestEnumerate(t *testing.T) {
	R.Rule("TestEnumerate", fmt.Sprintf("systematic: for 2 writers x 1 operation each (pairs of generate, destroy current, destroy rotated, import, import with overwrite, read current, read all on the same new ring / the same ring with 3 generations / different rings; in-memory back end) ALL schedules at back-end-call granularity with <= %d pre-emptions (quick) / with any number of pre-emptions (thorough; the store lock leaves few scheduling points, so the full space is small), by stateless depth-first search over the runnable sets the scheduler reports. Thorough adds 3-thread scenarios (third writer or a reader) with <= %d pre-emptions. Sharded by scenario. Non-trivial = two writers' back-end calls interleave on the same ring.", enumBudget, enumBudget))
	type item struct {
		sc     scenario
		third  *Script
		budget int
	}
	var items []item
	budget2 := enumBudget
	if hx.Tier() == "thorough" {
		budget2 = 1 << 20
	}
	scs := enumScenarios()
	for _, sc := range scs {
		items = append(items, item{sc: sc, budget: budget2})
	}
	if hx.Tier() == "thorough" {
		for _, sc := range scs {
			if !mutating(sc.a.Kind) || !mutating(sc.b.Kind) {
				continue
			}
			k := kshist.K{Kind: sc.a.Key, ID: sc.a.ID}
			for _, third := range []Script{
				{Role: "writer", Ops: []kshist.Op{{Kind: kshist.OpGen, Key: k.Kind, ID: k.ID}}},
				{Role: "reader", Ops: []kshist.Op{{Kind: kshist.OpReadAll, Key: k.Kind, ID: k.ID}}},
			} {
				third := third
				x := sc
				x.name += "+" + third.Role + ":" + third.Ops[0].Kind
				items = append(items, item{sc: x, third: &third, budget: enumBudget})
			}
		}
	}
	shards, _ := strconv.Atoi(os.Getenv("VERIF_SHARDS"))
	if shards < 1 {
		shards = 1
	}
	total := 0
	for idx, it := range items {
		if idx%shards != hx.Shard() {
			continue
		}
		sc := it.sc
		base := Case{Backend: "mem", Setup: sc.setup, Threads: []Script{{Role: "writer", Ops: []kshist.Op{sc.a}}, {Role: "writer", Ops: []kshist.Op{sc.b}}}}
		if it.third != nil {
			base.Threads = append(base.Threads, *it.third)
		}
		n := 0
		complete := enumerate(base, it.budget, func(c Case, vs hx.Vs, run *Run) bool {
			n++
			if run.Discard != "" {
				R.Seen("TestEnumerate", c, false, "inconclusive")
				R.Note("TestEnumerate %s: inconclusive run (%s)", sc.name, run.Discard)
				return true
			}
			R.Seen("TestEnumerate", c, run.Inter, append([]string{"scenario:" + sc.name}, run.Classes...)...)
			report(t, "TestEnumerate", c, vs)
			return !t.Failed()
		})
		total += n
		if complete {
			R.Class("TestEnumerate", "exhaustive-scenarios")
			if it.budget > enumBudget {
				R.Note("TestEnumerate: scenario %s exhaustive (all schedules): %d schedules", sc.name, n)
			} else {
				R.Note("TestEnumerate: scenario %s exhaustive for <= %d pre-emptions: %d schedules", sc.name, it.budget, n)
			}
		}
	}
	t.Logf("enumerated %d schedules in %d scenarios", total, len(items))
}
