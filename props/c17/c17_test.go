// Package c17: concurrent keystore writers never lose each other's updates.
//
// Part (a), keystore v2: 2-3 writer scripts and 0-2 reader scripts work through separate key store
// handles on one shared back end; every back-end call parks on the harness scheduler (sched_test.go)
// and the case's schedule decides who proceeds, so a run is deterministic, shrinkable and replayable.
// After every successful Put/Rename/RenameNX the harness reads the touched ring through an observer
// handle that bypasses the store lock; the resulting sequence of committed states (world_test.go) is
// the serial order given by lock acquisitions. The oracle is stated on that history and on what the
// operations returned (judge below). Part (b), keystore v1 under -race, is in v1race_test.go.
package c17

import (
	"crypto/sha256"
	"encoding/hex"
	"encoding/json"
	"errors"
	"flag"
	"fmt"
	"os"
	"sort"
	"strconv"
	"strings"
	"sync"
	"testing"
	"time"

	"pgregory.net/rapid"

	"github.com/cossacklabs/acra/keystore"
	kv2 "github.com/cossacklabs/acra/keystore/v2/keystore"
	v2api "github.com/cossacklabs/acra/keystore/v2/keystore/api"
	"github.com/cossacklabs/acra/keystore/v2/keystore/asn1"
	"github.com/cossacklabs/acra/keystore/v2/keystore/filesystem/backend"
	backendapi "github.com/cossacklabs/acra/keystore/v2/keystore/filesystem/backend/api"

	"verif/internal/fix"
	"verif/internal/hx"
	"verif/internal/kshist"
)

var R = hx.New("C17")

func TestMain(m *testing.M) {
	if os.Getenv(workerEnv) != "" {
		// child process of TestV1Race: runs one racy workload, writes no evidence of its own
		os.Exit(m.Run())
	}
	os.Exit(R.Main(m))
}

// Operation kinds of the scripts (kshist.Op.Kind). gen / destroyCurrent / destroyRotated /
// readCurrent / readAll / list are kshist's; the others are C17's own.
const (
	opImport          = "import"          // ImportKeyRings of a donor ring with the default delegate (abort when the ring exists)
	opImportOverwrite = "importOverwrite" // ImportKeyRings with a delegate that decides "overwrite"
	opReadPublic      = "readPublic"      // GetClientIDEncryptionPublicKey (storage pairs)
	opClaim           = "claim"           // back-end level: Lock, Put(tmp), RenameNX(tmp, slot), Unlock
	opGenRetry        = "genRetry"        // key-ring level: OpenKeyRingRW, AddKey and SetCurrent on ONE ring object, each retried up to 3 times after an error (symmetric kinds)
)

const retryAttempts = 3

// Script is the operation list of one thread.
type Script struct {
	Role string      `json:"role"` // writer | reader
	Ops  []kshist.Op `json:"ops"`
}

// LifeEv is one event in the life of the key store handles before the threads start: the threads'
// handles need not be opened together, and short-lived handles (a maintenance run: open the key
// store, do one thing, close it) come and go between them.
type LifeEv struct {
	Ev string     `json:"ev"`           // open | visit
	T  int        `json:"t,omitempty"`  // open: the thread whose handle is opened now
	Op *kshist.Op `json:"op,omitempty"` // visit: what the short-lived handle does before it is closed
}

const (
	evOpen  = "open"
	evVisit = "visit"
)

func (e LifeEv) String() string {
	if e.Ev == evVisit && e.Op != nil {
		return "visit:" + e.Op.String()
	}
	return fmt.Sprintf("%s:t%d", e.Ev, e.T)
}

// Case is one concurrent history: initial state, handle lifetimes, scripts, schedule.
type Case struct {
	Backend  string      `json:"backend"`        // mem | dir
	Setup    []kshist.Op `json:"setup"`          // executed single-threaded before the threads start
	Life     []LifeEv    `json:"life,omitempty"` // executed single-threaded after the setup; handles of threads not named are opened after it in index order
	Threads  []Script    `json:"threads"`        // writers first; the operation "reopen" closes the thread's handle and opens a new one
	Schedule []Seg       `json:"schedule"`
}

func mutating(kind string) bool {
	switch kind {
	case kshist.OpGen, kshist.OpDestroyCurrent, kshist.OpDestroyRotated, opImport, opImportOverwrite, opGenRetry:
		return true
	}
	return false
}

func ringPath(k kshist.K) string {
	switch k.Kind {
	case kshist.StoragePair:
		return "client/" + k.ID + "/storage"
	case kshist.StorageSym:
		return "client/" + k.ID + "/storage-sym"
	case kshist.HMAC:
		return "client/" + k.ID + "/hmac-sym"
	case kshist.PoisonPair:
		return "poison-record"
	case kshist.PoisonSym:
		return "poison-record-sym"
	case kshist.AuditLog:
		return "audit-log"
	}
	return "?" + k.Kind
}

func opRing(op kshist.Op) string {
	switch op.Kind {
	case kshist.OpList, opClaim, kshist.OpReopen:
		return ""
	}
	return ringPath(kshist.K{Kind: op.Key, ID: op.ID})
}

func isPoison(kind string) bool { return kind == kshist.PoisonPair || kind == kshist.PoisonSym }

// ---- generator ----------------------------------------------------------------------------------

var ids = []string{"alice", "bob"}

type wk struct {
	v string
	n int
}

func pickW(t *rapid.T, label string, ws []wk) string {
	sum := 0
	for _, x := range ws {
		sum += x.n
	}
	r := rapid.IntRange(0, sum-1).Draw(t, label)
	for _, x := range ws {
		if r < x.n {
			return x.v
		}
		r -= x.n
	}
	return ws[len(ws)-1].v
}

var kindWeights = []wk{{kshist.StorageSym, 5}, {kshist.StoragePair, 3}, {kshist.PoisonSym, 2}, {kshist.HMAC, 1}, {kshist.PoisonPair, 1}, {kshist.AuditLog, 1}}

func drawK(t *rapid.T, label string) kshist.K {
	k := kshist.K{Kind: pickW(t, label+".kind", kindWeights)}
	if kshist.PerClient(k.Kind) {
		k.ID = rapid.SampledFrom(ids).Draw(t, label+".id")
	}
	return k
}

func mkOp(t *rapid.T, kind string, k kshist.K, tid int) kshist.Op {
	if kind == kshist.OpReadAll && !kshist.HasAllKeys(k.Kind) {
		kind = kshist.OpReadCurrent
	}
	if kind == opReadPublic && k.Kind != kshist.StoragePair {
		kind = kshist.OpReadCurrent
	}
	if (kind == kshist.OpDestroyCurrent || kind == kshist.OpDestroyRotated) && !kshist.Destroyable(k.Kind) {
		kind = kshist.OpGen
	}
	if kind == opGenRetry && kshist.IsPair(k.Kind) {
		kind = kshist.OpGen
	}
	op := kshist.Op{Kind: kind, Key: k.Kind, ID: k.ID}
	switch kind {
	case kshist.OpDestroyRotated:
		op.Index = rapid.IntRange(2, 3).Draw(t, "index") // the index of a rotated-listing row: 2 = newest rotated key
	case kshist.OpList, kshist.OpReopen:
		op.Key, op.ID = "", ""
	case opClaim:
		op.Key, op.ID = "", rapid.SampledFrom([]string{"s1", "s2"}).Draw(t, "slot")
	}
	return op
}

var writerOps = []wk{{kshist.OpGen, 34}, {opGenRetry, 8}, {kshist.OpDestroyCurrent, 14}, {kshist.OpDestroyRotated, 10}, {opImport, 10}, {opImportOverwrite, 4},
	{kshist.OpReadCurrent, 6}, {kshist.OpReadAll, 6}, {opClaim, 5}, {kshist.OpList, 2}}
var readerOps = []wk{{kshist.OpReadCurrent, 40}, {kshist.OpReadAll, 40}, {opReadPublic, 8}, {kshist.OpList, 12}}
var segLens = []wk{{"1", 4}, {"2", 4}, {"3", 3}, {"4", 2}, {"5", 2}, {"6", 1}, {"8", 1}, {"12", 1}, {"99", 2}}

var visitOps = []wk{{kshist.OpGen, 50}, {kshist.OpReadCurrent, 20}, {kshist.OpReadAll, 10}, {kshist.OpList, 10}, {kshist.OpDestroyCurrent, 10}}

// genOpt shifts the weights of genCase.
type genOpt struct {
	dir    int // % of cases on the directory back end
	life   int // % of cases in which the handles have a history (Life)
	reopen int // % of threads that replace their handle once
}

var schedOpt = genOpt{dir: 12, life: 40, reopen: 12}

func genCase(t *rapid.T) Case { return genCaseOpt(t, schedOpt) }

func genCaseOpt(t *rapid.T, o genOpt) Case {
	c := Case{Backend: pickW(t, "backend", []wk{{"mem", 100 - o.dir}, {"dir", o.dir}})}
	focus := drawK(t, "focus")
	other := drawK(t, "other")
	pickK := func() kshist.K {
		switch r := rapid.IntRange(0, 99).Draw(t, "which"); {
		case r < 66:
			return focus
		case r < 88:
			return other
		}
		return drawK(t, "any")
	}
	// initial state: the focus ring is new in about a third of the cases (two handles creating the
	// same ring), otherwise it has 1-3 generations, sometimes with a destroyed one
	nf, _ := strconv.Atoi(pickW(t, "setup.focus", []wk{{"0", 34}, {"1", 20}, {"2", 26}, {"3", 20}}))
	for i := 0; i < nf; i++ {
		c.Setup = append(c.Setup, kshist.Op{Kind: kshist.OpGen, Key: focus.Kind, ID: focus.ID})
	}
	if nf >= 2 && kshist.Destroyable(focus.Kind) {
		switch pickW(t, "setup.destroy", []wk{{"", 80}, {"rot", 12}, {"cur", 8}}) {
		case "rot":
			c.Setup = append(c.Setup, kshist.Op{Kind: kshist.OpDestroyRotated, Key: focus.Kind, ID: focus.ID, Index: 2})
		case "cur":
			c.Setup = append(c.Setup, kshist.Op{Kind: kshist.OpDestroyCurrent, Key: focus.Kind, ID: focus.ID})
		}
	}
	if other != focus {
		for i, n := 0, rapid.IntRange(0, 2).Draw(t, "setup.other"); i < n; i++ {
			c.Setup = append(c.Setup, kshist.Op{Kind: kshist.OpGen, Key: other.Kind, ID: other.ID})
		}
	}
	nw, _ := strconv.Atoi(pickW(t, "writers", []wk{{"2", 70}, {"3", 30}}))
	nr, _ := strconv.Atoi(pickW(t, "readers", []wk{{"0", 40}, {"1", 35}, {"2", 25}}))
	for i := 0; i < nw+nr; i++ {
		s := Script{Role: "writer"}
		ops := writerOps
		if i >= nw {
			s.Role, ops = "reader", readerOps
		}
		n, _ := strconv.Atoi(pickW(t, "nops", []wk{{"1", 50}, {"2", 30}, {"3", 20}}))
		for j := 0; j < n; j++ {
			s.Ops = append(s.Ops, mkOp(t, pickW(t, "op", ops), pickK(), i))
		}
		// handle lifetime inside the run: the thread closes its handle and goes on with a new one
		// (before its first operation: the handle is opened while the others are at work)
		if pickW(t, "reopen", []wk{{"", 100 - o.reopen}, {"yes", o.reopen}}) != "" {
			at := rapid.IntRange(0, len(s.Ops)).Draw(t, "reopen.at")
			ops := append([]kshist.Op{}, s.Ops[:at]...)
			ops = append(ops, kshist.Op{Kind: kshist.OpReopen})
			s.Ops = append(ops, s.Ops[at:]...)
		}
		c.Threads = append(c.Threads, s)
	}
	// handle lifetimes before the run: the order in which the threads' handles are opened, with 1-2
	// short-lived handles (open, one operation, close) somewhere in between
	if pickW(t, "life", []wk{{"", 100 - o.life}, {"yes", o.life}}) != "" {
		for _, th := range rapid.Permutation(seqInts(nw+nr)).Draw(t, "life.order") {
			c.Life = append(c.Life, LifeEv{Ev: evOpen, T: th})
		}
		for i, n := 0, rapid.IntRange(1, 2).Draw(t, "life.visits"); i < n; i++ {
			op := mkOp(t, pickW(t, "life.op", visitOps), pickK(), -1)
			at := rapid.IntRange(0, len(c.Life)).Draw(t, "life.at")
			life := append([]LifeEv{}, c.Life[:at]...)
			life = append(life, LifeEv{Ev: evVisit, Op: &op})
			c.Life = append(life, c.Life[at:]...)
		}
	}
	// consecutive segments name different threads, so every segment is a wish to switch
	prev := -1
	for i, n := 0, rapid.IntRange(0, 14).Draw(t, "segments"); i < n; i++ {
		l, _ := strconv.Atoi(pickW(t, "seg.n", segLens))
		th := rapid.IntRange(0, nw+nr-1).Draw(t, "seg.t")
		if th == prev {
			th = (th + 1) % (nw + nr)
		}
		prev = th
		c.Schedule = append(c.Schedule, Seg{T: th, N: l})
	}
	return c
}

func seqInts(n int) []int {
	out := make([]int, n)
	for i := range out {
		out[i] = i
	}
	return out
}

// ---- execution ----------------------------------------------------------------------------------

// OpRes is what one script operation returned.
type OpRes struct {
	Ran      bool
	Err      string // "" = success
	NotFound bool   // the error is one of the documented "no such key" errors
	Vals     []kshist.KeyVal
	Paths    []string
	Start    int // world state index at invocation
	End      int // world state index at response
	Attempts []Attempt
}

// Attempt is one key-ring API call of a genRetry operation.
type Attempt struct {
	API      string // OpenKeyRingRW | AddKey | SetCurrent
	Err      string
	From, To int // the back-end calls it made: Sched.Steps[From:To]
}

// Run is everything one execution of a case produced.
type Run struct {
	Case      Case
	Sched     *Sched
	World     *World
	Res       [][]OpRes
	Donor     map[string]RingState // ring path -> the ring the import operations bring
	Final     map[string]RingState // ring path -> state read through a fresh handle after the run
	FinalList []string             // back-end paths after the run
	Discard   string               // non-empty: inconclusive run (watchdog), not a verdict
	Classes   []string
	Inter     bool         // the non-trivial rule: two writers' back-end calls interleave on the same ring
	Handles   []HandleInfo // the handle each thread works through (at the end of the run)
	Visits    int          // short-lived handles before the threads started
	Across    bool         // a handle waited for the real store lock held through a handle from before / after some other handle's close
	thrVs     []hx.Vs
}

func notFound(err error) bool {
	return errors.Is(err, backendapi.ErrNotExist) || errors.Is(err, v2api.ErrNoCurrentKey) || errors.Is(err, v2api.ErrKeyDestroyed) ||
		errors.Is(err, v2api.ErrKeyNotExist) || errors.Is(err, keystore.ErrKeysNotFound)
}

type overwriteDelegate struct{}

func (overwriteDelegate) DecideKeyRingOverwrite(currentData, newData *asn1.KeyRing) (v2api.ImportDecision, error) {
	return v2api.ImportOverwrite, nil
}

func cpb(b []byte) []byte { return append([]byte(nil), b...) }

// execOp runs one script operation through the thread's key store handle.
func execOp(fx kshist.Fixture, v *view, op kshist.Op, opIdx int, exports map[string][]byte) (res OpRes) {
	res.Ran = true
	ks := fx.KS().(*kv2.ServerKeyStore)
	id := []byte(op.ID)
	var err error
	one := func(b []byte, e error) {
		err = e
		if e == nil {
			res.Vals = []kshist.KeyVal{{Secret: cpb(b)}}
		}
	}
	switch op.Kind {
	case kshist.OpGen:
		err = fx.Generate(op.Key, op.ID)
	case kshist.OpDestroyCurrent:
		err = fx.DestroyCurrent(op.Key, op.ID)
	case kshist.OpDestroyRotated:
		err = fx.DestroyRotated(op.Key, op.ID, op.Index)
	case opImport:
		_, err = ks.ImportKeyRings(exports[opRing(op)], fix.V2Suite(), nil)
	case opImportOverwrite:
		_, err = ks.ImportKeyRings(exports[opRing(op)], fix.V2Suite(), overwriteDelegate{})
	case kshist.OpReadCurrent:
		switch op.Key {
		case kshist.StoragePair:
			p, e := ks.GetServerDecryptionPrivateKey(id)
			if e == nil {
				one(p.Value, nil)
			} else {
				err = e
			}
		case kshist.StorageSym:
			one(ks.GetClientIDSymmetricKey(id))
		case kshist.HMAC:
			one(ks.GetHMACSecretKey(id))
		case kshist.PoisonPair:
			kp, e := ks.GetPoisonKeyPair()
			err = e
			if e == nil {
				res.Vals = []kshist.KeyVal{{Secret: cpb(kp.Private.Value), Public: cpb(kp.Public.Value)}}
			}
		case kshist.PoisonSym:
			one(ks.GetPoisonSymmetricKey())
		case kshist.AuditLog:
			one(ks.GetLogSecretKey())
		}
	case opReadPublic:
		p, e := ks.GetClientIDEncryptionPublicKey(id)
		err = e
		if e == nil {
			res.Vals = []kshist.KeyVal{{Public: cpb(p.Value)}}
		}
	case kshist.OpReadAll:
		var all [][]byte
		all, err = fx.All(op.Key, op.ID)
		if err == nil {
			res.Vals = []kshist.KeyVal{}
			for _, b := range all {
				res.Vals = append(res.Vals, kshist.KeyVal{Secret: b})
			}
		}
	case kshist.OpList:
		res.Paths, err = ks.ListKeyRings()
	case opClaim:
		err = claim(v, op.ID, opIdx)
	case opGenRetry:
		err = genRetry(ks, v, op, opIdx, &res)
	default:
		err = fmt.Errorf("c17: unknown operation %q", op.Kind)
	}
	if err != nil {
		res.Err = err.Error()
		res.NotFound = notFound(err)
	}
	return res
}

// genRetry generates a symmetric key the way a careful user of the key-ring API does: one ring
// object, AddKey then SetCurrent, each call retried after an error (a concurrent modification makes
// the optimistic checks fail; the failed transaction must be gone from the ring object afterwards).
// The key bytes are a function of the case (thread, operation), not random.
func genRetry(ks *kv2.ServerKeyStore, v *view, op kshist.Op, opIdx int, res *OpRes) error {
	call := func(api string, f func() error) error {
		from := len(v.s.Steps)
		err := f()
		a := Attempt{API: api, From: from, To: len(v.s.Steps)}
		if err != nil {
			a.Err = err.Error()
		}
		res.Attempts = append(res.Attempts, a)
		return err
	}
	var ring v2api.MutableKeyRing
	if err := call("OpenKeyRingRW", func() (e error) { ring, e = ks.OpenKeyRingRW(opRing(op)); return }); err != nil {
		return err
	}
	sum := sha256.Sum256([]byte(fmt.Sprintf("c17 genRetry key of thread %d operation %d", v.tid, opIdx)))
	desc := v2api.KeyDescription{ValidSince: time.Unix(1600000000, 0), ValidUntil: time.Unix(1900000000, 0),
		Data: []v2api.KeyData{{Format: v2api.ThemisSymmetricKeyFormat, SymmetricKey: sum[:]}}}
	seq := 0
	var err error
	for i := 0; i < retryAttempts; i++ {
		if err = call("AddKey", func() (e error) { seq, e = ring.AddKey(desc); return }); err == nil {
			break
		}
	}
	if err != nil {
		return err
	}
	for i := 0; i < retryAttempts; i++ {
		if err = call("SetCurrent", func() error { return ring.SetCurrent(seq) }); err == nil {
			break
		}
	}
	return err
}

func claimSlot(slot string) string { return "claims/" + slot }
func claimTmp(slot string, tid, op int) string {
	return fmt.Sprintf("claims/%s.t%do%d", slot, tid, op)
}
func claimData(tid, op int) []byte {
	return []byte(fmt.Sprintf("claimed by thread %d operation %d", tid, op))
}

// claim is the back-end level operation: under the exclusive lock, write a private file and move
// it to the slot with RenameNX. Exactly the first claimant of a slot may succeed.
func claim(v *view, slot string, op int) (err error) {
	if err = v.Lock(); err != nil {
		return err
	}
	defer func() {
		if e := v.Unlock(); err == nil {
			err = e
		}
	}()
	tmp := claimTmp(slot, v.tid, op)
	if err = v.Put(tmp, claimData(v.tid, op)); err != nil {
		return err
	}
	return v.RenameNX(tmp, claimSlot(slot))
}

var watchdog = 20 * time.Second

// blockWait is how long a probe of the real store lock waits before it takes the lock call for
// blocked. The clock decides only in this direction: a call that returns although the lock is held
// is a violation whenever it returns; one that is slower than this on a loaded machine is taken for
// blocked (a missed observation, never an alarm).
var blockWait = 25 * time.Millisecond

// HandleInfo tells which handle a thread works through.
type HandleInfo struct {
	Gen int // 0 = the thread's first handle, +1 for every reopen
	Era int // number of key store handles on this storage that had been closed (since the setup) when this one was opened
}

func (h HandleInfo) String() string {
	return fmt.Sprintf("handle #%d of the thread, opened after %d other handle(s) on this storage had been closed", h.Gen+1, h.Era)
}

// opsOf names the operations the threads are executing.
func opsOf(c Case, s *Sched, tids []int) []string {
	var out []string
	for _, t := range tids {
		if j := s.thr[t].op; t < len(c.Threads) && j < len(c.Threads[t].Ops) {
			out = append(out, fmt.Sprintf("t%d:%s", t, c.Threads[t].Ops[j]))
		}
	}
	return out
}

// Execute runs the case once. It never blocks for longer than the watchdog per step.
func Execute(c Case) *Run {
	fix.Quiet()
	run := &Run{Case: c, Donor: map[string]RingState{}, Final: map[string]RingState{}}
	n := len(c.Threads)
	var mem *backend.InMemory
	root := ""
	var opened []backendapi.Backend
	openRaw := func() (backendapi.Backend, error) {
		if c.Backend == "dir" {
			b, err := backend.OpenDirectoryBackend(root)
			if err == nil {
				opened = append(opened, b)
			}
			return b, err
		}
		return mem, nil
	}
	if c.Backend == "dir" {
		root = fix.TempDir("c17-")
		defer os.RemoveAll(root)
		b, err := backend.CreateDirectoryBackend(root)
		if err != nil {
			run.Discard = "cannot create the directory back end: " + err.Error()
			return run
		}
		b.Close()
	} else {
		mem = backend.NewInMemory()
	}
	defer func() {
		for _, b := range opened {
			b.Close()
		}
	}()
	// setup, single-threaded, through an ordinary handle
	var setupVs hx.Vs
	setupFx, err := kshist.NewV2On("setup", openRaw)
	if err != nil {
		run.Discard = "cannot open the setup handle: " + err.Error()
		return run
	}
	hx.Guard(&setupVs, "setup", func() {
		for _, op := range c.Setup {
			switch op.Kind {
			case kshist.OpGen:
				setupFx.Generate(op.Key, op.ID)
			case kshist.OpDestroyCurrent:
				setupFx.DestroyCurrent(op.Key, op.ID)
			case kshist.OpDestroyRotated:
				setupFx.DestroyRotated(op.Key, op.ID, op.Index)
			}
		}
	})
	setupFx.Close() // closes its back end too: its own DirectoryBackend, or a no-op for the in-memory one
	if len(setupVs) > 0 {
		run.Discard = "setup panicked (not this property's subject): " + setupVs[0].Msg
		return run
	}
	// donor rings for the import operations: two generations, made in a separate in-memory key store
	exports := map[string][]byte{}
	for _, s := range c.Threads {
		for _, op := range s.Ops {
			if op.Kind != opImport && op.Kind != opImportOverwrite {
				continue
			}
			ring := opRing(op)
			if _, ok := exports[ring]; ok {
				continue
			}
			donor := kshist.NewV2Mem()
			donor.Generate(op.Key, op.ID)
			donor.Generate(op.Key, op.ID)
			dms := donor.KS().(*kv2.ServerKeyStore).MutableKeyStore
			data, err := dms.ExportKeyRings([]string{ring}, fix.V2Suite(), keystore.ExportPrivateKeys)
			if err != nil {
				run.Discard = "cannot export the donor ring: " + err.Error()
				donor.Close()
				return run
			}
			exports[ring] = data
			run.Donor[ring] = snapRing(dms, ring)
			donor.Close()
		}
	}
	// observer: reads committed states without touching the store lock
	obsRaw, err := openRaw()
	if err != nil {
		run.Discard = "cannot open the observer back end: " + err.Error()
		return run
	}
	_, obs := fix.V2OnBackend(noLock{obsRaw})
	s := newSched(n, c.Schedule, watchdog)
	run.Sched = s
	views := make([]*view, n)
	fxs := make([]kshist.Fixture, n)
	bodies := make([]func(*view), n)
	run.Res = make([][]OpRes, n)
	run.thrVs = make([]hx.Vs, n)
	run.Handles = make([]HandleInfo, n)
	// handle lifetimes: closes counts the key store handles on this storage that have been closed
	// since the setup; every handle remembers the count at the time it was opened
	var lifeMu sync.Mutex
	closes := 0
	forgetRaw := func(b backendapi.Backend) { // b has been closed: it is not the harness' to close any more
		for k := range opened {
			if opened[k] == b {
				opened = append(opened[:k], opened[k+1:]...)
				break
			}
		}
	}
	openThread := func(i int) error {
		if views[i] != nil {
			return nil
		}
		raw, err := openRaw()
		if err != nil {
			return err
		}
		views[i] = &view{s: s, tid: i, real: raw}
		vi := views[i]
		fx, err := kshist.NewV2On(fmt.Sprintf("v2/%s/t%d", c.Backend, i), func() (backendapi.Backend, error) { return vi, nil })
		if err != nil {
			return err
		}
		fxs[i] = fx
		run.Handles[i] = HandleInfo{Era: closes}
		return nil
	}
	for _, ev := range c.Life {
		switch {
		case ev.Ev == evOpen && ev.T >= 0 && ev.T < n:
			if err := openThread(ev.T); err != nil {
				run.Discard = "cannot open a thread's handle: " + err.Error()
				return run
			}
		case ev.Ev == evVisit && ev.Op != nil:
			raw, err := openRaw()
			if err != nil {
				run.Discard = "cannot open a short-lived handle: " + err.Error()
				return run
			}
			fxv, err := kshist.NewV2On("visit", func() (backendapi.Backend, error) { return raw, nil })
			if err != nil {
				run.Discard = "cannot open a short-lived handle: " + err.Error()
				return run
			}
			op := *ev.Op
			hx.Guard(&setupVs, "visit", func() {
				switch op.Kind {
				case kshist.OpGen:
					fxv.Generate(op.Key, op.ID)
				case kshist.OpDestroyCurrent:
					fxv.DestroyCurrent(op.Key, op.ID)
				case kshist.OpReadCurrent:
					fxv.Current(op.Key, op.ID)
				case kshist.OpReadAll:
					fxv.All(op.Key, op.ID)
				case kshist.OpList:
					fxv.ListKeys()
				}
			})
			fxv.Close() // closes its back end too: its own DirectoryBackend, or a no-op for the in-memory one
			forgetRaw(raw)
			closes++
			run.Visits++
			if len(setupVs) > 0 {
				run.Discard = "a short-lived handle panicked single-threaded (not this property's subject): " + setupVs[0].Msg
				return run
			}
		}
	}
	for i := range c.Threads {
		if err := openThread(i); err != nil {
			run.Discard = "cannot open a thread's handle: " + err.Error()
			return run
		}
	}
	// a thread replaces its handle (on its own goroutine, while it is the running thread)
	reopen := func(i int) error {
		lifeMu.Lock()
		defer lifeMu.Unlock()
		s.forget(i)
		if c.Backend == "dir" {
			views[i].real.Close()
			forgetRaw(views[i].real)
			raw, err := openRaw()
			if err != nil {
				return err
			}
			views[i].real = raw
		}
		closes++
		run.Handles[i] = HandleInfo{Gen: run.Handles[i].Gen + 1, Era: closes}
		return fxs[i].Reopen()
	}
	// real-lock probes (directory back end: every handle has its own lock file descriptor)
	probing := map[int]chan struct{}{}
	waitProbes := func(d time.Duration) bool {
		deadline := time.NewTimer(d)
		defer deadline.Stop()
		for _, ch := range probing {
			select {
			case <-ch:
			case <-deadline.C:
				return false
			}
		}
		return true
	}
	if c.Backend == "dir" {
		defer func() {
			if !waitProbes(50 * time.Millisecond) {
				// a lock was leaked: closing the holders' descriptors releases it
				for _, b := range opened {
					b.Close()
				}
				waitProbes(2 * time.Second)
			}
		}()
		s.probe = func(tid int, kind string, holders []int) (bool, string) {
			if ch := probing[tid]; ch != nil {
				select {
				case <-ch:
				default:
					return false, "" // the previous probe of this handle is still waiting for the lock
				}
			}
			real := views[tid].real
			res := make(chan error, 1)
			fin := make(chan struct{})
			go func() {
				defer close(fin)
				var err error
				if kind == cLock {
					if err = real.Lock(); err == nil {
						real.Unlock()
					}
				} else {
					if err = real.RLock(); err == nil {
						real.RUnlock()
					}
				}
				res <- err
			}()
			timer := time.NewTimer(blockWait)
			defer timer.Stop()
			select {
			case err := <-res:
				if err != nil {
					return false, ""
				}
				var hs []string
				across := false
				for _, o := range holders {
					hs = append(hs, fmt.Sprintf("t%d (%s)", o, run.Handles[o]))
					across = across || run.Handles[o].Era != run.Handles[tid].Era
				}
				run.Across = run.Across || across
				return true, fmt.Sprintf("the store lock of the key directory let t%d (%s) in with %s() while it was held through the handle(s) of %s, in the middle of operation %v: the lock does not exclude these handles from each other, their read-verify-apply-write cycles are not serialised",
					tid, run.Handles[tid], kind, strings.Join(hs, ", "), opsOf(c, s, holders))
			case <-timer.C:
				probing[tid] = fin
				for _, o := range holders {
					if run.Handles[o].Era != run.Handles[tid].Era {
						run.Across = true
					}
				}
				return false, ""
			}
		}
	}
	world, err := newWorld(obs, obsRaw)
	if err != nil {
		run.Discard = "cannot list the initial state: " + err.Error()
		return run
	}
	run.World = world
	s.stateIdx = func() int { return world.n }
	s.onMutate = world.observe
	for i := range c.Threads {
		i := i
		bodies[i] = func(v *view) {
			for j, op := range c.Threads[i].Ops {
				if s.thr[i].abandoned.Load() {
					return
				}
				s.thr[i].op = j
				start := world.n
				var res OpRes
				if op.Kind == kshist.OpReopen {
					res = OpRes{Ran: true}
					if err := reopen(i); err != nil {
						res.Err = err.Error()
					}
				} else if hx.Guard(&run.thrVs[i], op.Kind+"/v2", func() { res = execOp(fxs[i], v, op, j, exports) }) {
					res = OpRes{Ran: true, Err: "panic"}
				}
				res.Start, res.End = start, world.n
				run.Res[i][j] = res
				if s.thr[i].abandoned.Load() {
					return
				}
			}
		}
		run.Res[i] = make([]OpRes, len(c.Threads[i].Ops))
	}
	s.Run(views, bodies)
	for _, fx := range fxs {
		fx.Close()
	}
	if s.Outcome == "" && s.LocksFree() {
		waitProbes(2 * time.Second) // every probe that was kept out gets the lock now and lets go of it at once
	}
	if s.Outcome == "stuck" {
		run.Discard = "watchdog: " + s.Detail
		return run
	}
	// final state through a fresh handle (with the real lock when nobody leaked it)
	finRaw, err := openRaw()
	if err != nil {
		run.Discard = "cannot open the final back end: " + err.Error()
		return run
	}
	var fin v2api.KeyStore
	if s.Outcome == "" && s.LocksFree() {
		_, fin = fix.V2OnBackend(finRaw)
	} else {
		_, fin = fix.V2OnBackend(noLock{finRaw})
	}
	run.FinalList, _ = finRaw.ListAll()
	for _, p := range run.FinalList {
		if strings.HasSuffix(p, ringSuffix) {
			ring := strings.TrimSuffix(p, ringSuffix)
			run.Final[ring] = snapRing(fin, ring)
		}
	}
	for _, ring := range world.ringNames() {
		if _, ok := run.Final[ring]; !ok {
			run.Final[ring] = snapRing(fin, ring)
		}
	}
	run.classify()
	return run
}

// ---- description --------------------------------------------------------------------------------

func (r *Run) threadSeq() string {
	var parts []string
	last, n := -1, 0
	flush := func() {
		if n > 0 {
			parts = append(parts, fmt.Sprintf("t%dx%d", last, n))
		}
	}
	for _, d := range r.Sched.Decisions {
		if d.Chosen != last {
			flush()
			last, n = d.Chosen, 0
		}
		n++
	}
	flush()
	return strings.Join(parts, " ")
}

func (r *Run) describe() string {
	var sb strings.Builder
	fmt.Fprintf(&sb, "back end %s; setup %v;", r.Case.Backend, r.Case.Setup)
	if len(r.Case.Life) > 0 {
		fmt.Fprintf(&sb, " handle lifetimes before the run %v;", r.Case.Life)
	}
	for i, s := range r.Case.Threads {
		fmt.Fprintf(&sb, " t%d(%s):", i, s.Role)
		for j, op := range s.Ops {
			res := r.Res[i][j]
			out := "ok"
			switch {
			case !res.Ran:
				out = "not run"
			case res.Err != "":
				out = "error " + strconv.Quote(res.Err)
			}
			fmt.Fprintf(&sb, " %s=%s", op, out)
		}
		sb.WriteString(";")
	}
	fmt.Fprintf(&sb, " executed schedule: %s; commits:", r.threadSeq())
	for _, cm := range r.World.commits {
		if cm.File != "" {
			if !strings.Contains(cm.File, newSuffix) {
				fmt.Fprintf(&sb, " #%d t%d.%d file %s", cm.State, cm.Tid, cm.Op, cm.File)
			}
			continue
		}
		fmt.Fprintf(&sb, " #%d t%d.%d %s %s %s->%s", cm.State, cm.Tid, cm.Op, cm.Ring, cm.Kind, cm.Before, cm.After)
	}
	out := sb.String()
	if len(out) > 3500 {
		out = out[:3500] + "…"
	}
	return out
}

// ---- classes and the non-trivial rule -----------------------------------------------------------

func (r *Run) classify() {
	c := r.Case
	cl := map[string]bool{}
	add := func(s string) { cl[s] = true }
	add("backend:" + c.Backend)
	nw, nr := 0, 0
	type tr struct {
		tid  int
		ring string
	}
	var targets []tr
	for i, s := range c.Threads {
		if s.Role == "writer" {
			nw++
		} else {
			nr++
		}
		for j, op := range s.Ops {
			if s.Role == "writer" {
				add("op:" + op.Kind)
				if mutating(op.Kind) {
					targets = append(targets, tr{i, opRing(op)})
				}
			} else {
				add("reader-op:" + op.Kind)
			}
			res := r.Res[i][j]
			if res.Ran && s.Role == "writer" && mutating(op.Kind) {
				if res.Err == "" {
					add("result:" + op.Kind + ":ok")
				} else {
					add("result:" + op.Kind + ":error")
				}
			}
			if res.Ran && !mutating(op.Kind) && res.End > res.Start {
				add("read-overlaps-commit")
			}
		}
	}
	add(fmt.Sprintf("writers:%d", nw))
	add(fmt.Sprintf("readers:%d", nr))
	if nr > 0 {
		add("readers-present")
	}
	same, newRace := false, false
	for i := range targets {
		for j := range targets {
			if targets[i].tid < targets[j].tid && targets[i].ring == targets[j].ring {
				same = true
				if !r.World.ringAt(targets[i].ring, 0).Exists {
					newRace = true
				}
			}
		}
	}
	if same {
		add("same-ring")
	} else {
		add("different-ring")
	}
	if newRace {
		add("same-new-ring")
	}
	switch p := r.Sched.Preemptions(); {
	case p <= 2:
		add(fmt.Sprintf("preemptions:%d", p))
	case p <= 5:
		add("preemptions:3-5")
	default:
		add("preemptions:6+")
	}
	for _, cm := range r.World.commits {
		add("commit:" + cm.Kind)
	}
	if r.Sched.Outcome != "" {
		add("outcome:" + r.Sched.Outcome)
	}
	// non-trivial: two writers whose back-end calls interleave on the same ring
	first, last := map[tr]int{}, map[tr]int{}
	for idx, st := range r.Sched.Steps {
		if st.Tid >= len(c.Threads) || c.Threads[st.Tid].Role != "writer" || st.Op >= len(c.Threads[st.Tid].Ops) {
			continue
		}
		op := c.Threads[st.Tid].Ops[st.Op]
		if !mutating(op.Kind) {
			continue
		}
		k := tr{st.Tid, opRing(op)}
		if _, ok := first[k]; !ok {
			first[k] = idx
		}
		last[k] = idx
	}
	for a := range first {
		for b := range first {
			if a.tid != b.tid && a.ring == b.ring && first[b] > first[a] && first[b] < last[a] {
				r.Inter = true
			}
		}
	}
	if r.Inter {
		add("interleaved-same-ring")
	}
	// handle lifetimes
	if r.Visits > 0 {
		add("life:short-lived-handle")
	}
	for i, h := range r.Handles {
		if h.Gen == 0 && h.Era > 0 {
			add("life:opened-after-a-close")
		}
		for _, o := range r.Handles[:i] {
			if o.Era != h.Era {
				add("life:handles-from-before-and-after-a-close")
			}
		}
	}
	for _, ct := range r.Sched.Contentions {
		if ct.Acquired {
			add("real-lock:let-waiter-in")
		} else {
			add("real-lock:kept-waiter-out:" + ct.Kind)
		}
	}
	if r.Across {
		add("real-lock:contended-across-a-close")
	}
	for k := range cl {
		r.Classes = append(r.Classes, k)
	}
	sort.Strings(r.Classes)
}

// ---- oracle -------------------------------------------------------------------------------------

// expectCurrent is what a current-key read must return for a ring state (ok=false: an error of
// the not-found family).
func expectCurrent(rs RingState) (KeyState, bool) {
	if !rs.Exists || rs.Bad != "" {
		return KeyState{}, false
	}
	k := rs.key(rs.Current)
	if k == nil || k.Destroyed || k.Bad != "" {
		return KeyState{}, false
	}
	return *k, true
}

// expectAll is what an all-keys read must return: surviving keys newest first. ok=false: an error.
func expectAll(rs RingState, kind string) ([]string, bool) {
	if rs.Bad != "" || (!rs.Exists && !isPoison(kind)) {
		return nil, false
	}
	out := []string{}
	for i := len(rs.Keys) - 1; i >= 0; i-- {
		if !rs.Keys[i].Destroyed {
			out = append(out, rs.Keys[i].Secret)
		}
	}
	if len(out) == 0 && isPoison(kind) {
		return nil, false
	}
	return out, true
}

func hexOf(b []byte) string { return hex.EncodeToString(b) }

// Judge evaluates the oracle on a finished run.
//
//  1. every commit is a legal effect of the operation that made it (nothing of another writer is
//     removed or changed: no lost update), hits only that operation's ring, verifies, and keeps
//     sequence numbers unique and strictly increasing;
//  2. an operation that returned success has its whole effect committed exactly once; an operation
//     that returned an error committed nothing (creating the empty ring does not count);
//  3. the state read through a fresh handle equals the last committed state; key count of each
//     ring = initial + successful adds; every generated key is there exactly once; the current key
//     is the one set by the last successful set-current in commit order;
//  4. every read returned what some state between its invocation and its response implies, or a
//     not-found error where that state has no such key; no other error;
//  5. no deadlock (proved by the modelled lock), no lock leaked, lock discipline kept, no panic;
//  6. directory back end: the real store lock keeps a handle out while the lock is held through
//     other handles, whenever the handles were opened and whatever was closed in between (probes).
func Judge(r *Run) hx.Vs {
	var vs hx.Vs
	c := r.Case
	w := r.World
	s := r.Sched
	be := "@" + c.Backend
	ctx := func() string { return " || " + r.describe() }
	for i := range r.thrVs {
		for _, v := range r.thrVs[i] {
			vs.Add(v.Sig, "%s%s", v.Msg, ctx())
		}
	}
	for i, t := range s.thr {
		if t.panicMsg != "" {
			vs.Add("panic:thread@"+t.panicSite, "thread %d panicked outside an operation: %s%s", i, t.panicMsg, ctx())
		}
	}
	for _, v := range s.vs {
		if os.Getenv("C17_NODISCIPLINE") != "" {
			break
		}
		vs.Add(v.Sig+be, "%s%s", v.Msg, ctx())
	}
	if s.Outcome == "deadlock" {
		vs.Add("deadlock"+be, "no thread can proceed although some are unfinished: %s%s", s.Detail, ctx())
		return vs
	}
	if !s.LocksFree() {
		vs.Add("lock-leaked"+be, "all threads finished but the store lock is still held (exclusive holder t%d, shared holds %v)%s", s.wHolder(), s.lockR, ctx())
	}
	tainted := map[string]bool{}
	// 1 + 2: commits per operation
	type opKey struct{ tid, op int }
	byOp := map[opKey][]Commit{}
	for _, cm := range w.commits {
		byOp[opKey{cm.Tid, cm.Op}] = append(byOp[opKey{cm.Tid, cm.Op}], cm)
	}
	okAdds := map[string][]KeyState{} // ring -> keys added by successful generates
	strayAdds := map[string]int{}     // ring -> keys added by generates that then failed
	imported := map[string]bool{}     // rings that a successful import (re)wrote
	lastSetCur := map[string]int{}    // ring -> seq set by the last successful set-current / import in commit order
	lastSetCurState := map[string]int{}
	setCur := func(ring string, seq, state int) {
		if state > lastSetCurState[ring] {
			lastSetCur[ring], lastSetCurState[ring] = seq, state
		}
	}
	for i, th := range c.Threads {
		for j, op := range th.Ops {
			res := r.Res[i][j]
			if !res.Ran {
				continue
			}
			target := opRing(op)
			var eff []Commit // effective commits: everything but create-empty / none
			for _, cm := range byOp[opKey{i, j}] {
				if cm.File != "" {
					if op.Kind != opClaim && !strings.Contains(cm.File, newSuffix) { // the staging file of a ring write is no effect of its own
						vs.Add("foreign-file-write:"+op.Kind+be, "t%d %s wrote the plain file %s%s", i, op, cm.File, ctx())
					}
					continue
				}
				if cm.Ring != target {
					tainted[cm.Ring] = true
					vs.Add("foreign-ring-write:"+op.Kind+be, "t%d %s changed ring %s (%s -> %s) although it addresses %q%s", i, op, cm.Ring, cm.Before, cm.After, target, ctx())
					continue
				}
				if cm.After.Bad != "" {
					tainted[cm.Ring] = true
					vs.Add("committed-ring-unverifiable:"+op.Kind+be, "t%d %s committed a state of %s that does not open: %s%s", i, op, cm.Ring, cm.After.Bad, ctx())
					continue
				}
				for _, k := range cm.After.Keys {
					if k.Bad != "" {
						tainted[cm.Ring] = true
						vs.Add("committed-key-unreadable:"+op.Kind+be, "t%d %s committed %s whose key %d cannot be read: %s%s", i, op, cm.Ring, k.Seq, k.Bad, ctx())
					}
				}
				if !increasing(cm.After) {
					tainted[cm.Ring] = true
					vs.Add("seqnum-order:"+op.Kind+be, "t%d %s committed %s with sequence numbers that are not strictly increasing: %s%s", i, op, cm.Ring, cm.After, ctx())
				}
				switch cm.Kind {
				case "none":
					// an import that writes what is already there is still that import's write
					if (op.Kind == opImport || op.Kind == opImportOverwrite) && cm.After.Exists && sameRing(cm.After, r.Donor[target]) {
						eff = append(eff, cm)
					}
					// a set-current that finds its sequence number current already (an overwriting
					// import brought a key with that number) is still this operation's set-current
					if (op.Kind == kshist.OpGen || op.Kind == opGenRetry) && len(eff) == 1 && eff[0].Kind == "add" && cm.After.Current == eff[0].Seq {
						cm.Kind, cm.Seq = "setcur", cm.After.Current
						eff = append(eff, cm)
					}
				case "create-empty":
					if !mutating(op.Kind) && !isPoison(op.Key) {
						vs.Add("reader-wrote:"+op.Kind+be, "t%d %s created ring %s%s", i, op, cm.Ring, ctx())
					}
				default:
					eff = append(eff, cm)
				}
			}
			kinds := ""
			for _, cm := range eff {
				kinds += cm.Kind + " "
			}
			kinds = strings.TrimSpace(kinds)
			illegal := func(cm Commit) {
				tainted[cm.Ring] = true
				if lost := lostKeys(cm.Before, cm.After); len(lost) > 0 {
					vs.Add("lost-update:"+op.Kind+be, "t%d %s committed %s -> %s on %s: keys %v that were there are gone or changed (%s %s)%s", i, op, cm.Before, cm.After, cm.Ring, lost, cm.Kind, cm.Detail, ctx())
				} else {
					vs.Add("illegal-commit:"+cm.Kind+"@"+op.Kind+be, "t%d %s committed %s -> %s on %s (%s %s), which is no effect this operation may have%s", i, op, cm.Before, cm.After, cm.Ring, cm.Kind, cm.Detail, ctx())
				}
			}
			ok := res.Err == ""
			switch op.Kind {
			case kshist.OpGen, opGenRetry:
				// the effect of a generate: one key appended, then (or in the same commit) made current
				bad := false
				for k, cm := range eff {
					if (k == 0 && cm.Kind != "add" && cm.Kind != "addcur") || (k == 1 && (eff[0].Kind != "add" || cm.Kind != "setcur" || cm.Seq != eff[0].Seq)) || k > 1 {
						illegal(cm)
						bad = true
					}
				}
				if bad {
					break
				}
				complete := (len(eff) == 1 && eff[0].Kind == "addcur") || len(eff) == 2
				switch {
				case ok && complete:
					okAdds[target] = append(okAdds[target], *eff[0].After.key(eff[0].Seq))
					setCur(target, eff[len(eff)-1].Seq, eff[len(eff)-1].State)
				case ok:
					tainted[target] = true
					vs.Add("success-without-effect:gen"+be, "t%d %s returned success but committed [%s] instead of an added key and a new current key%s", i, op, kinds, ctx())
				case len(eff) > 0:
					// the error came after part of the effect was committed
					strayAdds[target]++
					if complete {
						setCur(target, eff[len(eff)-1].Seq, eff[len(eff)-1].State)
					}
					if op.Kind == kshist.OpGen { // at key-ring level (genRetry) the two steps are the caller's own
						vs.Add("failed-op-left-trace:gen"+be, "t%d %s returned error %q but committed [%s] on %s: key %d stays in the ring%s", i, op, res.Err, kinds, target, eff[0].Seq, ctx())
					}
				}
				// a retried key-ring call may fail only because somebody else changed the ring since
				// this ring object last read it
				for a := 1; a < len(res.Attempts); a++ {
					at := res.Attempts[a]
					// only the optimistic-concurrency errors: other failures (the key to make current
					// was replaced by an import, ...) persist without anybody's further doing
					if at.Err != "concurrent keystore modification" && at.Err != "duplicate key with seqnum in key ring" {
						continue
					}
					pull := func(x Attempt) int {
						for _, st := range s.Steps[x.From:x.To] {
							if st.Tid == i && st.Call == cGet && st.Err == "" {
								return st.State
							}
						}
						return -1
					}
					p0, p1 := pull(res.Attempts[a-1]), pull(at)
					if p0 < 0 || p1 < 0 {
						continue
					}
					interference := false
					for _, cm := range w.commits {
						if cm.Ring == target && cm.Tid != i && cm.State > p0 && cm.State <= p1 {
							interference = true
						}
					}
					if !interference {
						vs.Add("spurious-conflict:"+at.API+be, "t%d %s: %s on the same ring object failed with %q although no other thread changed %s between this object's previous read (state %d) and this one (state %d): a failed transaction must leave the ring object usable%s", i, op, at.API, at.Err, target, p0, p1, ctx())
						break
					}
				}
			case kshist.OpDestroyCurrent, kshist.OpDestroyRotated:
				bad := false
				for k, cm := range eff {
					if k > 0 || cm.Kind != "destroy" {
						illegal(cm)
						bad = true
					}
				}
				if bad {
					break
				}
				switch {
				case ok && len(eff) == 1:
					cm := eff[0]
					// the destroyed key must have been the current key (a rotated key) in some state
					// between the invocation and the commit
					legal := false
					for st := res.Start; st < cm.State; st++ {
						rs := w.ringAt(target, st)
						k := rs.key(cm.Seq)
						if k == nil || k.Destroyed {
							continue
						}
						if (op.Kind == kshist.OpDestroyCurrent) == (rs.Current == cm.Seq) {
							legal = true
						}
					}
					if !legal {
						tainted[target] = true
						vs.Add("destroyed-wrong-key:"+op.Kind+be, "t%d %s destroyed key %d of %s, which was never %s between the invocation (state %d) and the commit (state %d)%s", i, op, cm.Seq, target,
							map[bool]string{true: "the current key", false: "a rotated key"}[op.Kind == kshist.OpDestroyCurrent], res.Start, cm.State, ctx())
					}
				case ok:
					tainted[target] = true
					vs.Add("success-without-effect:"+op.Kind+be, "t%d %s returned success but no key was destroyed%s", i, op, ctx())
				case len(eff) > 0:
					vs.Add("failed-op-left-trace:"+op.Kind+be, "t%d %s returned error %q but committed [%s] on %s%s", i, op, res.Err, kinds, target, ctx())
				}
			case opImport, opImportOverwrite:
				donor := r.Donor[target]
				if len(eff) > 1 {
					for _, cm := range eff[1:] {
						illegal(cm)
					}
					break
				}
				switch {
				case ok && len(eff) == 1:
					cm := eff[0]
					imported[target] = true
					setCur(target, cm.After.Current, cm.State)
					if !sameRing(cm.After, donor) {
						tainted[target] = true
						vs.Add("import-wrong-content:"+op.Kind+be, "t%d %s committed %s on %s, the imported ring is %s%s", i, op, cm.After, target, donor, ctx())
					} else if lost := lostKeys(cm.Before, cm.After); op.Kind == opImport && len(lost) > 0 {
						// without a delegate the import must not touch an existing ring; replacing
						// keys that were committed before it loses another writer's successful update
						tainted[target] = true
						vs.Add("lost-update:import"+be, "t%d %s returned success and replaced %s by %s on %s: keys %v, committed by other operations before, are gone; an import without an overwrite decision must fail with 'already exists' instead%s", i, op, cm.Before, cm.After, target, lost, ctx())
					}
				case ok:
					// ImportSkip is not used; a successful import always writes
					tainted[target] = true
					vs.Add("success-without-effect:"+op.Kind+be, "t%d %s returned success but the ring was not written%s", i, op, ctx())
				case len(eff) > 0:
					tainted[target] = true
					vs.Add("failed-op-left-trace:"+op.Kind+be, "t%d %s returned error %q but committed [%s] on %s%s", i, op, res.Err, kinds, target, ctx())
				}
			case opClaim:
				for _, cm := range eff {
					illegal(cm)
				}
			case kshist.OpReopen:
				for _, cm := range eff {
					illegal(cm)
				}
				if !ok {
					vs.Add("reopen-error"+be, "t%d could not replace its key store handle: %s%s", i, res.Err, ctx())
				}
			default: // reads
				for _, cm := range eff {
					tainted[cm.Ring] = true
					vs.Add("reader-wrote:"+op.Kind+be, "t%d %s committed %s -> %s on %s%s", i, op, cm.Before, cm.After, cm.Ring, ctx())
				}
			}
		}
	}
	// claims: RenameNX gives a slot to the first claimant only
	owner := map[string][2]int{}
	for _, st := range s.Steps {
		if st.Call != cRenameNX {
			continue
		}
		slot := st.Path2
		o, taken := owner[slot]
		switch {
		case st.Err == "" && taken:
			vs.Add("renamenx-overwrote"+be, "RenameNX(%s, %s) of t%d.%d succeeded although t%d.%d had claimed the path before%s", st.Path, slot, st.Tid, st.Op, o[0], o[1], ctx())
		case st.Err == "":
			owner[slot] = [2]int{st.Tid, st.Op}
		case !taken:
			vs.Add("renamenx-refused-free-path"+be, "RenameNX(%s, %s) of t%d.%d failed with %q although nobody had claimed the path%s", st.Path, slot, st.Tid, st.Op, st.Err, ctx())
		case st.Err != backendapi.ErrExist.Error():
			vs.Add("renamenx-wrong-error"+be, "RenameNX(%s, %s) on a taken path failed with %q instead of ErrExist%s", st.Path, slot, st.Err, ctx())
		}
	}
	for slot, o := range owner {
		if ex, content := w.fileAt(slot, w.n); !ex || content != hexOf(claimData(o[0], o[1])) {
			vs.Add("claim-content"+be, "%s was claimed by t%d.%d but holds other data at the end (exists=%v)%s", slot, o[0], o[1], ex, ctx())
		}
	}
	// 3: final state
	for _, p := range r.FinalList {
		if strings.Contains(p, newSuffix) {
			vs.Add("leftover-new-file"+be, "%s is left behind after all operations returned (it makes every later write of that ring fail)%s", p, ctx())
		}
	}
	rings := map[string]bool{}
	for ring := range r.Final {
		rings[ring] = true
	}
	for _, ring := range w.ringNames() {
		rings[ring] = true
	}
	var names []string
	for ring := range rings {
		names = append(names, ring)
	}
	sort.Strings(names)
	for _, ring := range names {
		fin, last, init := r.Final[ring], w.ringAt(ring, w.n), w.ringAt(ring, 0)
		if !sameRing(fin, last) {
			vs.Add("final-state-mismatch"+be, "a fresh handle reads %s as %s, the last committed state is %s%s", ring, fin, last, ctx())
			continue
		}
		if tainted[ring] {
			continue
		}
		if !increasing(fin) {
			vs.Add("seqnum-order:final"+be, "%s ends with sequence numbers that are not strictly increasing: %s%s", ring, fin, ctx())
		}
		if !imported[ring] {
			if want := len(init.Keys) + len(okAdds[ring]) + strayAdds[ring]; len(fin.Keys) != want {
				vs.Add("key-count"+be, "%s ends with %d keys, expected %d initial + %d successful adds (+ %d left by failed generates): %s%s", ring, len(fin.Keys), len(init.Keys), len(okAdds[ring]), strayAdds[ring], fin, ctx())
			}
			for _, k := range init.Keys {
				if f := fin.key(k.Seq); f == nil || (!sameKey(*f, k) && !f.Destroyed) {
					vs.Add("initial-key-changed"+be, "key %d of %s was there before the run and is gone or changed at the end: %s -> %s%s", k.Seq, ring, init, fin, ctx())
				}
			}
		}
		for _, k := range okAdds[ring] {
			if imported[ring] {
				break // an overwriting import may legitimately replace them
			}
			n := 0
			for _, f := range fin.Keys {
				if f.Secret == k.Secret && f.Public == k.Public {
					n++
				}
			}
			f := fin.key(k.Seq)
			if !(n == 1 && f != nil && f.Secret == k.Secret) && !(n == 0 && f != nil && f.Destroyed) {
				vs.Add("generated-key-missing"+be, "the key added as %d to %s by a successful generate is there %d times at the end: %s%s", k.Seq, ring, n, fin, ctx())
			}
		}
		if seq, ok := lastSetCur[ring]; ok && fin.Current != seq {
			vs.Add("current-mismatch"+be, "%s ends with current key %d, the last successful set-current (state %d) set %d%s", ring, fin.Current, lastSetCurState[ring], seq, ctx())
		}
	}
	// 4: reads
	for i, th := range c.Threads {
		for j, op := range th.Ops {
			res := r.Res[i][j]
			if !res.Ran || mutating(op.Kind) || op.Kind == opClaim || op.Kind == kshist.OpReopen {
				continue
			}
			if res.Err != "" && !res.NotFound {
				vs.Add("read-error:"+op.Kind+be, "t%d %s failed with %q, which is not a not-found error%s", i, op, res.Err, ctx())
				continue
			}
			ring := opRing(op)
			matched := false
			var want []string
			for st := res.Start; st <= res.End && !matched; st++ {
				rs := w.ringAt(ring, st)
				switch op.Kind {
				case kshist.OpReadCurrent, opReadPublic:
					k, ok := expectCurrent(rs)
					if !ok {
						want = append(want, "not-found")
						matched = res.Err != ""
						break
					}
					want = append(want, short(k.Secret))
					if res.Err != "" || len(res.Vals) != 1 {
						break
					}
					v := res.Vals[0]
					if op.Kind == opReadPublic {
						matched = hexOf(v.Public) == k.Public
					} else {
						matched = hexOf(v.Secret) == k.Secret && (len(v.Public) == 0 || hexOf(v.Public) == k.Public)
					}
				case kshist.OpReadAll:
					all, ok := expectAll(rs, op.Key)
					if !ok {
						want = append(want, "not-found")
						matched = res.Err != ""
						break
					}
					want = append(want, fmt.Sprint(len(all))+" keys")
					if res.Err != "" || len(res.Vals) != len(all) {
						break
					}
					matched = true
					for x := range all {
						if hexOf(res.Vals[x].Secret) != all[x] {
							matched = false
						}
					}
				case kshist.OpList:
					// exactly the key rings of that state; entries for stored paths that are no key
					// rings (plain files of the claim operations, staging files) are tolerated when
					// such a path exists in that state - whether a listing shows them is not this
					// property's subject
					exp := w.ringsAt(st)
					want = append(want, fmt.Sprint(exp))
					if res.Err != "" {
						break
					}
					var got []string
					ok := true
					for _, p := range res.Paths {
						if _, isRing := w.rings[p]; isRing {
							got = append(got, p)
						} else if ex, _ := w.fileAt(p, st); !ex {
							ok = false
						}
					}
					sort.Strings(got)
					matched = ok && fmt.Sprint(got) == fmt.Sprint(exp)
				}
			}
			if !matched {
				got := "error " + strconv.Quote(res.Err)
				if res.Err == "" {
					var g []string
					for _, v := range res.Vals {
						g = append(g, short(hexOf(v.Secret))+"/"+short(hexOf(v.Public)))
					}
					got = fmt.Sprintf("%v %v", g, res.Paths)
				}
				vs.Add("read-not-linearizable:"+op.Kind+be, "t%d %s returned %s; the committed states between its invocation (%d) and its response (%d) imply %v%s", i, op, got, res.Start, res.End, want, ctx())
			}
		}
	}
	// a real lock that does not exclude two handles is reported first; what it led to in this run
	// (judged above, because the model stopped excluding the pair as well) is named there too
	var after []string
	for k := len(vs) - 1; k >= 0; k-- {
		if strings.HasPrefix(vs[k].Sig, "store-lock-not-exclusive:") {
			if len(after) > 0 {
				vs[k].Msg += " || what it led to in this run: " + strings.Join(after, ", ")
			}
			continue
		}
		after = append([]string{vs[k].Sig}, after...)
	}
	return vs
}

// Check runs a case and judges it.
func Check(c Case) (hx.Vs, *Run) {
	r := Execute(c)
	if r.Discard != "" {
		return nil, r
	}
	return Judge(r), r
}

// ---- tests --------------------------------------------------------------------------------------

const schedRule = "2-3 writer scripts (1-3 operations from generate/rotate, generate at key-ring level with retries, destroy current, destroy rotated by index, import, import with overwrite, read current, read all, list, back-end claim via RenameNX) and 0-2 reader scripts over 6 key kinds x 2 ids, ~2/3 of the operations on one focus ring (new in a third of the cases), separate key store handles on one back end (in-memory 88 %, directory with one DirectoryBackend/lock descriptor per handle 12 %); handle lifetimes: with weight 40 (observed: a fifth of the cases) the threads' handles are opened in a drawn order with 1-2 short-lived handles (open, one operation, close) in between, with weight 12 per thread (observed: in a fifth of the cases) a thread replaces its handle once during the run (reopen); on the directory back end a thread that waits for the modelled lock held through other handles probes the real lock of its own handle (returning while the holders have not unlocked = store-lock-not-exclusive; not returning within 25 ms = kept out); schedule = run-length encoded list of thread choices at back-end-call granularity, drawn from rapid (consecutive segments name different threads; a segment whose thread waits for the store lock stays pending until it can run); modelled store lock. Non-trivial = two writers' back-end calls interleave on the same ring."

func TestSchedules(t *testing.T) {
	R.Rule("TestSchedules", schedRule)
	hx.Checks(150, 5000)
	flag.Set("rapid.shrinktime", "2s") // scripts and schedule are minimised by minimise(); rapid only needs to try shorter draws
	rapid.Check(t, func(rt *rapid.T) {
		c := genCase(rt)
		vs, run := Check(c)
		if run.Discard != "" {
			R.Seen("TestSchedules", c, false, "inconclusive")
			R.Note("TestSchedules: inconclusive run (%s)", run.Discard)
			return
		}
		R.Seen("TestSchedules", c, run.Inter, run.Classes...)
		report(rt, "TestSchedules", c, vs)
	})
}

// lifeOpt: the directory back end only (every handle has its own lock file descriptor, the real
// store lock is probed), handles with a history in most cases.
var lifeOpt = genOpt{dir: 100, life: 75, reopen: 30}

const lifeRule = "the cases of TestSchedules on the directory back end only, with handle lifetimes in front: with weight 75 (observed: a third of the cases) the threads' handles are opened in a drawn order with 1-2 short-lived handles (open, one operation from generate / destroy current / read current / read all / list, close) in between, and with weight 30 per thread (observed: in a third of the cases) a thread replaces its handle once during the run (operation reopen, before, between or after its other operations; weights 40 / 12 in TestSchedules, on both back ends). The modelled store lock decides who may proceed; whenever a thread waits at Lock/RLock because the lock is held through OTHER handles, the harness calls the same method on the real back end of the waiter's handle (on a helper goroutine that releases at once): returning while the holders have not unlocked = the real lock (flock per lock file descriptor + mutex) does not exclude these handles: violation store-lock-not-exclusive, and from then on the model lets the pair run as the real lock does so that the consequences (lost update, duplicate sequence number) are judged as well; not returning within 25 ms = kept out (the clock decides only in that direction). Non-trivial = the real lock was contended between a handle opened before and a handle opened after some other handle on the directory was closed."

func TestLifetimes(t *testing.T) {
	R.Rule("TestLifetimes", lifeRule)
	hx.Checks(12, 600)
	flag.Set("rapid.shrinktime", "2s")
	rapid.Check(t, func(rt *rapid.T) {
		c := genCaseOpt(rt, lifeOpt)
		vs, run := Check(c)
		if run.Discard != "" {
			R.Seen("TestLifetimes", c, false, "inconclusive")
			R.Note("TestLifetimes: inconclusive run (%s)", run.Discard)
			return
		}
		R.Seen("TestLifetimes", c, run.Across, run.Classes...)
		report(rt, "TestLifetimes", c, vs)
	})
}

func replayCase(raw json.RawMessage) hx.Vs {
	var c Case
	if err := json.Unmarshal(raw, &c); err != nil {
		return hx.Vs{{Sig: "harness:replay", Msg: err.Error()}}
	}
	vs, run := Check(c)
	if run.Discard != "" {
		R.Note("TestReplay: inconclusive run (%s)", run.Discard)
	}
	return vs
}

func TestReplay(t *testing.T) {
	R.Replay(t, map[string]hx.ReplayHandler{
		"TestSchedules": replayCase,
		"TestEnumerate": replayCase,
		"TestLifetimes": replayCase,
		"TestV1Race":    replayRace,
	})
}
