//go:build !race

package c17

const raceEnabled = false
