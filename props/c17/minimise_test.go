package c17

import (
	"encoding/json"
	"os"

	"verif/internal/hx"
	"verif/internal/kshist"
)

// openSigs are the signatures of the open known findings of this property (read-only copy of what
// hx loads, so that the minimiser can ask without counting exclusions).
var openSigs = func() map[string]bool {
	root := os.Getenv("VERIF_ROOT")
	if root == "" {
		root = "/verif"
	}
	out := map[string]bool{}
	b, err := os.ReadFile(root + "/known_findings.json")
	if err != nil {
		return out
	}
	var f struct {
		Findings []hx.Finding `json:"findings"`
	}
	if json.Unmarshal(b, &f) == nil {
		for _, e := range f.Findings {
			if e.Property == "C17" && e.Status == "open" {
				out[e.Sig] = true
			}
		}
	}
	return out
}()

func firstNew(vs hx.Vs) *hx.Violation {
	for i := range vs {
		if !openSigs[vs[i].Sig] {
			return &vs[i]
		}
	}
	return nil
}

func size(c Case) int {
	n := len(c.Setup) + 3*len(c.Threads) + 2*len(c.Schedule) + 2*len(c.Life)
	for _, t := range c.Threads {
		n += 2 * len(t.Ops)
	}
	for _, s := range c.Schedule {
		if s.N > 20 {
			n++
		}
	}
	return n
}

func cloneCase(c Case) Case {
	x := Case{Backend: c.Backend, Setup: append([]kshist.Op(nil), c.Setup...), Life: append([]LifeEv(nil), c.Life...), Schedule: append([]Seg(nil), c.Schedule...)}
	for _, t := range c.Threads {
		x.Threads = append(x.Threads, Script{Role: t.Role, Ops: append([]kshist.Op(nil), t.Ops...)})
	}
	return x
}

// minimise reduces a failing case on its own structure (rapid's shrinking works on the draw
// sequence, where removing one thread or operation re-interprets all later choices): drop threads,
// operations, setup steps and schedule segments, shorten segments, prefer the in-memory back end,
// while the case keeps failing with the same signature.
func minimise(c Case, sig string) Case {
	budget := 400
	fails := func(x Case) bool {
		if budget <= 0 {
			return false
		}
		budget--
		vs, run := Check(x)
		if run.Discard != "" {
			return false
		}
		v := firstNew(vs)
		return v != nil && v.Sig == sig
	}
	for changed := true; changed && budget > 0; {
		changed = false
		try := func(x Case) {
			if fails(x) {
				c, changed = x, true
			}
		}
		for i := len(c.Threads) - 1; i >= 0 && len(c.Threads) > 1; i-- {
			x := cloneCase(c)
			x.Threads = append(x.Threads[:i], x.Threads[i+1:]...)
			var segs []Seg
			for _, s := range x.Schedule {
				switch {
				case s.T == i:
					continue
				case s.T > i:
					s.T--
				}
				segs = append(segs, s)
			}
			x.Schedule = segs
			var life []LifeEv
			for _, ev := range x.Life {
				if ev.Ev == evOpen {
					switch {
					case ev.T == i:
						continue
					case ev.T > i:
						ev.T--
					}
				}
				life = append(life, ev)
			}
			x.Life = life
			try(x)
		}
		for i := range c.Threads {
			for j := len(c.Threads[i].Ops) - 1; j >= 0 && len(c.Threads[i].Ops) > 1; j-- {
				x := cloneCase(c)
				x.Threads[i].Ops = append(x.Threads[i].Ops[:j], x.Threads[i].Ops[j+1:]...)
				try(x)
			}
		}
		for i := len(c.Setup) - 1; i >= 0; i-- {
			x := cloneCase(c)
			x.Setup = append(x.Setup[:i], x.Setup[i+1:]...)
			try(x)
		}
		for i := len(c.Life) - 1; i >= 0; i-- {
			x := cloneCase(c)
			x.Life = append(x.Life[:i], x.Life[i+1:]...)
			try(x)
		}
		for i := len(c.Schedule) - 1; i >= 0; i-- {
			x := cloneCase(c)
			x.Schedule = append(x.Schedule[:i], x.Schedule[i+1:]...)
			try(x)
		}
		for i := len(c.Schedule) - 1; i > 0; i-- {
			if c.Schedule[i].T == c.Schedule[i-1].T {
				x := cloneCase(c)
				x.Schedule[i-1].N += x.Schedule[i].N
				x.Schedule = append(x.Schedule[:i], x.Schedule[i+1:]...)
				try(x)
			}
		}
		for i := range c.Schedule {
			for _, n := range []int{1, c.Schedule[i].N / 2, c.Schedule[i].N - 1} {
				if i < len(c.Schedule) && n >= 1 && n < c.Schedule[i].N {
					x := cloneCase(c)
					x.Schedule[i].N = n
					try(x)
				}
			}
		}
	}
	if c.Backend != "mem" {
		x := cloneCase(c)
		x.Backend = "mem"
		sigMem := sig
		if n := len(sig); n > 4 && sig[n-4:] == "@dir" {
			sigMem = sig[:n-4] + "@mem"
		}
		if vs, run := Check(x); run.Discard == "" {
			if v := firstNew(vs); v != nil && v.Sig == sigMem {
				c = x
			}
		}
	}
	return c
}

type failing struct {
	c  Case
	vs hx.Vs
}

// best holds, per test, the smallest failing case found so far; it is what gets reported, so the
// replay file that survives rapid's shrinking is the minimised one.
var best = map[string]*failing{}

// report handles the violations of a case: open known findings are counted, the first other one is
// minimised and reported.
func report(t hx.TB, test string, c Case, vs hx.Vs) {
	if v := firstNew(vs); v != nil {
		if b := best[test]; b == nil || size(c) < size(b.c) {
			mc := minimise(c, v.Sig)
			mvs, mrun := Check(mc)
			if mv := firstNew(mvs); mrun.Discard == "" && mv != nil {
				best[test] = &failing{mc, mvs}
			} else {
				best[test] = &failing{c, vs}
			}
		}
		R.Report(t, test, best[test].c, best[test].vs)
	}
	R.Report(t, test, c, vs)
}
