//go:build race

package c17

const raceEnabled = true
