package c17

import (
	"bytes"
	"encoding/hex"
	"encoding/json"
	"fmt"
	"os"
	"os/exec"
	"path/filepath"
	"sort"
	"strings"
	"sync"
	"sync/atomic"
	"testing"
	"time"

	"pgregory.net/rapid"

	tokens "github.com/cossacklabs/acra/pseudonymization/common"
	"github.com/cossacklabs/acra/pseudonymization/storage"

	"verif/internal/fix"
	"verif/internal/hx"
	"verif/internal/kshist"
)

// Part (b): many goroutines share ONE keystore v1 handle (cache size 1 = an eviction on every other
// access, or unbounded); readers read current and all keys of several ids and kinds while rotators
// rotate them. The Go runtime owns the schedule, so the oracle is schedule-independent:
//
//   - every value a read returns is a complete key that belongs to the set of keys ever generated
//     for that id and kind (learnt by the rotating goroutine through its own cache-less observer
//     handle right after each rotation, and once more single-threaded after the round);
//   - no read and no rotation returns an error (every key exists before the goroutines start);
//   - the race detector reports nothing.
//
// The workload runs in a child process of the test binary (same binary, TestV1RaceWorker), so that a
// race report — which fails the child's test — reaches the parent as text and becomes a recorded
// violation "data-race:v1" instead of an unexplained test failure. The same is done for the
// in-memory token storage (Save/Get/Stat), signature "data-race:tokens".

const workerEnv = "C17_RACE_WORKER"

// RaceCase is one round of the racy workload.
type RaceCase struct {
	Target   string   `json:"target"`          // v1 | tokens
	Cache    string   `json:"cache,omitempty"` // v1: 1 | inf
	Readers  int      `json:"readers"`
	Rotators int      `json:"rotators"` // v1: rotating goroutines; tokens: saving goroutines
	IDs      []string `json:"ids"`
	Kinds    []string `json:"kinds,omitempty"`
	Warm     bool     `json:"warm,omitempty"` // v1: every key is read once through the shared handle before the start
	Millis   int      `json:"millis"`
	MaxRot   int      `json:"max_rot,omitempty"` // v1: rotations per key at most
	Seed     uint64   `json:"seed"`              // drives the goroutines' choices of what to read
	Repeat   int      `json:"repeat,omitempty"`  // replay: how many times the round is re-run
}

type roundRes struct {
	Reads     int      `json:"reads"`
	Rotations int      `json:"rotations"`
	Vs        hx.Vs    `json:"vs"`
	History   []string `json:"history"`
}

type job struct {
	Rounds []RaceCase `json:"rounds"`
	Out    string     `json:"out"`
}

type xorshift uint64

func (x *xorshift) next() uint64 {
	v := uint64(*x)
	if v == 0 {
		v = 0x9E3779B97F4A7C15
	}
	v ^= v << 13
	v ^= v >> 7
	v ^= v << 17
	*x = xorshift(v)
	return v
}

func (x *xorshift) intn(n int) int { return int(x.next() % uint64(n)) }

var racePool = []string{"alice", "bobby", "carol", "david"} // v1 validates client ids: 5 characters at least

func genRace(t *rapid.T) RaceCase {
	if rapid.IntRange(0, 5).Draw(t, "target") == 0 {
		return RaceCase{Target: "tokens", Readers: rapid.IntRange(2, 5).Draw(t, "readers"), Rotators: rapid.IntRange(2, 4).Draw(t, "savers"),
			IDs: racePool[:rapid.IntRange(1, 3).Draw(t, "contexts")], Millis: 250, Seed: rapid.Uint64().Draw(t, "seed")}
	}
	if rapid.IntRange(0, 3).Draw(t, "v2") == 0 {
		// keystore v2: one handle on a directory or an in-memory back end; a third of the rounds has readers only
		c := RaceCase{Target: "v2", Cache: rapid.SampledFrom([]string{"dir", "dir", "mem"}).Draw(t, "backend")}
		c.Readers = rapid.IntRange(3, 8).Draw(t, "readers")
		c.Rotators = rapid.SampledFrom([]int{0, 1, 2}).Draw(t, "rotators")
		c.IDs = racePool[:rapid.IntRange(2, 4).Draw(t, "ids")]
		c.Kinds = rapid.SliceOfNDistinct(rapid.SampledFrom(kshist.Kinds), 2, 5, rapid.ID[string]).Draw(t, "kinds")
		sort.Strings(c.Kinds)
		c.Warm = rapid.Bool().Draw(t, "warm")
		c.Millis = 400
		c.MaxRot = rapid.IntRange(4, 10).Draw(t, "maxrot")
		c.Seed = rapid.Uint64().Draw(t, "seed")
		return c
	}
	c := RaceCase{Target: "v1", Cache: rapid.SampledFrom([]string{kshist.CacheOne, kshist.CacheOne, kshist.CacheInf}).Draw(t, "cache")}
	c.Readers = rapid.IntRange(2, 6).Draw(t, "readers")
	c.Rotators = rapid.IntRange(1, 2).Draw(t, "rotators")
	c.IDs = racePool[:rapid.IntRange(2, 4).Draw(t, "ids")]
	c.Kinds = rapid.SliceOfNDistinct(rapid.SampledFrom(kshist.Kinds), 2, 5, rapid.ID[string]).Draw(t, "kinds")
	sort.Strings(c.Kinds)
	c.Warm = rapid.Bool().Draw(t, "warm")
	c.Millis = 400
	c.MaxRot = rapid.IntRange(4, 10).Draw(t, "maxrot")
	c.Seed = rapid.Uint64().Draw(t, "seed")
	return c
}

// ---- worker (child process) ---------------------------------------------------------------------

func TestV1RaceWorker(t *testing.T) {
	path := os.Getenv(workerEnv)
	if path == "" {
		t.Skip("only runs as the child process of TestV1Race")
	}
	// the readers treat a key as acra's callers do: used (copied) and wiped. A keystore that hands two goroutines
	// the same slice shows as empty / foreign key values with the other reader
	kshist.WipeReturnedKeys = true
	b, err := os.ReadFile(path)
	if err != nil {
		t.Fatal(err)
	}
	var j job
	if err := json.Unmarshal(b, &j); err != nil {
		t.Fatal(err)
	}
	out := make([]roundRes, len(j.Rounds))
	for i, c := range j.Rounds {
		if c.Target == "tokens" {
			out[i] = tokenRound(c)
		} else { // v1 and v2
			out[i] = v1Round(c)
		}
		ob, _ := json.Marshal(out[:i+1])
		os.WriteFile(j.Out, ob, 0o644)
	}
}

type keyID struct{ kind, id string }

func (k keyID) String() string { return k.kind + "/" + k.id }

type observation struct {
	secrets map[keyID]map[string]bool
	publics map[keyID]map[string]bool
	errs    []string
	reads   int
}

func newObservation() *observation {
	return &observation{secrets: map[keyID]map[string]bool{}, publics: map[keyID]map[string]bool{}}
}

func put(m map[keyID]map[string]bool, k keyID, v []byte) {
	if len(v) == 0 {
		return
	}
	if m[k] == nil {
		m[k] = map[string]bool{}
	}
	m[k][hex.EncodeToString(v)] = true
}

func v1Round(c RaceCase) (res roundRes) {
	fix.Quiet()
	hist := func(format string, args ...any) {
		if len(res.History) < 400 {
			res.History = append(res.History, fmt.Sprintf(format, args...))
		}
	}
	tag := c.Target
	var shared kshist.Fixture
	var err error
	switch {
	case c.Target == "v2" && c.Cache == "mem":
		shared = kshist.NewV2Mem()
	case c.Target == "v2":
		shared, err = kshist.NewV2Dir()
	default:
		tag = "v1"
		dir := fix.TempDir("c17-v1-")
		defer os.RemoveAll(dir)
		shared, err = kshist.NewV1On(dir, nil, c.Cache)
	}
	if err != nil {
		res.Vs.Add("harness:"+tag+"-open", "%v", err)
		return
	}
	defer shared.Close()
	var keysInPlay []keyID
	for _, kind := range c.Kinds {
		if kshist.PerClient(kind) {
			for _, id := range c.IDs {
				keysInPlay = append(keysInPlay, keyID{kind, id})
			}
		} else {
			keysInPlay = append(keysInPlay, keyID{kind, ""})
		}
	}
	// single-threaded preparation through a cache-less handle
	prep, err := shared.Observer()
	if err != nil {
		res.Vs.Add("harness:"+tag+"-open", "%v", err)
		return
	}
	known := newObservation()
	learn := func(o kshist.Fixture, into *observation, k keyID) error {
		v, err := o.Current(k.kind, k.id)
		if err != nil {
			return err
		}
		put(into.secrets, k, v.Secret)
		put(into.publics, k, v.Public)
		return nil
	}
	for _, k := range keysInPlay {
		if err := prep.Generate(k.kind, k.id); err != nil {
			res.Vs.Add("harness:"+tag+"-prepare", "generate %s: %v", k, err)
			return
		}
		if err := learn(prep, known, k); err != nil {
			res.Vs.Add("harness:"+tag+"-prepare", "read %s: %v", k, err)
			return
		}
		if c.Warm {
			shared.Current(k.kind, k.id)
		}
	}
	prep.Close()
	var stop atomic.Bool
	var wg sync.WaitGroup
	readers := make([]*observation, c.Readers)
	rotKnown := make([]*observation, c.Rotators)
	rotErrs := make([][]string, c.Rotators)
	rotations := make([]int, c.Rotators)
	for g := 0; g < c.Readers; g++ {
		readers[g] = newObservation()
		wg.Add(1)
		go func(g int) {
			defer wg.Done()
			o := readers[g]
			rng := xorshift(c.Seed + uint64(g)*0x100000001B3 + 1)
			for !stop.Load() {
				k := keysInPlay[rng.intn(len(keysInPlay))]
				o.reads++
				if kshist.HasAllKeys(k.kind) && rng.intn(3) == 0 {
					all, err := shared.All(k.kind, k.id)
					if err != nil {
						if len(o.errs) < 20 {
							o.errs = append(o.errs, fmt.Sprintf("all keys of %s: %v", k, err))
						}
						continue
					}
					if len(all) == 0 && len(o.errs) < 20 {
						o.errs = append(o.errs, fmt.Sprintf("all keys of %s: empty list", k))
					}
					for _, b := range all {
						put(o.secrets, k, b)
					}
					continue
				}
				v, err := shared.Current(k.kind, k.id)
				if err != nil {
					if len(o.errs) < 20 {
						o.errs = append(o.errs, fmt.Sprintf("current key of %s: %v", k, err))
					}
					continue
				}
				if len(v.Secret) == 0 && len(o.errs) < 20 {
					o.errs = append(o.errs, fmt.Sprintf("current key of %s: empty value", k))
				}
				put(o.secrets, k, v.Secret)
				put(o.publics, k, v.Public)
			}
		}(g)
	}
	for g := 0; g < c.Rotators; g++ {
		rotKnown[g] = newObservation()
		obs, err := shared.Observer()
		if err != nil {
			res.Vs.Add("harness:"+tag+"-open", "%v", err)
			stop.Store(true)
			wg.Wait()
			return
		}
		defer obs.Close()
		// each rotator owns the keys with index = g mod rotators: one writer per key
		var mine []keyID
		for i, k := range keysInPlay {
			if i%c.Rotators == g {
				mine = append(mine, k)
			}
		}
		wg.Add(1)
		go func(g int, obs kshist.Fixture, mine []keyID) {
			defer wg.Done()
			count := map[keyID]int{}
			for i := 0; !stop.Load() && len(mine) > 0; i++ {
				k := mine[i%len(mine)]
				if count[k] >= c.MaxRot {
					time.Sleep(2 * time.Millisecond)
					continue
				}
				count[k]++
				// rotation goes through the shared handle, as a key rotation in a running server does
				if err := shared.Generate(k.kind, k.id); err != nil {
					if len(rotErrs[g]) < 20 {
						rotErrs[g] = append(rotErrs[g], fmt.Sprintf("rotate %s: %v", k, err))
					}
					continue
				}
				rotations[g]++
				if err := learn(obs, rotKnown[g], k); err != nil && len(rotErrs[g]) < 20 {
					rotErrs[g] = append(rotErrs[g], fmt.Sprintf("observer read of %s after rotation: %v", k, err))
				}
				time.Sleep(time.Millisecond)
			}
		}(g, obs, mine)
	}
	time.Sleep(time.Duration(c.Millis) * time.Millisecond)
	stop.Store(true)
	wg.Wait()
	// single-threaded again: everything ever generated, from a cache-less handle
	after, err := shared.Observer()
	if err != nil {
		res.Vs.Add("harness:"+tag+"-open", "%v", err)
		return
	}
	defer after.Close()
	for g := range rotKnown {
		res.Rotations += rotations[g]
		for k, m := range rotKnown[g].secrets {
			for v := range m {
				b, _ := hex.DecodeString(v)
				put(known.secrets, k, b)
			}
		}
		for k, m := range rotKnown[g].publics {
			for v := range m {
				b, _ := hex.DecodeString(v)
				put(known.publics, k, b)
			}
		}
		for _, e := range rotErrs[g] {
			res.Vs.Add("rotate-error:"+tag, "cache=%s: %s", c.Cache, e)
		}
	}
	for _, k := range keysInPlay {
		if err := learn(after, known, k); err != nil {
			res.Vs.Add("read-error:"+tag+"-after", "cache-less handle after the round: current key of %s: %v", k, err)
		}
		if kshist.HasAllKeys(k.kind) {
			all, err := after.All(k.kind, k.id)
			if err != nil {
				res.Vs.Add("read-error:"+tag+"-after", "cache-less handle after the round: all keys of %s: %v", k, err)
			}
			// every generation the rotator learnt must still be on storage
			have := map[string]bool{}
			for _, b := range all {
				have[hex.EncodeToString(b)] = true
			}
			for v := range known.secrets[k] {
				if err == nil && !have[v] {
					res.Vs.Add("generation-lost:"+tag, "cache=%s: a key of %s that was current after one of the rotations (…%s) is not among the %d keys on storage after the round", c.Cache, k, short(v), len(all))
				}
			}
			for _, b := range all {
				put(known.secrets, k, b)
			}
		}
	}
	hist("round "+tag+" cache=%s readers=%d rotators=%d keys=%d rotations=%d", c.Cache, c.Readers, c.Rotators, len(keysInPlay), res.Rotations)
	for g, o := range readers {
		res.Reads += o.reads
		for _, e := range o.errs {
			res.Vs.Add("read-error:"+tag, "cache=%s reader %d: %s", c.Cache, g, e)
		}
		check := func(what string, got, want map[keyID]map[string]bool) {
			for k, m := range got {
				for v := range m {
					if !want[k][v] {
						owner := "no key of this keystore"
						for k2, m2 := range want {
							if m2[v] {
								owner = "a key of " + k2.String()
							}
						}
						res.Vs.Add("foreign-key-value:"+tag, "cache=%s reader %d: a read of %s returned a %s (%d bytes, …%s) that was never generated for it: it is %s; %d values are known for %s", c.Cache, g, k, what, len(v)/2, short(v), owner, len(want[k]), k)
					}
				}
			}
		}
		check("secret", o.secrets, known.secrets)
		check("public key", o.publics, known.publics)
		hist("reader %d: %d reads, %d errors", g, o.reads, len(o.errs))
	}
	return res
}

func tokenRound(c RaceCase) (res roundRes) {
	st, err := storage.NewMemoryTokenStorage()
	if err != nil {
		res.Vs.Add("harness:tokens", "%v", err)
		return
	}
	const nIDs = 48
	ctxOf := func(i int) tokens.TokenContext {
		// a context is a client id (a non-empty AdditionalContext, the former zone, would replace it)
		return tokens.TokenContext{ClientID: []byte(c.IDs[i%len(c.IDs)])}
	}
	type slot struct{ id, ctx int }
	nctx := len(c.IDs)
	dataOf := func(saver int, s slot) []byte {
		return []byte(fmt.Sprintf("value of id %d context %d saved by %d", s.id, s.ctx, saver))
	}
	var stop atomic.Bool
	var wg sync.WaitGroup
	won := make([]map[slot]bool, c.Rotators)
	saveErrs := make([][]string, c.Rotators)
	type seen struct {
		vals map[slot]map[string]bool
		errs []string
		n    int
	}
	getters := make([]*seen, c.Readers)
	for g := 0; g < c.Rotators; g++ {
		won[g] = map[slot]bool{}
		wg.Add(1)
		go func(g int) {
			defer wg.Done()
			rng := xorshift(c.Seed + uint64(g) + 77)
			for !stop.Load() {
				s := slot{rng.intn(nIDs), rng.intn(nctx)}
				err := st.Save([]byte{byte(s.id)}, ctxOf(s.ctx), dataOf(g, s))
				switch err {
				case nil:
					if won[g][s] && len(saveErrs[g]) < 20 {
						saveErrs[g] = append(saveErrs[g], fmt.Sprintf("Save of id %d context %d succeeded twice for the same saver", s.id, s.ctx))
					}
					won[g][s] = true
				case tokens.ErrTokenExists:
				default:
					if len(saveErrs[g]) < 20 {
						saveErrs[g] = append(saveErrs[g], fmt.Sprintf("Save of id %d context %d: %v", s.id, s.ctx, err))
					}
				}
			}
		}(g)
	}
	for g := 0; g < c.Readers; g++ {
		getters[g] = &seen{vals: map[slot]map[string]bool{}}
		wg.Add(1)
		go func(g int) {
			defer wg.Done()
			o := getters[g]
			rng := xorshift(c.Seed + uint64(g)*31 + 5)
			for !stop.Load() {
				s := slot{rng.intn(nIDs), rng.intn(nctx)}
				o.n++
				if rng.intn(4) == 0 {
					if _, err := st.Stat([]byte{byte(s.id)}, ctxOf(s.ctx)); err != nil && err != tokens.ErrTokenNotFound && len(o.errs) < 20 {
						o.errs = append(o.errs, fmt.Sprintf("Stat of id %d context %d: %v", s.id, s.ctx, err))
					}
					continue
				}
				v, err := st.Get([]byte{byte(s.id)}, ctxOf(s.ctx))
				if err == tokens.ErrTokenNotFound {
					continue
				}
				if err != nil {
					if len(o.errs) < 20 {
						o.errs = append(o.errs, fmt.Sprintf("Get of id %d context %d: %v", s.id, s.ctx, err))
					}
					continue
				}
				if o.vals[s] == nil {
					o.vals[s] = map[string]bool{}
				}
				o.vals[s][string(v)] = true
			}
		}(g)
	}
	time.Sleep(time.Duration(c.Millis) * time.Millisecond)
	stop.Store(true)
	wg.Wait()
	winner := map[slot]int{}
	for g := range won {
		for s := range won[g] {
			if w, ok := winner[s]; ok {
				res.Vs.Add("token-saved-twice:memory", "Save of id %d context %d returned success to savers %d and %d", s.id, s.ctx, w, g)
			}
			winner[s] = g
			res.Rotations++
		}
		for _, e := range saveErrs[g] {
			res.Vs.Add("token-save-error:memory", "%s", e)
		}
	}
	for s, w := range winner {
		v, err := st.Get([]byte{byte(s.id)}, ctxOf(s.ctx))
		if err != nil || !bytes.Equal(v, dataOf(w, s)) {
			res.Vs.Add("token-value:memory", "after the round Get of id %d context %d returns %q (%v), saver %d had stored %q", s.id, s.ctx, v, err, w, dataOf(w, s))
		}
	}
	for g, o := range getters {
		res.Reads += o.n
		for _, e := range o.errs {
			res.Vs.Add("token-read-error:memory", "getter %d: %s", g, e)
		}
		for s, m := range o.vals {
			for v := range m {
				w, ok := winner[s]
				if !ok || v != string(dataOf(w, s)) {
					res.Vs.Add("token-value:memory", "getter %d: Get of id %d context %d returned %q, which is not what the successful Save stored", g, s.id, s.ctx, v)
				}
			}
		}
	}
	res.History = append(res.History, fmt.Sprintf("round tokens savers=%d getters=%d contexts=%d saved=%d gets=%d", c.Rotators, c.Readers, nctx, res.Rotations, res.Reads))
	return res
}

// ---- parent -------------------------------------------------------------------------------------

// raceReports extracts the race detector's reports from the child's output: one line per distinct
// pair of conflicting accesses, named by the innermost acra frame of each stack.
func raceReports(out string) []string {
	var reports []string
	seen := map[string]bool{}
	for _, block := range strings.Split(out, "==================") {
		if !strings.Contains(block, "WARNING: DATA RACE") {
			continue
		}
		var tops []string
		for _, sec := range strings.Split(block, "\n\n") {
			lines := strings.Split(strings.TrimSpace(sec), "\n")
			if len(lines) == 0 {
				continue
			}
			head := strings.TrimSpace(strings.TrimPrefix(lines[0], "WARNING: DATA RACE"))
			if head == "" && len(lines) > 1 {
				lines = lines[1:]
				head = strings.TrimSpace(lines[0])
			}
			if !(strings.HasPrefix(head, "Write at") || strings.HasPrefix(head, "Read at") || strings.HasPrefix(head, "Previous write at") || strings.HasPrefix(head, "Previous read at")) {
				continue
			}
			access := strings.ToLower(strings.Fields(head)[0])
			if access == "previous" {
				access = strings.ToLower(strings.Fields(head)[1])
			}
			top, first := "", ""
			for _, l := range lines[1:] {
				l = strings.TrimSpace(l)
				if l == "" || strings.HasPrefix(l, "/") || !strings.HasSuffix(l, ")") {
					continue
				}
				fn := l[:strings.LastIndex(l, "(")]
				if first == "" {
					first = fn
				}
				if strings.Contains(fn, "cossacklabs/acra/") {
					top = fn[strings.LastIndex(fn, "/")+1:]
					break
				}
			}
			if top == "" {
				top = first
			}
			tops = append(tops, access+" in "+top)
		}
		key := strings.Join(tops, " <-> ")
		if !seen[key] {
			seen[key] = true
			reports = append(reports, key)
		}
	}
	return reports
}

// runRounds runs the rounds in a child process and returns the violations per target plus counters.
func runRounds(rounds []RaceCase, timeout time.Duration) (vsByTarget map[string]hx.Vs, results []roundRes, output string, harness string) {
	vsByTarget = map[string]hx.Vs{}
	tmp, err := os.MkdirTemp("", "c17-race-")
	if err != nil {
		return nil, nil, "", err.Error()
	}
	defer os.RemoveAll(tmp)
	j := job{Rounds: rounds, Out: filepath.Join(tmp, "results.json")}
	jb, _ := json.Marshal(j)
	jobPath := filepath.Join(tmp, "job.json")
	os.WriteFile(jobPath, jb, 0o644)
	cmd := exec.Command(os.Args[0], "-test.run=^TestV1RaceWorker$", "-test.count=1", "-test.timeout="+timeout.String())
	cmd.Env = append(os.Environ(), workerEnv+"="+jobPath, "VERIF_OUT="+tmp, "TMPDIR="+tmp, "GORACE=halt_on_error=0")
	var buf bytes.Buffer
	cmd.Stdout, cmd.Stderr = &buf, &buf
	runErr := cmd.Run()
	output = buf.String()
	if rb, err := os.ReadFile(j.Out); err == nil {
		json.Unmarshal(rb, &results)
	}
	for i, r := range results {
		if i < len(rounds) {
			vsByTarget[rounds[i].Target] = append(vsByTarget[rounds[i].Target], r.Vs...)
		}
	}
	base := "v1" // the key store of the chunk: TestV1Race keeps v1 and v2 rounds in separate children
	for _, c := range rounds {
		if c.Target == "v2" {
			base = "v2"
		}
	}
	target := base
	if len(rounds) > 0 && len(results) < len(rounds) {
		target = rounds[len(results)].Target // the round that was running when the child died
	}
	if reports := raceReports(output); len(reports) > 0 {
		// attribute to the target whose frames appear; default v1
		sig := "data-race:" + base
		if strings.Contains(strings.Join(reports, " "), "MemoryTokenStorage") {
			sig = "data-race:tokens"
		}
		tail := output
		if i := strings.Index(tail, "WARNING: DATA RACE"); i >= 0 {
			tail = tail[i:]
		}
		if len(tail) > 2500 {
			tail = tail[:2500] + "…"
		}
		var v hx.Vs
		v.Add(sig, "the race detector reported %d distinct conflicting access pairs: %s || first report: %s", len(reports), strings.Join(reports, " | "), tail)
		t := base
		if sig == "data-race:tokens" {
			t = "tokens"
		}
		vsByTarget[t] = append(v, vsByTarget[t]...)
	} else if strings.Contains(output, "fatal error: concurrent map") {
		i := strings.Index(output, "fatal error: concurrent map")
		tail := output[i:]
		if len(tail) > 2000 {
			tail = tail[:2000] + "…"
		}
		var v hx.Vs
		v.Add("data-race:"+target, "the runtime stopped the process: %s", tail)
		vsByTarget[target] = append(v, vsByTarget[target]...)
	} else if runErr != nil {
		tail := output
		if len(tail) > 3000 {
			tail = tail[len(tail)-3000:]
		}
		if i := strings.Index(output, "panic: "); i >= 0 && !strings.Contains(output, "test timed out") {
			var v hx.Vs
			site := hx.PanicFunc(output[i:])
			v.Add("panic:"+target+"race@"+site, "the workload process panicked: %s", tail)
			vsByTarget[target] = append(v, vsByTarget[target]...)
		} else {
			harness = fmt.Sprintf("child process failed (%v) without a race report or a panic: %s", runErr, tail)
		}
	}
	return vsByTarget, results, output, harness
}

func TestV1Race(t *testing.T) {
	R.Rule("TestV1Race", "runtime-scheduled (-race build): rounds of 400 ms in which 2-6 reader goroutines read current/all keys of 2-4 ids x 2-5 key kinds through ONE v1 keystore handle (cache size 1 in 2/3 of the rounds, unbounded otherwise; warm or cold) while 1-2 rotator goroutines (one writer per key) rotate those keys through the same handle; 1 round in 6 exercises the in-memory token storage (Save/Get/Stat). Oracle: every value returned belongs to the set of keys ever generated for that id and kind, no error, nothing lost on storage, no race report. Rounds are generated by rapid, executed in a child process of the test binary; non-trivial = the round made reads while rotations happened. Evaluations count rounds; reads and rotations are in the notes.")
	if !raceEnabled {
		R.Note("TestV1Race: this binary is built without the race detector; only the value oracle is active")
	}
	n := hx.Checks(28, 360)
	var rounds []RaceCase
	rapid.Check(t, func(rt *rapid.T) { rounds = append(rounds, genRace(rt)) })
	if len(rounds) > n {
		rounds = rounds[:n]
	}
	// v2 rounds go last and into children of their own: a race report carries no round number
	sort.SliceStable(rounds, func(i, j int) bool { return rounds[i].Target != "v2" && rounds[j].Target == "v2" })
	// one child per chunk keeps a failure close to its round
	const chunk = 14
	reads, rots := 0, 0
	for at, end := 0, 0; at < len(rounds); at = end {
		end = at + chunk
		if end > len(rounds) {
			end = len(rounds)
		}
		for e := at + 1; e < end; e++ {
			if (rounds[e].Target == "v2") != (rounds[at].Target == "v2") {
				end = e
			}
		}
		part := rounds[at:end]
		vsBy, results, _, harness := runRounds(part, 20*time.Minute)
		for i, c := range part {
			nontrivial := false
			if i < len(results) {
				reads += results[i].Reads
				rots += results[i].Rotations
				nontrivial = results[i].Reads > 0 && (results[i].Rotations > 0 || (c.Target == "v2" && c.Rotators == 0))
			}
			cls := []string{"target:" + c.Target}
			if c.Target == "v2" {
				cls = append(cls, "backend:"+c.Cache, fmt.Sprintf("rotators:%d", c.Rotators))
			}
			if c.Target != "tokens" {
				cls = append(cls, "cache:"+c.Cache, fmt.Sprintf("warm:%v", c.Warm))
				for _, k := range c.Kinds {
					cls = append(cls, "kind:"+k)
				}
			}
			R.Seen("TestV1Race", c, nontrivial, cls...)
		}
		if harness != "" {
			R.Note("TestV1Race: inconclusive: %s", harness)
			t.Errorf("inconclusive: %s", harness)
			return
		}
		for _, target := range []string{"v1", "v2", "tokens"} {
			vs := vsBy[target]
			if len(vs) == 0 {
				continue
			}
			// the saved case is the first round of that target in the chunk (a racy failure has no
			// deterministic replay: the replay re-runs that workload many times)
			var c RaceCase
			for _, x := range part {
				if x.Target == target {
					c = x
					break
				}
			}
			c.Repeat = 12
			var hs []string
			for _, r := range results {
				hs = append(hs, r.History...)
			}
			for _, v := range vs {
				t.Logf("violation %s: %.700s", v.Sig, v.Msg)
			}
			if len(hs) > 0 {
				R.Note("TestV1Race: history of the failing chunk: %s", strings.Join(hs, " | "))
			}
			R.Report(t, "TestV1Race", c, vs)
		}
	}
	R.Note("TestV1Race: %d rounds, %d reads, %d rotations/saves (race detector: %v)", len(rounds), reads, rots, raceEnabled)
	R.Class("TestV1Race", fmt.Sprintf("race-detector:%v", raceEnabled))
}

func replayRace(raw json.RawMessage) hx.Vs {
	var c RaceCase
	if err := json.Unmarshal(raw, &c); err != nil {
		return hx.Vs{{Sig: "harness:replay", Msg: err.Error()}}
	}
	n := c.Repeat
	if n < 1 {
		n = 1
	}
	var rounds []RaceCase
	for i := 0; i < n; i++ {
		x := c
		x.Repeat = 0
		x.Seed += uint64(i)
		rounds = append(rounds, x)
	}
	if !raceEnabled {
		R.Note("TestReplay: a TestV1Race case is replayed by a binary without the race detector; only the value oracle is active")
	}
	vsBy, _, _, harness := runRounds(rounds, 20*time.Minute)
	if harness != "" {
		R.Note("TestReplay: TestV1Race replay inconclusive: %s", harness)
	}
	return append(append(vsBy["v1"], vsBy["v2"]...), vsBy["tokens"]...)
}
