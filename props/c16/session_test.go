package c16

import (
	"errors"
	"fmt"
	"os"
	"strings"
	"testing"
	"time"

	"pgregory.net/rapid"

	acracensor "github.com/cossacklabs/acra/acra-censor"
	censorcommon "github.com/cossacklabs/acra/acra-censor/common"
	"github.com/cossacklabs/acra/sqlparser"

	"verif/internal/fix"
	"verif/internal/hx"
	"verif/internal/pgsess"
	"verif/internal/sqlgen"
)

// Step is one statement of a session.
type Step struct {
	Case
	Ext bool `json:"ext"` // extended protocol (Parse/Bind/Execute/Sync) instead of a simple query
}

// SessCase is a PostgreSQL session through the proxy: statements, firewall, parser mode, logging.
type SessCase struct {
	Steps  []Step     `json:"steps"`
	Censor *CensorCfg `json:"censor,omitempty"` // nil: acra-server without a firewall configuration
	Mode   string     `json:"mode"`             // default (what acra-server uses unless told otherwise) | strict
	Level  string     `json:"level"`
	Format string     `json:"format"`
}

// the encryptor configuration of the session: statements of the generator touch these tables now and then
const sessionSchema = `schemas:
  - table: t1
    columns:
      - id
      - a
      - b
      - c
      - d
    encrypted:
      - column: a
      - column: b
        searchable: true
  - table: t2
    columns:
      - id
      - a
      - b
      - c
      - d
    encrypted:
      - column: c
        crypto_envelope: acrablock
`

func genSessCase(t *rapid.T) SessCase {
	c := SessCase{Mode: rapid.SampledFrom([]string{"default", "default", "default", "strict"}).Draw(t, "mode"),
		Level: logLevels[weighted(t, "level", 7, 2, 1)], Format: rapid.SampledFrom(logFormats).Draw(t, "format")}
	if rapid.IntRange(0, 9).Draw(t, "censor") < 6 {
		cfg := genCensorCfg(t)
		c.Censor = &cfg
	}
	n := rapid.IntRange(1, 6).Draw(t, "nsteps")
	for i := 0; i < n; i++ {
		c.Steps = append(c.Steps, Step{Case: genStatement(t, sqlgen.PostgreSQL, genSource(t)), Ext: rapid.Bool().Draw(t, "ext")})
	}
	return c
}

// runStep sends one statement and collects the reply, unless the proxy reports that it gives the
// connection up (acra-server would close it; the harness does that then).
func runStep(s *pgsess.Session, st Step, name string) (rep *pgsess.Reply, err error, closed bool) {
	if st.Ext {
		err = s.SendExtended(pgsess.Ext{SQL: st.SQL, StmtName: name})
	} else {
		err = s.SendQuery(st.SQL)
	}
	if err != nil {
		return nil, err, false
	}
	type result struct {
		rep *pgsess.Reply
		err error
	}
	done := make(chan result, 1)
	go func() {
		r, e := s.Collect()
		done <- result{r, e}
	}()
	select {
	case r := <-done:
		if r.err != nil && !errors.Is(r.err, pgsess.ErrTimeout) {
			// the harness closes the connections on the first proxy error, as acra-server does
			select {
			case <-s.ProxyErrs:
				return r.rep, r.err, true
			case <-time.After(2 * time.Second):
			}
		}
		return r.rep, r.err, false
	case <-s.ProxyErrs:
		s.HangUp()
		r := <-done
		return r.rep, r.err, true
	}
}

type sessInfo struct {
	steps        []parsed
	classes      map[string]bool
	inconclusive bool
}

// CheckSession runs the statements through the real PostgreSQL proxy with the log hook attached.
func CheckSession(c SessCase) (vs hx.Vs, info sessInfo) {
	sqlgen.SetDialect(sqlgen.PostgreSQL)
	info.classes = map[string]bool{}
	w := fix.TheWorld()
	dir := fix.TempDir("c16-sess-")
	defer os.RemoveAll(dir)
	censorcommon.DefaultSerializationTimeout = time.Millisecond
	defer func() { censorcommon.DefaultSerializationTimeout = time.Second }()

	for _, st := range c.Steps {
		info.steps = append(info.steps, analyse(st.Case))
	}
	lc := startCapture(c.Level, c.Format)
	defer lc.stop()

	censor := acracensor.NewAcraCensor()
	defer censor.ReleaseAll()
	if c.Censor != nil {
		// the statements of the session are the client's, not the operator's: no "self" queries here
		cfg := *c.Censor
		cfg.Handlers = append([]HandlerSpec(nil), cfg.Handlers...)
		for i := range cfg.Handlers {
			cfg.Handlers[i].Self = false
		}
		yml, _, _ := cfg.yamlOf(dir, "", false)
		if err := censor.LoadConfiguration([]byte(yml)); err != nil {
			vs.Add("harness:censor-config", "configuration rejected: %v\n%s", err, yml)
			return vs, info
		}
	}
	mode := sqlparser.ModeDefault
	if c.Mode == "strict" {
		mode = sqlparser.ModeStrict
	}
	start := func() (*pgsess.Session, error) {
		return pgsess.Start(pgsess.Config{SchemaYAML: sessionSchema, KeyStore: w.KS, ClientID: w.Alice, Censor: censor, ParserMode: mode, Timeout: 5 * time.Second})
	}
	s, err := start()
	if err != nil {
		vs.Add("harness:start", "%v", err)
		return vs, info
	}
	defer func() { s.Close() }()
	for i, st := range c.Steps {
		p := info.steps[i]
		all := make([]located, len(st.Markers))
		for j, m := range st.Markers {
			all[j] = located{Marker: m}
		}
		me, mo := lc.mark()
		proto := "simple"
		if st.Ext {
			proto = "extended"
		}
		rep, err, closed := runStep(s, st, fmt.Sprintf("s%d", i))
		if closed {
			// one of the proxy's loops gave up (acra-server closes the connection then): the session is over,
			// what was logged on the way counts
			info.classes["proxy-closed-session"] = true
			info.classes["proxy-closed-session:"+proto] = true
			n := len(vs)
			checkEntries(&vs, "session-log", lc.since(me, mo), p, all)
			if len(vs) > n {
				vs[len(vs)-1].Msg = fmt.Sprintf("step %d (%s protocol, parser mode %s): %s", i, proto, c.Mode, vs[len(vs)-1].Msg)
			}
			// the client connects again for the rest of its statements
			s.Close()
			if s, err = start(); err != nil {
				vs.Add("harness:start", "%v", err)
				return vs, info
			}
			continue
		}
		if errors.Is(err, pgsess.ErrTimeout) {
			info.inconclusive = true
			R.Note("inconclusive: deadline in step %d (%.120q)", i, st.SQL)
			return vs, info
		}
		if err != nil {
			if ps := s.Panics(); len(ps) > 0 {
				// a crashing handler is C14's business; what was logged until then still counts
				info.classes["handler-panicked (C14)"] = true
				notePanic("pg-proxy:"+hx.PanicFunc(ps[0]), st.SQL, fmt.Sprintf("PostgreSQL proxy, %s protocol: %.600s", proto, ps[0]))
			} else {
				info.classes["session-ended-early"] = true
			}
			checkEntries(&vs, "session-log", lc.since(me, mo), p, all)
			return vs, info
		}
		info.classes["proto:"+proto] = true
		kind := "accepted"
		switch {
		case !p.ok:
			kind = "rejected-by-parser"
		case rep != nil && len(rep.Errors) > 0 && strings.Contains(strings.Join(rep.Errors, " "), "AcraCensor"):
			kind = "censored"
		}
		info.classes["step:"+kind] = true
		info.classes["step:"+kind+":"+proto] = true
		entries := lc.since(me, mo)
		for _, e := range entries {
			if v, ok := e.Fields["sql"]; ok && e.Line == "" {
				if strings.Contains(v, "replaced") {
					info.classes["sink:proxy-log-shows-redacted-text"] = true
					info.classes["sink:proxy-log-shows-redacted-text:"+proto] = true
				}
			}
			if strings.Contains(e.Msg, "query: '") {
				info.classes["sink:censor-log-shows-redacted-text"] = true
			}
		}
		if len(entries) > 0 {
			info.classes["sink:entries-captured"] = true
		}
		n := len(vs)
		checkEntries(&vs, "session-log", entries, p, all)
		if len(vs) > n {
			vs[len(vs)-1].Msg = fmt.Sprintf("step %d (%s protocol, parser mode %s): %s", i, proto, c.Mode, vs[len(vs)-1].Msg)
		}
	}
	sweepSession(&vs, "session-log", lc, c, info)
	return vs, info
}

// sweepSession looks once more at everything logged during the session with the markers of every
// statement (entries written by the database-to-client loop may arrive after the reply was collected).
func sweepSession(vs *hx.Vs, sink string, lc *logCapture, c SessCase, info sessInfo) {
	if len(*vs) > 0 {
		return
	}
	entries := lc.snapshot()
	for i, st := range c.Steps {
		if i >= len(info.steps) {
			break
		}
		all := make([]located, len(st.Markers))
		for j, m := range st.Markers {
			all[j] = located{Marker: m}
		}
		n := len(*vs)
		checkEntries(vs, sink, entries, info.steps[i], all)
		if len(*vs) > n {
			(*vs)[len(*vs)-1].Msg = fmt.Sprintf("statement %d, found after the session: %s", i, (*vs)[len(*vs)-1].Msg)
			return
		}
	}
}

func sessClasses(c SessCase, info sessInfo) []string {
	seen := map[string]bool{"level:" + c.Level: true, "format:" + c.Format: true, "mode:" + c.Mode: true}
	if c.Censor == nil {
		seen["cfg:no-firewall"] = true
	} else {
		for _, h := range c.Censor.Handlers {
			seen["cfg:"+h.Kind] = true
		}
	}
	for i, st := range c.Steps {
		if i < len(info.steps) {
			for _, cl := range stmtClasses(st.Case, info.steps[i]) {
				if !strings.HasPrefix(cl, "pos*spell:") {
					seen[cl] = true
				}
			}
		}
	}
	for k := range info.classes {
		seen[k] = true
	}
	if info.inconclusive {
		seen["inconclusive-deadline"] = true
	}
	return sortedKeys(seen)
}

func sessNontrivial(c SessCase, info sessInfo) bool {
	for i, st := range c.Steps {
		if i < len(info.steps) && nontrivial(st.Case, info.steps[i]) {
			return true
		}
	}
	return false
}

func TestSessionLogs(t *testing.T) {
	if d := envDialect(); d != "" && d != sqlgen.PostgreSQL {
		t.Skip("sessions run in the PostgreSQL group")
	}
	R.Rule("TestSessionLogs", "1-6 marker statements (as TestRedact, PostgreSQL dialect) per session through acra's real PostgreSQL proxy (internal/pgsess: scripted client, typed fake database, encryptor configuration for t1/t2), simple and extended protocol, parser mode default|strict, with or without a loaded firewall configuration, log level debug|info|warning, format plaintext|json|cef; the hook on the standard logger captures every entry of proxy, firewall and encryptor; no marker of a statement in any entry logged while it is handled; non-trivial as TestRedact for at least one statement")
	hx.Checks(50, 600)
	rapid.Check(t, func(rt *rapid.T) {
		c := genSessCase(rt)
		vs, info := CheckSession(c)
		R.Seen("TestSessionLogs", c, sessNontrivial(c, info), sessClasses(c, info)...)
		R.Report(rt, "TestSessionLogs", c, vs)
	})
}
