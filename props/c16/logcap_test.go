package c16

import (
	"bytes"
	"fmt"
	"sort"
	"sync"

	"github.com/sirupsen/logrus"

	"github.com/cossacklabs/acra/logging"
)

// H-logs: everything acra writes through logrus' standard logger while a case runs. A hook records
// the message and every field value of every entry the configured level lets through; the logger's
// output (the line produced by acra's own formatter: plaintext, JSON or CEF) is recorded as well.
// stop() puts the logger back exactly as it was (other code in the process expects it quiet).

type logEntry struct {
	Level  string
	Msg    string
	Fields map[string]string
	Line   string // only for the pseudo entry holding the formatted output
}

type logPart struct{ where, text string }

func (e logEntry) parts() []logPart {
	if e.Line != "" {
		return []logPart{{"formatted output", e.Line}}
	}
	out := []logPart{{"message", e.Msg}}
	keys := make([]string, 0, len(e.Fields))
	for k := range e.Fields {
		keys = append(keys, k)
	}
	sort.Strings(keys)
	for _, k := range keys {
		out = append(out, logPart{"field " + k, e.Fields[k]})
	}
	return out
}

type logCapture struct {
	mu      sync.Mutex
	entries []logEntry
	out     bytes.Buffer
	stopped bool

	savedLevel     logrus.Level
	savedOut       interface{ Write([]byte) (int, error) }
	savedFormatter logrus.Formatter
	savedHooks     logrus.LevelHooks
}

func (c *logCapture) Levels() []logrus.Level { return logrus.AllLevels }

func (c *logCapture) Fire(e *logrus.Entry) error {
	le := logEntry{Level: e.Level.String(), Msg: e.Message, Fields: map[string]string{}}
	for k, v := range e.Data {
		switch x := v.(type) {
		case error:
			le.Fields[k] = x.Error()
		case []byte:
			le.Fields[k] = string(x)
		default:
			le.Fields[k] = fmt.Sprint(v)
		}
	}
	c.mu.Lock()
	if !c.stopped {
		c.entries = append(c.entries, le)
	}
	c.mu.Unlock()
	return nil
}

func (c *logCapture) Write(b []byte) (int, error) {
	c.mu.Lock()
	if !c.stopped {
		c.out.Write(b)
	}
	c.mu.Unlock()
	return len(b), nil
}

var logLevels = []string{"debug", "info", "warning"}
var logFormats = []string{logging.PlaintextFormatString, logging.JSONFormatString, logging.CefFormatString}

// startCapture configures the standard logger the way acra's services do (logging.SetLogLevel,
// logging.CreateFormatter) and attaches the hook.
func startCapture(level, format string) *logCapture {
	std := logrus.StandardLogger()
	c := &logCapture{savedLevel: std.GetLevel(), savedOut: std.Out, savedFormatter: std.Formatter}
	hooks := make(logrus.LevelHooks)
	hooks.Add(c)
	c.savedHooks = std.ReplaceHooks(hooks)
	std.SetOutput(c)
	logging.CreateFormatter(format) // sets the formatter of the standard logger
	switch level {
	case "debug":
		logging.SetLogLevel(logging.LogDebug)
	case "info":
		logging.SetLogLevel(logging.LogVerbose)
	default:
		logging.SetLogLevel(logging.LogDiscard)
	}
	return c
}

// stop restores the logger; later writes of lingering goroutines are dropped.
func (c *logCapture) stop() {
	c.mu.Lock()
	already := c.stopped
	c.stopped = true
	c.mu.Unlock()
	if already {
		return
	}
	std := logrus.StandardLogger()
	std.ReplaceHooks(c.savedHooks)
	std.SetFormatter(c.savedFormatter)
	std.SetOutput(c.savedOut)
	std.SetLevel(c.savedLevel)
}

// snapshot returns the entries captured so far plus one pseudo entry with the formatted output.
func (c *logCapture) snapshot() []logEntry {
	c.mu.Lock()
	defer c.mu.Unlock()
	out := append([]logEntry(nil), c.entries...)
	if c.out.Len() > 0 {
		out = append(out, logEntry{Level: "any", Line: c.out.String()})
	}
	return out
}

// mark returns the number of entries so far (to look only at what came later).
func (c *logCapture) mark() (entries, outLen int) {
	c.mu.Lock()
	defer c.mu.Unlock()
	return len(c.entries), c.out.Len()
}

// since returns what was captured after mark.
func (c *logCapture) since(entries, outLen int) []logEntry {
	c.mu.Lock()
	defer c.mu.Unlock()
	out := append([]logEntry(nil), c.entries[entries:]...)
	if c.out.Len() > outLen {
		out = append(out, logEntry{Level: "any", Line: string(c.out.Bytes()[outLen:])})
	}
	return out
}
