package c16

import (
	"os"
	"path/filepath"
	"strings"
	"testing"
	"time"

	"gopkg.in/yaml.v2"
	"pgregory.net/rapid"

	acracensor "github.com/cossacklabs/acra/acra-censor"
	censorcommon "github.com/cossacklabs/acra/acra-censor/common"

	"verif/internal/fix"
	"verif/internal/hx"
	"verif/internal/sqlgen"
)

// HandlerSpec is one entry of the firewall configuration.
type HandlerSpec struct {
	Kind     string   `json:"kind"` // allow deny allowall denyall query_capture query_ignore
	Queries  []string `json:"queries,omitempty"`
	Tables   []string `json:"tables,omitempty"`
	Patterns []string `json:"patterns,omitempty"`
	Self     bool     `json:"self,omitempty"` // the case's own statement is one of the queries
}

// CensorCfg is a firewall configuration.
type CensorCfg struct {
	IgnoreParseError bool          `json:"ignore_parse_error"`
	ParseErrorFile   bool          `json:"parse_error_file"`
	Handlers         []HandlerSpec `json:"handlers"`
}

// CensorCase: a statement, a firewall configuration and a logging configuration.
type CensorCase struct {
	Case
	Cfg    CensorCfg `json:"cfg"`
	Level  string    `json:"level"`
	Format string    `json:"format"`
}

var censorPatterns = []string{"%%SELECT%%", "%%INSERT%%", "%%UPDATE%%", "%%DELETE%%", "%%UNION%%",
	"select %%COLUMN%% from t1", "select a from t1 where b = %%VALUE%%",
	"select a from t1 where b in (%%LIST_OF_VALUES%%)", "delete from t1 where a = %%VALUE%%", "insert into t1 values (%%VALUE%%)"}

var censorTables = []string{"t1", "t2", "a", "b", "tbl", "t", "zz9", "name1", "nosuchtable"}

var censorQueries = []string{"select 1 from dual", "select a from t1", "select * from t2 where a = 1", "delete from t1"}

func genRuleHandler(t *rapid.T, kind string) HandlerSpec {
	h := HandlerSpec{Kind: kind}
	if rapid.IntRange(0, 9).Draw(t, "h.tables") < 6 {
		h.Tables = rapid.SliceOfNDistinct(rapid.SampledFrom(censorTables), 1, 4, rapid.ID[string]).Draw(t, "tables")
	}
	if rapid.IntRange(0, 9).Draw(t, "h.patterns") < 5 {
		h.Patterns = rapid.SliceOfNDistinct(rapid.SampledFrom(censorPatterns), 1, 3, rapid.ID[string]).Draw(t, "patterns")
	}
	if rapid.IntRange(0, 9).Draw(t, "h.queries") < 4 {
		h.Queries = rapid.SliceOfNDistinct(rapid.SampledFrom(censorQueries), 1, 2, rapid.ID[string]).Draw(t, "queries")
		h.Self = rapid.Bool().Draw(t, "h.self")
	}
	if len(h.Tables)+len(h.Patterns)+len(h.Queries) == 0 {
		h.Tables = []string{"t1"}
	}
	return h
}

func genCensorCfg(t *rapid.T) CensorCfg {
	cfg := CensorCfg{IgnoreParseError: rapid.Bool().Draw(t, "ignore_parse_error"), ParseErrorFile: rapid.IntRange(0, 9).Draw(t, "parse_error_file") < 4}
	switch weighted(t, "cfg.shape", 1, 3, 3, 3, 2, 2, 1) {
	case 0:
		// no handlers at all
	case 1:
		cfg.Handlers = []HandlerSpec{{Kind: "query_capture"}, genRuleHandler(t, "deny")}
	case 2:
		cfg.Handlers = []HandlerSpec{genRuleHandler(t, "deny"), {Kind: "allowall"}}
	case 3:
		cfg.Handlers = []HandlerSpec{genRuleHandler(t, "allow"), {Kind: "denyall"}}
	case 4:
		cfg.Handlers = []HandlerSpec{{Kind: "query_capture"}, genRuleHandler(t, "allow"), genRuleHandler(t, "deny"), {Kind: "query_capture"}}
	case 5:
		cfg.Handlers = []HandlerSpec{{Kind: "query_capture"}, {Kind: rapid.SampledFrom([]string{"allowall", "denyall"}).Draw(t, "all")}}
	default:
		cfg.Handlers = []HandlerSpec{{Kind: "query_ignore", Queries: []string{"select 1 from dual"}, Self: rapid.Bool().Draw(t, "ignore.self")}, {Kind: "query_capture"}, {Kind: "denyall"}}
	}
	return cfg
}

// yamlOf renders the configuration; capture files live under dir. The statement itself can only be a
// configured query when the parser accepts it (the loader rejects other texts for allow / deny).
func (cfg CensorCfg) yamlOf(dir, self string, selfParses bool) (string, []string, string) {
	type handler struct {
		Handler  string   `yaml:"handler"`
		Queries  []string `yaml:"queries,omitempty"`
		Tables   []string `yaml:"tables,omitempty"`
		Patterns []string `yaml:"patterns,omitempty"`
		Filepath string   `yaml:"filepath,omitempty"`
	}
	doc := struct {
		Version          string    `yaml:"version"`
		IgnoreParseError bool      `yaml:"ignore_parse_error"`
		ParseErrorsLog   string    `yaml:"parse_errors_log,omitempty"`
		Handlers         []handler `yaml:"handlers"`
	}{Version: "0.85.0", IgnoreParseError: cfg.IgnoreParseError}
	parseErr := ""
	if cfg.ParseErrorFile {
		parseErr = filepath.Join(dir, "unparsed.log")
		doc.ParseErrorsLog = parseErr
	}
	var captures []string
	for i, h := range cfg.Handlers {
		y := handler{Handler: h.Kind, Queries: append([]string(nil), h.Queries...), Tables: h.Tables, Patterns: h.Patterns}
		if h.Self && (selfParses || h.Kind == "query_ignore") {
			y.Queries = append(y.Queries, self)
		}
		if h.Kind == "query_capture" {
			y.Filepath = filepath.Join(dir, "capture"+string(rune('a'+i))+".log")
			captures = append(captures, y.Filepath)
		}
		doc.Handlers = append(doc.Handlers, y)
	}
	b, err := yaml.Marshal(doc)
	if err != nil {
		panic(err)
	}
	return string(b), captures, parseErr
}

var notedPanics = map[string]bool{}

func notePanic(sig, sql, cfg string) {
	if !notedPanics[sig] {
		notedPanics[sig] = true
		R.Note("out of domain (see C14/C05): handler panicked (%s) on %q; context: %s", sig, sql, cfg)
	}
}

type censorInfo struct {
	p           parsed
	verdict     string // allowed | denied
	showedQuery bool   // some entry shows the redacted text
	captured    bool   // a capture file holds the redacted text
	parseErrLog bool   // the parse-error file holds the rejected statement
	entries     int
}

// waitFile polls a capture file until it has content (the writer is asynchronous). Absence after the
// wait only means that nothing can be asserted about the file in this case.
func waitFile(path string, want bool) string {
	deadline := 1
	if want {
		deadline = 60
	}
	for i := 0; i < deadline; i++ {
		if b, err := os.ReadFile(path); err == nil && len(b) > 0 {
			return string(b)
		}
		if i+1 < deadline {
			time.Sleep(time.Millisecond)
		}
	}
	return ""
}

// CheckCensor sends the statement through AcraCensor.HandleQuery with the configuration loaded.
func CheckCensor(c CensorCase) (vs hx.Vs, info censorInfo) {
	sqlgen.SetDialect(c.Dialect)
	p := analyse(c.Case)
	info.p = p
	if p.panicky {
		return vs, info
	}
	all := make([]located, len(c.Markers))
	for i, m := range c.Markers {
		all[i] = located{Marker: m}
	}
	dir := fix.TempDir("c16-censor-")
	defer os.RemoveAll(dir)
	censorcommon.DefaultSerializationTimeout = time.Millisecond // capture files are flushed on this tick
	defer func() { censorcommon.DefaultSerializationTimeout = time.Second }()

	lc := startCapture(c.Level, c.Format)
	defer lc.stop()
	censor := acracensor.NewAcraCensor()
	defer censor.ReleaseAll()
	yml, captures, parseErrFile := c.Cfg.yamlOf(dir, c.SQL, p.ok)
	if err := censor.LoadConfiguration([]byte(yml)); err != nil {
		vs.Add("harness:censor-config", "configuration rejected: %v\n%s", err, yml)
		return vs, info
	}
	// only what is logged while the statement is handled counts (the configuration is the operator's text)
	me, mo := lc.mark()
	var err error
	var pvs hx.Vs
	if hx.Guard(&pvs, "HandleQuery", func() { err = censor.HandleQuery(c.SQL) }) {
		// a crashing firewall is the business of C14 / C05; what it logged until then still counts here
		info.verdict = "panicked (C14)"
		notePanic(pvs[0].Sig, c.SQL, yml)
	} else {
		info.verdict = "allowed"
		if err != nil {
			info.verdict = "denied"
		}
	}
	entries := lc.since(me, mo)
	info.entries = len(entries)
	for _, e := range entries {
		if strings.Contains(e.Msg, "replaced") {
			info.showedQuery = true
		}
	}
	checkEntries(&vs, "censor-log", entries, p, all)
	// the files are written by background goroutines
	reachedCapture := p.ok && len(c.Cfg.Handlers) > 0 && c.Cfg.Handlers[0].Kind == "query_capture"
	for _, f := range captures {
		text := waitFile(f, reachedCapture)
		if text == "" {
			continue
		}
		if strings.Contains(text, "replaced") {
			info.captured = true
		}
		if p.ok {
			for _, l := range findLeaks(p.located, text) {
				vs.Add(leakSig("capture-file", l, text), "query capture file shows the %s literal %s (%s): %s", l.Spell, l.Text, l.clause(), short(text))
				break
			}
		} else if len(findLeaks(all, text)) > 0 {
			// query_capture is documented to skip statements that were not parsed
			vs.Add("leak:capture-file:unparsed-statement", "query capture file holds a statement the parser rejected: %s", short(text))
		}
	}
	if parseErrFile != "" {
		text := waitFile(parseErrFile, !p.ok)
		if p.ok && text != "" {
			vs.Add("parse-error-file-holds-accepted-statement", "the parse-error file got a statement the parser accepts: %s", short(text))
		}
		if !p.ok && len(findLeaks(all, text)) > 0 {
			info.parseErrLog = true // allowed: this file is where the operator asked for such statements
		}
	}
	return vs, info
}

func censorClasses(c CensorCase, info censorInfo) []string {
	cl := stmtClasses(c.Case, info.p)
	cl = append(cl, "level:"+c.Level, "format:"+c.Format, "verdict:"+info.verdict)
	if len(c.Cfg.Handlers) == 0 {
		cl = append(cl, "cfg:no-handlers")
	}
	for _, h := range c.Cfg.Handlers {
		cl = append(cl, "cfg:"+h.Kind)
	}
	if c.Cfg.ParseErrorFile {
		cl = append(cl, "cfg:parse-error-file")
	}
	if c.Cfg.IgnoreParseError {
		cl = append(cl, "cfg:ignore-parse-error")
	}
	if info.showedQuery {
		cl = append(cl, "sink:log-shows-redacted-text", "sink:log-shows-redacted-text:"+info.verdict, "sink:log-shows-redacted-text:"+c.Format)
	}
	if info.captured {
		cl = append(cl, "sink:capture-file-holds-redacted-text")
	}
	if info.parseErrLog {
		cl = append(cl, "sink:parse-error-file-holds-rejected-text")
	}
	if info.entries > 0 {
		cl = append(cl, "sink:entries-captured")
	}
	if !info.p.ok {
		cl = append(cl, "rejected:verdict:"+info.verdict)
	}
	return cl
}

func genCensorCase(t *rapid.T) CensorCase {
	return CensorCase{Case: genStatement(t, genDialect(t), genSource(t)), Cfg: genCensorCfg(t),
		Level: logLevels[weighted(t, "level", 4, 4, 2)], Format: rapid.SampledFrom(logFormats).Draw(t, "format")}
}

func TestCensorLogs(t *testing.T) {
	R.Rule("TestCensorLogs", "marker statements (as TestRedact) through AcraCensor.HandleQuery with a configuration loaded from generated YAML (none / allow / deny with tables, patterns, queries incl. the statement itself / allowall / denyall / query_ignore / query_capture to a temp file / parse_errors_log / ignore_parse_error) at log level debug|info|warning in format plaintext|json|cef; no marker in any log entry captured while the statement is handled, nor in the query-capture file; a rejected statement may only show up in the parse-error file; non-trivial as TestRedact")
	hx.Checks(300, 6000)
	rapid.Check(t, func(rt *rapid.T) {
		c := genCensorCase(rt)
		vs, info := CheckCensor(c)
		R.Seen("TestCensorLogs", c, nontrivial(c.Case, info.p), censorClasses(c, info)...)
		R.Report(rt, "TestCensorLogs", c, vs)
	})
}
