package c16

import (
	"errors"
	"fmt"
	"net"
	"os"
	"regexp"
	"sort"
	"strconv"
	"strings"
	"sync"
	"testing"
	"time"

	"pgregory.net/rapid"

	acracensor "github.com/cossacklabs/acra/acra-censor"
	censorcommon "github.com/cossacklabs/acra/acra-censor/common"
	"github.com/cossacklabs/acra/sqlparser"

	"verif/internal/fix"
	"verif/internal/gen"
	"verif/internal/hx"
	"verif/internal/mysess"
	"verif/internal/sqlgen"
)

// TestSessionLogsMySQL is the MySQL twin of TestSessionLogs on the shared session harness (internal/mysess: acra's
// real MySQL proxy between the scripted client and a scripted MySQL server). Compared with TestMySQLSessionLogs
// (lock-step connections, COM_QUERY / COM_STMT_PREPARE only) it executes the prepared statements: marker literals
// of the generated statement are turned into placeholders and bound as COM_STMT_EXECUTE parameters, so that the
// markers travel as literals of the text and as parameter values.

// MyParam is one value bound to a placeholder.
type MyParam struct {
	Marker Marker  `json:"marker"` // Needle / Alt must occur in no log entry
	Type   byte    `json:"type"`   // protocol type of the parameter
	Value  gen.Hex `json:"value"`  // wire bytes (without length prefix)
	// FromLiteral: the placeholder replaced this marker literal of the generated statement; otherwise the generator
	// wrote the placeholder itself and the value is a fresh marker
	FromLiteral bool `json:"from_literal,omitempty"`
}

// MyStep is one statement of a MySQL session.
type MyStep struct {
	Case             // the text as sent; Markers are the marker literals that stayed in the text
	Proto  string    `json:"proto"`            // query (COM_QUERY) | prepare (COM_STMT_PREPARE only) | execute (PREPARE + EXECUTE)
	Params []MyParam `json:"params,omitempty"` // execute: one per placeholder of the text, in order
	Again  bool      `json:"again,omitempty"`  // execute: a second COM_STMT_EXECUTE that does not repeat the parameter types
	// DB: how the scripted database answers the statement (the execution, for proto execute):
	// ok | rows | syntax-error (ERR 1064 quoting the tail of the statement, as MySQL does) |
	// duplicate-entry (ERR 1062 quoting a value of the statement / the first bound string)
	DB string `json:"db"`
}

// MyLogCase is a MySQL session through the proxy: statements, firewall, parser mode, logging.
type MyLogCase struct {
	Steps        []MyStep   `json:"steps"`
	Censor       *CensorCfg `json:"censor,omitempty"`
	Mode         string     `json:"mode"`
	Level        string     `json:"level"`
	Format       string     `json:"format"`
	Schema       string     `json:"schema"` // enc (the configuration of TestSessionLogs) | rich (tokenized, masked, typed columns as well)
	DeprecateEOF bool       `json:"deprecate_eof,omitempty"`
}

// the richer encryptor configuration: the statements of the generator write and compare t1 / t2 columns now and then,
// so literals and bound values reach the tokenizer, the searchable and masking encryptors and the type-aware encoder
const myRichSchema = `schemas:
  - table: t1
    columns:
      - id
      - a
      - b
      - c
      - d
    encrypted:
      - column: a
        token_type: int32
      - column: b
        searchable: true
      - column: c
        token_type: str
        consistent_tokenization: true
      - column: d
        data_type: int32
        response_on_fail: ciphertext
  - table: t2
    columns:
      - id
      - a
      - b
      - c
      - d
    encrypted:
      - column: a
      - column: b
        masking: "xxxx"
        plaintext_length: 2
        plaintext_side: left
      - column: c
        crypto_envelope: acrablock
      - column: d
        token_type: int64
        consistent_tokenization: true
`

// myPlaceholders returns the offsets of the ? placeholders of a MySQL statement text: question marks outside
// quoted strings ('..', "..", `..` with doubled quotes and backslash escapes) and comments (/* */, -- , #).
func myPlaceholders(sql string) []int {
	var out []int
	for i := 0; i < len(sql); i++ {
		switch c := sql[i]; {
		case c == '\'' || c == '"' || c == '`':
			i++
			for i < len(sql) {
				if sql[i] == '\\' && c != '`' {
					i += 2
					continue
				}
				if sql[i] == c {
					if i+1 < len(sql) && sql[i+1] == c {
						i += 2
						continue
					}
					break
				}
				i++
			}
		case c == '/' && i+1 < len(sql) && sql[i+1] == '*':
			j := strings.Index(sql[i+2:], "*/")
			if j < 0 {
				return out
			}
			i += 2 + j + 1
		case c == '#' || (c == '-' && i+2 < len(sql) && sql[i+1] == '-' && (sql[i+2] == ' ' || sql[i+2] == '\t' || sql[i+2] == '\n')):
			j := strings.IndexByte(sql[i:], '\n')
			if j < 0 {
				return out
			}
			i += j
		case c == '?':
			out = append(out, i)
		}
	}
	return out
}

var myStrTypes = []byte{mysess.TypeVarString, mysess.TypeString, mysess.TypeBlob, mysess.TypeVarchar}

// myParamFor renders the value of a marker literal as a parameter.
func myParamFor(t *rapid.T, m Marker, label string) (MyParam, bool) {
	p := MyParam{Marker: m, FromLiteral: true}
	switch m.Spell {
	case "sq", "sq-escaped", "dq", "dq-escaped":
		p.Type = rapid.SampledFrom(myStrTypes).Draw(t, label+".type")
		p.Value = []byte(m.Needle)
	case "hex-x", "hex-0x":
		p.Type = rapid.SampledFrom([]byte{mysess.TypeBlob, mysess.TypeLongBlob, mysess.TypeVarString}).Draw(t, label+".type")
		p.Value = []byte(m.Alt)
	case "int", "int-negative":
		n, err := strconv.ParseInt(m.Text, 10, 64)
		if err != nil {
			return p, false
		}
		if rapid.IntRange(0, 3).Draw(t, label+".asstr") == 0 {
			p.Type, p.Value = mysess.TypeVarString, []byte(m.Text)
		} else {
			p.Type, p.Value = mysess.TypeLongLong, mysess.IntBytes(mysess.TypeLongLong, n)
		}
	case "int-leading-zero", "int-wider-than-64-bits", "decimal", "decimal-negative", "decimal-leading-dot", "decimal-trailing-dot", "exponent", "exponent-negative":
		// numbers a client library binds as text (DECIMAL / string)
		p.Type = rapid.SampledFrom([]byte{mysess.TypeNewDecimal, mysess.TypeVarString}).Draw(t, label+".type")
		p.Value = []byte(m.Text)
	default:
		return p, false
	}
	return p, true
}

// myFreshParam is a value for a placeholder the statement generator wrote itself.
func myFreshParam(t *rapid.T, id int, label string) MyParam {
	r := rapid.Uint64().Draw(t, label+".mrk")
	if rapid.Bool().Draw(t, label+".int") {
		d := fmt.Sprintf("%d%02d9%020d", 1+r%9, id%100, r)[:13]
		n, _ := strconv.ParseInt(d, 10, 64)
		return MyParam{Marker: Marker{ID: id, Spell: "param-int", Text: "?", Needle: d}, Type: mysess.TypeLongLong, Value: mysess.IntBytes(mysess.TypeLongLong, n)}
	}
	b := fmt.Sprintf("MRKp%02x%012x", id%256, r&0xffffffffffff)
	return MyParam{Marker: Marker{ID: id, Spell: "param-str", Text: "?", Needle: b}, Type: rapid.SampledFrom(myStrTypes).Draw(t, label+".type"), Value: []byte(b)}
}

// statements aimed at the columns of the rich configuration (tokenized int32 / int64 / str, searchable, masked, typed,
// acrablock): what the encryptor, the tokenizer and the searchable / consistent-tokenization filters do with a literal
// or a bound value depends on the column it belongs to. Filled in like the position templates of TestRedact.
var myConfigTemplates = []string{
	"select a, b from t2 where d = {v}",
	"select id from t1 where c = {v} and b = {v}",
	"select * from t1 where a = {v} or d = {v}",
	"update t2 set d = {v}, b = {v} where id = {n}",
	"update t1 set d = {v}, a = {v} where c = {v}",
	"insert into t2 (id, a, b, c, d) values ({n}, {v}, {v}, {v}, {v})",
	"insert into t1 (id, a, c, d) values ({n}, {v}, {v}, {v}), ({n}, {v}, {v}, {v})",
	"insert into t1 values ({n}, {v}, {v}, {v}, {v})",
	"replace into t2 (id, d, b) values ({n}, {v}, {v})",
	"insert into t1 (id, a) values ({n}, {v}) on duplicate key update a = {v}, c = {v}",
	"delete from t2 where d = {v}",
	"delete from t1 where c = {v} or b = {v}",
}

func genMyConfigStatement(t *rapid.T) Case {
	g := &markerGen{}
	c := Case{Dialect: sqlgen.MySQL, Src: "config-template"}
	c.SQL = fill(t, g, rapid.SampledFrom(myConfigTemplates).Draw(t, "config-template"))
	c.Markers = g.list
	return c
}

func genMyStep(t *rapid.T, idx int) MyStep {
	var c Case
	if rapid.IntRange(0, 3).Draw(t, "config-stmt") == 0 {
		c = genMyConfigStatement(t)
	} else {
		c = genStatement(t, sqlgen.MySQL, genSource(t))
	}
	st := MyStep{Case: c, Proto: []string{"query", "prepare", "execute"}[weighted(t, "proto", 3, 1, 4)],
		DB: []string{"ok", "rows", "syntax-error", "duplicate-entry"}[weighted(t, "db", 4, 3, 2, 2)]}
	if st.Proto != "execute" {
		return st
	}
	st.Again = rapid.IntRange(0, 3).Draw(t, "again") == 0
	// turn marker literals into placeholders, left to right
	type repl struct {
		at int
		m  Marker
		p  MyParam
	}
	var repls []repl
	keepAll := rapid.IntRange(0, 5).Draw(t, "keep-literals") == 0
	for i, m := range c.Markers {
		if keepAll || m.Text == "" || strings.Count(c.SQL, m.Text) != 1 || rapid.IntRange(0, 2).Draw(t, fmt.Sprintf("bind%d", i)) == 0 {
			continue
		}
		p, ok := myParamFor(t, m, fmt.Sprintf("p%d", i))
		if !ok {
			continue
		}
		repls = append(repls, repl{strings.Index(c.SQL, m.Text), m, p})
	}
	sort.Slice(repls, func(i, j int) bool { return repls[i].at < repls[j].at })
	var b strings.Builder
	mine := map[int]MyParam{} // offset of the placeholder in the new text -> value
	pos := 0
	bound := map[int]bool{}
	for _, r := range repls {
		if r.at < pos {
			continue // overlaps the previous literal
		}
		b.WriteString(c.SQL[pos:r.at])
		mine[b.Len()] = r.p
		b.WriteString("?")
		pos = r.at + len(r.m.Text)
		bound[r.m.ID] = true
	}
	b.WriteString(c.SQL[pos:])
	st.SQL = b.String()
	st.Markers = nil
	for _, m := range c.Markers {
		if !bound[m.ID] {
			st.Markers = append(st.Markers, m)
		}
	}
	for k, off := range myPlaceholders(st.SQL) {
		if p, ok := mine[off]; ok {
			st.Params = append(st.Params, p)
			delete(mine, off)
		} else {
			st.Params = append(st.Params, myFreshParam(t, 100*idx+k, fmt.Sprintf("fresh%d", k)))
		}
	}
	// a placeholder that ended up inside a comment or a quoted string (the literal was part of one) is no placeholder:
	// its value is not bound, the marker left the statement altogether
	return st
}

func genMyLogCase(t *rapid.T) MyLogCase {
	c := MyLogCase{Mode: rapid.SampledFrom([]string{"default", "default", "default", "strict"}).Draw(t, "mode"),
		Level: logLevels[weighted(t, "level", 7, 2, 1)], Format: rapid.SampledFrom(logFormats).Draw(t, "format"),
		Schema:       rapid.SampledFrom([]string{"enc", "rich", "rich"}).Draw(t, "schema"),
		DeprecateEOF: rapid.Bool().Draw(t, "deprecate_eof")}
	if rapid.IntRange(0, 9).Draw(t, "censor") < 6 {
		cfg := genCensorCfg(t)
		c.Censor = &cfg
	}
	n := rapid.IntRange(1, 6).Draw(t, "nsteps")
	for i := 0; i < n; i++ {
		c.Steps = append(c.Steps, genMyStep(t, i))
	}
	return c
}

// ---- the scripted database ------------------------------------------------------------------------

var reMarkerInText = regexp.MustCompile(`MRK[0-9a-zA-Z]{6,}|[0-9]{13,}`)

// myScriptedDB plays the MySQL server: it accepts every statement (a real server would refuse many of the generated
// ones; what it answers is the case's choice), reports as many parameters as the forwarded text has placeholders
// and answers executions with OK, a small result set or an error that quotes the statement the way MySQL does.
type myScriptedDB struct {
	mu       sync.Mutex
	behave   string
	received int
}

func (d *myScriptedDB) set(b string) { d.mu.Lock(); d.behave = b; d.mu.Unlock() }
func (d *myScriptedDB) get() string  { d.mu.Lock(); defer d.mu.Unlock(); return d.behave }
func (d *myScriptedDB) count() int   { d.mu.Lock(); defer d.mu.Unlock(); return d.received }

func myIsSelect(sql string) bool {
	s := strings.ToLower(strings.TrimLeft(sql, " \t\n(/"))
	return strings.HasPrefix(s, "select") || strings.Contains(s, "*/ select") || strings.Contains(s, "*/select")
}

func (d *myScriptedDB) errorFor(behave, sql string, params []mysess.Param) *mysess.Err {
	switch behave {
	case "syntax-error":
		tail := sql
		if len(tail) > 80 {
			tail = tail[len(tail)-80:]
		}
		return &mysess.Err{Code: 1064, State: "42000", Message: "You have an error in your SQL syntax; check the manual that corresponds to your MySQL server version for the right syntax to use near '" + tail + "' at line 1"}
	case "duplicate-entry":
		val := reMarkerInText.FindString(sql)
		for _, p := range params {
			if !p.Null && mysess.BinaryWidth(p.Type) == -1 && len(p.B) > 0 {
				val = string(p.B)
				break
			}
		}
		if val == "" {
			val = "1"
		}
		return &mysess.Err{Code: 1062, State: "23000", Message: "Duplicate entry '" + val + "' for key 't1.PRIMARY'"}
	}
	return nil
}

func (d *myScriptedDB) serve(conn net.Conn) {
	defer conn.Close()
	caps := uint32(mysess.DefaultCaps | mysess.CapDeprecateEOF | mysess.CapSessionTrack)
	hs := mysess.Handshake{ServerVersion: "8.0.33-verif", ConnID: 77, AuthData: []byte("abcdefghijklmnopqrst"), Caps: caps, Charset: 45,
		Status: mysess.StatusAutocommit, AuthPlugin: "mysql_native_password"}
	b, _ := mysess.AppendPacket(nil, 0, hs.Encode())
	if _, err := conn.Write(b); err != nil {
		return
	}
	p, err := mysess.ReadPacket(conn)
	if err != nil {
		return
	}
	resp, err := mysess.DecodeHandshakeResponse(p.Payload)
	if err != nil {
		return
	}
	eff := resp.Caps & (caps | mysess.CapConnectWithDB)
	var buf []byte
	seq := p.Seq + byte(p.Frames)
	add := func(payload []byte) { buf, seq = mysess.AppendPacket(buf, seq, payload) }
	flush := func() bool {
		_, err := conn.Write(buf)
		buf = buf[:0]
		return err == nil
	}
	add(mysess.OK{Status: mysess.StatusAutocommit}.Encode(eff))
	if !flush() {
		return
	}
	// the proxy matches result columns with the select list of the statement, which the scripted server does not
	// interpret: the values are digits, acceptable for a column of any configured type (tokenized / typed integers too)
	fields := []mysess.Field{{Name: "b", Table: "t1", Type: mysess.Blob}, {Name: "c", Table: "t1", Type: mysess.Varchar}}
	defs := func() {
		for _, f := range fields {
			add(mysess.FieldDef("verif", f).Encode())
		}
		if eff&mysess.CapDeprecateEOF == 0 {
			add(mysess.EOF{Status: mysess.StatusAutocommit}.Encode(eff))
		}
	}
	result := func(sql string, params []mysess.Param, binaryProto bool) {
		behave := d.get()
		if e := d.errorFor(behave, sql, params); e != nil {
			add(e.Encode(eff))
			return
		}
		if behave != "rows" || !myIsSelect(sql) {
			add(mysess.OK{AffectedRows: 1, Status: mysess.StatusAutocommit}.Encode(eff))
			return
		}
		add(mysess.AppendLenEncInt(nil, uint64(len(fields))))
		defs()
		types := make([]byte, len(fields))
		for i, f := range fields {
			types[i] = mysess.FieldDef("verif", f).Type
		}
		for _, row := range [][]mysess.Value{{{B: []byte("7")}, {Null: true}}, {{B: []byte("12")}, {B: []byte("3")}}} {
			if binaryProto {
				add(mysess.EncodeBinaryRow(types, row))
			} else {
				add(mysess.EncodeTextRow(row))
			}
		}
		if eff&mysess.CapDeprecateEOF != 0 {
			add(mysess.OK{Header: 0xfe, Status: mysess.StatusAutocommit}.Encode(eff))
		} else {
			add(mysess.EOF{Status: mysess.StatusAutocommit}.Encode(eff))
		}
	}
	type stmt struct {
		sql     string
		nparams int
		types   []mysess.Param
	}
	stmts := map[uint32]*stmt{}
	nextID := uint32(1)
	for {
		p, err := mysess.ReadPacket(conn)
		if err != nil || len(p.Payload) == 0 {
			return
		}
		seq = p.Seq + byte(p.Frames)
		cmd, body := p.Payload[0], p.Payload[1:]
		d.mu.Lock()
		d.received++
		d.mu.Unlock()
		switch cmd {
		case mysess.ComQuit:
			return
		case mysess.ComQuery:
			result(string(body), nil, false)
		case mysess.ComStmtPrepare:
			sql := string(body)
			if d.get() == "syntax-error-at-prepare" {
				add(d.errorFor("syntax-error", sql, nil).Encode(eff))
				break
			}
			st := &stmt{sql: sql, nparams: len(myPlaceholders(sql))}
			id := nextID
			nextID++
			stmts[id] = st
			ncols := 0
			if d.get() == "rows" && myIsSelect(sql) {
				ncols = len(fields)
			}
			add(mysess.PrepareOK{StmtID: id, Columns: uint16(ncols), Params: uint16(st.nparams)}.Encode())
			for i := 0; i < st.nparams; i++ {
				add(mysess.ColumnDef{Name: "?", Charset: 63, Type: mysess.TypeVarString, Flags: mysess.FlagBinary}.Encode())
			}
			if st.nparams > 0 && eff&mysess.CapDeprecateEOF == 0 {
				add(mysess.EOF{Status: mysess.StatusAutocommit}.Encode(eff))
			}
			if ncols > 0 {
				defs()
			}
		case mysess.ComStmtExecute:
			if len(body) < 4 {
				add(mysess.Err{Code: 1210, State: "HY000", Message: "Incorrect arguments to mysqld_stmt_execute"}.Encode(eff))
				break
			}
			id := uint32(body[0]) | uint32(body[1])<<8 | uint32(body[2])<<16 | uint32(body[3])<<24
			st := stmts[id]
			if st == nil {
				add(mysess.Err{Code: 1243, State: "HY000", Message: "Unknown prepared statement handler given to mysqld_stmt_execute"}.Encode(eff))
				break
			}
			ex, err := mysess.DecodeExecute(p.Payload, st.nparams, st.types)
			if err != nil {
				add(mysess.Err{Code: 1210, State: "HY000", Message: "Incorrect arguments to mysqld_stmt_execute"}.Encode(eff))
				break
			}
			st.types = ex.Params
			result(st.sql, ex.Params, true)
		case mysess.ComStmtClose, mysess.ComStmtSendLong:
			continue
		default:
			add(mysess.OK{Status: mysess.StatusAutocommit}.Encode(eff))
		}
		if !flush() {
			return
		}
	}
}

// ---- the check -------------------------------------------------------------------------------------

func myParamTypeName(t byte) string {
	switch t {
	case mysess.TypeLongLong:
		return "longlong"
	case mysess.TypeNewDecimal:
		return "newdecimal"
	case mysess.TypeBlob, mysess.TypeLongBlob:
		return "blob"
	}
	return "string"
}

// checkParamEntries: no bound value in any entry.
func checkParamEntries(vs *hx.Vs, sink string, entries []logEntry, params []MyParam) {
	for _, e := range entries {
		for _, part := range e.parts() {
			lower := strings.ToLower(part.text)
			for _, p := range params {
				if p.Marker.in(part.text, lower) {
					vs.Add("leak:"+sink+":bound-parameter:"+myParamTypeName(p.Type), "log entry (%s, %s) shows the value bound to a placeholder (marker %s, protocol type 0x%02x): %s", e.Level, part.where, p.Marker.Needle, p.Type, short(part.text))
					return
				}
			}
		}
	}
}

// CheckMyLogSession runs the statements through the real MySQL proxy with the log hook attached.
func CheckMyLogSession(c MyLogCase) (vs hx.Vs, info sessInfo) {
	sqlgen.SetDialect(sqlgen.MySQL)
	info.classes = map[string]bool{}
	w := fix.TheWorld()
	dir := fix.TempDir("c16-mysess2-")
	defer os.RemoveAll(dir)
	censorcommon.DefaultSerializationTimeout = time.Millisecond
	defer func() { censorcommon.DefaultSerializationTimeout = time.Second }()
	for _, st := range c.Steps {
		info.steps = append(info.steps, analyse(st.Case))
	}
	lc := startCapture(c.Level, c.Format)
	defer lc.stop()

	censor := acracensor.NewAcraCensor()
	defer censor.ReleaseAll()
	if c.Censor != nil {
		cfg := *c.Censor
		cfg.Handlers = append([]HandlerSpec(nil), cfg.Handlers...)
		for i := range cfg.Handlers {
			cfg.Handlers[i].Self = false
		}
		yml, _, _ := cfg.yamlOf(dir, "", false)
		if err := censor.LoadConfiguration([]byte(yml)); err != nil {
			vs.Add("harness:censor-config", "configuration rejected: %v\n%s", err, yml)
			return vs, info
		}
	}
	mode := sqlparser.ModeDefault
	if c.Mode == "strict" {
		mode = sqlparser.ModeStrict
	}
	schema := sessionSchema
	if c.Schema == "rich" {
		schema = myRichSchema
	}
	info.classes["schema:"+c.Schema] = true
	caps := uint32(mysess.DefaultCaps)
	if c.DeprecateEOF {
		caps |= mysess.CapDeprecateEOF
		info.classes["caps:deprecate-eof"] = true
	} else {
		info.classes["caps:eof-packets"] = true
	}
	db := &myScriptedDB{behave: "ok"}
	start := func() (*mysess.Session, error) {
		return mysess.Start(mysess.Config{SchemaYAML: schema, KeyStore: w.KS, ClientID: w.Alice, Censor: censor, ParserMode: mode, Timeout: 5 * time.Second,
			ClientCaps: caps, DBHandler: db.serve})
	}
	s, err := start()
	if err != nil {
		if errors.Is(err, mysess.ErrTimeout) {
			info.inconclusive = true
			R.Note("inconclusive: deadline while starting the MySQL session")
			return vs, info
		}
		vs.Add("harness:start", "%v", err)
		return vs, info
	}
	defer func() { s.Close() }()

	// A marker says something only when it belongs to one statement of the session: the log entries of a statement
	// may arrive while the next one is handled, and a text that is a literal in one statement may legitimately be an
	// identifier or a rejected text in another (rapid draws small numbers often, and shrinks towards them, so the
	// random parts of two statements' markers do coincide). Markers that occur in another statement are left out.
	elsewhere := func(i int, m Marker) bool {
		for j, other := range c.Steps {
			if j == i {
				continue
			}
			if m.in(other.SQL, strings.ToLower(other.SQL)) {
				return true
			}
			for _, op := range other.Params {
				if v := string(op.Value); op.Marker.Needle == m.Needle || m.in(v, strings.ToLower(v)) {
					return true
				}
			}
		}
		return false
	}
	views := make([]parsed, len(c.Steps))
	allOf := make([][]located, len(c.Steps))
	paramsOf := make([][]MyParam, len(c.Steps))
	for i, st := range c.Steps {
		views[i] = info.steps[i]
		views[i].located = nil
		for _, l := range info.steps[i].located {
			if !elsewhere(i, l.Marker) {
				views[i].located = append(views[i].located, l)
			}
		}
		for _, m := range st.Markers {
			if !elsewhere(i, m) {
				allOf[i] = append(allOf[i], located{Marker: m})
			}
		}
		for _, mp := range st.Params {
			if !elsewhere(i, mp.Marker) {
				paramsOf[i] = append(paramsOf[i], mp)
			} else {
				info.classes["marker-shared-between-statements (not judged)"] = true
			}
		}
		if len(allOf[i]) != len(st.Markers) {
			info.classes["marker-shared-between-statements (not judged)"] = true
		}
	}
	for i, st := range c.Steps {
		p := views[i]
		all := allOf[i]
		me, mo := lc.mark()
		proto := st.Proto
		info.classes["proto:"+proto] = true
		info.classes["db:"+st.DB] = true
		info.classes["db*proto:"+st.DB+"/"+proto] = true
		behave := st.DB
		if proto == "prepare" && behave == "syntax-error" {
			behave = "syntax-error-at-prepare"
		}
		db.set(behave)
		before := db.count()
		var bound []MyParam
		kind := "forwarded"
		var runErr error
		switch proto {
		case "query":
			var rep *mysess.Reply
			rep, runErr = s.Query(st.SQL)
			if runErr == nil && db.count() == before {
				kind = "not-forwarded"
				if !strings.Contains(rep.Error(), "AcraCensor") {
					kind = "answered-by-proxy"
				}
			}
		default:
			var stmt *mysess.Stmt
			stmt, runErr = s.Prepare(st.SQL)
			if runErr != nil {
				break
			}
			if db.count() == before {
				kind = "not-forwarded"
				break
			}
			if stmt.Err != nil {
				info.classes["prepare:refused-by-database"] = true
				break
			}
			if proto == "prepare" {
				if i%2 == 1 {
					runErr = s.CloseStmt(stmt)
				}
				break
			}
			n := len(stmt.Params)
			if n != len(st.Params) {
				info.classes["params:count-differs-from-plan"] = true
			}
			params := make([]mysess.Param, n)
			for k := range params {
				if k < len(st.Params) {
					params[k] = mysess.Param{Type: st.Params[k].Type, B: st.Params[k].Value}
					if !elsewhere(i, st.Params[k].Marker) {
						bound = append(bound, st.Params[k])
					}
					src := "own-placeholder"
					if st.Params[k].FromLiteral {
						src = "from-literal:" + st.Params[k].Marker.Spell
					}
					info.classes["param:"+src] = true
					info.classes["param-type:"+myParamTypeName(st.Params[k].Type)] = true
				} else {
					params[k] = mysess.Param{Type: mysess.TypeNull, Null: true}
				}
			}
			if n == 0 {
				info.classes["execute:without-parameters"] = true
			} else {
				info.classes["execute:with-parameters"] = true
			}
			db.set(st.DB)
			if _, runErr = s.Execute(stmt, params); runErr != nil {
				break
			}
			if st.Again {
				info.classes["execute:again-without-types"] = true
				_, runErr = s.ExecuteWith(stmt, params, false)
			}
		}
		entries := lc.since(me, mo)
		report := func(es []logEntry) {
			n := len(vs)
			checkEntries(&vs, "mysql-session-log", es, p, all)
			if len(vs) == n {
				checkParamEntries(&vs, "mysql-session-log", es, bound)
			}
			if len(vs) > n {
				vs[len(vs)-1].Msg = fmt.Sprintf("step %d (%s, parser mode %s, database answers %s): %s", i, proto, c.Mode, st.DB, vs[len(vs)-1].Msg)
			}
		}
		if errors.Is(runErr, mysess.ErrTimeout) {
			info.inconclusive = true
			R.Note("inconclusive: deadline in step %d (%.120q)", i, st.SQL)
			return vs, info
		}
		if runErr != nil {
			if ps := s.Panics(); len(ps) > 0 {
				// a crashing handler is C14's business; what was logged until then still counts
				info.classes["handler-panicked (C14)"] = true
				notePanic("mysql-proxy:"+hx.PanicFunc(ps[0]), st.SQL, fmt.Sprintf("MySQL proxy, %s: %.600s", proto, ps[0]))
				report(lc.since(me, mo))
				return vs, info
			}
			if !errors.Is(runErr, mysess.ErrClosed) {
				// a reply the strict client codec does not take is C12's business
				info.classes["session-ended-early"] = true
				R.Note("session ended early in step %d (%s): %v", i, proto, runErr)
				report(lc.since(me, mo))
				return vs, info
			}
			// one of the proxy's loops gave up (acra-server closes the connection then): what was logged on the way
			// counts; the client connects again for the rest of its statements
			info.classes["proxy-closed-session"] = true
			info.classes["proxy-closed-session:"+proto] = true
			report(lc.since(me, mo))
			s.Close()
			if s, err = start(); err != nil {
				if errors.Is(err, mysess.ErrTimeout) {
					info.inconclusive = true
					return vs, info
				}
				vs.Add("harness:start", "%v", err)
				return vs, info
			}
			continue
		}
		if !p.ok {
			info.classes["step:rejected-by-parser:"+proto] = true
		}
		info.classes["step:"+kind] = true
		info.classes["step:"+kind+":"+proto] = true
		for _, e := range entries {
			if v, ok := e.Fields["sql"]; ok && e.Line == "" && strings.Contains(v, "replaced") {
				info.classes["sink:proxy-log-shows-redacted-text"] = true
				info.classes["sink:proxy-log-shows-redacted-text:"+proto] = true
			}
			if strings.Contains(e.Msg, "query: '") {
				info.classes["sink:censor-log-shows-redacted-text"] = true
			}
		}
		if len(entries) > 0 {
			info.classes["sink:entries-captured"] = true
		}
		report(entries)
	}
	if ps := s.Panics(); len(ps) > 0 {
		info.classes["handler-panicked (C14)"] = true
	}
	// once more over everything logged during the session (entries of the database-to-client loop may arrive after
	// the reply was collected), with the markers and bound values of every statement
	if len(vs) == 0 {
		entries := lc.snapshot()
		for i, st := range c.Steps {
			n := len(vs)
			checkEntries(&vs, "mysql-session-log", entries, views[i], allOf[i])
			if len(vs) == n && st.Proto == "execute" {
				checkParamEntries(&vs, "mysql-session-log", entries, paramsOf[i])
			}
			if len(vs) > n {
				vs[len(vs)-1].Msg = fmt.Sprintf("statement %d, found after the session: %s", i, vs[len(vs)-1].Msg)
				break
			}
		}
	}
	return vs, info
}

func myLogClasses(c MyLogCase, info sessInfo) []string {
	seen := map[string]bool{"level:" + c.Level: true, "format:" + c.Format: true, "mode:" + c.Mode: true}
	if c.Censor == nil {
		seen["cfg:no-firewall"] = true
	} else {
		for _, h := range c.Censor.Handlers {
			seen["cfg:"+h.Kind] = true
		}
	}
	for i, st := range c.Steps {
		if i < len(info.steps) {
			for _, cl := range stmtClasses(st.Case, info.steps[i]) {
				if !strings.HasPrefix(cl, "pos*spell:") {
					seen[cl] = true
				}
			}
		}
	}
	for k := range info.classes {
		seen[k] = true
	}
	if info.inconclusive {
		seen["inconclusive-deadline"] = true
	}
	return sortedKeys(seen)
}

func myLogNontrivial(c MyLogCase, info sessInfo) bool {
	for i, st := range c.Steps {
		if i < len(info.steps) && (nontrivial(st.Case, info.steps[i]) || (st.Proto == "execute" && len(st.Params) > 0)) {
			return true
		}
	}
	return false
}

func TestSessionLogsMySQL(t *testing.T) {
	if d := envDialect(); d != "" && d != sqlgen.MySQL {
		t.Skip("MySQL sessions run in the MySQL groups")
	}
	R.Rule("TestSessionLogsMySQL", "1-6 marker statements (as TestRedact, MySQL dialect; one in four from templates that write and compare the columns of the encryptor configuration) per session through acra's real MySQL proxy on the shared session harness (internal/mysess: scripted client, scripted MySQL server that accepts every statement and answers OK / a small result set / ERR 1064 quoting the tail of the statement / ERR 1062 quoting a value, as MySQL does), sent as COM_QUERY, COM_STMT_PREPARE alone, or COM_STMT_PREPARE + COM_STMT_EXECUTE (+ a re-execution without parameter types) where a random subset of the marker literals is replaced by ? and bound as parameters (strings as VAR_STRING / STRING / BLOB / VARCHAR, hex literals as BLOB, integers as LONGLONG or text, decimals / exponents / wide integers as NEWDECIMAL or text; placeholders written by the statement generator get fresh marker values); encryptor configuration = the one of TestSessionLogs or a richer one (tokenized int32 / int64 / str, searchable, masked, typed, acrablock columns of t1 / t2); parser mode default|strict, with or without a loaded firewall configuration, log level debug|info|warning, format plaintext|json|cef, with / without CLIENT_DEPRECATE_EOF; the hook on the standard logger captures every entry of proxy, firewall, encryptor and tokenizer; no marker of a statement and no bound parameter value in any entry; non-trivial as TestRedact for at least one statement, or at least one bound marker value")
	hx.Checks(100, 1500)
	rapid.Check(t, func(rt *rapid.T) {
		c := genMyLogCase(rt)
		vs, info := CheckMyLogSession(c)
		R.Seen("TestSessionLogsMySQL", c, myLogNontrivial(c, info), myLogClasses(c, info)...)
		R.Report(rt, "TestSessionLogsMySQL", c, vs)
	})
}
