package c16

import (
	"context"
	"encoding/binary"
	"fmt"
	"io"
	"net"
	"os"
	"strings"
	"sync"
	"testing"
	"time"

	"pgregory.net/rapid"

	acracensor "github.com/cossacklabs/acra/acra-censor"
	censorcommon "github.com/cossacklabs/acra/acra-censor/common"
	"github.com/cossacklabs/acra/decryptor/base"
	"github.com/cossacklabs/acra/decryptor/mysql"
	"github.com/cossacklabs/acra/encryptor/base/config"
	"github.com/cossacklabs/acra/poison"
	"github.com/cossacklabs/acra/pseudonymization"
	"github.com/cossacklabs/acra/pseudonymization/storage"
	"github.com/cossacklabs/acra/sqlparser"

	"verif/internal/fix"
	"verif/internal/hx"
	"verif/internal/sqlgen"
)

// A small MySQL session harness (the shared one, internal/pgsess, is PostgreSQL only): acra's real
// MySQL proxy, built by mysql.NewProxyFactory as acra-server does, between two lock-step
// connections. The script plays the server greeting, the client's handshake response, the server's
// OK, and then one COM_QUERY / COM_STMT_PREPARE per statement; the database side answers (OK, or an
// error for a prepare) only when the proxy forwarded the command. The packets are built by hand
// (independent of acra's codec).

func myPacket(seq byte, payload []byte) []byte {
	h := []byte{byte(len(payload)), byte(len(payload) >> 8), byte(len(payload) >> 16), seq}
	return append(h, payload...)
}

func myLenencStr(s []byte) []byte {
	n := len(s)
	switch {
	case n <= 250:
		return append([]byte{byte(n)}, s...)
	case n <= 0xffff:
		return append([]byte{0xfc, byte(n), byte(n >> 8)}, s...)
	}
	return append([]byte{0xfd, byte(n), byte(n >> 8), byte(n >> 16)}, s...)
}

func myHandshake() []byte {
	capLow, capHigh := uint16(0xf7ff&^0x0800), uint16(0x81ff)
	var b []byte
	b = append(b, 10)
	b = append(b, "8.0.0-verif"...)
	b = append(b, 0)
	b = append(b, 1, 0, 0, 0)
	b = append(b, "12345678"...)
	b = append(b, 0)
	b = append(b, byte(capLow), byte(capLow>>8))
	b = append(b, 0x21, 0x02, 0x00)
	b = append(b, byte(capHigh), byte(capHigh>>8))
	b = append(b, 21)
	b = append(b, 0, 0, 0, 0, 0, 0)
	b = binary.LittleEndian.AppendUint32(b, 0)
	b = append(b, "123456789012"...)
	b = append(b, 0)
	b = append(b, "mysql_native_password"...)
	b = append(b, 0)
	return b
}

func myHandshakeResponse() []byte {
	caps := uint32(0x200 | 0x8000 | 0x85) // protocol 4.1, secure connection, long password / long flag / connect with db
	var b []byte
	b = binary.LittleEndian.AppendUint32(b, caps)
	b = append(b, 0, 0, 0, 1)
	b = append(b, 0x21)
	b = append(b, make([]byte, 19)...)
	b = binary.LittleEndian.AppendUint32(b, 0)
	b = append(b, "user"...)
	b = append(b, 0)
	b = append(b, myLenencStr([]byte("authresponse"))...)
	b = append(b, "db"...)
	b = append(b, 0)
	return b
}

var (
	myOK  = []byte{0x00, 0x00, 0x00, 0x02, 0x00, 0x00, 0x00}
	myErr = append([]byte{0xff, 0x28, 0x04, '#', '4', '2', '0', '0', '0'}, "refused by the fake database"...)
)

type fakeAddr struct{}

func (fakeAddr) Network() string { return "fake" }
func (fakeAddr) String() string  { return "fake" }

// stepConn is a net.Conn whose reader parks when the fed bytes are used up; feed hands over one chunk
// and returns when the reader has consumed it and waits again: the two proxy goroutines then run in
// a deterministic order. Writes are counted.
type stepConn struct {
	mu       sync.Mutex
	cond     *sync.Cond
	buf      []byte
	eof      bool
	parked   bool
	finished bool
	written  int
}

func newStepConn() *stepConn {
	c := &stepConn{}
	c.cond = sync.NewCond(&c.mu)
	return c
}

func (c *stepConn) Read(p []byte) (int, error) {
	c.mu.Lock()
	defer c.mu.Unlock()
	for len(c.buf) == 0 && !c.eof {
		c.parked = true
		c.cond.Broadcast()
		c.cond.Wait()
	}
	c.parked = false
	if len(c.buf) == 0 {
		return 0, io.EOF
	}
	n := copy(p, c.buf)
	c.buf = c.buf[n:]
	return n, nil
}

func (c *stepConn) Write(p []byte) (int, error) {
	c.mu.Lock()
	c.written += len(p)
	c.mu.Unlock()
	return len(p), nil
}

func (c *stepConn) Close() error {
	c.mu.Lock()
	c.eof = true
	c.cond.Broadcast()
	c.mu.Unlock()
	return nil
}
func (c *stepConn) LocalAddr() net.Addr                { return fakeAddr{} }
func (c *stepConn) RemoteAddr() net.Addr               { return fakeAddr{} }
func (c *stepConn) SetDeadline(t time.Time) error      { return nil }
func (c *stepConn) SetReadDeadline(t time.Time) error  { return nil }
func (c *stepConn) SetWriteDeadline(t time.Time) error { return nil }

func (c *stepConn) feed(b []byte) {
	c.mu.Lock()
	defer c.mu.Unlock()
	if c.finished || c.eof {
		return
	}
	c.buf = append(c.buf, b...)
	c.parked = false
	c.cond.Broadcast()
	for !c.finished && !(c.parked && len(c.buf) == 0) {
		c.cond.Wait()
	}
}

func (c *stepConn) waitParked() {
	c.mu.Lock()
	defer c.mu.Unlock()
	for !c.finished && !c.parked {
		c.cond.Wait()
	}
}

func (c *stepConn) finish() {
	c.mu.Lock()
	c.finished = true
	c.cond.Broadcast()
	c.mu.Unlock()
}

func (c *stepConn) isFinished() bool {
	c.mu.Lock()
	defer c.mu.Unlock()
	return c.finished
}

func (c *stepConn) wrote() int {
	c.mu.Lock()
	defer c.mu.Unlock()
	return c.written
}

type mySession struct {
	ctx        context.Context
	client, db net.Conn
	state      interface{}
	mu         sync.Mutex
	data       map[string]interface{}
}

func (s *mySession) Context() context.Context        { return s.ctx }
func (s *mySession) ClientConnection() net.Conn      { return s.client }
func (s *mySession) DatabaseConnection() net.Conn    { return s.db }
func (s *mySession) ProtocolState() interface{}      { return s.state }
func (s *mySession) SetProtocolState(st interface{}) { s.state = st }
func (s *mySession) SetData(k string, v interface{}) { s.mu.Lock(); s.data[k] = v; s.mu.Unlock() }
func (s *mySession) DeleteData(k string)             { s.mu.Lock(); delete(s.data, k); s.mu.Unlock() }
func (s *mySession) HasData(k string) bool {
	s.mu.Lock()
	defer s.mu.Unlock()
	_, ok := s.data[k]
	return ok
}
func (s *mySession) GetData(k string) (interface{}, bool) {
	s.mu.Lock()
	defer s.mu.Unlock()
	v, ok := s.data[k]
	return v, ok
}

func genMySessCase(t *rapid.T) SessCase {
	c := SessCase{Mode: rapid.SampledFrom([]string{"default", "default", "default", "strict"}).Draw(t, "mode"),
		Level: logLevels[weighted(t, "level", 7, 2, 1)], Format: rapid.SampledFrom(logFormats).Draw(t, "format")}
	if rapid.IntRange(0, 9).Draw(t, "censor") < 6 {
		cfg := genCensorCfg(t)
		c.Censor = &cfg
	}
	n := rapid.IntRange(1, 6).Draw(t, "nsteps")
	for i := 0; i < n; i++ {
		c.Steps = append(c.Steps, Step{Case: genStatement(t, sqlgen.MySQL, genSource(t)), Ext: rapid.Bool().Draw(t, "prepare")})
	}
	return c
}

// CheckMySession: Ext steps are COM_STMT_PREPARE, the others COM_QUERY.
func CheckMySession(c SessCase) (vs hx.Vs, info sessInfo) {
	sqlgen.SetDialect(sqlgen.MySQL)
	info.classes = map[string]bool{}
	w := fix.TheWorld()
	dir := fix.TempDir("c16-mysess-")
	defer os.RemoveAll(dir)
	censorcommon.DefaultSerializationTimeout = time.Millisecond
	defer func() { censorcommon.DefaultSerializationTimeout = time.Second }()
	for _, st := range c.Steps {
		info.steps = append(info.steps, analyse(st.Case))
	}
	lc := startCapture(c.Level, c.Format)
	defer lc.stop()

	censor := acracensor.NewAcraCensor()
	defer censor.ReleaseAll()
	if c.Censor != nil {
		cfg := *c.Censor
		cfg.Handlers = append([]HandlerSpec(nil), cfg.Handlers...)
		for i := range cfg.Handlers {
			cfg.Handlers[i].Self = false
		}
		yml, _, _ := cfg.yamlOf(dir, "", false)
		if err := censor.LoadConfiguration([]byte(yml)); err != nil {
			vs.Add("harness:censor-config", "configuration rejected: %v\n%s", err, yml)
			return vs, info
		}
	}
	mode := sqlparser.ModeDefault
	if c.Mode == "strict" {
		mode = sqlparser.ModeStrict
	}
	schema, err := config.MapTableSchemaStoreFromConfig([]byte(sessionSchema), true)
	if err != nil {
		vs.Add("harness:schema", "%v", err)
		return vs, info
	}
	ts, err := storage.NewMemoryTokenStorage()
	if err != nil {
		vs.Add("harness:tokens", "%v", err)
		return vs, info
	}
	tok, err := pseudonymization.NewPseudoanonymizer(ts)
	if err != nil {
		vs.Add("harness:tokens", "%v", err)
		return vs, info
	}
	factory, err := mysql.NewProxyFactory(base.NewProxySetting(sqlparser.New(mode), schema, w.KS, nil, censor, poison.NewCallbackStorage()), w.KS, tok)
	if err != nil {
		vs.Add("harness:factory", "%v", err)
		return vs, info
	}
	client, db := newStepConn(), newStepConn()
	s := &mySession{client: client, db: db, data: map[string]interface{}{}}
	s.ctx = base.SetClientSessionToContext(context.Background(), s)
	proxy, err := factory.New(w.Alice, s)
	if err != nil {
		vs.Add("harness:proxy", "%v", err)
		return vs, info
	}
	ac := base.NewAccessContext(base.WithClientID(w.Alice))
	proxy.AddClientIDObserver(ac)
	s.ctx = base.SetAccessContextToContext(s.ctx, ac)
	errCh := make(chan base.ProxyError, 8)
	var wg sync.WaitGroup
	panicked := make(chan string, 2)
	side := func(conn *stepConn, f func(context.Context, chan<- base.ProxyError)) {
		defer wg.Done()
		defer conn.finish()
		defer func() {
			if p := recover(); p != nil {
				panicked <- fmt.Sprint(p)
			}
		}()
		f(s.ctx, errCh)
	}
	wg.Add(2)
	go side(client, proxy.ProxyClientConnection)
	go side(db, proxy.ProxyDatabaseConnection)
	defer func() {
		client.Close()
		db.Close()
		wg.Wait()
	}()
	client.waitParked()
	db.waitParked()
	db.feed(myPacket(0, myHandshake()))
	client.feed(myPacket(1, myHandshakeResponse()))
	db.feed(myPacket(2, myOK))
	for i, st := range c.Steps {
		if client.isFinished() || db.isFinished() {
			info.classes["proxy-ended-session"] = true
			break
		}
		p := info.steps[i]
		all := make([]located, len(st.Markers))
		for j, m := range st.Markers {
			all[j] = located{Marker: m}
		}
		me, mo := lc.mark()
		cmd, proto := byte(3), "query"
		if st.Ext {
			cmd, proto = 0x16, "prepare"
		}
		before := db.wrote()
		client.feed(myPacket(0, append([]byte{cmd}, st.SQL...)))
		forwarded := db.wrote() > before
		kind := "forwarded"
		switch {
		case !forwarded:
			kind = "not-forwarded" // censored (or the proxy gave up)
		case st.Ext:
			db.feed(myPacket(1, myErr))
		default:
			db.feed(myPacket(1, myOK))
		}
		if !p.ok {
			info.classes["step:rejected-by-parser:"+proto] = true
		}
		info.classes["proto:"+proto] = true
		info.classes["step:"+kind] = true
		info.classes["step:"+kind+":"+proto] = true
		entries := lc.since(me, mo)
		for _, e := range entries {
			if v, ok := e.Fields["sql"]; ok && e.Line == "" && strings.Contains(v, "replaced") {
				info.classes["sink:proxy-log-shows-redacted-text"] = true
				info.classes["sink:proxy-log-shows-redacted-text:"+proto] = true
			}
			if strings.Contains(e.Msg, "query: '") {
				info.classes["sink:censor-log-shows-redacted-text"] = true
			}
		}
		if len(entries) > 0 {
			info.classes["sink:entries-captured"] = true
		}
		n := len(vs)
		checkEntries(&vs, "mysql-session-log", entries, p, all)
		if len(vs) > n {
			vs[len(vs)-1].Msg = fmt.Sprintf("step %d (COM_%s, parser mode %s): %s", i, strings.ToUpper(proto), c.Mode, vs[len(vs)-1].Msg)
		}
	}
	select {
	case <-panicked:
		info.classes["handler-panicked (C14)"] = true
	default:
	}
	sweepSession(&vs, "mysql-session-log", lc, c, info)
	return vs, info
}

func TestMySQLSessionLogs(t *testing.T) {
	if d := envDialect(); d != "" && d != sqlgen.MySQL {
		t.Skip("MySQL sessions run in the MySQL group")
	}
	R.Rule("TestMySQLSessionLogs", "1-6 marker statements (as TestRedact, MySQL dialect) per session through acra's real MySQL proxy (mysql.NewProxyFactory; lock-step scripted connections: greeting, handshake response, OK, then COM_QUERY or COM_STMT_PREPARE per statement, the database answers when the command was forwarded), parser mode default|strict, with or without a loaded firewall configuration, log level debug|info|warning, format plaintext|json|cef; no marker of a statement in any entry logged while it is handled; non-trivial as TestRedact for at least one statement")
	hx.Checks(60, 2000)
	rapid.Check(t, func(rt *rapid.T) {
		c := genMySessCase(rt)
		vs, info := CheckMySession(c)
		R.Seen("TestMySQLSessionLogs", c, sessNontrivial(c, info), sessClasses(c, info)...)
		R.Report(rt, "TestMySQLSessionLogs", c, vs)
	})
}
