// Package c16: literal values from statements never appear in logs.
//
// Every statement is built so that ALL its literals are marker literals: strings of the form
// MRK<2 hex id><13 hex> (in every quoting the dialect accepts) and numbers whose digit string is a
// 13-digit (or longer) marker. The statement goes through the three places where acra turns a
// statement into text meant for humans:
//
//	TestRedact      sqlparser.Parser.HandleRawSQLQuery (ModeStrict and ModeDefault) and RedactSQLQuery
//	TestCensorLogs  AcraCensor.HandleQuery with a loaded configuration, all log entries captured by a
//	                hook on logrus' standard logger (message and every field), capture / parse-error files
//	TestSessionLogs whole PostgreSQL sessions through the real proxy (internal/pgsess), log hook attached
//
// Oracle: no needle of any marker occurs in the redacted text, in any captured log entry or in the
// query-capture file; the redacted text re-parses to the same canonical tree as the original with
// every literal / bind variable replaced by "a value" (walker_test.go, shape mode: a tuple made of
// values only and a list bind variable are the same thing, because that is how the normaliser
// prints IN lists); statements the parser rejects occur in no log entry at all and are not
// returned as "redacted" text (the parse-error file may hold them).
package c16

import (
	"encoding/hex"
	"encoding/json"
	"fmt"
	"os"
	"regexp"
	"sort"
	"strings"
	"testing"

	"pgregory.net/rapid"

	"github.com/cossacklabs/acra/sqlparser"

	"verif/internal/fix"
	"verif/internal/hx"
	"verif/internal/sqlgen"
)

var R = hx.New("C16")

func TestMain(m *testing.M) {
	fix.Quiet()
	os.Exit(R.Main(m))
}

// ---- markers ----------------------------------------------------------------------------------

// Marker is one marker literal of a statement.
type Marker struct {
	ID     int    `json:"id"`
	Spell  string `json:"spell"`          // spelling class
	Text   string `json:"text"`           // the literal as written in the statement
	Needle string `json:"needle"`         // must occur in no sink
	Alt    string `json:"alt,omitempty"`  // second needle (the bytes a hex literal denotes)
	Fold   bool   `json:"fold,omitempty"` // Needle is compared case-insensitively (hex digits)
}

func (m Marker) in(hay, hayLower string) bool {
	if m.Needle == "" {
		return false
	}
	if m.Fold {
		if strings.Contains(hayLower, strings.ToLower(m.Needle)) {
			return true
		}
	} else if strings.Contains(hay, m.Needle) {
		return true
	}
	return m.Alt != "" && strings.Contains(hay, m.Alt)
}

// markerGen hands out marker literals; it is the Literal hook of sqlgen.
type markerGen struct {
	pg   bool
	list []Marker
}

func (g *markerGen) add(spell, text, needle, alt string, fold bool) string {
	g.list = append(g.list, Marker{ID: len(g.list), Spell: spell, Text: text, Needle: needle, Alt: alt, Fold: fold})
	return text
}

// body is a unique string marker: MRK + 2 hex digits of its index + 13 random hex digits.
func (g *markerGen) body(t *rapid.T) string {
	r := rapid.Uint64().Draw(t, "mrk") & 0xfffffffffffff
	return fmt.Sprintf("MRK%02x%013x", len(g.list)%256, r)
}

// digits is a unique digit string of n >= 13 digits that starts with first (no leading zero unless asked).
func (g *markerGen) digits(t *rapid.T, first string, n int) string {
	r := rapid.Uint64().Draw(t, "num")
	// the 7 after the index keeps one marker from being a substring of another when the random part shrinks to zeros
	s := fmt.Sprintf("%s%02d7%020d", first, len(g.list)%100, r)
	return s[:n]
}

func weighted(t *rapid.T, label string, w ...int) int {
	total := 0
	for _, x := range w {
		total += x
	}
	r := rapid.IntRange(0, total-1).Draw(t, label)
	for i, x := range w {
		if r < x {
			return i
		}
		r -= x
	}
	return len(w) - 1
}

func (g *markerGen) str(t *rapid.T) string {
	b := g.body(t)
	if g.pg {
		switch weighted(t, "str.spell", 5, 2, 3, 1) {
		case 0:
			return g.add("sq", "'"+b+"'", b, "", false)
		case 1:
			return g.add("sq-escaped", rapid.SampledFrom([]string{"'it''s " + b + "'", "'" + b + "''x'", "'a b " + b + " %'"}).Draw(t, "str.esc"), b, "", false)
		case 2:
			return g.add("pg-escape", rapid.SampledFrom([]string{"E'" + b + "'", "e'" + b + "'"}).Draw(t, "str.e"), b, "", false)
		default:
			return g.add("pg-escape-escaped", rapid.SampledFrom([]string{`E'` + b + `\n'`, `E'it\'s ` + b + `'`, `e'\\` + b + `'`}).Draw(t, "str.ee"), b, "", false)
		}
	}
	switch weighted(t, "str.spell", 5, 2, 3, 1) {
	case 0:
		return g.add("sq", "'"+b+"'", b, "", false)
	case 1:
		return g.add("sq-escaped", rapid.SampledFrom([]string{"'it''s " + b + "'", `'it\'s ` + b + `'`, "'" + b + `\n'`, "'a b " + b + " %'"}).Draw(t, "str.esc"), b, "", false)
	case 2:
		return g.add("dq", `"`+b+`"`, b, "", false)
	default:
		return g.add("dq-escaped", rapid.SampledFrom([]string{`"say ""` + b + `"""`, `"it's ` + b + `"`, `"` + b + `\""`}).Draw(t, "str.desc"), b, "", false)
	}
}

func (g *markerGen) integer(t *rapid.T) string {
	first := rapid.SampledFrom([]string{"1", "2", "3", "4", "5", "6", "7", "8", "9"}).Draw(t, "int.first")
	switch weighted(t, "int.spell", 6, 3, 1, 1) {
	case 0:
		d := g.digits(t, first, 13)
		return g.add("int", d, d, "", false)
	case 1:
		d := g.digits(t, first, 13)
		return g.add("int-negative", "-"+d, d, "", false)
	case 2:
		// leading zero followed by 8 / 9: not an octal number
		d := g.digits(t, rapid.SampledFrom([]string{"8", "9"}).Draw(t, "int.89"), 13)
		return g.add("int-leading-zero", "0"+d, d, "", false)
	default:
		// beyond 64 bits
		d := g.digits(t, first, 23)
		return g.add("int-wider-than-64-bits", d, d, "", false)
	}
}

func (g *markerGen) float(t *rapid.T) string {
	first := rapid.SampledFrom([]string{"1", "2", "3", "4", "5", "6", "7", "8", "9"}).Draw(t, "flt.first")
	d := g.digits(t, first, 13)
	small := fmt.Sprint(rapid.IntRange(0, 99).Draw(t, "flt.small"))
	switch weighted(t, "flt.spell", 4, 2, 1, 1, 3, 2, 1) {
	case 0:
		return g.add("decimal", d+"."+small, d, "", false)
	case 1:
		return g.add("decimal-negative", "-"+d+"."+small, d, "", false)
	case 2:
		return g.add("decimal-leading-dot", "."+d, d, "", false)
	case 3:
		return g.add("decimal-trailing-dot", d+".", d, "", false)
	case 4:
		return g.add("exponent", rapid.SampledFrom([]string{d + "e" + small, d + "E+" + small, "1." + d + "e-" + small, d + "." + small + "e" + small}).Draw(t, "flt.exp"), d, "", false)
	case 5:
		return g.add("exponent-negative", "-"+d+"e"+small, d, "", false)
	default:
		// not representable as a float64
		return g.add("exponent-out-of-range", d+"e999", d, "", false)
	}
}

func (g *markerGen) hexLit(t *rapid.T) string {
	b := g.body(t)
	h := hex.EncodeToString([]byte(b))
	if rapid.Bool().Draw(t, "hex.upper") {
		h = strings.ToUpper(h)
	}
	switch weighted(t, "hex.spell", 2, 1, 2) {
	case 0:
		return g.add("hex-x", "X'"+h+"'", h, b, true)
	case 1:
		return g.add("hex-x", "x'"+h+"'", h, b, true)
	default:
		return g.add("hex-0x", "0x"+h, h, b, true)
	}
}

func (g *markerGen) bitLit(t *rapid.T) string {
	r := rapid.Uint64().Draw(t, "bits")
	bits := fmt.Sprintf("1%07b%048b", len(g.list)%128, r&0xffffffffffff)
	return g.add("bit", rapid.SampledFrom([]string{"b'", "B'"}).Draw(t, "bit.b")+bits+"'", bits, "", false)
}

// lit is the sqlgen Literal hook: every literal of the statement is a marker.
func (g *markerGen) lit(t *rapid.T, kind string) string {
	switch kind {
	case "string":
		return g.str(t)
	case "int":
		return g.integer(t)
	case "float":
		return g.float(t)
	case "hex":
		return g.hexLit(t)
	case "bit":
		return g.bitLit(t)
	}
	return ""
}

// any draws a literal of any kind.
func (g *markerGen) any(t *rapid.T) string {
	return g.lit(t, []string{"string", "int", "float", "hex", "bit"}[weighted(t, "lit.kind", 6, 5, 3, 2, 1)])
}

// plainInt is a positive integer marker (positions where only an unsigned number is grammatical).
func (g *markerGen) plainInt(t *rapid.T) string {
	d := g.digits(t, rapid.SampledFrom([]string{"1", "2", "3", "4", "5", "6", "7", "8", "9"}).Draw(t, "int.first"), 13)
	return g.add("int", d, d, "", false)
}

// ---- statements --------------------------------------------------------------------------------

// Case is one statement text in one dialect with the markers it holds.
type Case struct {
	Dialect string   `json:"dialect"`
	SQL     string   `json:"sql"`
	Markers []Marker `json:"markers"`
	Src     string   `json:"src"` // grammar | template | other | garbage
}

func envDialect() string { return os.Getenv("C16_DIALECT") }

func genDialect(t *rapid.T) string {
	if d := envDialect(); d != "" {
		return d
	}
	return rapid.SampledFrom(sqlgen.Dialects).Draw(t, "dialect")
}

var (
	reLimit  = regexp.MustCompile(`(?i)\b(limit|offset)(\s+)(\d{1,4})\b`)
	reLimit2 = regexp.MustCompile(`(?i)(\blimit\s+\d+,\s*)(\d{1,4})\b`)
	reJSON   = regexp.MustCompile(`'\$(\.a|\[0\]|\.a\.b)'`)
	reSep    = regexp.MustCompile(`(?i)(\bseparator\s+)('[^']*'|"[^"]*")`)
	reIvl    = regexp.MustCompile(`(?i)(\binterval\s+)'[^']*'`)
	reIvlArg = regexp.MustCompile(`(\binterval )(:replaced\d+)`)
)

// markRest puts markers at the literal positions sqlgen does not route through its Literal hook:
// LIMIT / OFFSET numbers, JSON paths, the GROUP_CONCAT separator, PostgreSQL interval strings.
func markRest(t *rapid.T, g *markerGen, sql string) string {
	often := func(label string) bool { return rapid.IntRange(0, 9).Draw(t, label) < 8 }
	sql = reLimit.ReplaceAllStringFunc(sql, func(m string) string {
		if !often("mark.limit") {
			return m
		}
		p := reLimit.FindStringSubmatch(m)
		return p[1] + p[2] + g.plainInt(t)
	})
	sql = reLimit2.ReplaceAllStringFunc(sql, func(m string) string {
		if !often("mark.limit2") {
			return m
		}
		p := reLimit2.FindStringSubmatch(m)
		return p[1] + g.plainInt(t)
	})
	sql = reJSON.ReplaceAllStringFunc(sql, func(m string) string {
		b := g.body(t)
		return g.add("json-path", "'$."+b+"'", b, "", false)
	})
	sql = reSep.ReplaceAllStringFunc(sql, func(m string) string {
		if !often("mark.sep") {
			return m
		}
		p := reSep.FindStringSubmatch(m)
		b := g.body(t)
		return p[1] + g.add("sq", "'"+b+"'", b, "", false)
	})
	if g.pg {
		sql = reIvl.ReplaceAllStringFunc(sql, func(m string) string {
			p := reIvl.FindStringSubmatch(m)
			b := g.body(t)
			return p[1] + g.add("sq", "'1 "+b+"'", b, "", false)
		})
	}
	return sql
}

// templates put marker literals at the positions the property names. {v} any literal, {s} string,
// {n} number, {i} unsigned integer.
var templates = []struct {
	dialect string // "" both
	text    string
}{
	{"", "select {v}, {v} from t1 where a = {v}"},
	{"", "select a from t1 where b in ({v}, {v}, {v})"},
	{"", "select a from t1 where b not in ({n}, {n}) and c in ({s})"},
	{"", "select a from t1 where b between {n} and {n} and c like {s}"},
	{"", "select a from t1 where b not between {v} and {v} or c not like {s} escape '!'"},
	{"", "insert into t1 (a, b) values ({v}, {v}), ({v}, {v}), ({v}, {v})"},
	{"", "insert into t1 values ({v}), ({v})"},
	{"", "insert into t1 (a, b) values ({v}, {v}) on duplicate key update a = {v}, b = b + {n}"},
	{"", "update t1 set a = {v}, b = {v} where id = {n}"},
	{"", "update t1 set a = {v} where b = {v} and c > {n}"},
	{"mysql", "update t1 set a = {v} order by b limit {i}"},
	{"mysql", "delete from t1 where a = {v} limit {i}"},
	{"", "delete from t1 where a in ({v}, {v}) or b = {v}"},
	{"", "select a from t1 order by a limit {i} offset {i}"},
	{"", "select a from t1 where b = {v} limit {i}"},
	{"mysql", "select a from t1 limit {i}, {i}"},
	{"", "select case when a = {v} then {v} else {v} end from t1"},
	{"", "select a from t1 where b = case a when {v} then {v} when {v} then {v} end"},
	{"", "update t1 set a = case when b > {n} then {v} else {v} end"},
	{"", "select f({v}, g({v})), lower({s}), cast({v} as char) from t1 group by a having count(*) > {n}"},
	{"", "select a from t1 where length(b) > {n} and concat(c, {s}) = {s}"},
	{"", "select a from t1 where b in (select c from t2 where d = {v}) union select {v} from t2"},
	{"", "(select a from t1 where b = {v}) union (select a from t2 where b = {v}) order by a limit {i}"},
	{"", "select a from (select b as a from t2 where c = {v}) as s where a <> {v}"},
	{"", "select a from t1 where exists (select 1 from t2 where t2.a = t1.a and t2.b = {v})"},
	{"", "select t1.a from t1 join t2 on t1.a = t2.a and t2.b = {v} where t1.c = {v}"},
	{"", "select a from t1 where b = {v} or (c = {v} and not d <> {v})"},
	{"", "select a, b + {n}, -{n} from t1 where c * {n} > {n}"},
	{"", "select a from t1 group by a having sum(b) > {n} and max(c) = {s} order by a = {v}"},
	{"", "insert into t1 (a, b) select c, {v} from t2 where d = {v}"},
	{"", "select {v}::text, a from t1 where b = {v}::int"},
	{"postgresql", "insert into t1 (a, b) values ({v}, {v}) returning a, {v}"},
	{"postgresql", "update t1 set a = {v} from t2 where t1.id = t2.id and t2.b = {v} returning t1.a"},
	{"postgresql", "update t1 set a = {v} from (select id from t2 where c = {v}) s where t1.id = s.id"},
	{"postgresql", "delete from t1 where a = {v} returning {v}"},
	{"postgresql", "select a from t1 where b ilike {s} and c = interval {s}"},
	{"mysql", "select a from t1 where b = date_add(c, interval {n} day)"},
	{"", "select substr(a, {n}, {n}), convert({v}, char) from t1"},
	{"", "select a -> {s} from t1 where b ->> {s} = {v}"},
	{"", "select a from t1 where match(b) against ({s} in boolean mode)"},
}

func fill(t *rapid.T, g *markerGen, text string) string {
	var b strings.Builder
	for {
		i := strings.Index(text, "{")
		if i < 0 || i+2 >= len(text) || text[i+2] != '}' {
			b.WriteString(text)
			return b.String()
		}
		b.WriteString(text[:i])
		switch text[i+1] {
		case 'v':
			b.WriteString(g.any(t))
		case 's':
			b.WriteString(g.str(t))
		case 'n':
			if rapid.Bool().Draw(t, "n.float") {
				b.WriteString(g.float(t))
			} else {
				b.WriteString(g.integer(t))
			}
		case 'i':
			b.WriteString(g.plainInt(t))
		default:
			b.WriteString(text[i : i+3])
		}
		text = text[i+3:]
	}
}

func genTemplate(t *rapid.T, g *markerGen, dialect string) string {
	var usable []string
	for _, tp := range templates {
		if tp.dialect == "" || tp.dialect == dialect {
			usable = append(usable, tp.text)
		}
	}
	s := fill(t, g, rapid.SampledFrom(usable).Draw(t, "template"))
	if rapid.IntRange(0, 9).Draw(t, "tmpl.margin") == 0 {
		s = rapid.SampledFrom([]string{s + ";", "/* lead */ " + s, s + " /* trail */", "  " + s + " \n"}).Draw(t, "tmpl.margins")
	}
	return s
}

// other statements: not data manipulation, but they carry literals too.
var otherTemplates = []string{
	"set @a = {v}",
	"set @a = {v}, @b = {v}",
	"set session sql_mode = {s}",
	"set autocommit = {n}",
}

// garbage: texts the parser is expected to reject (unsupported syntax, typos, several statements).
// Whether the parser really rejects them is decided by the check itself.
var garbageTemplates = []string{
	"select $${b}$$ from t1",
	"select $tag${b}$tag$, a from t1 where b = {v}",
	"with c as (select a from t1 where b = {v}) select * from c where a = {v}",
	"select a, row_number() over (partition by b order by c) from t1 where d = {v}",
	"select array[{v}, {v}] from t1",
	"select 1; select {v}",
	"insert into t1 values ({v}); delete from t1 where a = {v}",
	"selec a from t1 where b = {v}",
	"select a from t1 where b = {v} and",
	"select a from t1 where b == {v}",
	"select a from from t1 where b = {v}",
	"select a from t1 where (b = {v}",
	"select a from t1 where b = '{b}",
	"select a from t1 where b = {v} group",
	"insert into t1 (a, b) values ({v}, {v}",
	"insert t1 set values ({v})",
	"update t1 a = {v} where b = {v}",
	"delete t1 where from a = {v}",
	"call proc({v}, {v})",
	"explain analyze select a from t1 where b = {v}",
	"copy t1 from stdin where a = {v}",
	"prepare p as select a from t1 where b = {v}",
	"execute p({v}, {v})",
	"select a from t1 where b = {v} for update skip locked nowait",
	"select a from t1 where b ~ {s} and c @> {s}",
	"select a from t1 where b = any({v})",
	"grant all on t1 to {s}",
	"alter user u with password {s}",
	"create user u identified by {s}",
	"create table t9 (a int default {v}) garbage {v}",
	"create table t9 (a varchar(10) default {s}, b int) partition by ({v}",
	"alter table t1 add column z int default {v} ,,",
	"do $$ begin perform f({v}); end $$",
	"select {v} from t1 \x00 where a = {v}",
	"select a from t1 where b = {v} -- c\nand c = = {v}",
	"{b}",
	"select {b}.{b} from t1 where a = @@@ {v}",
}

func genGarbage(t *rapid.T, g *markerGen, dialect string) string {
	if rapid.IntRange(0, 9).Draw(t, "garbage.kind") < 7 {
		text := rapid.SampledFrom(garbageTemplates).Draw(t, "garbage")
		for strings.Contains(text, "{b}") {
			b := g.body(t)
			g.add("raw-text", b, b, "", false)
			text = strings.Replace(text, "{b}", b, 1)
		}
		return fill(t, g, text)
	}
	// a well-formed marked statement broken at its end or at its start
	s := genTemplate(t, g, dialect)
	return rapid.SampledFrom([]string{s + " )", s + " garbage (", "xx " + s, s + " and and", s + " '", "(" + s, s + " ; " + s}).Draw(t, "garbage.break")
}

// genStatement draws a statement of the given source family.
func genStatement(t *rapid.T, dialect, src string) Case {
	g := &markerGen{pg: dialect == sqlgen.PostgreSQL}
	c := Case{Dialect: dialect, Src: src}
	switch src {
	case "grammar":
		o := sqlgen.Opts{Dialect: dialect, MaxDepth: rapid.SampledFrom([]int{1, 2, 2, 2, 3}).Draw(t, "maxdepth"), Literal: g.lit,
			NoPlaceholders: rapid.IntRange(0, 9).Draw(t, "noph") < 7}
		c.SQL = markRest(t, g, sqlgen.Statement(t, o))
	case "template":
		c.SQL = genTemplate(t, g, dialect)
	case "other":
		c.SQL = fill(t, g, rapid.SampledFrom(otherTemplates).Draw(t, "other"))
	default:
		c.SQL = genGarbage(t, g, dialect)
	}
	c.Markers = g.list
	return c
}

var sources = []string{"grammar", "template", "other", "garbage"}

func genSource(t *rapid.T) string {
	return sources[weighted(t, "src", 9, 6, 1, 4)]
}

// ---- what the check learns about a statement ------------------------------------------------------

// located is a marker with the literal that holds it in the parsed statement.
type located struct {
	Marker
	holder string   // parser type of the literal holding the marker: str int float hexnum hexval bit pgesc separator, or "" (not found)
	other  string   // kind of the statement when it is not one the walker knows (DDL, Show, ...)
	raw    string   // the statement text, for statements of an other kind
	cast   bool     // literal carries a ::cast
	path   []string // context path
}

var clauseNames = map[string]bool{"select-list": true, "from": true, "where": true, "having": true, "group-by": true, "order-by": true, "limit-count": true,
	"limit-offset": true, "values-row1": true, "values-rowN": true, "set": true, "on-dup": true, "returning": true, "join-on": true, "update-from": true, "union-tail": true}

// clause is the innermost clause of the path, with the kind of nesting in front of it.
func (l located) clause() string {
	if l.holder == "" {
		return "unlocated"
	}
	cl, nest := "statement", ""
	for _, p := range l.path {
		switch {
		case p == "subquery":
			nest = "sub/"
		case p == "union" && nest == "":
			nest = "union/"
		case p == "insert-select" && nest == "":
			nest = "insert-select/"
		case p == "union-tail":
			cl = p
		case clauseNames[p]:
			if cl == "union-tail" || strings.HasPrefix(cl, "union-tail/") {
				cl = "union-tail/" + p
			} else {
				cl = p
			}
		}
	}
	return nest + cl
}

// exprCtx is the innermost expression context of the literal inside its clause.
func (l located) exprCtx() string {
	for i := len(l.path) - 1; i >= 0; i-- {
		p := l.path[i]
		if clauseNames[p] || p == "subquery" || p == "union" || p == "insert-select" {
			break
		}
		if p != "bool" {
			return p
		}
	}
	return "direct"
}

// topLevelWhereComparison: the only position upstream tests exercise.
func (l located) topLevelWhereComparison() bool {
	var p []string
	for _, x := range l.path {
		if x != "bool" {
			p = append(p, x)
		}
	}
	return len(p) == 2 && p[0] == "where" && p[1] == "cmp" && !l.cast
}

// parsed is what the strict parser makes of the case's statement.
type parsed struct {
	ok      bool
	panicky bool
	kind    string
	dml     bool
	shape   *cn
	located []located
	unknown []string
}

var (
	strict = sqlparser.New(sqlparser.ModeStrict)
	lax    = sqlparser.New(sqlparser.ModeDefault)
)

func stmtKind(st sqlparser.Statement) string {
	return strings.TrimPrefix(strings.TrimPrefix(fmt.Sprintf("%T", st), "*"), "sqlparser.")
}

// strip is what HandleRawSQLQuery parses: margin comments and one trailing semicolon removed.
func strip(sql string) string {
	s, _ := sqlparser.SplitMarginComments(sql)
	return strings.TrimSuffix(s, ";")
}

func shapeOf(pg bool, st sqlparser.Statement) (*cn, *walker) {
	w := &walker{pg: pg, shape: true}
	return w.stmt(st), w
}

func analyse(c Case) (p parsed) {
	pg := c.Dialect == sqlgen.PostgreSQL
	var st sqlparser.Statement
	var err error
	var vs hx.Vs
	if hx.Guard(&vs, "parse", func() { st, err = strict.Parse(strip(c.SQL)) }) {
		p.panicky = true
		return p
	}
	if err != nil || st == nil {
		return p
	}
	p.ok = true
	p.kind = stmtKind(st)
	p.dml = sqlgen.IsDML(st)
	if _, isSet := st.(*sqlparser.Set); p.dml || isSet {
		var w *walker
		p.shape, w = shapeOf(pg, st)
		p.unknown = w.unknown
		for _, m := range c.Markers {
			if m.Spell == "raw-text" {
				continue // bare text of a garbage template that the parser happened to accept as an identifier: not a literal
			}
			l := located{Marker: m}
			for _, li := range w.lits {
				if m.in(li.val, strings.ToLower(li.val)) {
					l.holder, l.cast, l.path = li.typ, li.cast, li.path
					break
				}
			}
			p.located = append(p.located, l)
		}
	} else {
		for _, m := range c.Markers {
			if m.Spell == "raw-text" {
				continue
			}
			p.located = append(p.located, located{Marker: m, other: p.kind, raw: strip(c.SQL)})
		}
	}
	return p
}

// nontrivial: the statement parses and at least one marker sits somewhere else than in a top-level
// WHERE comparison; a rejected statement with a marker is non-trivial as well (its text must not travel).
func nontrivial(c Case, p parsed) bool {
	if !p.ok {
		return len(c.Markers) > 0
	}
	for _, l := range p.located {
		if !l.topLevelWhereComparison() {
			return true
		}
	}
	return false
}

func stmtClasses(c Case, p parsed) []string {
	cl := []string{"dialect:" + c.Dialect, "src:" + c.Src}
	switch {
	case p.panicky:
		return append(cl, "parser-panicked (C14)")
	case !p.ok:
		return append(cl, "rejected-by-parser", "rejected:"+c.Src)
	}
	cl = append(cl, "stmt:"+p.kind)
	seen := map[string]bool{}
	add := func(s string) {
		if !seen[s] {
			seen[s] = true
			cl = append(cl, s)
		}
	}
	for _, l := range p.located {
		add("spell:" + l.Spell)
		if l.holder == "" {
			add("pos:unlocated")
			continue
		}
		add("pos:" + l.clause())
		add("ctx:" + l.exprCtx())
		add("lit:" + l.holder)
		add("pos*spell:" + strings.TrimPrefix(strings.TrimPrefix(strings.TrimPrefix(l.clause(), "sub/"), "union/"), "insert-select/") + "*" + l.Spell)
		if l.cast {
			add("ctx:literal-with-cast")
		}
	}
	return cl
}

// leakSig names the class of a leaked marker found in text: the sink and what kind of literal held it where.
func leakSig(sink string, l located, text string) string {
	bare := strings.TrimPrefix(strings.TrimPrefix(strings.TrimPrefix(l.clause(), "sub/"), "union/"), "insert-select/")
	switch {
	case l.other != "" && strings.Contains(text, l.raw):
		// the statement as the client sent it, not a printed form of its tree
		return "raw-statement-logged:" + sink
	case l.other != "":
		// statements other than data manipulation keep their literals in nodes the normaliser does not
		// reach (column defaults of DDL, SHOW ... LIKE patterns): one class per statement kind, whatever the sink
		return "leak:literal-in-" + l.other
	case l.holder == "":
		return "leak:" + sink + ":not-a-value-node"
	case l.holder == "separator":
		return "leak:group-concat-separator"
	}
	return "leak:" + sink + ":" + l.holder + "@" + bare
}

// findLeaks looks for every marker in text.
func findLeaks(markers []located, text string) []located {
	var out []located
	if text == "" {
		return nil
	}
	lower := strings.ToLower(text)
	for _, m := range markers {
		if m.in(text, lower) {
			out = append(out, m)
		}
	}
	return out
}

func short(s string) string {
	if len(s) > 300 {
		return s[:300] + "…"
	}
	return s
}

// ---- TestRedact ---------------------------------------------------------------------------------

type redactInfo struct {
	p        parsed
	redacted bool // the parser produced a redacted text with placeholders
}

// checkRedactedText is the oracle on one redacted text of a statement the parser accepts.
func checkRedactedText(vs *hx.Vs, c Case, p parsed, what, red string) {
	pg := c.Dialect == sqlgen.PostgreSQL
	for _, l := range findLeaks(p.located, red) {
		vs.Add(leakSig("redacted", l, red), "%s of %q (%s dialect) still shows the %s literal %s (%s, %s): %s", what, short(c.SQL), c.Dialect, l.Spell, l.Text, l.clause(), l.exprCtx(), short(red))
	}
	if p.shape == nil {
		// not a statement the walker knows: redaction must at least be stable and keep the statement kind
		// (the printed form of DDL that was accepted in part need not parse again: no demand on it)
		if st, err := strict.Parse(strip(red)); err == nil && st != nil {
			if k := stmtKind(st); k != p.kind {
				vs.Add("redacted-kind-differs:"+p.kind, "%s of %q parses as %s: %s", what, short(c.SQL), k, short(red))
			}
		}
		return
	}
	if pg {
		// acra's grammar accepts only a string after INTERVAL in the PostgreSQL dialect, so the placeholder
		// the normaliser prints there is put back into a string before the redacted text is parsed again
		red = reIvlArg.ReplaceAllString(red, "${1}'x'")
	}
	var st sqlparser.Statement
	var err error
	if hx.Guard(vs, "reparse-redacted", func() { st, err = strict.Parse(strip(red)) }) {
		return
	}
	if err != nil || st == nil {
		vs.Add("redacted-not-reparsable:"+p.kind, "%s of %q no longer parses (%v): %s", what, short(c.SQL), err, short(red))
		return
	}
	sh, _ := shapeOf(pg, st)
	if path, msg, d := diff(p.shape, sh, ""); d {
		vs.Add("redacted-shape-differs:"+tail(path), "%s of %q is not the same statement with values replaced: %s | redacted: %s", what, short(c.SQL), msg, short(red))
	}
}

func tail(path string) string {
	parts := strings.Split(strings.Trim(path, "/"), "/")
	if len(parts) > 2 {
		parts = parts[len(parts)-2:]
	}
	return strings.Join(parts, "/")
}

// CheckRedact runs the statement through the parser's redaction entry points.
func CheckRedact(c Case) (vs hx.Vs, info redactInfo) {
	sqlgen.SetDialect(c.Dialect)
	lc := startCapture("debug", "plaintext")
	defer lc.stop()
	p := analyse(c)
	info.p = p
	if p.panicky {
		return vs, info // parser crashes belong to C14
	}
	if len(p.unknown) > 0 {
		vs.Add("harness:walker-unknown-type", "canonical walker met unknown node types %v in %q", p.unknown, c.SQL)
		return vs, info
	}
	all := make([]located, len(c.Markers))
	for i, m := range c.Markers {
		all[i] = located{Marker: m}
	}
	var reds [2]string
	for i, mode := range []*sqlparser.Parser{strict, lax} {
		name := "HandleRawSQLQuery[" + string(mode.Mode()) + "]"
		var red string
		var st sqlparser.Statement
		var err error
		if hx.Guard(&vs, name, func() { _, red, st, err = mode.HandleRawSQLQuery(c.SQL) }) {
			return vs, info
		}
		reds[i] = red
		if p.ok {
			if err != nil {
				vs.Add("accepted-statement-refused:"+name, "%s refuses %q which Parse accepts: %v", name, short(c.SQL), err)
				continue
			}
			if strings.Contains(red, sqlparser.ValueMask) {
				info.redacted = true
			}
			checkRedactedText(&vs, c, p, name, red)
			continue
		}
		// a statement the parser rejects: nothing of it may be handed out as "redacted" text
		if leaks := findLeaks(all, red); len(leaks) > 0 {
			vs.Add("leak:redacted:unparsed-statement", "%s returns the text of the rejected statement as its redacted form (err=%v, statement %T): %s", name, err, st, short(red))
		}
		if err != nil {
			if leaks := findLeaks(all, err.Error()); len(leaks) > 0 {
				vs.Add("leak:error-text:unparsed-statement", "%s: error text quotes the rejected statement: %s", name, short(err.Error()))
			}
		}
	}
	if p.ok && reds[0] != reds[1] {
		vs.Add("redacted-differs-between-modes", "strict: %s | default: %s", short(reds[0]), short(reds[1]))
	}
	var red string
	var err error
	if hx.Guard(&vs, "RedactSQLQuery", func() { red, err = sqlparser.RedactSQLQuery(c.SQL) }) {
		return vs, info
	}
	switch {
	case err == nil && p.ok:
		checkRedactedText(&vs, c, p, "RedactSQLQuery", red)
	case err == nil:
		if leaks := findLeaks(all, red); len(leaks) > 0 {
			vs.Add("leak:redacted:unparsed-statement", "RedactSQLQuery returns text of a statement Parse rejects: %s", short(red))
		}
	default:
		if leaks := findLeaks(all, err.Error()); len(leaks) > 0 {
			vs.Add("leak:error-text:unparsed-statement", "RedactSQLQuery: error text quotes the statement: %s", short(err.Error()))
		}
	}
	// what the parser itself logged meanwhile (ModeDefault reports ignored errors)
	checkEntries(&vs, "parser-log", lc.snapshot(), p, all)
	return vs, info
}

// checkEntries is the log oracle: no marker in any entry (message, field values, formatted line).
func checkEntries(vs *hx.Vs, sink string, entries []logEntry, p parsed, all []located) {
	markers := all
	if p.ok {
		markers = p.located
	}
	for _, e := range entries {
		for _, part := range e.parts() {
			for _, l := range findLeaks(markers, part.text) {
				if p.ok {
					vs.Add(leakSig(sink, l, part.text), "log entry (%s, %s) shows the %s literal %s (%s, %s): %s", e.Level, part.where, l.Spell, l.Text, l.clause(), l.exprCtx(), short(part.text))
				} else {
					vs.Add("leak:"+sink+":unparsed-statement", "log entry (%s, %s) shows text of a statement the parser rejected (marker %s): %s", e.Level, part.where, l.Needle, short(part.text))
				}
				return
			}
		}
	}
}

func redactClasses(c Case, info redactInfo) []string {
	cl := stmtClasses(c, info.p)
	if info.redacted {
		cl = append(cl, "redacted-with-placeholders")
	}
	return cl
}

func TestRedact(t *testing.T) {
	R.Rule("TestRedact", "statements whose literals are all marker literals (grammar generator internal/sqlgen with its Literal hook + LIMIT/OFFSET, JSON path, separator, interval positions marked afterwards; position templates; SET statements; texts the parser rejects) through Parser.HandleRawSQLQuery in ModeStrict and ModeDefault and RedactSQLQuery; no marker in the redacted text, the error text or the parser's own log entries; redacted text re-parses to the same canonical tree with values replaced; non-trivial = a marker outside a top-level WHERE comparison, or a rejected text with a marker")
	hx.Checks(500, 30000)
	rapid.Check(t, func(rt *rapid.T) {
		c := genStatement(rt, genDialect(rt), genSource(rt))
		vs, info := CheckRedact(c)
		R.Seen("TestRedact", c, nontrivial(c, info.p), redactClasses(c, info)...)
		R.Report(rt, "TestRedact", c, vs)
	})
}

func decode[T any](raw json.RawMessage, f func(T) hx.Vs) hx.Vs {
	var c T
	if err := json.Unmarshal(raw, &c); err != nil {
		return hx.Vs{{Sig: "harness:decode", Msg: err.Error()}}
	}
	return f(c)
}

func TestReplay(t *testing.T) {
	R.Replay(t, map[string]hx.ReplayHandler{
		"TestRedact": func(raw json.RawMessage) hx.Vs {
			return decode(raw, func(c Case) hx.Vs { vs, _ := CheckRedact(c); return vs })
		},
		"TestCensorLogs": func(raw json.RawMessage) hx.Vs {
			return decode(raw, func(c CensorCase) hx.Vs { vs, _ := CheckCensor(c); return vs })
		},
		"TestSessionLogs": func(raw json.RawMessage) hx.Vs {
			return decode(raw, func(c SessCase) hx.Vs { vs, _ := CheckSession(c); return vs })
		},
		"TestMySQLSessionLogs": func(raw json.RawMessage) hx.Vs {
			return decode(raw, func(c SessCase) hx.Vs { vs, _ := CheckMySession(c); return vs })
		},
		"TestSessionLogsMySQL": func(raw json.RawMessage) hx.Vs {
			return decode(raw, func(c MyLogCase) hx.Vs { vs, _ := CheckMyLogSession(c); return vs })
		},
	})
}

func sortedKeys(m map[string]bool) []string {
	out := make([]string, 0, len(m))
	for k := range m {
		out = append(out, k)
	}
	sort.Strings(out)
	return out
}
